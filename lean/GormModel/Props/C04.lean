/-
  C04 — transaction blocks commit everything on success and nothing on error or panic.
  Theorems over Model/Tx.lean (`run` = gorm's Transaction/Begin/Commit/Rollback/SavePoint/RollbackTo transcribed over a
  snapshot-stack database with a fault oracle per driver call; `spec` = functional reference).
-/
import GormModel.Model.Tx
import GormModel.Lemmas.Tx
import GormModel.Lemmas.TxRefine
import GormModel.Lemmas.TxValues
import GormModel.Lemmas.TxLeak
import GormModel.Lemmas.TxForms
import GormModel.Gen.C04bSites
import GormModel.Gen.BeginFacts
import GormModel.Gen.EnclFacts
namespace Gorm
open Gorm.Tx

def C04_cfg0 : Cfg := { prep := false, dis := false, skip := false }

/-- minimal witness of finding F18: outer block { write 1; ignored nested block { write 2 } ; return nil } -/
def C04_stickyWitness : List Prog :=
  [.blk [.write (.ins 1) true, .blk [.write (.ins 2) true] .retNil 1 false] .retNil 2 true]

/-- FINDING F18 (counterexample, kernel-checked): the nested block's SAVEPOINT (driver call 2) fails; the outer function
    returns nil, COMMIT succeeds and row 1 is durable — but Transaction returns the stale SAVEPOINT error. -/
theorem C04_sticky_counterexample :
    let r := run C04_cfg0 (fun k => k == 2) C04_stickyWitness { committed := [] }
    r.2 = .err [.inj 2] ∧ r.1.committed = [1] ∧ r.1.stale = true ∧ r.1.rbFault = false ∧
    spec C04_cfg0 (fun k => k == 2) C04_stickyWitness [] = ([1], .ok) := by
  decide +kernel

/-- boundary of the claim: a fault injected into the deferred ROLLBACK TO (driver call 4) is discarded by gorm
    (finisher_api.go:635), so the failing nested block's write 2 survives and is committed. Such faults are outside the
    property's fault list (BEGIN/COMMIT/SAVEPOINT/statement); the theorems exclude them by `rbFault = false`. -/
theorem C04_rollbackto_fault_example :
    let p : List Prog := [.blk [.write (.ins 1) true, .blk [.write (.ins 2) true] .retErr 1 false] .retNil 2 true]
    let r := run C04_cfg0 (fun k => k == 4) p { committed := [] }
    r.1.rbFault = true ∧ r.1.committed = [1, 2] := by
  decide +kernel

/-! ### no leak ("in every case the connection goes back to the pool")

  `DB.tx` is the one driver transaction a live handle can still reach; `DB.leaked` counts driver transactions that were begun
  and that NO handle can end any more; `DB.open` = both = connections checked out of the pool. -/

/-- the common core: after ANY program — any depth, any outcome assignment (nil / error / panic), manual sequences, handles
    carrying errors, every fault oracle (BEGIN, COMMIT, SAVEPOINT, ROLLBACK TO, any statement), every configuration — no
    REACHABLE driver transaction is open; and no orphan was made provided Begin has the early return on a handle that carries
    an error (`c.beginGuard`) or the program never invokes Transaction / Begin outside a transaction on such a handle. -/
theorem C04_no_leak_gen (c : Cfg) (o : Oracle) (ps : List Prog) (db : DB)
    (hwf : wfBody false ps = true) (hd : db.tx = none) (hl : db.leaked = 0)
    (hh : c.beginGuard = true ∨ noBeginOnFailed ps = true) :
    (run c o ps db).1.tx = none ∧ (run c o ps db).1.open = 0 := by
  have hroot : c.root.pool.isCommitter = false := by
    unfold Cfg.root; cases c.prep <;> rfl
  have h := runBody_frame c o ps c.root db (by rw [hroot]; exact hwf)
  have ht := (h.2.2 hroot hd).1
  have hk := (runBody_leak c o ps c.root db (by rw [hroot]; exact hwf)).2 hroot hd false
    (fun he => absurd rfl he) hh
  unfold run
  exact ⟨ht, by simp [DB.open, ht, hk, hl]⟩

/-- minimal witness of finding F27: `h := db.Session(&Session{}); h.AddError(e1); h.Transaction(func(tx) { tx.Create(1); return nil })` -/
def C04_leakWitness : List Prog := [.fh (.addErr 1) [.blk [.write (.ins 1) true] .retNil 2 true] true]

/-- … and the same through the handle a failed finisher returned and the manual API:
    `tx := db.First(&item, -1).Begin(); if tx.Error != nil { return tx.Error }` -/
def C04_leakWitnessMan : List Prog := [.fh .firstMiss [.man [.write (.ins 1) true] .commit true] true]

/-- FINDING F27 (counterexample, kernel-checked; the model of the UNREPAIRED Begin, `beginGuard = false`, no fault injected):
    Transaction returns the handle's error unchanged, the function is not run, nothing is durable — but the only driver call
    of the run is a successful BEGIN whose transaction nothing ever ends: one connection stays checked out for ever. -/
theorem C04_no_leak_counterexample :
    let r := run C04_cfg0 (fun _ => false) C04_leakWitness { committed := [] }
    let r' := run C04_cfg0 (fun _ => false) C04_leakWitnessMan { committed := [] }
    C04_cfg0.beginGuard = false ∧ wfBody false C04_leakWitness = true ∧ noBeginOnFailed C04_leakWitness = false ∧
    r.2 = .err [.user 1] ∧ r.1.committed = [] ∧ r.1.trace = [(K.B, false)] ∧ r.1.tx = none ∧ r.1.leaked = 1 ∧ r.1.open = 1 ∧
    r'.2 = .err [.notFound] ∧ r'.1.committed = [] ∧ r'.1.trace = [(K.B, false), (K.Q, false)] ∧ r'.1.open = 1 := by
  decide +kernel

/-- NO LEAK, as far as it holds for the unrepaired Begin (every configuration INCLUDING `beginGuard = false`): for every
    program tree that never invokes Transaction / Begin outside a transaction on a handle that carries an error
    (`noBeginOnFailed` — exactly the negation of finding F27's pattern; such handles may still be used for everything else,
    and for Transaction / Begin INSIDE transactions), every fault oracle, every configuration: after the program no driver
    transaction is open and no connection is checked out — also in runs that exhibit finding F18. -/
theorem C04_no_leak_partial (c : Cfg) (o : Oracle) (ps : List Prog) (db : DB)
    (hwf : wfBody false ps = true) (hd : db.tx = none) (hl : db.leaked = 0) (hsafe : noBeginOnFailed ps = true) :
    (run c o ps db).1.tx = none ∧ (run c o ps db).1.open = 0 :=
  C04_no_leak_gen c o ps db hwf hd hl (Or.inr hsafe)

/-- NO LEAK AT FULL STRENGTH for the repaired Begin (`beginGuard = true`: `if tx.Error != nil { return tx }` before the pool is
    touched): EVERY program tree — Transaction / Begin on handles that carry an error included —, every fault oracle, every
    configuration of gorm. -/
theorem C04_no_leak_repaired (c : Cfg) (hg : c.beginGuard = true) (o : Oracle) (ps : List Prog) (db : DB)
    (hwf : wfBody false ps = true) (hd : db.tx = none) (hl : db.leaked = 0) :
    (run c o ps db).1.tx = none ∧ (run c o ps db).1.open = 0 :=
  C04_no_leak_gen c o ps db hwf hd hl (Or.inl hg)

/-- the obligation on the tree that is being verified (`Gen.beginChecksError` is regenerated from finisher_api.go on every
    run and is what the driver puts into `Cfg.beginGuard`): either Begin has the early return and no-leak holds at full
    strength, or it has not and the witness of finding F27 leaks -/
theorem C04_no_leak_current_tree :
    (Gen.beginChecksError = true ∧
      ∀ (c : Cfg) (o : Oracle) (ps : List Prog) (db : DB), c.beginGuard = Gen.beginChecksError →
        wfBody false ps = true → db.tx = none → db.leaked = 0 →
        (run c o ps db).1.tx = none ∧ (run c o ps db).1.open = 0) ∨
    (Gen.beginChecksError = false ∧
      (run { C04_cfg0 with beginGuard := Gen.beginChecksError } (fun _ => false) C04_leakWitness { committed := [] }).1.open = 1) := by
  by_cases h : Gen.beginChecksError = true
  · exact Or.inl ⟨h, fun c o ps db hc hwf hd hl => C04_no_leak_repaired c (hc.trans h) o ps db hwf hd hl⟩
  · have h' : Gen.beginChecksError = false := by simpa using h
    refine Or.inr ⟨h', ?_⟩
    rw [h']
    decide

/-- non-vacuity of `C04_no_leak_repaired` and of `C04_no_leak_partial`: with the early return the two witnesses issue NO driver
    call, return the handle's error and leave nothing open; without it, a program that uses failed handles for everything
    except Transaction / Begin outside a transaction (writes refused at top level; Begin / nested block on a failed handle
    INSIDE a transaction) satisfies `noBeginOnFailed` and leaks nothing -/
example :
    let cg : Cfg := { C04_cfg0 with beginGuard := true }
    let r := run cg (fun _ => false) C04_leakWitness { committed := [] }
    let r' := run cg (fun _ => false) C04_leakWitnessMan { committed := [] }
    r.2 = .err [.user 1] ∧ r.1.trace = [] ∧ r.1.open = 0 ∧ r'.2 = .err [.notFound] ∧ r'.1.trace = [(K.Q, false)] ∧ r'.1.open = 0 := by
  decide +kernel
example :
    let ps : List Prog :=
      [.fh (.addErr 1) [.write (.ins 1) false, .read false] true,
       .blk [.write (.ins 2) true,
             .fh .firstMiss [.man [.write (.ins 3) true] .commit false, .blk [.write (.ins 4) true] .retNil 5 false] false] .retNil 6 true]
    let r := run C04_cfg0 (fun _ => false) ps { committed := [] }
    wfBody false ps = true ∧ noBeginOnFailed ps = true ∧ r.1.open = 0 ∧ r.1.committed = [2] ∧ r.2 = .ok := by
  decide +kernel

/-- inside a transaction nothing reaches the committed store — for EVERY function body run on a transaction handle (nested
    blocks of any depth, failing or not, save points, faults, the transaction ended underneath the function) — and, unless
    the body ends the transaction underneath its function (`noEndBody`), the transaction stays open -/
theorem C04_body_isolated (c : Cfg) (o : Oracle) (ps : List Prog) (h : Handle) (db : DB)
    (hp : h.pool.isCommitter = true) (hwf : wfBody true ps = true) :
    (runBody c o h ps db).1.committed = db.committed ∧
    (noEndBody ps = true → (runBody c o h ps db).1.tx.isSome = db.tx.isSome) :=
  (runBody_frame c o ps h db (by rw [hp]; exact hwf)).2.1 hp

theorem runChild_blk_root (c : Cfg) (o : Oracle) (h : Handle) (body : List Prog) (out : Out) (tag : Nat) (must : Bool) (db : DB)
    (hp : h.pool.isCommitter = false) :
    runChild c o h (.blk body out tag must) db =
      if (gormBegin c.beginGuard o h (markStale h db)).2.err ≠ [] then
        ((gormBegin c.beginGuard o h (markStale h db)).1, h, .err (gormBegin c.beginGuard o h (markStale h db)).2.err)
      else finishRoot o h out tag (runBody c o (gormBegin c.beginGuard o h (markStale h db)).2 body (gormBegin c.beginGuard o h (markStale h db)).1) := by
  unfold runChild
  simp only [hp, Bool.false_eq_true, if_false]

/-- ALL OR NOTHING for a top-level Transaction block, any body (any depth), any outcome, any oracle, any configuration,
    in a run without stale use of a poisoned handle (the negation of finding F18's pattern):
    * no transaction is left open;
    * if Transaction does not return nil (function error, panic, failed BEGIN, failed COMMIT, failed statement that the
      function propagated) the committed store is exactly what it was before;
    * if it returns nil then the function returned nil and the committed store is exactly the working store the function
      body left in the transaction (all of its surviving writes, nothing else). -/
theorem C04_block_all_or_nothing (c : Cfg) (o : Oracle) (body : List Prog) (out : Out) (tag : Nat) (must : Bool) (db : DB)
    (hwf : wfBody true body = true) (hd : db.tx = none)
    (hs : (runChild c o c.root (.blk body out tag must) db).1.stale = false) :
    (runChild c o c.root (.blk body out tag must) db).1.tx = none ∧
    ((runChild c o c.root (.blk body out tag must) db).2.2 ≠ .ok →
        (runChild c o c.root (.blk body out tag must) db).1.committed = db.committed) ∧
    ((runChild c o c.root (.blk body out tag must) db).2.2 = .ok →
        out = .retNil ∧ (runBody c o (gormBegin c.beginGuard o c.root db).2 body (gormBegin c.beginGuard o c.root db).1).2.2 = .ok ∧
        ∃ t, (runBody c o (gormBegin c.beginGuard o c.root db).2 body (gormBegin c.beginGuard o c.root db).1).1.tx = some t ∧
             (runChild c o c.root (.blk body out tag must) db).1.committed = t.cur) := by
  have hroot : c.root.pool.isCommitter = false := by
    unfold Cfg.root; cases c.prep <;> rfl
  have herr : c.root.err = [] := rfl
  have hms : markStale c.root db = db := by simp [markStale, herr]
  have hfr := runChild_frame c o (.blk body out tag must) c.root db (by simpa [wfChild] using hwf)
  have hb := gormBegin_root c.beginGuard o c.root db hroot herr
  refine ⟨(hfr.2.2 hroot hd).1, ?_⟩
  rw [runChild_blk_root c o c.root body out tag must db hroot, hms] at hs ⊢
  by_cases hbe : (gormBegin c.beginGuard o c.root db).2.err ≠ []
  · rw [if_pos hbe]
    exact ⟨fun _ => hb.2.1, fun h => by simp at h⟩
  · rw [if_neg hbe] at hs ⊢
    have hbody := runBody_frame c o body (gormBegin c.beginGuard o c.root db).2 (gormBegin c.beginGuard o c.root db).1 (by rw [hb.1]; exact hwf)
    have hpool : (runBody c o (gormBegin c.beginGuard o c.root db).2 body (gormBegin c.beginGuard o c.root db).1).2.1.pool.isCommitter = true := by
      rw [hbody.1]; exact hb.1
    have hdur := finishRoot_durability o c.root out tag _ _ _ hpool hs
    have hcm : (runBody c o (gormBegin c.beginGuard o c.root db).2 body (gormBegin c.beginGuard o c.root db).1).1.committed = db.committed :=
      ((hbody.2.1 hb.1).1).trans hb.2.1
    exact ⟨fun hne => (hdur.1 hne).trans hcm, fun hok => by
      obtain ⟨h1, h2, t, ht, hc⟩ := hdur.2 hok
      exact ⟨h2, h1, t, ht, hc⟩⟩

/-- SAVEPOINT / ROLLBACK TO EXACTNESS (manual sequence on a clean transaction handle, any configuration, any oracle that
    spares the SAVEPOINT and the ROLLBACK TO statement themselves): after `SavePoint(n)`, ANY number of writes — failing or
    not — and `RollbackTo(n)`, the working store is exactly the store at the save point, the save-point stack is the one
    right after `SavePoint(n)` (the save point stays usable) and RollbackTo returns nil. -/
theorem C04_savepoint_exact (c : Cfg) (o : Oracle) (h : Handle) (hp : h.pool.isCommitter = true) (he : h.err = [])
    (n : Nat) (ws : List Prog) (hws : ∀ p ∈ ws, ∃ w m, p = Prog.write w m) (db : DB) (v : Store) (S : List (SpName × Store))
    (ht : db.tx = some { cur := v, saves := S }) (hsp : o db.calls = false)
    (hrb : o (runBody c o h ws (runChild c o h (.sp n true) db).1).1.calls = false) :
    (runChild c o h (.rb n true) (runBody c o h ws (runChild c o h (.sp n true) db).1).1).1.tx =
      some { cur := v, saves := (.manual n, v) :: S } ∧
    (runChild c o h (.rb n true) (runBody c o h ws (runChild c o h (.sp n true) db).1).1).2.2 = .ok :=
  savepoint_exact c o h hp he n ws hws db v S ht hsp hrb

/-- non-vacuity: a program satisfying the hypotheses (no stale use; commit succeeds; row 1 durable) -/
example :
    let r := run C04_cfg0 (fun k => k == 99) [.blk [.write (.ins 1) true] .retNil 0 true] { committed := [] }
    r.1.stale = false ∧ r.2 = .ok ∧ r.1.committed = [1] := by decide

/-! ### nested blocks are local; `run` refines `spec` (proofs in Lemmas/TxRefine.lean) -/

/-- GHOSTS ARE MONOTONE: for every program, handle, oracle and configuration the driver-call counter never decreases and
    the flags `stale` / `rbFault`, once set, stay set. -/
theorem C04_ghosts_monotone (c : Cfg) (o : Oracle) (ps : List Prog) (h : Handle) (db : DB) :
    db.calls ≤ (runBody c o h ps db).1.calls ∧
    (db.stale = true → (runBody c o h ps db).1.stale = true) ∧
    (db.rbFault = true → (runBody c o h ps db).1.rbFault = true) :=
  runBody_mono c o ps h db

/-- SAVE-POINT STACK DISCIPLINE: whatever a function body does on a transaction handle (nested blocks of any depth and
    outcome, manual SavePoint / RollbackTo, derived handles, faults anywhere) the driver transaction stays open and its
    save-point stack is: entries pushed since — auto names generated at a call number ≥ the counter at entry — on top of a
    suffix of the stack at entry. -/
theorem C04_savepoint_stack (c : Cfg) (o : Oracle) (ps : List Prog) (h : Handle) (db : DB) (t : TxSt)
    (hp : h.pool.isCommitter = true) (hne : noEndBody ps = true) (ht : db.tx = some t) :
    ∃ t', (runBody c o h ps db).1.tx = some t' ∧
      ∃ new suf, t'.saves = new ++ suf ∧ suf <:+ t.saves ∧ ∀ k s, (SpName.auto k, s) ∈ new → db.calls ≤ k :=
  runBody_step c o ps h db hp hne t ht

/-- NESTED BLOCK LOCALITY. On a clean transaction handle with nested transactions enabled, entered with working store `v`
    and save-point stack `S` (auto names in `S` older than the call counter): a nested `Transaction` block — any body, any
    depth, any outcome, any oracle — that does not return nil, whose ROLLBACK TO received no injected fault and which hands
    the enclosing handle back clean (i.e. its SAVEPOINT succeeded and its own save point was still on the stack when the
    function ended): the working store is exactly `v`, the stack is `S` plus the block's own save point (snapshot `v`),
    the handle is the one passed in, and nothing reached the committed store. -/
theorem C04_nested_local (c : Cfg) (o : Oracle) (h : Handle) (hp : h.pool.isCommitter = true) (he : h.err = [])
    (hdis : (c.dis || h.dis) = false) (db : DB) (v : Store) (S : List (SpName × Store))
    (ht : db.tx = some { cur := v, saves := S }) (hS : ∀ k s, (SpName.auto k, s) ∈ S → k < db.calls)
    (body : List Prog) (out : Out) (tag : Nat) (must : Bool) (hne : noEndBody body = true)
    (hr : (runChild c o h (.blk body out tag must) db).2.2 ≠ .ok)
    (hf : (runChild c o h (.blk body out tag must) db).1.rbFault = false)
    (hh : (runChild c o h (.blk body out tag must) db).2.1.err = []) :
    (runChild c o h (.blk body out tag must) db).1.tx = some { cur := v, saves := (SpName.auto db.calls, v) :: S } ∧
    (runChild c o h (.blk body out tag must) db).2.1 = h ∧
    (runChild c o h (.blk body out tag must) db).1.committed = db.committed :=
  nested_local c o h hp he hdis db v S ht hS body out tag must hne hr hf hh

/-- the complementary case: the oracle fails the block's SAVEPOINT — the function is not run, the transaction is untouched,
    the SAVEPOINT error is returned, and the enclosing handle comes back poisoned (the root of finding F18) -/
theorem C04_nested_savepoint_fault (c : Cfg) (o : Oracle) (h : Handle) (hp : h.pool.isCommitter = true) (he : h.err = [])
    (hdis : (c.dis || h.dis) = false) (db : DB) (t : TxSt) (ht : db.tx = some t) (ho : o db.calls = true)
    (body : List Prog) (out : Out) (tag : Nat) (must : Bool) :
    (runChild c o h (.blk body out tag must) db).1.tx = some t ∧
    (runChild c o h (.blk body out tag must) db).2.1.err = spErr h [.inj db.calls] ∧
    (runChild c o h (.blk body out tag must) db).2.2 = .err (spErr h [.inj db.calls]) ∧
    spErr h [.inj db.calls] ≠ [] ∧
    (runChild c o h (.blk body out tag must) db).1.committed = db.committed :=
  nested_savepoint_fault c o h hp he hdis db t ht ho body out tag must

/-- DisableNestedTransaction: the block issues no SAVEPOINT / ROLLBACK TO of its own; the transaction is left as the
    function body left it and the result is the function's -/
theorem C04_nested_disabled (c : Cfg) (o : Oracle) (h : Handle) (hp : h.pool.isCommitter = true)
    (hdis : (c.dis || h.dis) = true) (db : DB) (body : List Prog) (out : Out) (tag : Nat) (must : Bool) :
    runChild c o h (.blk body out tag must) db = finishDis h out tag (runBody c o (nestH h) body (markStale h db)) ∧
    (runChild c o h (.blk body out tag must) db).1.tx = (runBody c o (nestH h) body (markStale h db)).1.tx ∧
    (runChild c o h (.blk body out tag must) db).1.calls = (runBody c o (nestH h) body (markStale h db)).1.calls ∧
    (runChild c o h (.blk body out tag must) db).2.1 = h := by
  rw [runChild_blk_dis c o h body out tag must db hp hdis]
  refine ⟨rfl, ?_, ?_, (finishDis_frame h out tag _).2⟩
  · unfold finishDis; simp
  · unfold finishDis; exact fnEnd_calls _ _ _ _ _

/-- REFINEMENT. Every well-formed program without `RollbackTo` nodes (`noRbs`; `SavePoint` nodes, nested blocks of any depth
    with any outcome, manual Begin/Commit/Rollback sequences, derived handles are all allowed) and without handles into which
    the caller put an error (`noFailBody`: using one is a stale use by construction), every configuration and every
    fault oracle, started with no transaction open and call counter 0: if the run exhibits no stale use of a poisoned handle
    (finding F18) and no fault was injected into a ROLLBACK TO, the committed store and the result are exactly those of the
    functional reference `spec`. -/
theorem C04_refines (c : Cfg) (o : Oracle) (ps : List Prog) (db : DB)
    (hwf : wfBody false ps = true) (hn : noRbs ps = true) (hne : noEndBody ps = true) (hnf : noFailBody ps = true)
    (hd : db.tx = none) (hc : db.calls = 0)
    (hs : (run c o ps db).1.stale = false) (hf : (run c o ps db).1.rbFault = false) :
    (run c o ps db).1.committed = (spec c o ps db.committed).1 ∧ (run c o ps db).2 = (spec c o ps db.committed).2 :=
  run_refines c o ps db hwf hn hne hnf hd hc hs hf

/-- the same on a fresh database -/
theorem C04_refines_fresh (c : Cfg) (o : Oracle) (ps : List Prog) (s0 : Store)
    (hwf : wfBody false ps = true) (hn : noRbs ps = true) (hne : noEndBody ps = true) (hnf : noFailBody ps = true)
    (hs : (run c o ps { committed := s0 }).1.stale = false) (hf : (run c o ps { committed := s0 }).1.rbFault = false) :
    (run c o ps { committed := s0 }).1.committed = (spec c o ps s0).1 ∧ (run c o ps { committed := s0 }).2 = (spec c o ps s0).2 :=
  run_refines c o ps { committed := s0 } hwf hn hne hnf rfl rfl hs hf

/-- non-vacuity of `C04_nested_local`: a two-level nested block with a manual save point and a manual RollbackTo inside,
    returning an error, on a transaction with a non-empty entry stack — all hypotheses hold (and so does the conclusion);
    checked by kernel evaluation (`decide +kernel`: plain `decide` runs out of heartbeats on a run of this size) -/
example :
    let h : Handle := { pool := .sqlTx }
    let db : DB := { committed := [9], tx := some { cur := [1], saves := [(.manual 0, []), (.auto 0, [])] }, calls := 3 }
    let body : List Prog :=
      [.write (.ins 2) true, .sp 1 true, .write (.ins 3) true, .rb 1 true,
       .blk [.write (.del 1) true] .panic 4 false, .write (.ins 1) false]
    let x := runChild C04_cfg0 (fun _ => false) h (.blk body .retErr 5 true) db
    noEndBody body = true ∧ x.2.2 ≠ .ok ∧ x.1.rbFault = false ∧ x.2.1.err = [] ∧
    x.1.tx = some { cur := [1], saves := [(.auto 3, [1]), (.manual 0, []), (.auto 0, [])] } := by decide +kernel

/-- non-vacuity of `C04_refines`: nested blocks with all outcomes, an ignored failing SavePoint, a derived handle whose
    condition hides the deleted row, a manual sequence, and an injected fault (driver call 3) -/
example :
    let ps : List Prog :=
      [.blk [.write (.ins 1) true,
             .blk [.write (.ins 2) true, .sp 1 false] .retErr 1 false,
             .blk [.write (.ins 3) true] .retNil 3 true,
             .dv (.whereNe 1) [.write (.del 1) true] true] .retNil 2 true,
       .man [.write (.ins 7) true] .commit true,
       .blk [.write (.ins 8) true] .panic 6 false]
    let r := run C04_cfg0 (fun k => k == 3) ps { committed := [] }
    wfBody false ps = true ∧ noRbs ps = true ∧ noEndBody ps = true ∧ noFailBody ps = true ∧ r.1.stale = false ∧ r.1.rbFault = false ∧
    r.1.committed = [1, 3, 7] ∧ r.2 = .ok := by decide +kernel


/-- the same two non-vacuity checks on minimal programs, by plain `decide` -/
example :
    let x := runChild C04_cfg0 (fun _ => false) { pool := .sqlTx } (.blk [.write (.ins 2) true] .retErr 5 true)
      { committed := [], tx := some { cur := [1], saves := [] }, calls := 1 }
    noEndBody [.write (.ins 2) true] = true ∧ x.2.2 ≠ .ok ∧ x.1.rbFault = false ∧ x.2.1.err = [] := by decide
example :
    let ps : List Prog := [.blk [.write (.ins 1) true, .blk [.write (.ins 2) true] .retErr 1 false] .retNil 2 true]
    let r := run C04_cfg0 (fun _ => false) ps { committed := [] }
    wfBody false ps = true ∧ noRbs ps = true ∧ noEndBody ps = true ∧ noFailBody ps = true ∧ r.1.stale = false ∧ r.1.rbFault = false ∧ r.1.committed = [1] := by decide +kernel


/-! ### round 2: values pass through unchanged; transactions ended underneath; Statement.ConnPool after a write -/

/-- PANIC PAYLOADS ARE OPAQUE AND UNCHANGED. The payload of a panic is an opaque value (the model never inspects it: `Res.panic`
    carries only its identity). Whatever the deferred handlers of `Transaction` do (ROLLBACK, ROLLBACK TO, nothing under
    DisableNestedTransaction) and whatever the oracle does to those calls: when the function of a block panics with payload `p`
    — raised by the block itself or by a `must` child at any depth below — the block panics with exactly `p`; the manual
    caller likewise. -/
theorem C04_panic_payload_unchanged (o : Oracle) (h h1 : Handle) (name : SpName) (out : Out) (tag : Nat) (fin : Fin)
    (db : DB) (tx : Handle) (r : Res) (p : Nat) (hf : (fnEnd tx r out tag db).2 = .panic p) :
    (finishRoot o h out tag (db, tx, r)).2.2 = .panic p ∧
    (finishNested o h1 name out tag (db, tx, r)).2.2 = .panic p ∧
    (finishDis h out tag (db, tx, r)).2.2 = .panic p ∧
    (r = .panic p → (finishMan o h fin (db, tx, r)).2.2 = .panic p) := by
  have hne : (fnEnd tx r out tag db).2 ≠ .ok := by rw [hf]; simp
  refine ⟨by rw [finishRoot_res_fail o h out tag db tx r hne, hf],
    by rw [finishNested_res_fail o h1 name out tag db tx r hne, hf], by rw [finishDis_res, hf], fun hr => ?_⟩
  rw [hr]
  exact finishMan_res_fail o h fin db tx _ (by simp)

/-- … and gorm never invents or converts a panic: a program that ends in a panic ends with the payload of one of ITS OWN
    `panic` outcomes (every depth, every configuration, every oracle, derived handles, transactions ended underneath) — in
    particular a panic is never turned into an error return and an error never into a panic -/
theorem C04_panic_from_program (c : Cfg) (o : Oracle) (ps : List Prog) (h : Handle) (db : DB) (p : Nat)
    (hr : (runBody c o h ps db).2.2 = .panic p) : p ∈ panicTagsBody ps :=
  runBody_panic c o ps h db p hr

/-- ERROR VALUES RETURNED BY THE FUNCTION ARE UNCHANGED: the block returns exactly the error value `e` its function returned
    (own `return err` or the error of a `must` child), whatever happens to the deferred ROLLBACK / ROLLBACK TO -/
theorem C04_fn_error_unchanged (o : Oracle) (h h1 : Handle) (name : SpName) (out : Out) (tag : Nat)
    (db : DB) (tx : Handle) (r : Res) (e : Err) (hf : (fnEnd tx r out tag db).2 = .err e) :
    (finishRoot o h out tag (db, tx, r)).2.2 = .err e ∧
    (finishNested o h1 name out tag (db, tx, r)).2.2 = .err e ∧
    (finishDis h out tag (db, tx, r)).2.2 = .err e := by
  have hne : (fnEnd tx r out tag db).2 ≠ .ok := by rw [hf]; simp
  exact ⟨by rw [finishRoot_res_fail o h out tag db tx r hne, hf],
    by rw [finishNested_res_fail o h1 name out tag db tx r hne, hf], by rw [finishDis_res, hf]⟩

/-- THE COMMIT ERROR VALUE IS PASSED THROUGH UNCHANGED. When the function of an outermost block returned nil on a clean
    transaction handle, `Transaction` returns exactly what the driver-level commit returned — nil when COMMIT succeeded, the
    injected value `[.inj n]` (whatever Go value the fault stands for: sql.ErrTxDone, sql.ErrConnDone, driver.ErrBadConn,
    context errors … the model cannot tell them apart, so none can be special-cased), `[.txDone]` when the transaction had been
    ended underneath — and the committed store is the function's working store iff that value is nil. -/
theorem C04_commit_error_unchanged (o : Oracle) (h : Handle) (out : Out) (tag : Nat) (db : DB) (tx : Handle) (r : Res)
    (hp : tx.pool.isCommitter = true) (he : tx.err = []) (hok : (fnEnd tx r out tag db).2 = .ok) :
    (finishRoot o h out tag (db, tx, r)).2.2 = resOf (drvCommit o (fnEnd tx r out tag db).1).2 ∧
    ((drvCommit o (fnEnd tx r out tag db).1).2 ≠ [] → (finishRoot o h out tag (db, tx, r)).1.committed = db.committed) ∧
    ((drvCommit o (fnEnd tx r out tag db).1).2 = [] →
        ∃ t, db.tx = some t ∧ (finishRoot o h out tag (db, tx, r)).1.committed = t.cur) := by
  have hc := gormCommit_committer o tx (fnEnd tx r out tag db).1 hp
  rw [he, addError_nil_left] at hc
  rw [finishRoot_eq_ok o h out tag db tx r hok, hc.2]
  by_cases hd : (drvCommit o (fnEnd tx r out tag db).1).2 = []
  · rw [if_neg (by simp [hd])]
    refine ⟨by simp [resOf, hd], fun hne => absurd hd hne, fun _ => ?_⟩
    obtain ⟨t, ht, hcm⟩ := drvCommit_ok o _ hd
    exact ⟨t, by rw [← ht]; simp, by dsimp only; rw [hc.1]; exact hcm⟩
  · rw [if_pos hd]
    refine ⟨by simp [resOf, hd], fun _ => ?_, fun h0 => absurd h0 hd⟩
    dsimp only
    rw [gormRollback_committed, hc.1, drvCommit_err o _ hd]; simp

/-- ENDED UNDERNEATH ⇒ NOT NIL: if the transaction is already finished when the function of an outermost block returns
    (Rollback called inside the block, context cancelled and rolled back by database/sql), `Transaction` does not return nil —
    it returns sql.ErrTxDone (joined to whatever the handle already carried) — and nothing reaches the committed store. -/
theorem C04_ended_underneath_not_nil (o : Oracle) (h : Handle) (out : Out) (tag : Nat) (db : DB) (tx : Handle) (r : Res)
    (hp : tx.pool.isCommitter = true) (hd : db.tx = none) (hok : (fnEnd tx r out tag db).2 = .ok) :
    (finishRoot o h out tag (db, tx, r)).2.2 = .err (addError tx.err [.txDone]) ∧
    (finishRoot o h out tag (db, tx, r)).2.2 ≠ .ok ∧
    (finishRoot o h out tag (db, tx, r)).1.committed = db.committed ∧
    (finishRoot o h out tag (db, tx, r)).1.tx = none := by
  have hd' : (fnEnd tx r out tag db).1.tx = none := by simpa using hd
  have hc := gormCommit_committer o tx (fnEnd tx r out tag db).1 hp
  rw [drvCommit_closed o _ hd'] at hc
  dsimp only at hc
  have hne : addError tx.err [.txDone] ≠ [] := addError_ne_nil _ _ (by simp)
  rw [finishRoot_eq_ok o h out tag db tx r hok, hc.2, if_pos hne]
  refine ⟨rfl, by simp, ?_, ?_⟩
  · dsimp only; rw [gormRollback_committed, hc.1]; simp
  · dsimp only; exact gormRollback_tx_none _ _ (by rw [hc.1]; exact hd')

/-- the same seen from a whole program: `db.Transaction(func(tx) { tx.Create(1); tx.Rollback(); return nil })` returns
    sql.ErrTxDone, row 1 is not durable, nothing leaks (kernel-checked instance; non-vacuity of the two theorems above) -/
example :
    let r := run C04_cfg0 (fun _ => false) [.blk [.write (.ins 1) true, .endtx true] .retNil 0 true] { committed := [] }
    r.2 = .err [.txDone] ∧ r.1.committed = [] ∧ r.1.tx = none := by decide

/-- STATEMENT.CONNPOOL AFTER A WRITE, inside an explicit transaction: the create/update/delete pipeline (BeginTransaction …
    CommitOrRollbackTransaction) leaves `Statement.ConnPool` of the instance it ran on exactly as it was — so a chained
    handle kept in a variable stays on the transaction for its next operation (all flag values, all pools). -/
theorem C04_write_keeps_tx_pool (skip errNil beginOk : Bool) (s : OpSt)
    (hc : s.stmtPool.isCommitter = true) (hs : s.started = false) :
    writeSt skip errNil beginOk s = s := by
  obtain ⟨sp, cp, st⟩ := s
  dsimp only at hc hs
  subst hs
  cases sp <;> simp [Pool.isCommitter] at hc <;>
    cases skip <;> cases errNil <;> simp [writeSt, beginTransactionSt, commitOrRollbackSt]

/-- … and outside a transaction, where `Statement.ConnPool` is the handle's own pool, it is put back there (the implicit
    transaction does not leak into the next operation through the handle) -/
theorem C04_write_restores_pool (skip errNil beginOk : Bool) (s : OpSt)
    (hc : s.stmtPool.isCommitter = false) (heq : s.stmtPool = s.cfgPool) (hs : s.started = false) :
    writeSt skip errNil beginOk s = s := by
  obtain ⟨sp, cp, st⟩ := s
  dsimp only at hc heq hs
  subst hs heq
  cases sp <;> simp [Pool.isCommitter] at hc <;>
    cases skip <;> cases errNil <;> cases beginOk <;> simp [writeSt, beginTransactionSt, commitOrRollbackSt]

/-! ### ROUND 5 — every write FORM, parametrised by the pool its call site hands the statement to (Model/TxForms.lean) -/

/-- REGENERATED FACT (extract/gen_c04b.go, rebuilt from the tree on every run): every `ExecContext(` / `QueryContext(` /
    `QueryRowContext(` call of callbacks/*.go and of the finisher / association / scan files is made on
    `<x>.Statement.ConnPool` (class 0) — never on `db.ConnPool` / `db.Config.ConnPool`; each statement-sending pipeline
    (create, update, delete, query, raw exec, row) has its sites in the table; and the configured pool is mentioned nowhere
    else in those files except where callbacks/transaction.go puts the statement back on it after the implicit transaction. -/
theorem C04_call_sites_on_statement_pool :
    Gen.c04bCallSites.all (fun s => s.2.2.2 == 0) = true ∧
    (["Create", "Update", "Delete", "Query", "RawExec", "RowQuery"].all
      (fun f => Gen.c04bCallSites.any (fun s => s.2.1 == f)) = true) ∧
    (Gen.c04bCfgPoolMentions.all
      (fun m => m.1 == "callbacks/transaction.go" && m.2.1 == "CommitOrRollbackTransaction" && m.2.2 == "assign-to-stmt-pool") = true ∧
     Gen.c04bCfgPoolMentions.length ≤ 1) ∧
    (∀ i, i < Gen.c04bCallSites.length → siteSel i = .stmt) :=
  ⟨sites_all_stmt_pool, sites_cover_pipelines, cfg_pool_mentions_only_restore, siteSel_stmt⟩

/-- WRITE FORMS TOUCH ONLY THE TRANSACTION: whatever finisher forms (any number of statements each — RETURNING variants,
    upserts, batches, update-then-insert, cascades, association writes, raw statements, reads in between), issued through
    a transaction handle, all of whose call sites name the statement pool: the committed store is untouched, the open
    transaction stays open and its save-point stack is unchanged (only its working store moves). -/
theorem C04_forms_isolated (sel : Nat → PoolSel) (o : Oracle) (h : Handle) (fs : List FormOp)
    (hsel : ∀ s ∈ sitesOf fs, sel s = .stmt) (db : DB) :
    (runForms sel o h fs db).1.committed = db.committed ∧
    (∀ t, db.tx = some t → ∃ cur, (runForms sel o h fs db).1.tx = some { cur := cur, saves := t.saves }) ∧
    (db.tx = none → (runForms sel o h fs db).1.tx = none) :=
  ⟨(runForms_stmt_frame sel o h fs hsel db).1, (runForms_stmt_frame sel o h fs hsel db).2.2.2.2.1,
   (runForms_stmt_frame sel o h fs hsel db).2.2.2.2.2⟩

/-- ALL OR NOTHING FOR EVERY WRITE FORM, with the write step parametrised by the pool: a top-level Transaction block whose
    function issues any write forms whose call sites name the STATEMENT pool leaves no transaction open, leaves the
    committed store exactly as it was unless it returns nil, and then commits exactly the working store the forms left. -/
theorem C04_form_block_all_or_nothing (sel : Nat → PoolSel) (c : Cfg) (o : Oracle) (fs : List FormOp) (out : Out) (tag : Nat)
    (db : DB) (hsel : ∀ s ∈ sitesOf fs, sel s = .stmt) (hd : db.tx = none)
    (hs : (formBlock sel c o fs out tag db).1.stale = false) :
    (formBlock sel c o fs out tag db).1.tx = none ∧
    ((formBlock sel c o fs out tag db).2 ≠ .ok → (formBlock sel c o fs out tag db).1.committed = db.committed) ∧
    ((formBlock sel c o fs out tag db).2 = .ok →
        out = .retNil ∧
        ∃ t, (runForms sel o (gormBegin c.beginGuard o c.root db).2 fs (gormBegin c.beginGuard o c.root db).1).1.tx = some t ∧
             (formBlock sel c o fs out tag db).1.committed = t.cur) :=
  form_block_all_or_nothing sel c o fs out tag db hsel hd hs

/-- … instantiated at the pool selector OF THE TREE BEING VERIFIED (regenerated table): for every program whose forms name
    call sites of the table, unconditionally. A tree in which one site names the configured pool does not build this. -/
theorem C04_form_block_current_tree (c : Cfg) (o : Oracle) (fs : List FormOp) (out : Out) (tag : Nat) (db : DB)
    (hsites : ∀ s ∈ sitesOf fs, s < Gen.c04bCallSites.length) (hd : db.tx = none)
    (hs : (formBlock siteSel c o fs out tag db).1.stale = false) :
    (formBlock siteSel c o fs out tag db).1.tx = none ∧
    ((formBlock siteSel c o fs out tag db).2 ≠ .ok → (formBlock siteSel c o fs out tag db).1.committed = db.committed) :=
  ⟨(form_block_all_or_nothing siteSel c o fs out tag db (fun s hsm => siteSel_stmt s (hsites s hsm)) hd hs).1,
   (form_block_all_or_nothing siteSel c o fs out tag db (fun s hsm => siteSel_stmt s (hsites s hsm)) hd hs).2.1⟩

/-- NESTED LOCALITY for every write form on the statement pool: a failing nested block restores exactly its entry working
    store and leaves the entry save-point stack plus its own save point; nothing reached the committed store. -/
theorem C04_form_nested_local (sel : Nat → PoolSel) (o : Oracle) (h : Handle) (he : h.err = []) (db : DB) (v : Store)
    (S : List (SpName × Store)) (ht : db.tx = some { cur := v, saves := S })
    (fs : List FormOp) (out : Out) (tag : Nat) (hsel : ∀ s ∈ sitesOf fs, sel s = .stmt)
    (hsp : o db.calls = false) (hrf : db.rbFaultable = false)
    (hr : (formNested sel o h fs out tag db).2.2 ≠ .ok) :
    (formNested sel o h fs out tag db).1.tx = some { cur := v, saves := (SpName.auto db.calls, v) :: S } ∧
    (formNested sel o h fs out tag db).1.committed = db.committed :=
  form_nested_local sel o h he db v S ht fs out tag hsel hsp hrf hr

/-- the hypothesis on the pool is NEEDED (kernel-checked): with the one statement of a form sent to the configured pool, a
    block that returns an error leaves its row durable; with the statement pool the same block leaves nothing. -/
theorem C04_form_config_pool_counterexample :
    (formBlock (fun _ => PoolSel.cfg) { prep := false, dis := false, skip := false } (fun _ => false)
        [{ stmts := [.exec [.ins 1] 0], must := true }] .retErr 7 { committed := [] }).2 = .err [.user 7] ∧
    (formBlock (fun _ => PoolSel.cfg) { prep := false, dis := false, skip := false } (fun _ => false)
        [{ stmts := [.exec [.ins 1] 0], must := true }] .retErr 7 { committed := [] }).1.committed = [1] ∧
    (formBlock (fun _ => PoolSel.stmt) { prep := false, dis := false, skip := false } (fun _ => false)
        [{ stmts := [.exec [.ins 1] 0], must := true }] .retErr 7 { committed := [] }).1.committed = [] :=
  form_cfg_pool_counterexample

/-- BRIDGE to the program trees: single-row forms on the statement pool, issued through a clean transaction handle, ARE
    sequences of Model.Tx writes / reads — `runForms` and `runBody` of the expansion agree on the whole database state and
    the result, so C04_refines, C04_savepoint_stack, C04_nested_local … speak about every such form. -/
theorem C04_forms_are_writes (sel : Nat → PoolSel) (c : Cfg) (o : Oracle) (h : Handle)
    (hp : h.pool.isCommitter = true) (he : h.err = []) (fs : List FormOp)
    (hsel : ∀ s ∈ sitesOf fs, sel s = .stmt) (hsr : ∀ f ∈ fs, f.must = true ∧ singleRow f.stmts = true) (db : DB) :
    (runForms sel o h fs db).1 = (runBody c o h (expandForms fs) db).1 ∧
    (runForms sel o h fs db).2 = (runBody c o h (expandForms fs) db).2.2 :=
  runForms_eq_runBody sel c o h hp he fs hsel hsr db

/-- non-vacuity: a two-statement form (update-then-insert, as `Save` issues it) followed by a cascade delete, in a block
    that returns an error, on the tree's own selector: nothing durable; the same block returning nil: both durable -/
example :
    (formBlock siteSel C04_cfg0 (fun _ => false)
        [{ stmts := [.exec [.nop] 9, .exec [.ins 7] 1], must := true }, { stmts := [.exec [.del 3, .del 4] 2], must := true }]
        .retErr 5 { committed := [3, 4, 5] }).1.committed = [3, 4, 5] ∧
    (formBlock siteSel C04_cfg0 (fun _ => false)
        [{ stmts := [.exec [.nop] 9, .exec [.ins 7] 1], must := true }, { stmts := [.exec [.del 3, .del 4] 2], must := true }]
        .retNil 5 { committed := [3, 4, 5] }).1.committed = [5, 7] := by
  decide +kernel

/-! ### write forms that are THEMSELVES transaction blocks (round 6): `CreateInBatches`, `Create` under `CreateBatchSize` -/

/-- the wrap decision of finisher_api.go `DB.CreateInBatches` as the model uses it (tied to the code by the regenerated
    `Gen.cibWrapDecision`, theorem `C04_batches_wrap_decision`): the batches go through `tx.Transaction(callFc)` unless
    `tx.SkipDefaultTransaction || reflectLen <= batchSize` — in particular NOT depending on whether the handle is
    already inside a transaction -/
def c04CibWraps (skip : Bool) (len bs : Nat) : Bool := !(skip || decide (len ≤ bs))

/-- `callFc`: one multi-row INSERT per batch through call site `site`; the first failing batch ends it with its error -/
def c04BatchOps (site : Nat) (batches : List (List Nat)) : List FormOp :=
  batches.map (fun ids => { stmts := [FStmt.exec (ids.map Write.ins) site], must := true })

/-- `h.CreateInBatches(rows, bs)` through a transaction handle `h`: the nested block of Model/TxForms.lean `formNested`
    (SAVEPOINT … ROLLBACK TO on failure, `callFc` returns nil after the last batch) or the batches directly on the handle -/
def c04CreateInBatchesTx (sel : Nat → PoolSel) (o : Oracle) (h : Handle) (skip : Bool) (len bs site : Nat)
    (batches : List (List Nat)) (db : DB) : DB × Res :=
  if c04CibWraps skip len bs = true then
    ((formNested sel o h (c04BatchOps site batches) .retNil 0 db).1, (formNested sel o h (c04BatchOps site batches) .retNil 0 db).2.2)
  else runForms sel o h (c04BatchOps site batches) db

/-- REGENERATED from finisher_api.go: exactly one `if` hands `callFc` on; the wrapper is skipped under
    `tx.SkipDefaultTransaction || reflectLen <= batchSize` and under nothing else; the other branch is `tx.Transaction(callFc)`;
    `Create` delegates to `CreateInBatches` exactly under `CreateBatchSize > 0`; and `Transaction` issues its SAVEPOINT under
    "pool is a TxCommitter ∧ nested transactions enabled" with the ROLLBACK TO in the deferred closure -/
theorem C04_batches_wrap_decision :
    Gen.cibWrapDecision = [("tx.SkipDefaultTransaction || reflectLen <= batchSize",
        ["callFc(tx.Session(&Session{}))"], ["tx.Transaction(callFc)"])] ∧
    Gen.createDelegation = [(["db.CreateBatchSize > 0"], "db.CreateInBatches(value, db.CreateBatchSize)")] ∧
    Gen.txBlockCalls.filter (fun c => c.1 == "db.SavePoint" || c.1 == "db.RollbackTo") =
      [("db.SavePoint", ["ok", "committer != nil", "!db.DisableNestedTransaction"], false), ("db.RollbackTo", [], true)] := by
  decide

theorem c04_sitesOf_batchOps (site : Nat) (batches : List (List Nat)) :
    ∀ s ∈ sitesOf (c04BatchOps site batches), s = site := by
  induction batches with
  | nil => intro s hs; simp [c04BatchOps, sitesOf] at hs
  | cons b bs ih =>
    intro s hs
    simp only [c04BatchOps, List.map_cons, sitesOf, sitesOfForm, FStmt.site, List.cons_append, List.nil_append,
      List.mem_cons] at hs
    rcases hs with h | h
    · exact h
    · exact ih s (by simpa [c04BatchOps] using h)

/-- NESTED LOCALITY of a multi-batch CreateInBatches issued inside a transaction (default transactions on, more rows than the
    batch size): when it fails — in whichever batch — the transaction's working store is exactly the one at its entry, the
    save-point stack is the entry stack plus its own save point, nothing reached the committed store: the enclosing function
    may swallow the error and commit, none of the batches is durable. -/
theorem C04_batches_nested_local (sel : Nat → PoolSel) (o : Oracle) (h : Handle) (he : h.err = []) (db : DB) (v : Store)
    (S : List (SpName × Store)) (ht : db.tx = some { cur := v, saves := S })
    (len bs site : Nat) (batches : List (List Nat)) (hw : c04CibWraps false len bs = true) (hsel : sel site = .stmt)
    (hsp : o db.calls = false) (hrf : db.rbFaultable = false)
    (hr : (c04CreateInBatchesTx sel o h false len bs site batches db).2 ≠ .ok) :
    (c04CreateInBatchesTx sel o h false len bs site batches db).1.tx =
        some { cur := v, saves := (SpName.auto db.calls, v) :: S } ∧
    (c04CreateInBatchesTx sel o h false len bs site batches db).1.committed = db.committed := by
  have hsel' : ∀ s ∈ sitesOf (c04BatchOps site batches), sel s = .stmt := fun s hs => by
    rw [c04_sitesOf_batchOps site batches s hs]; exact hsel
  unfold c04CreateInBatchesTx at hr ⊢
  rw [if_pos hw] at hr ⊢
  exact C04_form_nested_local sel o h he db v S ht (c04BatchOps site batches) .retNil 0 hsel' hsp hrf hr

/-- kernel-checked, whole programs: `db.Transaction(func(tx){ Create(50); _ = tx.CreateInBatches([100 101 | 102 1], 2);
    Create(60); return nil })` with row 1 present. With the wrapper the regenerated decision prescribes the failed compound leaves
    nothing and the rest is committed; with its batches sent directly through the handle (what a tree that skips the wrapper
    "because the caller's transaction covers it" does) the first batch becomes durable. -/
theorem C04_batches_in_block_example :
    (runFProg (fun _ => PoolSel.stmt) { prep := false, dis := false, skip := false } (fun _ => false) (.blk .retNil 7)
        [.ops [{ stmts := [.exec [.ins 50] 0], must := true }],
         .nested (c04BatchOps 0 [[100, 101], [102, 1]]) .retNil 0,
         .ops [{ stmts := [.exec [.ins 60] 0], must := true }]] { committed := [1] }).1.committed = [1, 50, 60] ∧
    (runFProg (fun _ => PoolSel.stmt) { prep := false, dis := false, skip := false } (fun _ => false) (.blk .retNil 7)
        [.ops [{ stmts := [.exec [.ins 50] 0], must := true }],
         .ops [{ stmts := [.exec [.ins 100, .ins 101] 0], must := false }, { stmts := [.exec [.ins 102, .ins 1] 0], must := false }],
         .ops [{ stmts := [.exec [.ins 60] 0], must := true }]] { committed := [1] }).1.committed = [1, 50, 60, 100, 101] ∧
    c04CibWraps false 4 2 = true ∧ c04CibWraps false 2 2 = false ∧ c04CibWraps true 4 2 = false := by
  decide +kernel

end Gorm
