/-
  C04 — transaction blocks commit everything on success and nothing on error or panic.
  Theorems over Model/Tx.lean (`run` = gorm's Transaction/Begin/Commit/Rollback/SavePoint/RollbackTo transcribed over a
  snapshot-stack database with a fault oracle per driver call; `spec` = functional reference).
-/
import GormModel.Model.Tx
import GormModel.Lemmas.Tx
namespace Gorm
open Gorm.Tx

def C04_cfg0 : Cfg := { prep := false, dis := false, skip := false }

/-- minimal witness of finding F18: outer block { write 1; ignored nested block { write 2 } ; return nil } -/
def C04_stickyWitness : List Prog :=
  [.blk [.write (.ins 1) true, .blk [.write (.ins 2) true] .retNil 1 false] .retNil 2 true]

/-- FINDING F18 (counterexample, kernel-checked): the nested block's SAVEPOINT (driver call 2) fails; the outer function
    returns nil, COMMIT succeeds and row 1 is durable — but Transaction returns the stale SAVEPOINT error. -/
theorem C04_sticky_counterexample :
    let r := run C04_cfg0 (fun k => k == 2) C04_stickyWitness { committed := [] }
    r.2 = .err [.inj 2] ∧ r.1.committed = [1] ∧ r.1.stale = true ∧ r.1.rbFault = false ∧
    spec C04_cfg0 (fun k => k == 2) C04_stickyWitness [] = ([1], .ok) := by
  decide

/-- boundary of the claim: a fault injected into the deferred ROLLBACK TO (driver call 4) is discarded by gorm
    (finisher_api.go:635), so the failing nested block's write 2 survives and is committed. Such faults are outside the
    property's fault list (BEGIN/COMMIT/SAVEPOINT/statement); the theorems exclude them by `rbFault = false`. -/
theorem C04_rollbackto_fault_example :
    let p : List Prog := [.blk [.write (.ins 1) true, .blk [.write (.ins 2) true] .retErr 1 false] .retNil 2 true]
    let r := run C04_cfg0 (fun k => k == 4) p { committed := [] }
    r.1.rbFault = true ∧ r.1.committed = [1, 2] := by
  decide

/-- NO LEAK, for every program tree (any depth, any outcome assignment: nil / error / panic, manual sequences included),
    every fault oracle and every configuration: after the program no driver transaction is open and no connection is
    checked out (`DB.open` counts both) — even when BEGIN, COMMIT, SAVEPOINT, ROLLBACK TO or any statement fails, and also
    in runs that exhibit finding F18. -/
theorem C04_no_leak (c : Cfg) (o : Oracle) (ps : List Prog) (db : DB)
    (hwf : wfBody false ps = true) (hd : db.tx = none) :
    (run c o ps db).1.tx = none ∧ (run c o ps db).1.open = 0 := by
  have hroot : c.root.pool.isCommitter = false := by
    unfold Cfg.root; cases c.prep <;> rfl
  have h := runBody_frame c o ps c.root db (by rw [hroot]; exact hwf)
  have ht := (h.2.2 hroot rfl hd).1
  unfold run
  exact ⟨ht, by simp [DB.open, ht]⟩

/-- inside a transaction nothing reaches the committed store and the transaction stays open: every statement of a
    function body run on a transaction handle (nested blocks of any depth, failing or not, save points, faults) -/
theorem C04_body_isolated (c : Cfg) (o : Oracle) (ps : List Prog) (h : Handle) (db : DB)
    (hp : h.pool.isCommitter = true) (hwf : wfBody true ps = true) :
    (runBody c o h ps db).1.committed = db.committed ∧ (runBody c o h ps db).1.tx.isSome = db.tx.isSome :=
  (runBody_frame c o ps h db (by rw [hp]; exact hwf)).2.1 hp

theorem runChild_blk_root (c : Cfg) (o : Oracle) (h : Handle) (body : List Prog) (out : Out) (tag : Nat) (must : Bool) (db : DB)
    (hp : h.pool.isCommitter = false) :
    runChild c o h (.blk body out tag must) db =
      if (gormBegin o h (markStale h db)).2.err ≠ [] then
        ((gormBegin o h (markStale h db)).1, h, .err (gormBegin o h (markStale h db)).2.err)
      else finishRoot o h out tag (runBody c o (gormBegin o h (markStale h db)).2 body (gormBegin o h (markStale h db)).1) := by
  unfold runChild
  simp only [hp, Bool.false_eq_true, if_false]

/-- ALL OR NOTHING for a top-level Transaction block, any body (any depth), any outcome, any oracle, any configuration,
    in a run without stale use of a poisoned handle (the negation of finding F18's pattern):
    * no transaction is left open;
    * if Transaction does not return nil (function error, panic, failed BEGIN, failed COMMIT, failed statement that the
      function propagated) the committed store is exactly what it was before;
    * if it returns nil then the function returned nil and the committed store is exactly the working store the function
      body left in the transaction (all of its surviving writes, nothing else). -/
theorem C04_block_all_or_nothing (c : Cfg) (o : Oracle) (body : List Prog) (out : Out) (tag : Nat) (must : Bool) (db : DB)
    (hwf : wfBody true body = true) (hd : db.tx = none)
    (hs : (runChild c o c.root (.blk body out tag must) db).1.stale = false) :
    (runChild c o c.root (.blk body out tag must) db).1.tx = none ∧
    ((runChild c o c.root (.blk body out tag must) db).2.2 ≠ .ok →
        (runChild c o c.root (.blk body out tag must) db).1.committed = db.committed) ∧
    ((runChild c o c.root (.blk body out tag must) db).2.2 = .ok →
        out = .retNil ∧ (runBody c o (gormBegin o c.root db).2 body (gormBegin o c.root db).1).2.2 = .ok ∧
        ∃ t, (runBody c o (gormBegin o c.root db).2 body (gormBegin o c.root db).1).1.tx = some t ∧
             (runChild c o c.root (.blk body out tag must) db).1.committed = t.cur) := by
  have hroot : c.root.pool.isCommitter = false := by
    unfold Cfg.root; cases c.prep <;> rfl
  have herr : c.root.err = [] := rfl
  have hms : markStale c.root db = db := by simp [markStale, herr]
  have hfr := runChild_frame c o (.blk body out tag must) c.root db (by simpa [wfChild] using hwf)
  have hb := gormBegin_root o c.root db hroot herr
  refine ⟨(hfr.2.2 hroot herr hd).1, ?_⟩
  rw [runChild_blk_root c o c.root body out tag must db hroot, hms] at hs ⊢
  by_cases hbe : (gormBegin o c.root db).2.err ≠ []
  · rw [if_pos hbe]
    exact ⟨fun _ => hb.2.1, fun h => by simp at h⟩
  · rw [if_neg hbe] at hs ⊢
    have hbody := runBody_frame c o body (gormBegin o c.root db).2 (gormBegin o c.root db).1 (by rw [hb.1]; exact hwf)
    have hpool : (runBody c o (gormBegin o c.root db).2 body (gormBegin o c.root db).1).2.1.pool.isCommitter = true := by
      rw [hbody.1]; exact hb.1
    have hdur := finishRoot_durability o c.root out tag _ _ _ hpool hs
    have hcm : (runBody c o (gormBegin o c.root db).2 body (gormBegin o c.root db).1).1.committed = db.committed :=
      ((hbody.2.1 hb.1).1).trans hb.2.1
    exact ⟨fun hne => (hdur.1 hne).trans hcm, fun hok => by
      obtain ⟨h1, h2, t, ht, hc⟩ := hdur.2 hok
      exact ⟨h2, h1, t, ht, hc⟩⟩

/-- SAVEPOINT / ROLLBACK TO EXACTNESS (manual sequence on a clean transaction handle, any configuration, any oracle that
    spares the SAVEPOINT and the ROLLBACK TO statement themselves): after `SavePoint(n)`, ANY number of writes — failing or
    not — and `RollbackTo(n)`, the working store is exactly the store at the save point, the save-point stack is the one
    right after `SavePoint(n)` (the save point stays usable) and RollbackTo returns nil. -/
theorem C04_savepoint_exact (c : Cfg) (o : Oracle) (h : Handle) (hp : h.pool.isCommitter = true) (he : h.err = [])
    (n : Nat) (ws : List Prog) (hws : ∀ p ∈ ws, ∃ w m, p = Prog.write w m) (db : DB) (v : Store) (S : List (SpName × Store))
    (ht : db.tx = some { cur := v, saves := S }) (hsp : o db.calls = false)
    (hrb : o (runBody c o h ws (runChild c o h (.sp n true) db).1).1.calls = false) :
    (runChild c o h (.rb n true) (runBody c o h ws (runChild c o h (.sp n true) db).1).1).1.tx =
      some { cur := v, saves := (.manual n, v) :: S } ∧
    (runChild c o h (.rb n true) (runBody c o h ws (runChild c o h (.sp n true) db).1).1).2.2 = .ok :=
  savepoint_exact c o h hp he n ws hws db v S ht hsp hrb

/-- non-vacuity: a program satisfying the hypotheses (no stale use; commit succeeds; row 1 durable) -/
example :
    let r := run C04_cfg0 (fun k => k == 99) [.blk [.write (.ins 1) true] .retNil 0 true] { committed := [] }
    r.1.stale = false ∧ r.2 = .ok ∧ r.1.committed = [1] := by decide

end Gorm
