/-
  C04 — transaction blocks commit everything on success and nothing on error or panic.
  Theorems over Model/Tx.lean (`run` = gorm's Transaction/Begin/Commit/Rollback/SavePoint/RollbackTo transcribed over a
  snapshot-stack database with a fault oracle per driver call; `spec` = functional reference).
-/
import GormModel.Model.Tx
import GormModel.Lemmas.Tx
namespace Gorm
open Gorm.Tx

def C04_cfg0 : Cfg := { prep := false, dis := false, skip := false }

/-- minimal witness of finding F18: outer block { write 1; ignored nested block { write 2 } ; return nil } -/
def C04_stickyWitness : List Prog :=
  [.blk [.write (.ins 1) true, .blk [.write (.ins 2) true] .retNil 1 false] .retNil 2 true]

/-- FINDING F18 (counterexample, kernel-checked): the nested block's SAVEPOINT (driver call 2) fails; the outer function
    returns nil, COMMIT succeeds and row 1 is durable — but Transaction returns the stale SAVEPOINT error. -/
theorem C04_sticky_counterexample :
    let r := run C04_cfg0 (fun k => k == 2) C04_stickyWitness { committed := [] }
    r.2 = .err [.inj 2] ∧ r.1.committed = [1] ∧ r.1.stale = true ∧ r.1.rbFault = false ∧
    spec C04_cfg0 (fun k => k == 2) C04_stickyWitness [] = ([1], .ok) := by
  decide

/-- boundary of the claim: a fault injected into the deferred ROLLBACK TO (driver call 4) is discarded by gorm
    (finisher_api.go:635), so the failing nested block's write 2 survives and is committed. Such faults are outside the
    property's fault list (BEGIN/COMMIT/SAVEPOINT/statement); the theorems exclude them by `rbFault = false`. -/
theorem C04_rollbackto_fault_example :
    let p : List Prog := [.blk [.write (.ins 1) true, .blk [.write (.ins 2) true] .retErr 1 false] .retNil 2 true]
    let r := run C04_cfg0 (fun k => k == 4) p { committed := [] }
    r.1.rbFault = true ∧ r.1.committed = [1, 2] := by
  decide

end Gorm
