/-
  C15 — property theorems (limit algebra; batched reads).
  Helper lemmas live in GormModel/Lemmas/*.lean; only property statements here.
-/
import GormModel.Model.Limit
import GormModel.Model.Batches
import GormModel.Lemmas.Limit
namespace Gorm

/-- Limit algebra, full strength: after ANY sequence of `Limit n` / `Offset n` chain calls
    starting from a statement without LIMIT clause, the LIMIT that `Limit.Build` prints is the
    last non-zero `Limit` argument if it is positive, nothing if it is negative
    (a negative value cancels), and -- boundary made explicit -- `LIMIT 0` if only `Limit(0)`
    calls were made. -/
theorem C15_limit_merge_limit (cs : List LimCall) :
    effLimitOf (applyCalls none cs) =
      match lastNZLimit cs with
      | some n => if n > 0 then some n else none
      | none => if hasLimitCall cs then some 0 else none :=
  limit_merge_limit cs

/-- Same for OFFSET: the last non-zero `Offset` argument decides; positive = printed,
    negative = cancelled; `Offset(0)` and `Limit(_)` calls leave it alone. -/
theorem C15_limit_merge_offset (cs : List LimCall) :
    effOffsetOf (applyCalls none cs) =
      match lastNZOffset cs with
      | some n => if n > 0 then some n else none
      | none => none :=
  limit_merge_offset cs

/-- non-vacuity / concrete instance: Limit(3).Offset(5).Limit(-1).Offset(2).Limit(0) -/
example : effLimitOf (applyCalls none [.limit 3, .offset 5, .limit (-1), .offset 2, .limit 0]) = none
    ∧ effOffsetOf (applyCalls none [.limit 3, .offset 5, .limit (-1), .offset 2, .limit 0]) = some 2 := by
  decide

end Gorm
