/-
  C15 — property theorems (limit algebra; batched reads; read-path shaping).
  Helper lemmas live in GormModel/Lemmas/*.lean; only property statements here.

  Three genuine defects of the unchanged tree are stated as `_counterexample` theorems (each replayed on the
  real code by the harness) and excluded, exactly by the negation of their pattern, in `_partial`:
    F7  FindInBatches under a user `Order` that is not key-monotone skips / repeats rows,
    F7b FindInBatches on a chain containing an `Or` member never advances,
    F7c FindInBatches on a chain whose effective LIMIT is 0 delivers every row (Find delivers none).

  Repairs.  F7c and F7e (below) have a small repair; whether it is present in the tree being verified is a
  regenerated fact (Gen/ReadPathFacts.lean) and a Bool parameter of the model function (`findInBatches zeroRet`,
  `dbScan reset`): `_counterexample` speaks about the transcription without the repair, the `_repaired` theorems
  state the property WITHOUT the excluding hypothesis for the transcription with it, and `_current_tree` discharges
  "full property, or the listed witness fails" for the transcription the fact selects.
-/
import GormModel.Model.Limit
import GormModel.Model.Batches
import GormModel.Model.ReadPaths
import GormModel.Lemmas.Limit
import GormModel.Lemmas.Batches
import GormModel.Lemmas.ReadPaths
import GormModel.Model.ScanLoop
import GormModel.Lemmas.ScanLoop
import GormModel.Gen.ReadPathFacts
import GormModel.Model.ScanPool
import GormModel.Lemmas.ScanPool
import GormModel.Gen.ScanPoolFacts
import GormModel.Model.ReadSelect
import GormModel.Model.KeyCursor
import GormModel.Lemmas.KeyCursor
import GormModel.Gen.ReadSelectFacts
namespace Gorm

/-! ## Limit / Offset merge as a fold over ANY call sequence -/

/-- Limit algebra, full strength: after ANY sequence of `Limit n` / `Offset n` chain calls
    starting from a statement without LIMIT clause, the LIMIT that `Limit.Build` prints is the
    last non-zero `Limit` argument if it is positive, nothing if it is negative
    (a negative value cancels), and -- boundary made explicit -- `LIMIT 0` if only `Limit(0)`
    calls were made. -/
theorem C15_limit_merge_limit (cs : List LimCall) :
    effLimitOf (applyCalls none cs) =
      match lastNZLimit cs with
      | some n => if n > 0 then some n else none
      | none => if hasLimitCall cs then some 0 else none :=
  limit_merge_limit cs

/-- Same for OFFSET: the last non-zero `Offset` argument decides; positive = printed,
    negative = cancelled; `Offset(0)` and `Limit(_)` calls leave it alone. -/
theorem C15_limit_merge_offset (cs : List LimCall) :
    effOffsetOf (applyCalls none cs) =
      match lastNZOffset cs with
      | some n => if n > 0 then some n else none
      | none => none :=
  limit_merge_offset cs

/-- non-vacuity / concrete instance: Limit(3).Offset(5).Limit(-1).Offset(2).Limit(0) -/
example : effLimitOf (applyCalls none [.limit 3, .offset 5, .limit (-1), .offset 2, .limit 0]) = none
    ∧ effOffsetOf (applyCalls none [.limit 3, .offset 5, .limit (-1), .offset 2, .limit 0]) = some 2 := by
  decide

/-! ## FindInBatches -/

/-- Batched reads, chain WITHOUT user ordering over the (filtered) rows `rows` in key order, for ALL table
    sizes, batch sizes, limits and offsets: the concatenation of the delivered batches is exactly what `Find`
    returns for the same chain (`take limit (drop offset rows)`), no batch is empty or larger than requested,
    the keys are strictly increasing across batches (so no row twice; none missing by the first conjunct),
    RowsAffected is the number of rows delivered, the loop ends by itself within the given fuel and never
    reports ErrPrimaryKeyRequired.  `hL0` excludes finding F7c (effective LIMIT 0); it holds for both
    transcriptions of the preamble (`zeroRet`), `C15_batches_exact_repaired` drops it for the repaired one. -/
theorem C15_batches_exact (zeroRet : Bool) (rows : List Nat) (lim : Option Limit) (batch : Int)
    (hs : rows.Pairwise (· < ·)) (hp : ∀ k ∈ rows, 0 < k) (hb : 0 < batch)
    (hL0 : effLimitOf lim ≠ some 0) :
    let out := findInBatches zeroRet rows lim batch (rows.length + 2)
    out.batches.flatten = findAll rows lim
    ∧ findAll rows lim = window rows (effLimitOf lim) (effOffsetOf lim)
    ∧ (∀ b ∈ out.batches, b ≠ [] ∧ (b.length : Int) ≤ batch)
    ∧ out.batches.flatten.Pairwise (· < ·)
    ∧ out.rowsAffected = (out.batches.flatten.length : Int)
    ∧ out.outOfFuel = false ∧ out.pkRequired = false := by
  intro out
  obtain ⟨h1, h2, h3, h4, h5⟩ := findInBatches_spec zeroRet rows lim batch (rows.length + 2) hs hp hb hL0 (by omega)
  refine ⟨h1, rfl, h2, ?_, ?_, h3, h4⟩
  · show (findInBatches zeroRet rows lim batch (rows.length + 2)).batches.flatten.Pairwise (· < ·)
    rw [h1]; exact List.Pairwise.sublist (findAll_sublist rows lim) hs
  · show (findInBatches zeroRet rows lim batch (rows.length + 2)).rowsAffected = _
    rw [h5, h1]

/-- FULL strength (no exclusion of LIMIT 0) for the transcription WITH the early return
    `if limit.Limit != nil && totalSize == 0 { tx.AddError(queryDB.Find(dest).Error); return tx }`: for ALL table sizes, batch sizes, limits
    (0 included) and offsets FindInBatches delivers exactly Find's rows, once each, in key order, in non-empty
    batches no larger than requested, with RowsAffected = rows delivered, and ends by itself. -/
theorem C15_batches_exact_repaired (rows : List Nat) (lim : Option Limit) (batch : Int)
    (hs : rows.Pairwise (· < ·)) (hp : ∀ k ∈ rows, 0 < k) (hb : 0 < batch) :
    let out := findInBatches true rows lim batch (rows.length + 2)
    out.batches.flatten = findAll rows lim
    ∧ findAll rows lim = window rows (effLimitOf lim) (effOffsetOf lim)
    ∧ (∀ b ∈ out.batches, b ≠ [] ∧ (b.length : Int) ≤ batch)
    ∧ out.batches.flatten.Pairwise (· < ·)
    ∧ out.rowsAffected = (out.batches.flatten.length : Int)
    ∧ out.outOfFuel = false ∧ out.pkRequired = false := by
  intro out
  obtain ⟨h1, h2, h3, h4, h5⟩ := findInBatches_spec_zeroRet rows lim batch (rows.length + 2) hs hp hb (by omega)
  refine ⟨h1, rfl, h2, ?_, ?_, h3, h4⟩
  · show (findInBatches true rows lim batch (rows.length + 2)).batches.flatten.Pairwise (· < ·)
    rw [h1]; exact List.Pairwise.sublist (findAll_sublist rows lim) hs
  · show (findInBatches true rows lim batch (rows.length + 2)).rowsAffected = _
    rw [h5, h1]

/-- non-vacuity of the repaired case: `Limit(0).Offset(1)` on three rows: nothing delivered, ONE query
    `LIMIT 0 OFFSET 1`, and that is what Find returns -/
example : (findInBatches true [1, 2, 3] (applyCalls none [.limit 0, .offset 1]) 2 5).batches = []
    ∧ (findInBatches true [1, 2, 3] (applyCalls none [.limit 0, .offset 1]) 2 5).queries = [⟨0, some 1, none⟩]
    ∧ findAll [1, 2, 3] (applyCalls none [.limit 0, .offset 1]) = [] := by decide

/-- Termination = fuel adequacy: ANY fuel above the table size suffices (the loop performs at most
    `rows.length + 1` queries); a failure of this theorem would be a non-termination finding
    (and is one for chains with `Or`: `C15_batches_or_counterexample`). -/
theorem C15_batches_terminates (zeroRet : Bool) (rows : List Nat) (lim : Option Limit) (batch : Int) (fuel : Nat)
    (hs : rows.Pairwise (· < ·)) (hp : ∀ k ∈ rows, 0 < k) (hb : 0 < batch)
    (hL0 : effLimitOf lim ≠ some 0) (hf : rows.length + 1 ≤ fuel) :
    (findInBatches zeroRet rows lim batch fuel).outOfFuel = false
    ∧ (findInBatches zeroRet rows lim batch fuel).batches.flatten = findAll rows lim :=
  have h := findInBatches_spec zeroRet rows lim batch fuel hs hp hb hL0 hf
  ⟨h.2.2.1, h.1⟩

/-- The same on the full chain model (WHERE = members joined as OR of AND-runs with the cursor appended,
    ORDER BY = user columns then the key): exact whenever the chain has no `Or` member (¬F7b), the user
    ordering is key-monotone on the table (¬F7; in particular when there is none) and the effective LIMIT is
    not 0 (¬F7c). -/
theorem C15_batches_exact_partial (zeroRet : Bool) (tbl : List Nat) (us : List WUnit) (ord : List OrdCol)
    (lim : Option Limit) (batch : Int)
    (hs : tbl.Pairwise (· < ·)) (hp : ∀ k ∈ tbl, 0 < k) (hb : 0 < batch)
    (hNoOr : ∀ u ∈ us, u.isOr = false) (hOrd : KeyMonotone tbl ord) (hL0 : effLimitOf lim ≠ some 0)
    (fuel : Nat) (hf : tbl.length + 1 ≤ fuel) :
    let out := findInBatchesW zeroRet tbl us ord lim batch fuel
    out.batches.flatten = findAllW tbl us ord lim
    ∧ findAllW tbl us ord lim = window (matchingW tbl us) (effLimitOf lim) (effOffsetOf lim)
    ∧ (∀ b ∈ out.batches, b ≠ [] ∧ (b.length : Int) ≤ batch)
    ∧ out.batches.flatten.Pairwise (· < ·)
    ∧ out.rowsAffected = (out.batches.flatten.length : Int)
    ∧ out.outOfFuel = false ∧ out.pkRequired = false := by
  intro out
  have hM : (matchingW tbl us).Pairwise (· < ·) := List.Pairwise.sublist List.filter_sublist hs
  have hMp : ∀ k ∈ matchingW tbl us, 0 < k := fun k hk => hp k (List.mem_filter.mp hk).1
  have hlen : (matchingW tbl us).length + 1 ≤ fuel := by
    have : (matchingW tbl us).length ≤ tbl.length := List.length_filter_le _ _
    omega
  have e1 : out = findInBatches zeroRet (matchingW tbl us) lim batch fuel :=
    findInBatchesW_eq zeroRet tbl us ord hNoOr hOrd lim batch fuel
  have e2 := findAllW_eq tbl us ord hNoOr hOrd lim
  obtain ⟨h1, h2, h3, h4, h5⟩ := findInBatches_spec zeroRet (matchingW tbl us) lim batch fuel hM hMp hb hL0 hlen
  rw [e1, e2]
  refine ⟨h1, rfl, h2, ?_, ?_, h3, h4⟩
  · rw [h1]; exact List.Pairwise.sublist (findAll_sublist _ lim) hM
  · rw [h5, h1]

/-- the full chain model for the transcription WITH the early return: the exclusion of LIMIT 0 is gone, only the
    two findings that are not repaired (¬F7b: no `Or` member; ¬F7: key-monotone user ordering) remain excluded. -/
theorem C15_batches_exact_partial_repaired (tbl : List Nat) (us : List WUnit) (ord : List OrdCol)
    (lim : Option Limit) (batch : Int)
    (hs : tbl.Pairwise (· < ·)) (hp : ∀ k ∈ tbl, 0 < k) (hb : 0 < batch)
    (hNoOr : ∀ u ∈ us, u.isOr = false) (hOrd : KeyMonotone tbl ord)
    (fuel : Nat) (hf : tbl.length + 1 ≤ fuel) :
    let out := findInBatchesW true tbl us ord lim batch fuel
    out.batches.flatten = findAllW tbl us ord lim
    ∧ findAllW tbl us ord lim = window (matchingW tbl us) (effLimitOf lim) (effOffsetOf lim)
    ∧ (∀ b ∈ out.batches, b ≠ [] ∧ (b.length : Int) ≤ batch)
    ∧ out.batches.flatten.Pairwise (· < ·)
    ∧ out.rowsAffected = (out.batches.flatten.length : Int)
    ∧ out.outOfFuel = false ∧ out.pkRequired = false := by
  intro out
  have hM : (matchingW tbl us).Pairwise (· < ·) := List.Pairwise.sublist List.filter_sublist hs
  have hMp : ∀ k ∈ matchingW tbl us, 0 < k := fun k hk => hp k (List.mem_filter.mp hk).1
  have hlen : (matchingW tbl us).length + 1 ≤ fuel := by
    have : (matchingW tbl us).length ≤ tbl.length := List.length_filter_le _ _
    omega
  have e1 : out = findInBatches true (matchingW tbl us) lim batch fuel :=
    findInBatchesW_eq true tbl us ord hNoOr hOrd lim batch fuel
  have e2 := findAllW_eq tbl us ord hNoOr hOrd lim
  obtain ⟨h1, h2, h3, h4, h5⟩ := findInBatches_spec_zeroRet (matchingW tbl us) lim batch fuel hM hMp hb hlen
  rw [e1, e2]
  refine ⟨h1, rfl, h2, ?_, ?_, h3, h4⟩
  · rw [h1]; exact List.Pairwise.sublist (findAll_sublist _ lim) hM
  · rw [h5, h1]

/-- no user ordering is key-monotone -/
theorem C15_no_user_order_monotone (tbl : List Nat) (hs : tbl.Pairwise (· < ·)) : KeyMonotone tbl [] :=
  keyMonotone_nil tbl hs

/-- non-vacuity: 7 rows with gaps, WHERE `k ≠ 4 AND k < 12`, Limit(5).Offset(1), batch 2 -/
example : (findInBatchesW false [1, 2, 4, 5, 8, 9, 13] [⟨false, fun k => k != 4⟩, ⟨false, fun k => k < 12⟩] []
      (applyCalls none [.limit 5, .offset 1]) 2 9).batches = [[2, 5], [8, 9]]
    ∧ (findInBatchesW true [1, 2, 4, 5, 8, 9, 13] [⟨false, fun k => k != 4⟩, ⟨false, fun k => k < 12⟩] []
      (applyCalls none [.limit 5, .offset 1]) 2 9).batches = [[2, 5], [8, 9]] := by decide

/-- F7 (witness replayed on the real code): six rows, `Order("name")` with names descending in the key,
    batch 2: the key cursor under a non-key ordering delivers ids `[6 5] [6]` — row 6 twice, rows 1–4 never. -/
theorem C15_batches_user_order_counterexample (zeroRet : Bool) :
    (findInBatchesW zeroRet [1, 2, 3, 4, 5, 6] [] [{ key := fun k => 7 - (k : Int), desc := false }] none 2 8).batches = [[6, 5], [6]]
    ∧ findAllW [1, 2, 3, 4, 5, 6] [] [{ key := fun k => 7 - (k : Int), desc := false }] none = [6, 5, 4, 3, 2, 1] := by
  cases zeroRet <;> decide

/-- F7c (witness replayed on the real code), transcription WITHOUT the early return: `Limit(0)`: Find returns
    nothing, FindInBatches everything. -/
theorem C15_batches_limit_zero_counterexample :
    (findInBatches false [1, 2, 3] (applyCalls none [.limit 0]) 2 5).batches = [[1, 2], [3]]
    ∧ findAll [1, 2, 3] (applyCalls none [.limit 0]) = [] := by
  decide

/-- F7c on the tree as it is now (regenerated facts): FindInBatches exists, and either its preamble has the early
    return for a stored LIMIT 0 and the batched read is exact for EVERY limit (0 included), or it has not and the
    listed witness delivers rows Find does not return. -/
theorem C15_batches_limit_zero_current_tree :
    Gen.findInBatchesFound = true ∧
    ((Gen.findInBatchesZeroLimitReturn = true ∧
        ∀ (rows : List Nat) (lim : Option Limit) (batch : Int),
          rows.Pairwise (· < ·) → (∀ k ∈ rows, 0 < k) → 0 < batch →
          (findInBatches Gen.findInBatchesZeroLimitReturn rows lim batch (rows.length + 2)).batches.flatten
              = findAll rows lim
          ∧ (findInBatches Gen.findInBatchesZeroLimitReturn rows lim batch (rows.length + 2)).rowsAffected
              = ((findAll rows lim).length : Int)
          ∧ (findInBatches Gen.findInBatchesZeroLimitReturn rows lim batch (rows.length + 2)).outOfFuel = false) ∨
     (Gen.findInBatchesZeroLimitReturn = false ∧
        (findInBatches Gen.findInBatchesZeroLimitReturn [1, 2, 3] (applyCalls none [.limit 0]) 2 5).batches.flatten
          ≠ findAll [1, 2, 3] (applyCalls none [.limit 0]))) := by
  refine ⟨by decide, ?_⟩
  by_cases h : Gen.findInBatchesZeroLimitReturn = true
  · left
    refine ⟨h, ?_⟩
    rw [h]
    intro rows lim batch hs hp hb
    obtain ⟨h1, -, h3, -, h5⟩ := findInBatches_spec_zeroRet rows lim batch (rows.length + 2) hs hp hb (by omega)
    exact ⟨h1, h5, h3⟩
  · right
    have h' : Gen.findInBatchesZeroLimitReturn = false := by simpa using h
    refine ⟨h', ?_⟩
    rw [h']; decide

/-- the witness chain of F7b: `Where("n <= 2").Or("n = 4")` over keys 1..4 (n = key) -/
def f7bUnits : List WUnit := [⟨false, fun k => decide (k ≤ 2)⟩, ⟨true, fun k => decide (k = 4)⟩]

private theorem f7b_stuck (fuel : Nat) : ∀ (b ra : Int) (acc : List (List Nat)) (qs : List BatchQuery),
    (batchLoopQ (fun l o g => queryW [1, 2, 3, 4] f7bUnits [pkAsc] (some l) o g) none 0 fuel
      { batchSize := 2, batch := b, rowsAffected := ra, cursor := some 2, first := false } acc qs).outOfFuel
      = true := by
  induction fuel with
  | zero => intro b ra acc qs; rfl
  | succ fuel ih =>
    intro b ra acc qs
    have hq : queryW [1, 2, 3, 4] f7bUnits [pkAsc] (some 2) none (some 2) = [1, 2] := by decide
    have hnext : (batchStep (fun l o g => queryW [1, 2, 3, 4] f7bUnits [pkAsc] (some l) o g) none 0
        { batchSize := 2, batch := b, rowsAffected := ra, cursor := some 2, first := false }).next
        = some { batchSize := 2, batch := b + 1, rowsAffected := ra + 2, cursor := some 2, first := false } := by
      simp [batchStep, hq]
    rw [batchLoopQ_next _ _ _ _ _ _ _ _ hnext]
    exact ih _ _ _ _

/-- F7b (witness replayed on the real code, loop bounded by an aborting callback): the cursor is AND-ed to
    the LAST OR-run only (`WHERE n <= 2 OR n = 4 AND id > 2`), rows 1,2 are delivered by every query and the
    loop NEVER ends: whatever the fuel, it is exhausted. -/
theorem C15_batches_or_counterexample (zeroRet : Bool) :
    (∀ fuel, (findInBatchesW zeroRet [1, 2, 3, 4] f7bUnits [] none 2 fuel).outOfFuel = true)
    ∧ (findInBatchesW zeroRet [1, 2, 3, 4] f7bUnits [] none 2 3).batches = [[1, 2], [1, 2], [1, 2]]
    ∧ findAllW [1, 2, 3, 4] f7bUnits [] none = [1, 2, 4] := by
  refine ⟨?_, by cases zeroRet <;> decide, by decide⟩
  intro fuel
  rw [findInBatchesW, findInBatchesQ_loop zeroRet _ none 2 fuel (by decide)]
  cases fuel with
  | zero => rfl
  | succ fuel =>
    have hq : queryW [1, 2, 3, 4] f7bUnits [pkAsc] (some 2) none none = [1, 2] := by decide
    have hnext : (batchStep (fun l o g => queryW [1, 2, 3, 4] f7bUnits [pkAsc] (some l) o g) none 0
        { batchSize := 2 }).next
        = some { batchSize := 2, batch := 0 + 1, rowsAffected := 0 + 2, cursor := some 2, first := false } := by
      simp [batchStep, hq]
    show (batchLoopQ (fun l o g => queryW [1, 2, 3, 4] f7bUnits [pkAsc] (some l) o g) none 0 (fuel + 1)
      { batchSize := 2 } [] []).outOfFuel = true
    rw [batchLoopQ_next _ _ _ _ _ _ _ _ hnext]
    exact f7b_stuck fuel _ _ _ _

/-! ## the other read paths: Count / First / Last / Take / Find / Scan / Pluck -/

/-- Count (chain without effective LIMIT / OFFSET; no grouping in the model) = number of rows Find returns,
    whatever the WHERE and the ordering. -/
theorem C15_count_eq_find (tbl : List Nat) (c : Chain)
    (hl : effLimitOf c.lim = none) (ho : effOffsetOf c.lim = none) :
    c.count tbl = (c.find tbl).rows.length := by
  simp only [Chain.count, countRows, Chain.find, Chain.run, queryW, hl, ho, window, Chain.matching, matchingW,
    isort_length]
  rfl

/-- with LIMIT / OFFSET the count query keeps them: OFFSET > 0 or LIMIT 0 make Count report 0 — which is why
    the property (and the oracle) demand equality only "without limit, offset". Witness: 3 rows, Offset(1). -/
example : (Chain.count [1, 2, 3] { lim := applyCalls none [.offset 1] }) = 0
    ∧ ((Chain.find [1, 2, 3] { lim := applyCalls none [.offset 1] }).rows.length) = 2 := by decide

/-- `Count` hands back the chain it was given (SELECT and ORDER BY restored), and its own query carries no
    ORDER BY: a finisher applied to Count's return value sees the same chain. -/
theorem C15_count_returns_chain (tbl : List Nat) (c : Chain) :
    (c.afterCount).find tbl = c.find tbl ∧ c.countQueryOrder = [] := ⟨rfl, rfl⟩

/-- First / Last without user ordering and without OFFSET: exactly the matching row with the lowest / highest
    primary key (nothing when there is none), whatever LIMIT the chain carried. -/
theorem C15_first_last (tbl : List Nat) (c : Chain) (hs : tbl.Pairwise (· < ·))
    (hord : c.order = []) (hoff : effOffsetOf c.lim = none) :
    (c.first tbl).rows = (c.matching tbl).head?.toList
    ∧ (c.last tbl).rows = (c.matching tbl).getLast?.toList
    ∧ (∀ r ∈ (c.first tbl).rows, r ∈ c.matching tbl ∧ ∀ k ∈ c.matching tbl, r ≤ k)
    ∧ (∀ r ∈ (c.last tbl).rows, r ∈ c.matching tbl ∧ ∀ k ∈ c.matching tbl, k ≤ r) := by
  have hM := matching_sorted tbl c hs
  have hoff0 : offNat c.lim = 0 := by simp [offNat, hoff]
  have hf : (c.first tbl).rows = (c.matching tbl).head?.toList := by
    rw [Chain.first, first_run, single_rows, hord, List.nil_append, isort_pkAsc _ hM, hoff0, List.drop_zero,
      take1_eq_head]
  have hl : (c.last tbl).rows = (c.matching tbl).getLast?.toList := by
    rw [Chain.last, last_run, single_rows, hord, List.nil_append, isort_pkDesc _ hM, hoff0, List.drop_zero,
      take1_eq_head, List.head?_reverse]
  refine ⟨hf, hl, ?_, ?_⟩
  · intro r hr
    rw [hf] at hr
    cases hm : c.matching tbl with
    | nil => rw [hm] at hr; simp at hr
    | cons x M =>
      rw [hm] at hr hM
      simp at hr; subst hr
      rw [List.pairwise_cons] at hM
      refine ⟨by simp, ?_⟩
      intro k hk
      rcases List.mem_cons.mp hk with rfl | hk
      · exact Nat.le_refl _
      · exact Nat.le_of_lt (hM.1 k hk)
  · intro r hr
    rw [hl] at hr
    cases hg : (c.matching tbl).getLast? with
    | none => rw [hg] at hr; simp at hr
    | some y =>
      rw [hg] at hr; simp at hr; subst hr
      obtain ⟨M', hM'⟩ := List.getLast?_eq_some_iff.mp hg
      rw [hM'] at hM ⊢
      rw [List.pairwise_append] at hM
      refine ⟨by simp, ?_⟩
      intro k hk
      rcases List.mem_append.mp hk with hk | hk
      · exact Nat.le_of_lt (hM.2.2 k hk r (by simp))
      · simp at hk; subst hk; exact Nat.le_refl _

/-- First / Last / Take under ANY user ordering (no OFFSET): the row delivered matches, and no matching row
    comes strictly before it in "user columns first, key (ascending for First, descending for Last) as the
    tie-break" — exactly the latitude the property leaves. -/
theorem C15_first_last_user_order (tbl : List Nat) (c : Chain) (hoff : effOffsetOf c.lim = none) :
    (∀ r ∈ (c.first tbl).rows, r ∈ c.matching tbl ∧ ∀ k ∈ c.matching tbl, ordLe (c.order ++ [pkAsc]) r k = true)
    ∧ (∀ r ∈ (c.last tbl).rows, r ∈ c.matching tbl ∧ ∀ k ∈ c.matching tbl, ordLe (c.order ++ [pkDesc]) r k = true)
    ∧ (∀ r ∈ (c.take tbl).rows, r ∈ c.matching tbl ∧ ∀ k ∈ c.matching tbl, ordLe c.order r k = true) := by
  have hoff0 : offNat c.lim = 0 := by simp [offNat, hoff]
  have key : ∀ (cols : List OrdCol) (r : Nat),
      r ∈ (single (((isort (ordLe cols) (c.matching tbl)).drop (offNat c.lim)).take 1)).rows →
      r ∈ c.matching tbl ∧ ∀ k ∈ c.matching tbl, ordLe cols r k = true := by
    intro cols r hr
    rw [single_rows, hoff0, List.drop_zero, take1_eq_head] at hr
    have hh : (isort (ordLe cols) (c.matching tbl)).head? = some r := by
      cases h : (isort (ordLe cols) (c.matching tbl)).head? with
      | none => rw [h] at hr; simp at hr
      | some x => rw [h] at hr; simp at hr; subst hr; rfl
    refine ⟨?_, isort_head_le _ (ordLe_total cols) (ordLe_trans cols) _ r hh⟩
    exact (mem_isort _ _ _).mp (List.mem_of_mem_head? hh)
  refine ⟨?_, ?_, ?_⟩
  · intro r hr; rw [Chain.first, first_run] at hr; exact key _ r hr
  · intro r hr; rw [Chain.last, last_run] at hr; exact key _ r hr
  · intro r hr; rw [Chain.take, take_run] at hr; exact key _ r hr

/-- ErrRecordNotFound exactly when a single-record finder matches nothing (after the user's OFFSET):
    First / Last / Take raise it iff no matching row is left; Find and Scan never do. -/
theorem C15_not_found_iff (tbl : List Nat) (c : Chain) :
    ((c.first tbl).notFound = true ↔ (c.matching tbl).length ≤ offNat c.lim)
    ∧ ((c.last tbl).notFound = true ↔ (c.matching tbl).length ≤ offNat c.lim)
    ∧ ((c.take tbl).notFound = true ↔ (c.matching tbl).length ≤ offNat c.lim)
    ∧ (c.find tbl).notFound = false ∧ (c.scanOne tbl).notFound = false := by
  refine ⟨?_, ?_, ?_, rfl, rfl⟩
  · rw [Chain.first, first_run, single_notFound, isort_length]
  · rw [Chain.last, last_run, single_notFound, isort_length]
  · rw [Chain.take, take_run, single_notFound, isort_length]

/-- … in particular, without OFFSET: iff the WHERE matches no row. -/
theorem C15_not_found_iff_no_match (tbl : List Nat) (c : Chain) (hoff : effOffsetOf c.lim = none) :
    ((c.first tbl).notFound = true ↔ c.matching tbl = [])
    ∧ ((c.last tbl).notFound = true ↔ c.matching tbl = [])
    ∧ ((c.take tbl).notFound = true ↔ c.matching tbl = []) := by
  have hoff0 : offNat c.lim = 0 := by simp [offNat, hoff]
  have h := C15_not_found_iff tbl c
  rw [hoff0] at h
  have e : (c.matching tbl).length ≤ 0 ↔ c.matching tbl = [] := by
    rw [Nat.le_zero]; exact List.length_eq_zero_iff
  exact ⟨h.1.trans e, h.2.1.trans e, h.2.2.1.trans e⟩

/-- RowsAffected = rows returned, on every path; for Find that number is the size of the LIMIT/OFFSET window
    of the matching rows whatever the ordering; a single-record finder reports 1 or 0. -/
theorem C15_rows_affected (tbl : List Nat) (c : Chain) :
    (c.find tbl).rowsAffected = ((c.find tbl).rows.length : Int)
    ∧ ((c.find tbl).rows.length = (window (c.matching tbl) (effLimitOf c.lim) (effOffsetOf c.lim)).length)
    ∧ (c.first tbl).rowsAffected = ((c.first tbl).rows.length : Int)
    ∧ (c.last tbl).rowsAffected = ((c.last tbl).rows.length : Int)
    ∧ (c.take tbl).rowsAffected = ((c.take tbl).rows.length : Int)
    ∧ (c.scanOne tbl).rowsAffected = ((c.scanOne tbl).rows.length : Int)
    ∧ ((c.first tbl).rowsAffected = 0 ↔ (c.first tbl).notFound = true) := by
  refine ⟨rfl, ?_, rfl, rfl, rfl, rfl, ?_⟩
  · simp only [Chain.find, Chain.run, queryW, Chain.matching, matchingW]
    exact window_length_isort _ _ _ _
  · simp only [Chain.first, single, List.isEmpty_iff]
    cases ((c.limit 1).orderBy pkAsc).run tbl <;> simp

/-- non-vacuity of the read-path theorems: WHERE `k ≥ 2 OR k = 1 AND k ≠ 1`, user order by `k % 2` descending -/
example :
    let c : Chain := { units := [⟨false, fun k => decide (2 ≤ k)⟩, ⟨true, fun k => k == 1⟩, ⟨false, fun k => k != 1⟩],
                       order := [{ key := fun k => ((k % 2 : Nat) : Int), desc := true }] }
    (c.find [1, 2, 3, 4, 5]).rows = [3, 5, 2, 4] ∧ (c.first [1, 2, 3, 4, 5]).rows = [3]
    ∧ (c.last [1, 2, 3, 4, 5]).rows = [5] ∧ c.count [1, 2, 3, 4, 5] = 4 := by decide

/-! ## read paths over a cursor that FAILS while it is iterated; NULL cells; REUSED destinations

  `mkCursor rows f`: the driver delivers `rows`, with `f = some k` its `Next` fails after k rows (the error is
  visible only through `rows.Err()`).  `delivered rows f` = the rows handed out before that, `faultReached rows f`
  = an iteration to the end runs into the fault.  Two findings of the unchanged tree are stated as
  counterexamples and excluded, exactly by the negation of their pattern, from the theorem they break:
    F7d  First/Take/Last/Find into ONE pre-populated struct keeps a stale non-pointer / Scanner field on NULL,
    F7e  Scan(&slice) into a non-empty slice leaves it untouched when no row is read. -/
open ScanLoop

/-- Find / Pluck / Scan(&int)-style destinations through callbacks.Query (scan.go Scan, mode 0), for EVERY
    result set, fault position, column list and previous destination content: exactly the rows delivered before
    the fault are in the destination (a struct slice is reset first, a map slice is appended to), RowsAffected is
    their number, and the driver's error is reported iff the iteration reached the fault. -/
theorem C15_find_under_fault (rows : List SRow) (f : Option Nat) (raise : Bool) (cols : List String)
    (sch : Schema) (old olds : List Rec) (v0 : Cell) :
    let q := queryPath (mkCursor rows f) raise cols (.structs sch old)
    let qm := queryPath (mkCursor rows f) raise cols (.maps olds)
    let qp := queryPath (mkCursor rows f) raise cols (.prim v0)
    q.dest = .structs sch ((delivered rows f).map (scanIntoStruct sch (zeroRec sch) cols))
    ∧ qm.dest = .maps (olds ++ (delivered rows f).map (scanIntoMap [] cols))
    ∧ q.ra = (delivered rows f).length ∧ qm.ra = (delivered rows f).length ∧ qp.ra = (delivered rows f).length
    ∧ q.err = faultReached rows f ∧ qm.err = faultReached rows f ∧ qp.err = faultReached rows f := by
  intro q qm qp
  have h1 := loopG_mkCursor (fun acc r => acc ++ [scanIntoStruct sch (zeroRec sch) cols r]) rows f [] 0
  have h2 := loopG_mkCursor (fun acc r => acc ++ [scanIntoMap [] cols r]) rows f olds 0
  have h3 := loopG_mkCursor (fun (_ : Cell) (r : SRow) => r.headD none) rows f v0 0
  rw [foldl_append_singleton] at h1 h2
  simp only [List.nil_append, Nat.zero_add] at h1 h2 h3
  refine ⟨?_, ?_, h1.2.1, h2.2.1, h3.2.1, h1.2.2, h2.2.2, h3.2.2⟩
  · show Dest.structs sch _ = _; exact congrArg _ h1.1
  · show Dest.maps _ = _; exact congrArg _ h2.1

/-- finisher_api.go Scan (Rows, one rows.Next, ScanRows in ScanInitialized mode | else-branch) reports the SAME
    error and RowsAffected as Find on every cursor — in particular the driver's error whenever the fault is
    reached, never a silent prefix — and leaves the same destination content: map slices always, struct slices
    unless no row was read into a non-empty slice (¬F7e).  Holds for both transcriptions of the else-branch
    (`reset`); `C15_scan_eq_find_repaired` drops the exclusion for the repaired one. -/
theorem C15_scan_eq_find (reset : Bool) (rows : List SRow) (f : Option Nat) (cols : List String) (sch : Schema)
    (old olds : List Rec) :
    let q := queryPath (mkCursor rows f) false cols (.structs sch old)
    let s := dbScan reset (mkCursor rows f) cols (.structs sch old)
    let qm := queryPath (mkCursor rows f) false cols (.maps olds)
    let sm := dbScan reset (mkCursor rows f) cols (.maps olds)
    s.err = q.err ∧ s.ra = q.ra ∧ sm.err = qm.err ∧ sm.ra = qm.ra ∧ sm.dest = qm.dest
    ∧ (delivered rows f ≠ [] ∨ old = [] → s.dest = q.dest) := by
  dsimp only
  rw [mkCursor_eq]
  cases hd : delivered rows f with
  | nil =>
    cases hf : faultReached rows f <;> cases reset <;>
      simp [dbScan, noRowDest, queryPath, gormScan, finishScan, loopStructs, loopMaps, loopG]
  | cons r rs =>
    cases hf : faultReached rows f <;>
      simp [dbScan, queryPath, gormScan, finishScan]

/-- FULL strength for the transcription whose else-branch empties a slice destination (`reset = true`): on EVERY
    cursor and for EVERY previous content of the destination slice, Scan leaves exactly what Find leaves, with the
    same error and RowsAffected — the hypothesis that excluded F7e is gone. -/
theorem C15_scan_eq_find_repaired (rows : List SRow) (f : Option Nat) (cols : List String) (sch : Schema)
    (old olds : List Rec) :
    let q := queryPath (mkCursor rows f) false cols (.structs sch old)
    let s := dbScan true (mkCursor rows f) cols (.structs sch old)
    let qm := queryPath (mkCursor rows f) false cols (.maps olds)
    let sm := dbScan true (mkCursor rows f) cols (.maps olds)
    s.dest = q.dest ∧ s.err = q.err ∧ s.ra = q.ra ∧ sm.dest = qm.dest ∧ sm.err = qm.err ∧ sm.ra = qm.ra := by
  dsimp only
  rw [mkCursor_eq]
  cases hd : delivered rows f with
  | nil =>
    cases hf : faultReached rows f <;>
      simp [dbScan, noRowDest, queryPath, gormScan, finishScan, loopStructs, loopMaps, loopG]
  | cons r rs =>
    cases hf : faultReached rows f <;>
      simp [dbScan, queryPath, gormScan, finishScan]

/-- non-vacuity of the repaired case: two stale elements, an empty result / a fault before the first row -/
example : (dbScan true (mkCursor [] none) ["id"] (.structs [⟨"id", some 0, false⟩] [[("id", some 77)], [("id", some 78)]])).dest
      = .structs [⟨"id", some 0, false⟩] []
    ∧ (dbScan true (mkCursor [[some 1]] (some 0)) ["id"] (.structs [⟨"id", some 0, false⟩] [[("id", some 77)]])).dest
      = (queryPath (mkCursor [[some 1]] (some 0)) false ["id"] (.structs [⟨"id", some 0, false⟩] [[("id", some 77)]])).dest
    ∧ (dbScan true (mkCursor [] none) ["id"] (.maps [[("id", some 77)]])).dest = .maps [[("id", some 77)]] := by decide

/-- F7e (witness replayed on the real code), transcription whose else-branch does not touch dest: `Scan(&xs)`
    with `xs` non-empty and an empty result keeps the stale elements (RowsAffected 0), `Find(&xs)` on the same
    cursor empties the slice. -/
theorem C15_scan_keeps_dest_counterexample :
    (dbScan false (mkCursor [] none) ["id"] (.structs [⟨"id", some 0, false⟩] [[("id", some 77)]])).dest
        = .structs [⟨"id", some 0, false⟩] [[("id", some 77)]]
    ∧ (queryPath (mkCursor [] none) false ["id"] (.structs [⟨"id", some 0, false⟩] [[("id", some 77)]])).dest
        = .structs [⟨"id", some 0, false⟩] [] := ⟨rfl, rfl⟩

/-- F7e on the tree as it is now (regenerated facts): DB.Scan has its `if rows.Next() … else …` shape, and either
    the else-branch empties a slice destination and Scan leaves what Find leaves on EVERY cursor and previous
    content, or it does not and the listed witness keeps its stale element. -/
theorem C15_scan_keeps_dest_current_tree :
    Gen.scanElseBranchFound = true ∧
    ((Gen.scanNoRowResetsSlice = true ∧
        ∀ (rows : List SRow) (f : Option Nat) (cols : List String) (sch : Schema) (old : List Rec),
          (dbScan Gen.scanNoRowResetsSlice (mkCursor rows f) cols (.structs sch old)).dest
            = (queryPath (mkCursor rows f) false cols (.structs sch old)).dest) ∨
     (Gen.scanNoRowResetsSlice = false ∧
        (dbScan Gen.scanNoRowResetsSlice (mkCursor [] none) ["id"] (.structs [⟨"id", some 0, false⟩] [[("id", some 77)]])).dest
          ≠ (queryPath (mkCursor [] none) false ["id"] (.structs [⟨"id", some 0, false⟩] [[("id", some 77)]])).dest)) := by
  refine ⟨by decide, ?_⟩
  by_cases h : Gen.scanNoRowResetsSlice = true
  · left
    refine ⟨h, ?_⟩
    rw [h]
    intro rows f cols sch old
    exact (C15_scan_eq_find_repaired rows f cols sch old []).1
  · right
    have h' : Gen.scanNoRowResetsSlice = false := by simpa using h
    refine ⟨h', ?_⟩
    rw [h']; decide

/-- No multi-row read path returns a truncated prefix with a nil error: when Find, Scan or the caller's
    `for rows.Next() { ScanRows }` loop (checking `rows.Err()` afterwards) report no error, they have delivered
    EVERY row of the result set; when the driver fails within the result set, all three report it. -/
theorem C15_no_silent_prefix (reset : Bool) (rows : List SRow) (f : Option Nat) (cols : List String) (sch : Schema)
    (old : List Rec) (d : Dest) :
    let q := queryPath (mkCursor rows f) false cols (.structs sch old)
    let s := dbScan reset (mkCursor rows f) cols (.structs sch old)
    let l := rowsLoop cols (mkCursor rows f) d []
    (q.err = false → q.ra = rows.length)
    ∧ (s.err = false → s.ra = rows.length)
    ∧ (l.2 = false → l.1.length = rows.length)
    ∧ (faultReached rows f = true → q.err = true ∧ s.err = true ∧ l.2 = true)
    ∧ q.ra ≤ rows.length ∧ l.1.length = q.ra := by
  intro q s l
  have hq := C15_find_under_fault rows f false cols sch old [] none
  have hs := C15_scan_eq_find reset rows f cols sch old []
  have hl : l = (snapsOf cols d (delivered rows f), faultReached rows f) := rowsLoop_mkCursor cols rows f d
  simp only at hq hs
  obtain ⟨-, -, hra, -, -, herr, -, -⟩ := hq
  obtain ⟨hse, hsr, -⟩ := hs
  have hall : faultReached rows f = false → (delivered rows f).length = rows.length := fun h => by
    rw [delivered_all_of_not_reached rows f h]
  refine ⟨?_, ?_, ?_, ?_, ?_, ?_⟩
  · intro h; show q.ra = _; rw [hra]; exact hall (herr ▸ h)
  · intro h; show s.ra = _; rw [hsr, hra]; exact hall (herr ▸ hse ▸ h)
  · intro h; rw [hl] at h ⊢; simp only [snapsOf_length]; exact hall h
  · intro h; exact ⟨herr ▸ h, hse ▸ herr ▸ h, by rw [hl]; exact h⟩
  · show q.ra ≤ _; rw [hra]; exact delivered_length_le rows f
  · rw [hl]; show (snapsOf cols d (delivered rows f)).length = q.ra; rw [hra, snapsOf_length]

/-- scan.go scanIntoMap: EVERY result column is assigned — after the call the key is present and holds this row's
    cell, `nil` for SQL NULL included — whatever the map held before; keys that are not result columns are kept.
    So a map reused across rows / queries never shows a previous row's value, and a fresh map has a key per column. -/
theorem C15_map_columns_assigned (m : Rec) (cols : List String) (r : SRow) (hn : cols.Nodup) :
    (∀ c v, (c, v) ∈ cols.zip r → recGet (scanIntoMap m cols r) c = some v)
    ∧ (∀ k, k ∉ cols → recGet (scanIntoMap m cols r) k = recGet m k) :=
  ⟨fun c v h => scanIntoMap_get m cols r hn c v h, fun k h => scanIntoMap_get_other m cols r k h⟩

/-- non-vacuity: a NULL in the second column of the second row, one map reused for both rows -/
example : scanIntoMap (scanIntoMap [("zz", some 9)] ["id", "nick"] [some 1, some 7]) ["id", "nick"] [some 2, none]
    = [("zz", some 9), ("id", some 2), ("nick", none)] := by decide

/-- The streaming idiom `for rows.Next() { db.ScanRows(rows, &dest) }` with ONE destination declared outside the
    loop, over a cursor that may fail: as many snapshots as rows delivered, `rows.Err()` set iff the fault was
    reached; with a map the i-th snapshot reports the i-th row on every result column (NULL ⇒ key ↦ nil) whatever
    the map held before; with a struct (zeroed by ScanRows) it is what a fresh struct would hold. -/
theorem C15_rows_loop_reused_dest (cols : List String) (hn : cols.Nodup) (rows : List SRow) (f : Option Nat)
    (m : Rec) (sch : Schema) (v : Rec) :
    let lm := rowsLoop cols (mkCursor rows f) (.map1 m) []
    let ls := rowsLoop cols (mkCursor rows f) (.struct1 sch v) []
    lm.2 = faultReached rows f ∧ ls.2 = faultReached rows f
    ∧ lm.1.length = (delivered rows f).length
    ∧ (∀ i (hi : i < (delivered rows f).length), ∃ mi, lm.1[i]? = some (Dest.map1 mi)
        ∧ ∀ c x, (c, x) ∈ cols.zip (delivered rows f)[i] → recGet mi c = some x)
    ∧ ls.1 = (delivered rows f).map (fun r => Dest.struct1 sch (scanIntoStruct sch (zeroRec sch) cols r)) := by
  intro lm ls
  have h1 : lm = _ := rowsLoop_mkCursor cols rows f (.map1 m)
  have h2 : ls = _ := rowsLoop_mkCursor cols rows f (.struct1 sch v)
  rw [h1, h2]
  refine ⟨rfl, rfl, snapsOf_length _ _ _, ?_, snapsOf_struct_fresh _ _ _ _⟩
  intro i hi
  exact snapsOf_map_reports cols hn m (delivered rows f) i hi

/-- a struct element / a zeroed struct (slices, ScanRows, Scan): a selected column with a readable field holds the
    row's cell, and for NULL the field's zero value (nil pointer, invalid Null*, 0) — never an earlier row's value -/
theorem C15_struct_elem_values (sch : Schema) (cols : List String) (r : SRow) (hn : cols.Nodup)
    (c : String) (cell : Cell) (fl : FieldSpec) (hf : sch.field? c = some fl) (h : (c, cell) ∈ cols.zip r) :
    recGet (scanIntoStruct sch (zeroRec sch) cols r) c
      = some (match cell with | some x => some x | none => if fl.resetOnNull then none else fl.zero) := by
  rw [scanIntoStruct_get sch _ cols r hn c cell fl hf h, recGet_zeroRec sch c fl hf]
  cases cell <;> rfl

/-- F7d (witness replayed on the real code): `Take(&x)` with `x.B = {916 true}` left over and a row whose `b` is
    NULL: the Query path (mode 0, struct not zeroed; field.Set ignores NULL for Scanner / non-pointer kinds) keeps
    916, while Scan / ScanRows (struct zeroed first) report NULL. -/
theorem C15_stale_null_counterexample (reset : Bool) :
    (queryPath (mkCursor [[some 2, none]] none) true ["id", "b"]
        (.struct1 [⟨"id", some 0, false⟩, ⟨"b", none, false⟩] [("id", some 0), ("b", some 916)])).dest
      = .struct1 [⟨"id", some 0, false⟩, ⟨"b", none, false⟩] [("id", some 2), ("b", some 916)]
    ∧ (dbScan reset (mkCursor [[some 2, none]] none) ["id", "b"]
        (.struct1 [⟨"id", some 0, false⟩, ⟨"b", none, false⟩] [("id", some 0), ("b", some 916)])).dest
      = .struct1 [⟨"id", some 0, false⟩, ⟨"b", none, false⟩] [("id", some 2), ("b", none)] := by
  cases reset <;> decide

/-- ¬F7d: when every field that field.Set does not reset on NULL holds its zero value in the destination struct
    (in particular a fresh struct; pointer fields may hold anything), First/Take/Last/Find into that ONE struct
    report, on every selected column, exactly what Scan / ScanRows report. -/
theorem C15_single_struct_reuse_partial (reset : Bool) (sch : Schema) (v : Rec) (cols : List String) (r : SRow) (rest : List Ev)
    (raise : Bool) (hn : cols.Nodup)
    (hz : ∀ fl ∈ sch, fl.resetOnNull = false → (recGet v fl.name).getD fl.zero = fl.zero)
    (c : String) (cell : Cell) (fl : FieldSpec) (hf : sch.field? c = some fl) (h : (c, cell) ∈ cols.zip r) :
    ∃ a b, (queryPath (.row r :: rest) raise cols (.struct1 sch v)).dest = .struct1 sch a
      ∧ (dbScan reset (.row r :: rest) cols (.struct1 sch v)).dest = .struct1 sch b
      ∧ recGet a c = recGet b c := by
  refine ⟨scanIntoStruct sch v cols r, scanIntoStruct sch (zeroRec sch) cols r, rfl, rfl, ?_⟩
  rw [scanIntoStruct_get sch _ cols r hn c cell fl hf h, scanIntoStruct_get sch _ cols r hn c cell fl hf h,
    recGet_zeroRec sch c fl hf]
  have hmem : fl ∈ sch := List.mem_of_find?_eq_some hf
  have hname : fl.name = c := by
    have := List.find?_some hf
    simpa using this
  cases cell with
  | some x => rfl
  | none =>
    simp only [fieldSet, Option.getD_some]
    cases hr : fl.resetOnNull with
    | true => rfl
    | false =>
      have := hz fl hmem hr
      rw [hname] at this
      simp [this]

/-- single-row destinations under a fault: the error is reported iff the FIRST `rows.Next()` fails; a fault behind
    the consumed row is not looked at (the latitude the oracle leaves), and ErrRecordNotFound is raised exactly
    when the result set is empty and no error occurred. -/
theorem C15_single_under_fault (reset : Bool) (rows : List SRow) (f : Option Nat) (cols : List String) (m : Rec) :
    let q := queryPath (mkCursor rows f) true cols (.map1 m)
    let s := dbScan reset (mkCursor rows f) cols (.map1 m)
    (q.err = true ↔ f = some 0) ∧ (s.err = true ↔ f = some 0)
    ∧ (q.notFound = true ↔ rows = [] ∧ f ≠ some 0) ∧ s.notFound = false
    ∧ q.ra = s.ra ∧ (q.ra = 1 ↔ delivered rows f ≠ []) := by
  dsimp only
  cases f with
  | none =>
    cases rows <;> simp [mkCursor, queryPath, dbScan, gormScan, finishScan, delivered]
  | some k =>
    cases k with
    | zero => cases rows <;> simp [mkCursor, queryPath, dbScan, gormScan, finishScan, delivered]
    | succ k =>
      cases rows with
      | nil => simp [mkCursor, queryPath, dbScan, gormScan, finishScan, delivered]
      | cons r rs =>
        by_cases hk : k ≤ rs.length <;>
          simp [mkCursor, hk, queryPath, dbScan, gormScan, finishScan, delivered]


/-! ## Round 3 — concurrent readers: the scan-holder discipline of `scanIntoStruct`

  "… report the same rows and values" is demanded of every reader whatever other goroutines do with the same
  `*gorm.DB`.  The struct-destination paths borrow their per-column scan holders from `field.NewValuePool`, a
  process-wide `sync.Pool` keyed by Go type; a holder that is in the pool may be handed to any other goroutine,
  which then scans a foreign value into it.  Model/ScanPool.lean: the statement order of the function as regenerated
  from the source (`Gen.scanIntoStructOrder`), an interpreter of any such order (`rowsRun`: the Get / rows.Scan /
  field.Set / Put actions of one goroutine for n rows; tied to the real code by the `pool.trace` correspondence) and a
  `sync.Pool` shared by ANY number of goroutines under ANY interleaving (`step`). -/

open ScanPool in
/-- One pool, any number of goroutines, any schedule, any choice of the pool among its free holders: if every
    goroutine only scans into / reads / puts back slots whose holder it got and has not put back (`discAll`), then at
    every rows.Scan and field.Set the holder behind each slot is NOT IN THE POOL and no other slot of any goroutine
    owns it — "a holder is never in the pool while a row still reads it". -/
theorem C15_holder_never_pooled_while_read (es : List GEv) (s : GState) (hI : Inv s) (hd : discAll s es) :
    safeAll s es :=
  safeAll_of_discAll es s hI hd

open ScanPool in
/-- that bookkeeping is a per-goroutine matter: it can be checked on each goroutine's own action sequence -/
theorem C15_goroutine_bookkeeping_suffices (es : List GEv) (s : GState)
    (h : ∀ t, localOK (proj t es) (isOwned s t) = true) : discAll s es :=
  discAll_of_localOK es s h

open ScanPool in
/-- every `disciplined` statement order (one unguarded Get per field column before rows.Scan; after it, per field
    column, the reads and then one unguarded, non-deferred Put) keeps the bookkeeping for EVERY number of rows, every
    set of field columns and every slot state the result set starts with, and owns nothing afterwards -/
theorem C15_disciplined_order_keeps_bookkeeping (sk : Skeleton) (hd : disciplined sk = true) (ch : Nat → Bool)
    (fs : List Nat) (hfs : fs.Nodup) (n : Nat) (st : RunSt) (hst : st.defers = []) :
    localOK (rowsRun ch fs sk n st) noneOwned = true ∧
    ∀ i, ownAfter (rowsRun ch fs sk n st) noneOwned i = false :=
  rowsRun_localOK' sk hd ch fs hfs n st hst

open ScanPool in
/-- the facts regenerated from the tree under verification: scanIntoStruct's statement order is disciplined, no
    other code of package gorm / callbacks touches a value pool, gorm.Scan hands scanIntoStruct the `values` and `fields`
    tables it made itself for this call, prepareValues (map destinations) allocates its holders per row, and every pool's
    `New` builds a fresh holder.  Hoisting the Get out of the per-row
    path, deferring or moving the Put, or sharing `values` / the holders breaks THIS obligation. -/
theorem C15_holder_discipline_current_tree :
    Gen.scanIntoStructFound = true ∧
    disciplined (decodeSkeleton Gen.scanIntoStructOrder) = true ∧
    Gen.scanPoolCallsOutsideFieldLoops = 0 ∧
    Gen.scanIntoStructValuesLocal = true ∧
    Gen.scanIntoStructFieldsLocal = true ∧
    Gen.prepareValuesFresh = true ∧
    Gen.scanPoolNewFresh = true := by
  decide

open ScanPool in
/-- Headline for the tree under verification.  ANY number of goroutines, each reading ANY sequence of result sets (any
    numbers of rows, any field columns) through scanIntoStruct AS REGENERATED, interleaved in ANY way on one pool that
    hands out its free holders in ANY order: whenever a row is scanned or one of its fields is set, every holder
    involved is out of the pool and owned by that slot alone — no reader can see a value another reader scanned. -/
theorem C15_concurrent_scans_never_share_a_holder (es : List GEv) (ch : Nat → Nat → Bool)
    (qs : Nat → List (List Nat × Nat)) (hfs : ∀ t, ∀ q ∈ qs t, q.1.Nodup)
    (hint : IsInterleaving es
      (fun t => resultSets (ch t) (decodeSkeleton Gen.scanIntoStructOrder) (qs t))) :
    safeAll GState.init es :=
  concurrent_scans_safe _ C15_holder_discipline_current_tree.2.1 es ch qs hfs hint

namespace ScanPool

/-- "fetch the holder once per result set": `if values[idx] == nil { values[idx] = pool.Get(); defer pool.Put(values[idx]) }` -/
def hoistedGetOrder : Skeleton :=
  [.fieldLoop [.get .ifSlotNil, .put .ifSlotNil true], .scanAll, .fieldLoop [.set]]

/-- the Put moved in front of field.Set -/
def earlyPutOrder : Skeleton :=
  [.fieldLoop [.get .always], .scanAll, .fieldLoop [.put .always false, .set]]

def soloEvents (as : List Act) : List GEv := as.map fun a => { t := 0, act := a }

/-- goroutine 0 reads its first row, goroutine 1 starts a scan and receives the holder goroutine 0 just put back -/
def overlapPrefix : List GEv :=
  [{ t := 0, act := .get 0 }, { t := 0, act := .scan [0] }, { t := 0, act := .set 0 }, { t := 0, act := .put 0 },
   { t := 1, act := .get 0, pick := some 0 }]

end ScanPool

open ScanPool in
/-- The discipline is NECESSARY (1): with the Get hoisted out of the per-row path and the Put deferred, the second
    row of a SINGLE goroutine already scans into a holder that sits in the pool; and with a second goroutine whose Get
    receives that holder, goroutine 0's second row writes and reads through goroutine 1's holder.  (Sequentially
    nothing is visible: nobody else takes the holder.) -/
theorem C15_holder_hoisted_get_counterexample :
    disciplined hoistedGetOrder = false ∧
    anyPooledRead GState.init (soloEvents (rowsRun (fun _ => false) [0] hoistedGetOrder 2 {})) = true ∧
    proj 0 (overlapPrefix ++ [{ t := 0, act := .scan [0] }, { t := 0, act := .set 0 }])
      = rowsRun (fun _ => false) [0] hoistedGetOrder 2 {} ∧
    sharedWith (run GState.init overlapPrefix) { t := 0, act := .scan [0] } 1 0 = true := by
  decide

open ScanPool in
/-- The discipline is NECESSARY (2): with the Put in front of field.Set the very first row reads a pooled holder. -/
theorem C15_holder_early_put_counterexample :
    disciplined earlyPutOrder = false ∧
    anyPooledRead GState.init (soloEvents (rowsRun (fun _ => false) [0, 1] earlyPutOrder 1 {})) = true := by
  decide

open ScanPool in
/-- non-vacuity: the order of the unchanged tree is disciplined, and its hypotheses are met by a real overlap — two
    goroutines, two field columns, two rows each, goroutine 1 starting between goroutine 0's rows and receiving the
    holders goroutine 0 put back -/
example : disciplined [.fieldLoop [.get .always], .scanAll, .fieldLoop [.set, .put .always false]] = true := by decide

open ScanPool in
example :
    let sk : Skeleton := [.fieldLoop [.get .always], .scanAll, .fieldLoop [.set, .put .always false]]
    let row := rowsRun (fun _ => false) [0, 1] sk 1 {}
    let es : List GEv := (row.map fun a => { t := 0, act := a }) ++
      (row.map fun a => { t := 1, act := a, pick := some 0 }) ++ (row.map fun a => { t := 0, act := a })
    proj 0 es = resultSets (fun _ => false) sk [([0, 1], 2)] ∧ proj 1 es = resultSets (fun _ => false) sk [([0, 1], 1)]
      ∧ anyPooledRead GState.init es = false := by
  decide

/-! ## Round 4 — SELECT lists: which list each finisher sends, and the VALUES of computed columns

  `Gorm.ReadSelect` (Model/ReadSelect.lean): the chain's SELECT lives in `Statement.Selects` (string calls) and / or
  `Clauses["SELECT"]` (calls with bind arguments, `Clauses(clause.Select{…})`); each finisher installs its own list with
  AddClause or AddClauseIfNotExists — which one is REGENERATED (`Facts.current`, Gen/ReadSelectFacts.lean).
  "Report the same rows and values" for a chain with computed columns means: every path evaluates the SAME list. -/

open ReadSelect in
/-- The tree being verified uses the variants the property needs: BuildQuerySQL and Pluck only install a SELECT when
    the chain carries none (Pluck moreover only when `len(Selects) != 1`), Count overwrites and restores. -/
theorem C15_select_facts_current_tree : Facts.current = Facts.good := by decide

/-- Every operation of the read finishers (and BuildQuerySQL) on the SELECT / LIMIT / ORDER BY clauses, in source order —
    the regenerated table equals the one the models of Model/ReadPaths.lean, Model/Batches.lean and Model/ReadSelect.lean
    transcribe: First/Last = Limit(1) + Order(pk [DESC]), Take = Limit(1), FindInBatches = Order(pk), Offset(-1),
    Limit(batchSize); Count = deferred restore / delete of SELECT, AddClause ×2, delete + deferred restore of ORDER BY;
    Pluck and BuildQuerySQL = AddClauseIfNotExists. -/
theorem C15_read_clause_ops_current_tree :
    Gen.readClauseOps =
      [("First", "LIMIT", "chain.Limit(1)"),
       ("First", "ORDER BY", "chain.Order(clause.OrderByColumn{ Column: clause.Column{Table: clause.CurrentTable, Name: clause.PrimaryKey}, })"),
       ("Take", "LIMIT", "chain.Limit(1)"),
       ("Last", "LIMIT", "chain.Limit(1)"),
       ("Last", "ORDER BY", "chain.Order(clause.OrderByColumn{ Column: clause.Column{Table: clause.CurrentTable, Name: clause.PrimaryKey}, Desc: true, })"),
       ("FindInBatches", "ORDER BY", "chain.Order(clause.OrderByColumn{ Column: clause.Column{Table: clause.CurrentTable, Name: clause.PrimaryKey}, })"),
       ("FindInBatches", "LIMIT", "chain.Offset(-1)"),
       ("FindInBatches", "LIMIT", "chain.Limit(batchSize)"),
       ("Count", "SELECT", "restore.deferred"),
       ("Count", "SELECT", "delete.deferred"),
       ("Count", "SELECT", "AddClause"),
       ("Count", "SELECT", "AddClause"),
       ("Count", "ORDER BY", "delete"),
       ("Count", "ORDER BY", "restore.deferred"),
       ("Pluck", "SELECT", "AddClauseIfNotExists"),
       ("BuildQuerySQL", "SELECT", "AddClauseIfNotExists")] := by
  decide

open ReadSelect in
/-- However the chain's SELECT was given — strings, `?` / named arguments, user clauses, in ANY sequence of calls from
    any earlier state — the list Find (First, Take, Last, Rows, Scan, FindInBatches) sends is the one the LAST call asked
    for. -/
theorem C15_select_later_call_wins {ι : Type} (st : SelState ι) (cs : List (SelCall ι)) (c : SelCall ι) :
    find Facts.good (st.calls (cs ++ [c])) none = c.asked := by
  simp only [SelState.calls, List.foldl_append, List.foldl_cons, List.foldl_nil]
  cases c <;> simp [find, SelState.query, SelState.call, SelState.add, SelState.computed, SelCall.asked, Facts.good]

open ReadSelect in
/-- Pluck on a chain that carries a SELECT (one `Selects` entry, or a clause — the parameterised spellings live ONLY
    there) sends the chain's list, whatever column name it was given: for every row it reports exactly the values Find
    reports, computed columns included. -/
theorem C15_pluck_reads_chain_select {ι ρ ν : Type} (st : SelState ι) (c : ι)
    (h : st.selects.length = 1 ∨ st.clause.isSome = true) (ev : ι → ρ → ν) (all : List ι) (cnt : ν) (r : ρ) :
    pluck Facts.good st c = find Facts.good st none ∧
      (pluck Facts.good st c).eval ev all cnt r = (find Facts.good st none).eval ev all cnt r := by
  have key : pluck Facts.good st c = find Facts.good st none := by
    rcases h with h | h
    · simp [pluck, find, pluckState, Facts.good, h]
    · cases hc : st.clause with
      | none => simp [hc] at h
      | some l =>
        by_cases hl : st.selects.length = 1
        · simp [pluck, find, pluckState, Facts.good, hl]
        · simp [pluck, find, pluckState, Facts.good, hl, SelState.add, SelState.query, hc]
  exact ⟨key, by rw [key]⟩

open ReadSelect in
/-- … in particular after any sequence of Select calls that ends in a single-entry string Select, a Select with bind
    arguments, or a user clause. -/
theorem C15_select_values_agree {ι ρ ν : Type} (st : SelState ι) (cs : List (SelCall ι)) (c : SelCall ι) (p : ι)
    (hc : ∀ es, c = .strings es → es.length = 1) (ev : ι → ρ → ν) (all : List ι) (cnt : ν) (r : ρ) :
    (pluck Facts.good (st.calls (cs ++ [c])) p).eval ev all cnt r = c.asked.eval ev all cnt r := by
  have h : (st.calls (cs ++ [c])).selects.length = 1 ∨ (st.calls (cs ++ [c])).clause.isSome = true := by
    simp only [SelState.calls, List.foldl_append, List.foldl_cons, List.foldl_nil]
    cases c with
    | strings es => left; simpa [SelState.call] using hc es rfl
    | expr is => right; simp [SelState.call]
    | clause l => right; simp [SelState.call]
  rw [(C15_pluck_reads_chain_select _ p h ev all cnt r).2, C15_select_later_call_wins]

open ReadSelect in
/-- On a chain without SELECT, Pluck(c) reports column c of every row. -/
theorem C15_pluck_plain_column {ι ρ ν : Type} (c : ι) (ev : ι → ρ → ν) (all : List ι) (cnt : ν) (r : ρ) :
    (pluck Facts.good ({} : SelState ι) c).eval ev all cnt r = [ev c r] := by
  simp [pluck, pluckState, Facts.good, SelState.add, SelState.query, SelList.eval]

open ReadSelect in
/-- NECESSITY of AddClauseIfNotExists in Pluck: with AddClause a parameterised chain SELECT (item 7 = an aliased
    expression) is overwritten by the plucked column (item 1 = the raw column of that name). -/
theorem C15_pluck_overwrite_counterexample :
    pluck { Facts.good with pluckAdd := .always } ({ clause := some (.list [7]) } : SelState Nat) 1 = .list [1] ∧
    find { Facts.good with pluckAdd := .always } ({ clause := some (.list [7]) } : SelState Nat) none = .list [7] := by
  decide

open ReadSelect in
/-- Count sends its own expression whatever SELECT the chain carries, and the handle it returns carries the chain's
    SELECT again (a following Find evaluates the same list as before). -/
theorem C15_count_select_restored {ι : Type} (st : SelState ι) (dest : Option (List ι)) :
    countQuery Facts.good st = .count ∧ afterCount Facts.good st = st ∧
      find Facts.good (afterCount Facts.good st) dest = find Facts.good st dest := by
  refine ⟨?_, rfl, rfl⟩
  cases hc : st.clause <;> simp [countQuery, SelState.add, SelState.query, Facts.good, hc]

open ReadSelect in
/-- NECESSITY: Count with AddClauseIfNotExists would send the chain's parameterised list instead of a count; Count
    without the restore leaves `count` on the returned handle. -/
theorem C15_count_variants_counterexample :
    countQuery { Facts.good with countAdd := .ifAbsent } ({ clause := some (.list [7]) } : SelState Nat) = .list [7] ∧
    find Facts.good (afterCount { Facts.good with countRestores := false } ({ selects := [[3]] } : SelState Nat)) none = .count := by
  decide

open ReadSelect in
/-- The same statements for the tree being verified (fails to build when a regenerated variant changes). -/
theorem C15_select_current_tree {ι ρ ν : Type} (st : SelState ι) (c : ι)
    (h : st.selects.length = 1 ∨ st.clause.isSome = true) (ev : ι → ρ → ν) (all : List ι) (cnt : ν) (r : ρ) :
    (pluck Facts.current st c).eval ev all cnt r = (find Facts.current st none).eval ev all cnt r ∧
      countQuery Facts.current st = .count ∧ afterCount Facts.current st = st := by
  rw [C15_select_facts_current_tree]
  exact ⟨(C15_pluck_reads_chain_select st c h ev all cnt r).2, (C15_count_select_restored st none).1, rfl⟩

/-! ### map destinations report every result column's own value -/

open ReadSelect in
/-- scan.go prepareValues → rows.Scan → scanIntoMap with one holder per result column: the map row carries, for every
    column (model field or not, any number of computed columns), exactly the value the driver delivered. -/
theorem C15_map_row_values_exact {ν : Type} (isField : List Bool) (vals : List ν) (hl : isField.length = vals.length) :
    mapRow (prepareHolders true isField) vals = vals.map some :=
  mapRow_nodup _ _ (prepareHolders_perColumn_nodup isField) (by rw [prepareHolders_length]; exact hl)

open ReadSelect in
/-- … for the tree being verified: the regenerated fact says every `values[idx] = …` of prepareValues allocates inside
    the loop over the columns. -/
theorem C15_map_row_values_current_tree {ν : Type} (isField : List Bool) (vals : List ν)
    (hl : isField.length = vals.length) :
    Gen.prepareValuesPerColumn = true ∧ mapRow (prepareHolders Gen.prepareValuesPerColumn isField) vals = vals.map some :=
  ⟨by decide, by
    have : Gen.prepareValuesPerColumn = true := by decide
    rw [this]; exact C15_map_row_values_exact isField vals hl⟩

open ReadSelect in
/-- NECESSITY: one holder shared by the columns that are no model fields — with two computed columns the map reports the
    LAST one's value under both keys (columns: id, dbl, name, uname). -/
theorem C15_map_row_shared_holder_counterexample :
    mapRow (prepareHolders false [true, false, true, false]) ["1", "14", "ann", "ANN"]
      = [some "1", some "ANN", some "ann", some "ANN"] := by
  decide

/-! ### Count's expression for a one-entry string Select — finding F7g-C15-count-alias -/

open ReadSelect in
/-- F7g: for `Select("3 AS k7")` Count quotes the WHOLE string as a column name — which no table of the suite has —
    while Find evaluates the expression. -/
theorem C15_count_alias_counterexample :
    countColumn "3 AS k7" ["3", "AS", "k7"] = some "3 AS k7" ∧
      "3 AS k7" ∉ ["id", "name", "age", "score", "grp"] := by
  decide

open ReadSelect in
/-- Outside the pattern of F7g the expression stays `count(*)` (no column is named): Count = number of rows. -/
theorem C15_count_expr_partial (entry : String) (fields : List String) (h : countsWholeString fields = false) :
    countColumn entry fields = none := by
  simp [countColumn, h]

/-! ## Round 4 — FindInBatches on key shapes other than one unique column (Model/KeyCursor.lean) -/

open KeyCursor in
/-- A schema without prioritized primary field (composite key without ID / auto-increment member, or no key): the
    loop never pages on anything else — what it hands out is a PREFIX of the table, and whenever it reports no
    ErrPrimaryKeyRequired it has delivered every row, once each, in order.  (An honest refusal, never a silent loss.) -/
theorem C15_keys_no_cursor_honest (rows : List (Nat × Nat)) (batch fuel : Nat) (hb : 0 < batch) :
    (batchesK false rows batch (fuel + 1) none).delivered <+: rows.map (·.1) ∧
      ((batchesK false rows batch (fuel + 1) none).pkRequired = false →
        (batchesK false rows batch (fuel + 1) none).delivered = rows.map (·.1)) :=
  ⟨noCursor_prefix rows batch (fuel + 1) none rfl, noCursor_complete rows batch fuel hb⟩

open KeyCursor in
/-- A cursor column that is unique (strictly increasing in delivery order) and never zero — string keys, keys not named
    ID, `column:`-renamed keys: every row exactly once, in key order, no error, batches non-empty and ≤ the request,
    for every table size and batch size. -/
theorem C15_keys_unique_cursor_exact (rows : List (Nat × Nat)) (batch : Nat) (hb : 0 < batch)
    (hs : rows.Pairwise (fun a b => a.2 < b.2)) (hp : ∀ r ∈ rows, 0 < r.2) :
    let o := batchesK true rows batch (rows.length + 1) none
    o.delivered = rows.map (·.1) ∧ o.pkRequired = false ∧ o.fuelOut = false ∧
      ∀ b ∈ o.batches, b ≠ [] ∧ b.length ≤ batch :=
  uniqueCursor_exact rows batch hb hs hp

open KeyCursor in
/-- F7h (and the shape of seed m11): paging on a column that REPEATS — rows (1,1) (1,2) (1,3) (2,1), cursor column =
    first key part, batch 2 — silently skips the rest of the run: row 2 is never delivered, no error. -/
theorem C15_keys_shared_cursor_counterexample :
    (batchesK true [(0, 1), (1, 1), (2, 1), (3, 2)] 2 5 none).delivered = [0, 1, 3] ∧
      (batchesK true [(0, 1), (1, 1), (2, 1), (3, 2)] 2 5 none).pkRequired = false := by
  decide

open KeyCursor in
/-- The tree being verified reads the cursor from `Schema.PrioritizedPrimaryField`, compares it with nil under
    ErrPrimaryKeyRequired and pages on clause.PrimaryKey (regenerated): a schema without prioritized field gets NO cursor,
    hence the honest behaviour of `C15_keys_no_cursor_honest`. -/
theorem C15_keys_cursor_current_tree (rows : List (Nat × Nat)) (batch fuel : Nat) (hb : 0 < batch) :
    Gen.findInBatchesCursorFallback = false ∧
      Gen.findInBatchesCursorField = "result.Statement.Schema.PrioritizedPrimaryField" ∧
      cursorFor Gen.findInBatchesCursorFallback false = false ∧
      ((batchesK (cursorFor Gen.findInBatchesCursorFallback false) rows batch (fuel + 1) none).pkRequired = false →
        (batchesK (cursorFor Gen.findInBatchesCursorFallback false) rows batch (fuel + 1) none).delivered = rows.map (·.1)) := by
  have h : Gen.findInBatchesCursorFallback = false := by decide
  refine ⟨h, by decide, by simp [cursorFor, h], ?_⟩
  simp only [cursorFor, h, Bool.or_false]
  exact (C15_keys_no_cursor_honest rows batch fuel hb).2

/-- non-vacuity: a two-call chain (string Select replaced by a parameterised one), a table with two rows -/
example : ReadSelect.find ReadSelect.Facts.good
    ((({} : ReadSelect.SelState Nat).calls [.strings [[1, 2]], .expr [7]])) none = .list [7] := by decide
example : (KeyCursor.batchesK true [(0, 1), (1, 2), (2, 3), (3, 5), (4, 9)] 2 6 none).batches = [[0, 1], [2, 3], [4]] := by decide
example : (KeyCursor.batchesK false [(0, 1), (1, 1), (2, 1)] 2 4 none).pkRequired = true := by decide

end Gorm
