/-
  C08 — soft-deleted records are invisible and untouched unless Unscoped is requested: the filter core.

  `softDeleteModify` (Model/Where.lean) transcribes `SoftDeleteQueryClause.ModifyStatement` (also reached
  through the update and delete clauses): regroup the user's conditions into one And when any of them is a
  single-member Or, append `deleted_at IS NULL` (or the zero-value comparison), set the marker.
-/
import GormModel.Lemmas.Where
import GormModel.Props.C02
namespace Gorm

/-- the user's conditions after the regrouping step -/
def regroup (es : List Ex) : List Ex := if es.any Ex.isSingleOr then (mkAnd es).toList else es

theorem softDeleteModify_exprs (f : Atom) (s : WhereState) (h : s.softEnabled = false) :
    (softDeleteModify false f s).exprs = some (regroup (s.exprs.getD []) ++ [.atom f]) := by
  simp [softDeleteModify, h, regroup]

theorem regroup_noSingleOr (es : List Ex) : noSingleOr (regroup es) = true := by
  unfold regroup
  by_cases h : es.any Ex.isSingleOr = true
  · simp only [h, if_true]
    cases es with
    | nil => simp [mkAnd, noSingleOr]
    | cons e r =>
      cases r with
      | nil =>
        simp only [mkAnd]
        by_cases ho : e.isOr = true
        · simp [ho, noSingleOr, Ex.isSingleOr]
        · -- impossible: the only member is a single-member Or, hence an Or
          simp only [List.any_cons, List.any_nil, Bool.or_false] at h
          cases e <;> simp_all [Ex.isSingleOr, Ex.isOr]
      | cons e2 r2 => simp [mkAnd, noSingleOr, Ex.isSingleOr]
  · have h' : es.any Ex.isSingleOr = false := by simpa using h
    simp only [h', Bool.false_eq_true, if_false]
    simp only [noSingleOr, List.all_eq_true, Bool.not_eq_true']
    intro e he
    have := List.any_eq_false.mp h' e he
    simpa using this

theorem whereExprs_with_filter (es : List Ex) (f : Atom) :
    whereExprs (regroup es ++ [.atom f]) = regroup es ++ [.atom f] := by
  have hn := regroup_noSingleOr es
  cases hr : regroup es with
  | nil => simp [whereExprs, unwrapSingleAnd, swapFirst, firstNonSingleOr, Ex.isSingleOr]
  | cons e r =>
    rw [hr] at hn
    have he : e.isSingleOr = false := by
      simp only [noSingleOr, List.all_cons, Bool.and_eq_true, Bool.not_eq_true'] at hn; exact hn.1
    cases r with
    | nil =>
      show swapFirst (unwrapSingleAnd [e, .atom f]) = _
      rw [unwrapSingleAnd_of_two, swapFirst_of_head _ _ he]; rfl
    | cons e2 r2 =>
      show swapFirst (unwrapSingleAnd (e :: e2 :: (r2 ++ [.atom f]))) = _
      rw [unwrapSingleAnd_of_two, swapFirst_of_head _ _ he]; rfl

/-- MAIN: whatever conditions the user supplied — none, a leading Or, Not, groups, raw strings — the
    soft-delete filter is a TOP-LEVEL CONJUNCT of the rendered WHERE: the text means
    `(user conditions as regrouped) AND filter`.  Hypothesis `whereSound` on the final list (its failure is
    finding F2: a raw string with a top-level OR under the single-member wrappers the regrouping creates). -/
theorem C08_filter_conjunct (env : Nat → V3) (es : List Ex) (f : Atom)
    (h : whereSound (regroup es ++ [.atom f]) = true) :
    sqlEval env (whereBuild (regroup es ++ [.atom f])) =
      (listSpec env .and (regroup es)).and (cmpVal env f) := by
  rw [C02_where_units env _ h, whereExprs_with_filter]
  rw [listSpec_append env _ _ (regroup_noSingleOr es) (by rfl), unitVal_cmp]

/-- … hence no row whose soft-delete column is set is ever selected, counted, updated or re-deleted -/
theorem C08_deleted_invisible (env : Nat → V3) (es : List Ex) (f : Atom)
    (h : whereSound (regroup es ++ [.atom f]) = true)
    (hsel : sqlEval env (whereBuild (regroup es ++ [.atom f])) = .t) : cmpVal env f = .t := by
  rw [C08_filter_conjunct env es f h] at hsel
  exact ((V3.and_eq_t _ _).mp hsel).2

/-- the statement modifier applied to a chain's WHERE state yields exactly that list -/
theorem C08_modify_shape (es : List Ex) (f : Atom) :
    (softDeleteModify false f { exprs := if es.isEmpty then none else some es, softEnabled := false }).exprs
      = some (regroup es ++ [.atom f]) := by
  rw [softDeleteModify_exprs _ _ rfl]
  cases es <;> simp [regroup]

/-- Unscoped: no filter, nothing regrouped -/
theorem C08_unscoped (f : Atom) (s : WhereState) : softDeleteModify true f s = s := by
  simp [softDeleteModify]

/-- the marker makes the modifier idempotent (query clauses may be added more than once per statement) -/
theorem C08_modify_once (un : Bool) (f : Atom) (s : WhereState) :
    softDeleteModify un f (softDeleteModify un f s) = softDeleteModify un f s := by
  cases un <;> by_cases h : s.softEnabled = true <;> simp [softDeleteModify, h]

/-- FINDING F2 (kernel-checked): `db.Or("a OR b")` on a soft-delete model — the regrouping wraps the single Or in a
    single-member And, `buildExprs` looks through one wrapper only, the raw string is written bare:
    `a OR b AND deleted_at IS NULL`; a soft-deleted row satisfying `a` is selected -/
theorem C08_leading_or_counterexample :
    let raw := Ex.raw ['a', ' ', 'O', 'R', ' ', 'b'] false "a OR b" [(.and, 0, .atom 0 true "a"), (.or, 0, .atom 1 true "b")]
    let f : Atom := { col := "deleted_at", kind := .eq, val := .nil, id := 2 }
    let env := envOf [.t, .f, .f]   -- a holds, b fails, the row IS soft-deleted (deleted_at IS NULL is false)
    whereSound (regroup [.or [raw]] ++ [.atom f]) = false ∧
    sqlEval env (whereBuild (regroup [.or [raw]] ++ [.atom f])) = .t ∧ cmpVal env f = .f := by
  decide

/-- non-vacuity: a chain with a leading Or of a map, a Not and a raw string satisfies the hypothesis -/
example :
    whereSound (regroup (chainExprs [
      (.or_, .fields [{ col := "a", kind := .eq, val := .scalar, id := 0 }, { col := "b", kind := .eq, val := .nil, id := 1 }]),
      (.not_, .col { col := "c", kind := .gt, val := .scalar, id := 4 }),
      (.or_, .raw ['x', ' ', 'O', 'R', ' ', 'y'] false "x OR y" [(.and, 0, .atom 2 true "x"), (.or, 0, .atom 3 true "y")])])
      ++ [.atom { col := "deleted_at", kind := .eq, val := .nil, id := 5 }]) = true := by decide

end Gorm
