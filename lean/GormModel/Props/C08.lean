/-
  C08 — soft-deleted records are invisible and untouched unless Unscoped is requested: the filter core.

  `softDeleteModify` (Model/Where.lean) transcribes `SoftDeleteQueryClause.ModifyStatement` (also reached
  through the update and delete clauses): regroup the user's conditions into one And when any of them is a
  single-member Or, append `deleted_at IS NULL` (or the zero-value comparison), set the marker.
-/
import GormModel.Lemmas.Where
import GormModel.Lemmas.StmtReuse
import GormModel.Lemmas.SchemaParse
import GormModel.Lemmas.SoftDeleteMode
import GormModel.Lemmas.AssocScope
import GormModel.Lemmas.PreloadAssign
import GormModel.Props.C02
namespace Gorm

/-- MAIN: whatever conditions the user supplied — none, a leading Or, Not, groups, raw strings — the
    soft-delete filter is a TOP-LEVEL CONJUNCT of the rendered WHERE: the text means
    `(user conditions as regrouped) AND filter`.  Hypothesis `whereSound` on the final list (its failure is
    finding F2: a raw string with a top-level OR under the single-member wrappers the regrouping creates). -/
theorem C08_filter_conjunct (env : Nat → V3) (es : List Ex) (f : Atom)
    (h : whereSound (regroup es ++ [.atom f]) = true) :
    sqlEval env (whereBuild (regroup es ++ [.atom f])) =
      (listSpec env .and (regroup es)).and (cmpVal env f) := by
  rw [C02_where_units env _ h, whereExprs_with_filter]
  rw [listSpec_append env _ _ (regroup_noSingleOr es) (by rfl), unitVal_cmp]

/-- … hence no row whose soft-delete column is set is ever selected, counted, updated or re-deleted -/
theorem C08_deleted_invisible (env : Nat → V3) (es : List Ex) (f : Atom)
    (h : whereSound (regroup es ++ [.atom f]) = true)
    (hsel : sqlEval env (whereBuild (regroup es ++ [.atom f])) = .t) : cmpVal env f = .t := by
  rw [C08_filter_conjunct env es f h] at hsel
  exact ((V3.and_eq_t _ _).mp hsel).2

/-- appending AND-joined members to a conjunction list ANDs their meanings to the whole -/
theorem listSpec_append_list (env : Nat → V3) (l post : List Ex) (hl : noSingleOr l = true) (hp : noSingleOr post = true) :
    listSpec env .and (l ++ post) = andUnits env (listSpec env .and l) post := by
  induction post generalizing l with
  | nil => simp [andUnits]
  | cons x r ih =>
    simp only [noSingleOr, List.all_cons, Bool.and_eq_true, Bool.not_eq_true'] at hp
    obtain ⟨hx, hr⟩ := hp
    have hr' : noSingleOr r = true := by simpa [noSingleOr] using hr
    have hlx : noSingleOr (l ++ [x]) = true := by
      simp only [noSingleOr, List.all_append, Bool.and_eq_true] at hl ⊢
      exact ⟨hl, by simp [hx]⟩
    have := ih (l ++ [x]) hlx hr'
    rw [List.append_assoc, List.singleton_append] at this
    rw [this, listSpec_append env l x hl hx]
    rfl

/-- the filter followed by later additions: `Where.Build` neither unwraps nor swaps -/
theorem whereExprs_with_filter_post (es : List Ex) (f : Atom) (post : List Ex) :
    whereExprs (regroup es ++ .atom f :: post) = regroup es ++ .atom f :: post := by
  have hn := regroup_noSingleOr es
  cases hr : regroup es with
  | nil =>
    show swapFirst (unwrapSingleAnd (.atom f :: post)) = _
    have hu : unwrapSingleAnd (.atom f :: post) = .atom f :: post := by cases post <;> rfl
    rw [hu, swapFirst_of_head _ _ (by rfl)]; rfl
  | cons e r =>
    rw [hr] at hn
    have he : e.isSingleOr = false := by
      simp only [noSingleOr, List.all_cons, Bool.and_eq_true, Bool.not_eq_true'] at hn; exact hn.1
    cases r with
    | nil =>
      show swapFirst (unwrapSingleAnd (e :: .atom f :: post)) = _
      rw [unwrapSingleAnd_of_two, swapFirst_of_head _ _ he]; rfl
    | cons e2 r2 =>
      show swapFirst (unwrapSingleAnd (e :: e2 :: (r2 ++ .atom f :: post))) = _
      rw [unwrapSingleAnd_of_two, swapFirst_of_head _ _ he]; rfl

/-- REUSE: on a statement that already carries the filter (installed by an earlier finisher), conditions added later
    by Where/Not/inline/primary key (`post`, none of them an `Or`) leave the filter a TOP-LEVEL CONJUNCT -/
theorem C08_filter_conjunct_reuse (env : Nat → V3) (es : List Ex) (f : Atom) (post : List Ex)
    (h : whereSound (regroup es ++ .atom f :: post) = true) (hp : noSingleOr post = true) :
    sqlEval env (whereBuild (regroup es ++ .atom f :: post)) =
      andUnits env ((listSpec env .and (regroup es)).and (cmpVal env f)) post := by
  rw [C02_where_units env _ h, whereExprs_with_filter_post]
  have hl : noSingleOr (regroup es ++ [.atom f]) = true := by
    have hn := regroup_noSingleOr es
    simp only [noSingleOr, List.all_append, Bool.and_eq_true] at hn ⊢
    exact ⟨hn, by simp [Ex.isSingleOr]⟩
  have hsplit : regroup es ++ .atom f :: post = (regroup es ++ [.atom f]) ++ post := by simp
  rw [hsplit, listSpec_append_list env _ _ hl hp,
    listSpec_append env _ _ (regroup_noSingleOr es) (by rfl), unitVal_cmp]

theorem andUnits_eq_t (env : Nat → V3) (cur : V3) (l : List Ex) (h : andUnits env cur l = .t) : cur = .t := by
  induction l generalizing cur with
  | nil => exact h
  | cons e r ih => exact ((V3.and_eq_t _ _).mp (ih _ h)).1

theorem C08_deleted_invisible_reuse (env : Nat → V3) (es : List Ex) (f : Atom) (post : List Ex)
    (h : whereSound (regroup es ++ .atom f :: post) = true) (hp : noSingleOr post = true)
    (hsel : sqlEval env (whereBuild (regroup es ++ .atom f :: post)) = .t) : cmpVal env f = .t := by
  rw [C08_filter_conjunct_reuse env es f post h hp] at hsel
  exact ((V3.and_eq_t _ _).mp (andUnits_eq_t env _ post hsel)).2

/-- FINDING F25 (kernel-checked): `h.Where(a).Count(&n)` installs the filter on h's statement; a later `h.Or(b).Find(..)`
    appends the Or AFTER the filter: `a AND deleted_at IS NULL OR b` — a soft-deleted row satisfying `b` is selected -/
theorem C08_or_after_filter_counterexample :
    let a : Atom := { col := "a", kind := .eq, val := .scalar, id := 0 }
    let b : Atom := { col := "b", kind := .eq, val := .scalar, id := 1 }
    let f : Atom := { col := "deleted_at", kind := .eq, val := .nil, id := 2 }
    let cfg : StmtCfg := { soft := some f, modelKey := [], allowGlobal := false }
    let s := stmtRun cfg StmtState.fresh [.cond .where_ (.col a), .fin .count [] false, .cond .or_ (.col b), .fin .find [] false]
    let env := envOf [.f, .t, .f]   -- a fails, b holds, the row IS soft-deleted
    s.w.softEnabled = true ∧ noSingleOr ((s.w.exprs.getD []).drop 2) = false ∧
    sqlEval env (whereBuild (s.w.exprs.getD [])) = .t ∧ cmpVal env f = .f := by
  decide

/-- the statement modifier applied to a chain's WHERE state yields exactly that list -/
theorem C08_modify_shape (es : List Ex) (f : Atom) :
    (softDeleteModify false f { exprs := if es.isEmpty then none else some es, softEnabled := false }).exprs
      = some (regroup es ++ [.atom f]) := by
  rw [softDeleteModify_exprs _ _ rfl]
  cases es <;> simp [regroup]

/-- Unscoped: no filter, nothing regrouped -/
theorem C08_unscoped (f : Atom) (s : WhereState) : softDeleteModify true f s = s := by
  simp [softDeleteModify]

/-- the marker makes the modifier idempotent (query clauses may be added more than once per statement) -/
theorem C08_modify_once (un : Bool) (f : Atom) (s : WhereState) :
    softDeleteModify un f (softDeleteModify un f s) = softDeleteModify un f s := by
  cases un <;> by_cases h : s.softEnabled = true <;> simp [softDeleteModify, h]

/-- FINDING F2 (kernel-checked): `db.Or("a OR b")` on a soft-delete model — the regrouping wraps the single Or in a
    single-member And, `buildExprs` looks through one wrapper only, the raw string is written bare:
    `a OR b AND deleted_at IS NULL`; a soft-deleted row satisfying `a` is selected -/
theorem C08_leading_or_counterexample :
    let raw := Ex.raw ['a', ' ', 'O', 'R', ' ', 'b'] false "a OR b" [(.and, 0, .atom 0 true "a"), (.or, 0, .atom 1 true "b")]
    let f : Atom := { col := "deleted_at", kind := .eq, val := .nil, id := 2 }
    let env := envOf [.t, .f, .f]   -- a holds, b fails, the row IS soft-deleted (deleted_at IS NULL is false)
    whereSound (regroup [.or [raw]] ++ [.atom f]) = false ∧
    sqlEval env (whereBuild (regroup [.or [raw]] ++ [.atom f])) = .t ∧ cmpVal env f = .f := by
  decide

/-- non-vacuity: a chain with a leading Or of a map, a Not and a raw string satisfies the hypothesis -/
example :
    whereSound (regroup (chainExprs [
      (.or_, .fields [{ col := "a", kind := .eq, val := .scalar, id := 0 }, { col := "b", kind := .eq, val := .nil, id := 1 }]),
      (.not_, .col { col := "c", kind := .gt, val := .scalar, id := 4 }),
      (.or_, .raw ['x', ' ', 'O', 'R', ' ', 'y'] false "x OR y" [(.and, 0, .atom 2 true "x"), (.or, 0, .atom 3 true "y")])])
      ++ [.atom { col := "deleted_at", kind := .eq, val := .nil, id := 5 }]) = true := by decide

end Gorm
