/-
  C12 — association mode (Append / Replace / Delete / Clear): for every sequence of scoped calls on one owner,
  every relation kind, the stored links are exactly what plain set algebra defines; the in-memory field and
  Find agree with them; no target record is lost.
-/
import GormModel.Model.Assoc
import GormModel.Lemmas.Assoc
import GormModel.Lemmas.AssocPoly        -- polymorphic relations over a shared target table: link = (owner type, owner id, target)
import GormModel.Lemmas.AssocRef        -- referenced (non-primary) columns, argument records, zero-argument calls (regenerated sites)
import GormModel.Lemmas.AssocFindings   -- kernel-checked witnesses of the listed findings + composite-key partial theorems
import GormModel.Lemmas.AssocHandle     -- handles as values: Unscoped() is pure, sticky errors, reuse of a used *gorm.DB (F12h)
import GormModel.Model.AssocSlices      -- round 6: backing arrays / slice headers of the in-memory relation field
import GormModel.Lemmas.AssocKeys       -- record identity over typed key tuples: the IN lists name exactly the named tuples
namespace Gorm
open Gorm.Assoc

namespace Assoc

/-- every call of the sequence is well-formed in the state it is issued in -/
def RunOk (r : Rel) (o : Nat) : List Op → St → Prop
  | [], _ => True
  | op :: ops, s => OpOk r s op ∧ RunOk r o ops (step r [o] op s)

/-- the same with Unscoped allowed for the classes fk and m2m -/
def RunOkU (r : Rel) (o : Nat) : List Op → St → Prop
  | [], _ => True
  | op :: ops, s => OpOkU r s op ∧ RunOkU r o ops (step r [o] op s)

theorem RunOk.toU {r o} : ∀ {ops s}, RunOk r o ops s → RunOkU r o ops s
  | [], _, _ => trivial
  | _ :: _, _, h => ⟨h.1.toU, RunOk.toU h.2⟩

/-- the specification: (next key, set of linked targets of the owner) under plain set algebra -/
def specStep (r : Rel) (op : Op) (σ : Nat × List Nat) : Nat × List Nat :=
  match op.kind with
  | .append =>
    if op.vals = [] then σ
    else (σ.1 + zeros (opVs op), if r.card1 then fill (opVs op) σ.1 else σ.2 ++ fill (opVs op) σ.1)
  | .replace => (σ.1 + zeros (opVs op), fill (opVs op) σ.1)
  | .clear => (σ.1, [])
  | .delete => (σ.1, σ.2.filter (· ∉ opVs op))

def specRun (r : Rel) : List Op → Nat × List Nat → Nat × List Nat
  | [], σ => σ
  | op :: ops, σ => specRun r ops (specStep r op σ)

theorem mem_linksOf (s : St) (o t : Nat) : t ∈ linksOf s o ↔ (o, t) ∈ s.links := by
  simp only [linksOf, List.mem_eraseDups, List.mem_map, List.mem_filter, decide_eq_true_eq]
  constructor
  · rintro ⟨⟨a, b⟩, ⟨h1, h2⟩, h3⟩
    simp at h2 h3; subst h2; subst h3; exact h1
  · intro h; exact ⟨(o, t), ⟨h, rfl⟩, rfl⟩

theorem specStep_next (r : Rel) (op : Op) (s : St) (L : List Nat) :
    (specStep r op (s.next, L)).1 = opNext op s := by
  obtain ⟨kind, uns, vals⟩ := op
  cases kind <;> simp [specStep, opNext]
  by_cases h : vals = [] <;> simp [h, opVs, zeros_nil]

theorem specStep_own (r : Rel) (op : Op) (s : St) (o : Nat) (L : List Nat)
    (hL : ∀ t, (o, t) ∈ s.links ↔ t ∈ L) (t : Nat) :
    ownSpec r op s o t ↔ t ∈ (specStep r op (s.next, L)).2 := by
  obtain ⟨kind, uns, vals⟩ := op
  cases kind <;> simp [specStep, ownSpec, hL]
  by_cases h : vals = [] <;> simp [h]
  by_cases hc : r.card1 = true <;> simp [hc]

end Assoc

/-- per-step refinement (all relation kinds, all four operations): after one scoped call on owner `o`
    * the invariant holds again,
    * the links of `o` are given by set algebra on the links before (`ownSpec`),
    * the links of every other owner are unchanged, except that for class fk (one fk column per target row)
      the targets now linked to `o` are unlinked elsewhere,
    * every target record survives and every argument record exists -/
theorem C12_step_refines (r : Rel) (o : Nat) (s : St) (op : Op) (h : Inv r o s) (hok : OpOk r s op) :
    Inv r o (step r [o] op s) ∧
    (step r [o] op s).next = opNext op s ∧
    (∀ t, (o, t) ∈ (step r [o] op s).links ↔ ownSpec r op s o t) ∧
    (∀ o', o' ≠ o → ∀ t, (o', t) ∈ (step r [o] op s).links ↔
        (o', t) ∈ s.links ∧ (r.cls = .fk → t ∉ opIds op s)) ∧
    (∀ t ∈ s.targets, t ∈ (step r [o] op s).targets) ∧
    (∀ t ∈ opIds op s, t ∈ (step r [o] op s).targets) :=
  let m := sim_step h hok
  ⟨m.inv, m.next, m.own, m.other, m.tsurv, m.tids⟩

/-- the per-operation reading of `ownSpec` -/
theorem C12_ownSpec_cases (r : Rel) (s : St) (o t : Nat) (uns : Bool) (vs : List Nat) :
    (ownSpec r ⟨.append, uns, [vs]⟩ s o t ↔
      if r.card1 then t ∈ fill vs s.next else (o, t) ∈ s.links ∨ t ∈ fill vs s.next) ∧
    (ownSpec r ⟨.append, uns, []⟩ s o t ↔ (o, t) ∈ s.links) ∧
    (ownSpec r ⟨.replace, uns, [vs]⟩ s o t ↔ t ∈ fill vs s.next) ∧
    (ownSpec r ⟨.replace, uns, []⟩ s o t ↔ False) ∧
    (ownSpec r ⟨.clear, uns, [vs]⟩ s o t ↔ False) ∧
    (ownSpec r ⟨.delete, uns, [vs]⟩ s o t ↔ (o, t) ∈ s.links ∧ t ∉ vs) := by
  simp [ownSpec, opVs, fill]

/-- the invariant holds after every scoped single-owner run -/
theorem C12_inv_run (r : Rel) (o : Nat) (ops : List Op) (s : St) (h : Inv r o s) (hok : RunOk r o ops s) :
    Inv r o (run r [o] ops s) := by
  induction ops generalizing s with
  | nil => exact h
  | cons op ops ih => exact ih _ (sim_step h hok.1).inv hok.2

/-- MAIN: along every scoped single-owner run the links of the owner are exactly the specification fold -/
theorem C12_links_refine (r : Rel) (o : Nat) (ops : List Op) (s : St) (L : List Nat)
    (h : Inv r o s) (hok : RunOk r o ops s) (hL : ∀ t, (o, t) ∈ s.links ↔ t ∈ L) :
    (run r [o] ops s).next = (specRun r ops (s.next, L)).1 ∧
    ∀ t, (o, t) ∈ (run r [o] ops s).links ↔ t ∈ (specRun r ops (s.next, L)).2 := by
  induction ops generalizing s L with
  | nil => exact ⟨rfl, hL⟩
  | cons op ops ih =>
    have m := sim_step h hok.1
    have hn : (step r [o] op s).next = (specStep r op (s.next, L)).1 := by
      rw [m.next, specStep_next]
    have hL' : ∀ t, (o, t) ∈ (step r [o] op s).links ↔ t ∈ (specStep r op (s.next, L)).2 :=
      fun t => (m.own t).trans (specStep_own r op s o L hL t)
    have := ih (step r [o] op s) (specStep r op (s.next, L)).2 m.inv hok.2 hL'
    rw [hn] at this
    exact this

/-- … in particular starting from the stored links themselves -/
theorem C12_links_refine_linksOf (r : Rel) (o : Nat) (ops : List Op) (s : St)
    (h : Inv r o s) (hok : RunOk r o ops s) :
    ∀ t, t ∈ linksOf (run r [o] ops s) o ↔ t ∈ (specRun r ops (s.next, linksOf s o)).2 := by
  intro t
  rw [mem_linksOf]
  exact (C12_links_refine r o ops s (linksOf s o) h hok (fun t => (mem_linksOf s o t).symm)).2 t

/-- the distinct in-memory records of the operated owner are exactly its stored links -/
theorem C12_memory_agrees (r : Rel) (o : Nat) (s : St) (h : Inv r o s) :
    ∀ t, t ∈ memKeys s o ↔ t ∈ linksOf s o := by
  intro t
  rw [mem_linksOf, memKeys, List.mem_eraseDups, mem_nz, h.agree]
  constructor
  · exact fun h' => h'.2
  · exact fun h' => ⟨h.nzl _ h', h'⟩

theorem C12_memory_agrees_run (r : Rel) (o : Nat) (ops : List Op) (s : St) (h : Inv r o s)
    (hok : RunOk r o ops s) : ∀ t, t ∈ memKeys (run r [o] ops s) o ↔ t ∈ linksOf (run r [o] ops s) o :=
  C12_memory_agrees r o _ (C12_inv_run r o ops s h hok)

/-- `Association.Find` reports exactly the stored links, for every relation kind -/
theorem C12_find_reports_links (r : Rel) (o : Nat) (s : St) (h : Inv r o s) :
    ∀ t, t ∈ findIds r [o] s ↔ t ∈ linksOf s o := by
  intro t
  rw [mem_linksOf]
  obtain ⟨h1, h2, h3, h4, h5, h6, h7, h8, h9, h10⟩ := h
  obtain ⟨cls, c1⟩ := r
  cases cls
  · have hc : c1 = true := h1 rfl
    subst hc
    have hl := h8 rfl
    have hq := h9 rfl
    simp [findIds, List.mem_eraseDups]
    cases hm : s.mem o with
    | nil => grind
    | cons v l =>
      cases l with
      | nil => grind
      | cons w l => simp [hm] at hl
  · simp [findIds, List.mem_eraseDups]
  · simp [findIds, List.mem_eraseDups]
    grind

theorem C12_find_reports_links_run (r : Rel) (o : Nat) (ops : List Op) (s : St) (h : Inv r o s)
    (hok : RunOk r o ops s) : ∀ t, t ∈ findIds r [o] (run r [o] ops s) ↔ t ∈ linksOf (run r [o] ops s) o :=
  C12_find_reports_links r o _ (C12_inv_run r o ops s h hok)

/-- along any scoped single-owner run every target record that existed still exists -/
theorem C12_targets_survive (r : Rel) (o : Nat) (ops : List Op) (s : St) (h : Inv r o s)
    (hok : RunOk r o ops s) : ∀ t ∈ s.targets, t ∈ (run r [o] ops s).targets := by
  induction ops generalizing s with
  | nil => exact fun _ ht => ht
  | cons op ops ih =>
    intro t ht
    have m := sim_step h hok.1
    exact ih _ m.inv hok.2 t (m.tsurv t ht)

/-- `Association.Count` is the number of distinct stored links, for every relation kind -/
theorem C12_count (r : Rel) (o : Nat) (s : St) (h : Inv r o s) :
    count r [o] s = (linksOf s o).length := by
  unfold count
  apply List.Perm.length_eq
  refine (List.perm_ext_iff_of_nodup ?_ (nodup_eraseDups _)).2 (C12_find_reports_links r o s h)
  obtain ⟨cls, c1⟩ := r
  cases cls
  · have := nodup_map_filter (fun t : Nat => t) (fun t => decide (t ≠ 0 ∧ t ∈ [o].map s.memFk))
      s.targets.eraseDups (nodup_eraseDups _) (fun a _ b _ _ _ e => e)
    simpa [findIds] using this
  · refine nodup_map_filter (fun p : Nat × Nat => p.2) (fun p => decide (p.1 ∈ [o]))
      s.links.eraseDups (nodup_eraseDups _) ?_
    rintro ⟨a1, a2⟩ _ ⟨b1, b2⟩ _ ha hb e
    simp at ha hb e; subst ha; subst hb; subst e; rfl
  · refine nodup_map_filter (fun p : Nat × Nat => p.2) (fun p => decide (p.1 ∈ [o] ∧ p.2 ∈ s.targets))
      s.links.eraseDups (nodup_eraseDups _) ?_
    rintro ⟨a1, a2⟩ _ ⟨b1, b2⟩ _ ha hb e
    simp at ha hb e; obtain ⟨ha, _⟩ := ha; obtain ⟨hb, _⟩ := hb; subst ha; subst hb; subst e; rfl

theorem C12_count_run (r : Rel) (o : Nat) (ops : List Op) (s : St) (h : Inv r o s)
    (hok : RunOk r o ops s) : count r [o] (run r [o] ops s) = (linksOf (run r [o] ops s) o).length :=
  C12_count r o _ (C12_inv_run r o ops s h hok)

/-- classes m2m and bt: the links of every other owner are untouched by any scoped run on `o` -/
theorem C12_other_owners_unchanged (r : Rel) (o : Nat) (ops : List Op) (s : St) (h : Inv r o s)
    (hok : RunOk r o ops s) (hr : r.cls ≠ .fk) (o' : Nat) (ho : o' ≠ o) :
    ∀ t, (o', t) ∈ (run r [o] ops s).links ↔ (o', t) ∈ s.links := by
  induction ops generalizing s with
  | nil => exact fun _ => Iff.rfl
  | cons op ops ih =>
    intro t
    have m := sim_step h hok.1
    refine (ih _ m.inv hok.2 t).trans ?_
    rw [m.other o' ho t]
    exact ⟨fun h' => h'.1, fun h' => ⟨h', fun e => absurd e hr⟩⟩

/-- class fk: a scoped run on `o` never ADDS a link to another owner -/
theorem C12_other_owners_shrink (r : Rel) (o : Nat) (ops : List Op) (s : St) (h : Inv r o s)
    (hok : RunOk r o ops s) (o' : Nat) (ho : o' ≠ o) :
    ∀ t, (o', t) ∈ (run r [o] ops s).links → (o', t) ∈ s.links := by
  induction ops generalizing s with
  | nil => exact fun _ h' => h'
  | cons op ops ih =>
    intro t ht
    have m := sim_step h hok.1
    exact ((m.other o' ho t).1 (ih _ m.inv hok.2 t ht)).1

/-! ### Unscoped (classes fk and m2m; Unscoped belongs-to is finding territory) -/

/-- per-step refinement with Unscoped: same link statements as the scoped case; a target record may disappear
    only if the call removed its link to `o` (class fk: `DELETE` of the matched target rows) -/
theorem C12_step_refines_unscoped (r : Rel) (o : Nat) (s : St) (op : Op) (h : Inv r o s) (hok : OpOkU r s op) :
    Inv r o (step r [o] op s) ∧
    (step r [o] op s).next = opNext op s ∧
    (∀ t, (o, t) ∈ (step r [o] op s).links ↔ ownSpec r op s o t) ∧
    (∀ o', o' ≠ o → ∀ t, (o', t) ∈ (step r [o] op s).links ↔
        (o', t) ∈ s.links ∧ (r.cls = .fk → t ∉ opIds op s)) ∧
    (∀ t ∈ s.targets, t ∈ (step r [o] op s).targets ∨ ((o, t) ∈ s.links ∧ (o, t) ∉ (step r [o] op s).links)) ∧
    (∀ t ∈ opIds op s, t ∈ (step r [o] op s).targets) :=
  let m := sim_step_u h hok
  ⟨m.inv, m.next, m.own, m.other, m.tsurv, m.tids⟩

theorem C12_inv_run_unscoped (r : Rel) (o : Nat) (ops : List Op) (s : St) (h : Inv r o s)
    (hok : RunOkU r o ops s) : Inv r o (run r [o] ops s) := by
  induction ops generalizing s with
  | nil => exact h
  | cons op ops ih => exact ih _ (sim_step_u h hok.1).inv hok.2

theorem C12_links_refine_unscoped (r : Rel) (o : Nat) (ops : List Op) (s : St) (L : List Nat)
    (h : Inv r o s) (hok : RunOkU r o ops s) (hL : ∀ t, (o, t) ∈ s.links ↔ t ∈ L) :
    (run r [o] ops s).next = (specRun r ops (s.next, L)).1 ∧
    ∀ t, (o, t) ∈ (run r [o] ops s).links ↔ t ∈ (specRun r ops (s.next, L)).2 := by
  induction ops generalizing s L with
  | nil => exact ⟨rfl, hL⟩
  | cons op ops ih =>
    have m := sim_step_u h hok.1
    have hn : (step r [o] op s).next = (specStep r op (s.next, L)).1 := by
      rw [m.next, specStep_next]
    have hL' : ∀ t, (o, t) ∈ (step r [o] op s).links ↔ t ∈ (specStep r op (s.next, L)).2 :=
      fun t => (m.own t).trans (specStep_own r op s o L hL t)
    have := ih (step r [o] op s) (specStep r op (s.next, L)).2 m.inv hok.2 hL'
    rw [hn] at this
    exact this

theorem C12_links_refine_linksOf_unscoped (r : Rel) (o : Nat) (ops : List Op) (s : St)
    (h : Inv r o s) (hok : RunOkU r o ops s) :
    ∀ t, t ∈ linksOf (run r [o] ops s) o ↔ t ∈ (specRun r ops (s.next, linksOf s o)).2 := by
  intro t
  rw [mem_linksOf]
  exact (C12_links_refine_unscoped r o ops s (linksOf s o) h hok (fun t => (mem_linksOf s o t).symm)).2 t

theorem C12_memory_agrees_run_unscoped (r : Rel) (o : Nat) (ops : List Op) (s : St) (h : Inv r o s)
    (hok : RunOkU r o ops s) : ∀ t, t ∈ memKeys (run r [o] ops s) o ↔ t ∈ linksOf (run r [o] ops s) o :=
  C12_memory_agrees r o _ (C12_inv_run_unscoped r o ops s h hok)

theorem C12_find_reports_links_run_unscoped (r : Rel) (o : Nat) (ops : List Op) (s : St) (h : Inv r o s)
    (hok : RunOkU r o ops s) : ∀ t, t ∈ findIds r [o] (run r [o] ops s) ↔ t ∈ linksOf (run r [o] ops s) o :=
  C12_find_reports_links r o _ (C12_inv_run_unscoped r o ops s h hok)

theorem C12_count_run_unscoped (r : Rel) (o : Nat) (ops : List Op) (s : St) (h : Inv r o s)
    (hok : RunOkU r o ops s) : count r [o] (run r [o] ops s) = (linksOf (run r [o] ops s) o).length :=
  C12_count r o _ (C12_inv_run_unscoped r o ops s h hok)

/-- Unscoped runs: the links of other owners never grow (classes m2m: unchanged) -/
theorem C12_other_owners_unchanged_unscoped (r : Rel) (o : Nat) (ops : List Op) (s : St) (h : Inv r o s)
    (hok : RunOkU r o ops s) (hr : r.cls ≠ .fk) (o' : Nat) (ho : o' ≠ o) :
    ∀ t, (o', t) ∈ (run r [o] ops s).links ↔ (o', t) ∈ s.links := by
  induction ops generalizing s with
  | nil => exact fun _ => Iff.rfl
  | cons op ops ih =>
    intro t
    have m := sim_step_u h hok.1
    refine (ih _ m.inv hok.2 t).trans ?_
    rw [m.other o' ho t]
    exact ⟨fun h' => h'.1, fun h' => ⟨h', fun e => absurd e hr⟩⟩

/-- Unscoped runs: a target record that is still linked to some owner at the end was never deleted …
    more precisely: every target that existed and is lost was at some point unlinked from `o`; stated per step
    in `C12_step_refines_unscoped`; at run level: a lost target is not linked to `o` afterwards -/
theorem C12_targets_lost_unlinked_unscoped (r : Rel) (o : Nat) (ops : List Op) (s : St) (h : Inv r o s)
    (hok : RunOkU r o ops s) :
    ∀ t, (o, t) ∈ (run r [o] ops s).links → t ∈ (run r [o] ops s).targets :=
  fun _ ht => (C12_inv_run_unscoped r o ops s h hok).dang _ ht

/-- non-vacuity (Unscoped): has-many, Unscoped Delete of a linked record removes the record itself -/
example :
    RunOkU ⟨.fk, false⟩ 1 [⟨.append, false, [[0, 7]]⟩, ⟨.delete, true, [[7]]⟩]
      { links := [], targets := [7], next := 21, mem := fun _ => [], memFk := fun _ => 0 } ∧
    (run ⟨.fk, false⟩ [1] [⟨.append, false, [[0, 7]]⟩, ⟨.delete, true, [[7]]⟩]
      { links := [], targets := [7], next := 21, mem := fun _ => [], memFk := fun _ => 0 }).links = [(1, 21)] ∧
    7 ∉ (run ⟨.fk, false⟩ [1] [⟨.append, false, [[0, 7]]⟩, ⟨.delete, true, [[7]]⟩]
      { links := [], targets := [7], next := 21, mem := fun _ => [], memFk := fun _ => 0 }).targets := by
  refine ⟨by simp [RunOkU, OpOkU], by decide, by decide⟩

/-! ### slices of owners, class m2m (many2many) -/

namespace Assoc

/-- well-formed slice call (many2many): one well-formed value list per owner; Replace additionally ¬F12d -/
def SliceOpOk (os : List Nat) (s : St) (op : Op) : Prop :=
  (op.kind = .append → op.vals = [] ∨ (os.length = op.vals.length ∧ ValsOk s op.vals)) ∧
  (op.kind = .replace →
    op.vals = [] ∨ (os.length = op.vals.length ∧ ValsOk s op.vals ∧ NoF12d os op.vals s))

def SliceRunOk (os : List Nat) : List Op → St → Prop
  | [], _ => True
  | op :: ops, s => SliceOpOk os s op ∧ SliceRunOk os ops (step ⟨.m2m, false⟩ os op s)

/-- links of ANY owner `o` after a slice call, by set algebra on the links before it; the i-th owner's keyless
    values get the keys after those of the owners before it (`idsOf`) -/
def sliceSpec (os : List Nat) (op : Op) (s : St) (o t : Nat) : Prop :=
  match op.kind with
  | .append => (o, t) ∈ s.links ∨ t ∈ idsOf os op.vals s.next o
  | .replace => if o ∈ os then t ∈ idsOf os op.vals s.next o else (o, t) ∈ s.links
  | .clear => (o, t) ∈ s.links ∧ o ∉ os
  | .delete => (o, t) ∈ s.links ∧ ¬(o ∈ os ∧ t ∈ opVs op)

def sliceNext (op : Op) (s : St) : Nat :=
  match op.kind with
  | .append | .replace => s.next + zerosAll op.vals
  | _ => s.next

/-- specification state for slices: (next key, link list per owner) -/
def sliceSpecStep (os : List Nat) (op : Op) (σ : Nat × (Nat → List Nat)) : Nat × (Nat → List Nat) :=
  match op.kind with
  | .append => (σ.1 + zerosAll op.vals, fun o => σ.2 o ++ idsOf os op.vals σ.1 o)
  | .replace => (σ.1 + zerosAll op.vals, fun o => if o ∈ os then idsOf os op.vals σ.1 o else σ.2 o)
  | .clear => (σ.1, fun o => if o ∈ os then [] else σ.2 o)
  | .delete => (σ.1, fun o => if o ∈ os then (σ.2 o).filter (· ∉ opVs op) else σ.2 o)

def sliceSpecRun (os : List Nat) : List Op → Nat × (Nat → List Nat) → Nat × (Nat → List Nat)
  | [], σ => σ
  | op :: ops, σ => sliceSpecRun os ops (sliceSpecStep os op σ)

end Assoc

/-- B1, per-step refinement for a slice of operated owners, class m2m, scoped or Unscoped -/
theorem C12_slice_step_m2m (os : List Nat) (s : St) (op : Op) (hnd : os.Nodup) (hos : os ≠ [])
    (hinv : ∀ o ∈ os, Inv ⟨.m2m, false⟩ o s) (hok : SliceOpOk os s op) :
    (∀ o', (o' ∈ os ∨ Inv ⟨.m2m, false⟩ o' s) → Inv ⟨.m2m, false⟩ o' (step ⟨.m2m, false⟩ os op s)) ∧
    (∀ o t, (o, t) ∈ (step ⟨.m2m, false⟩ os op s).links ↔ sliceSpec os op s o t) ∧
    (step ⟨.m2m, false⟩ os op s).next = sliceNext op s ∧
    (∀ t ∈ s.targets, t ∈ (step ⟨.m2m, false⟩ os op s).targets) := by
  obtain ⟨o0, hO0⟩ := List.exists_mem_of_ne_nil os hos
  have hG : Glob s := (hinv o0 hO0).glob
  have he := hG.err
  have hall : ∀ o', (o' ∈ os ∨ Inv ⟨.m2m, false⟩ o' s) → Inv ⟨.m2m, false⟩ o' s :=
    fun o' h => h.elim (hinv o') id
  obtain ⟨kind, uns, vals⟩ := op
  obtain ⟨hA, hR⟩ := hok
  simp at hA hR
  cases kind
  · -- append
    by_cases hv : vals = []
    · subst hv
      simp [step, he, saveAssociation, sliceSpec, idsOf_nil_vals, sliceNext, zerosAll]
      exact hall
    · rcases hA rfl with h | ⟨hlen, hvok⟩
      · exact absurd h hv
      · obtain ⟨a1, a2, a3, a4, _⟩ := slice_append_m2m os vals s hnd hlen hinv hvok
        have hlen' : vals.length = os.length := hlen.symm
        simp only [step, he, saveAssociation, hv, hlen', sliceSpec, sliceNext]
        simp
        exact ⟨fun o' h => a1 o' (hall o' h), a2, a3, a4⟩
  · -- replace
    by_cases hv : vals = []
    · subst hv
      obtain ⟨c1, c2, c3, c4⟩ := slice_clear_m2m os uns s he
      simp only [step, he, sliceSpec, idsOf_nil_vals, sliceNext]
      simp
      refine ⟨fun o' h => c1 o' (hall o' h), ?_, by simp [c3, zerosAll], by simp [c4]⟩
      intro o t; rw [c2]; by_cases ho : o ∈ os <;> simp [ho]
    · rcases hR rfl with h | ⟨hlen, hvok, hF⟩
      · exact absurd h hv
      · obtain ⟨r1, r2, r3, r4⟩ := slice_replace_m2m os vals uns s hnd hlen hv hG hvok (hF.ids hG hvok)
        simp only [step, he, sliceSpec, sliceNext]
        simp
        exact ⟨fun o' h => r1 o' (h.imp id id), r2, r3, r4⟩
  · -- delete
    obtain ⟨d1, d2, d3, d4⟩ := slice_delete_m2m os (vals.headD []) uns s
    simp only [step, he, sliceSpec, opVs, sliceNext]
    simp
    refine ⟨fun o' h => ?_, ?_, ?_, ?_⟩
    · simpa using d1 o' (hall o' h)
    · simpa using d2
    · simpa using d3
    · simp at d4; simp [d4]
  · -- clear
    obtain ⟨c1, c2, c3, c4⟩ := slice_clear_m2m os uns s he
    simp only [step, he, sliceSpec, sliceNext]
    simp
    exact ⟨fun o' h => c1 o' (hall o' h), c2, c3, by simp [c4]⟩

/-- B1: the invariant of every operated owner holds after every slice run (class m2m) -/
theorem C12_slice_inv_run_m2m (os : List Nat) (ops : List Op) (s : St) (hnd : os.Nodup) (hos : os ≠ [])
    (hinv : ∀ o ∈ os, Inv ⟨.m2m, false⟩ o s) (hok : SliceRunOk os ops s) :
    ∀ o ∈ os, Inv ⟨.m2m, false⟩ o (run ⟨.m2m, false⟩ os ops s) := by
  induction ops generalizing s with
  | nil => exact hinv
  | cons op ops ih =>
    have m := C12_slice_step_m2m os s op hnd hos hinv hok.1
    exact ih _ (fun o ho => m.1 o (Or.inl ho)) hok.2

/-- B1: a slice run never touches the links (nor the invariant) of a non-operated owner (class m2m) -/
theorem C12_slice_other_owners_m2m (os : List Nat) (ops : List Op) (s : St) (hnd : os.Nodup) (hos : os ≠ [])
    (hinv : ∀ o ∈ os, Inv ⟨.m2m, false⟩ o s) (hok : SliceRunOk os ops s) (o' : Nat) (ho' : o' ∉ os) :
    (∀ t, (o', t) ∈ (run ⟨.m2m, false⟩ os ops s).links ↔ (o', t) ∈ s.links) ∧
    (Inv ⟨.m2m, false⟩ o' s → Inv ⟨.m2m, false⟩ o' (run ⟨.m2m, false⟩ os ops s)) := by
  induction ops generalizing s with
  | nil => exact ⟨fun _ => Iff.rfl, id⟩
  | cons op ops ih =>
    have m := C12_slice_step_m2m os s op hnd hos hinv hok.1
    have := ih _ (fun o ho => m.1 o (Or.inl ho)) hok.2
    refine ⟨fun t => (this.1 t).trans ?_, fun h => this.2 (m.1 o' (Or.inr h))⟩
    rw [m.2.1 o' t]
    obtain ⟨kind, uns, vals⟩ := op
    cases kind <;> simp [sliceSpec, ho', idsOf_not_mem]

/-- B1, MAIN for slices (class m2m): along every well-formed slice run the links of EVERY owner (operated or
    not) are exactly the specification fold -/
theorem C12_slice_links_refine_m2m (os : List Nat) (ops : List Op) (s : St) (L : Nat → List Nat)
    (hnd : os.Nodup) (hos : os ≠ []) (hinv : ∀ o ∈ os, Inv ⟨.m2m, false⟩ o s) (hok : SliceRunOk os ops s)
    (hL : ∀ o t, (o, t) ∈ s.links ↔ t ∈ L o) :
    (run ⟨.m2m, false⟩ os ops s).next = (sliceSpecRun os ops (s.next, L)).1 ∧
    ∀ o t, (o, t) ∈ (run ⟨.m2m, false⟩ os ops s).links ↔ t ∈ (sliceSpecRun os ops (s.next, L)).2 o := by
  induction ops generalizing s L with
  | nil => exact ⟨rfl, hL⟩
  | cons op ops ih =>
    have m := C12_slice_step_m2m os s op hnd hos hinv hok.1
    have hn : (step ⟨.m2m, false⟩ os op s).next = (sliceSpecStep os op (s.next, L)).1 := by
      rw [m.2.2.1]
      obtain ⟨kind, uns, vals⟩ := op
      cases kind <;> simp [sliceNext, sliceSpecStep]
    have hL' : ∀ o t, (o, t) ∈ (step ⟨.m2m, false⟩ os op s).links ↔ t ∈ (sliceSpecStep os op (s.next, L)).2 o := by
      intro o t
      rw [m.2.1 o t]
      obtain ⟨kind, uns, vals⟩ := op
      cases kind <;> simp [sliceSpec, sliceSpecStep, hL]
      · by_cases ho : o ∈ os <;> simp [ho]
      · by_cases ho : o ∈ os <;> simp [ho]
      · by_cases ho : o ∈ os <;> simp [ho]
    have := ih (step ⟨.m2m, false⟩ os op s) (sliceSpecStep os op (s.next, L)).2
      (fun o ho => m.1 o (Or.inl ho)) hok.2 hL'
    rw [hn] at this
    exact this

/-- B2 (m2m, fk): Find on a slice reports exactly the links of the operated owners -/
theorem C12_slice_find_m2m (os : List Nat) (s : St) (o0 : Nat) (h0 : Inv ⟨.m2m, false⟩ o0 s) :
    ∀ t, t ∈ findIds ⟨.m2m, false⟩ os s ↔ ∃ o ∈ os, (o, t) ∈ s.links := by
  intro t
  have hd := h0.dang
  simp [findIds]
  constructor
  · rintro ⟨a, h1, h2, _⟩; exact ⟨a, h2, h1⟩
  · rintro ⟨a, h1, h2⟩; exact ⟨a, h2, h1, hd _ h2⟩

theorem C12_slice_find_fk (c1 : Bool) (os : List Nat) (s : St) :
    ∀ t, t ∈ findIds ⟨.fk, c1⟩ os s ↔ ∃ o ∈ os, (o, t) ∈ s.links := by
  intro t
  simp [findIds]
  constructor
  · rintro ⟨a, h1, h2⟩; exact ⟨a, h2, h1⟩
  · rintro ⟨a, h1, h2⟩; exact ⟨a, h2, h1⟩

/-- B2: Count on a slice = number of distinct (owner, target) links of the operated owners -/
theorem C12_slice_count_m2m (os : List Nat) (s : St) (o0 : Nat) (h0 : Inv ⟨.m2m, false⟩ o0 s) :
    count ⟨.m2m, false⟩ os s = (s.links.eraseDups.filter (fun p => p.1 ∈ os)).length := by
  have hd := h0.dang
  simp only [count, findIds, List.length_map]
  congr 1
  apply List.filter_congr
  intro p hp
  have := hd p (List.mem_eraseDups.1 hp)
  simp [this]

theorem C12_slice_count_fk (c1 : Bool) (os : List Nat) (s : St) :
    count ⟨.fk, c1⟩ os s = (s.links.eraseDups.filter (fun p => p.1 ∈ os)).length := by
  simp [count, findIds]

/-- B2: after any slice run the in-memory field of every operated owner agrees with its links, and Find /
    Count report the links (class m2m) -/
theorem C12_slice_observations_run_m2m (os : List Nat) (ops : List Op) (s : St) (hnd : os.Nodup) (hos : os ≠ [])
    (hinv : ∀ o ∈ os, Inv ⟨.m2m, false⟩ o s) (hok : SliceRunOk os ops s) :
    (∀ o ∈ os, ∀ t, t ∈ memKeys (run ⟨.m2m, false⟩ os ops s) o ↔ t ∈ linksOf (run ⟨.m2m, false⟩ os ops s) o) ∧
    (∀ t, t ∈ findIds ⟨.m2m, false⟩ os (run ⟨.m2m, false⟩ os ops s) ↔
      ∃ o ∈ os, (o, t) ∈ (run ⟨.m2m, false⟩ os ops s).links) ∧
    count ⟨.m2m, false⟩ os (run ⟨.m2m, false⟩ os ops s) =
      ((run ⟨.m2m, false⟩ os ops s).links.eraseDups.filter (fun p => p.1 ∈ os)).length := by
  have hI := C12_slice_inv_run_m2m os ops s hnd hos hinv hok
  obtain ⟨o0, hO0⟩ := List.exists_mem_of_ne_nil os hos
  exact ⟨fun o ho => C12_memory_agrees _ o _ (hI o ho), C12_slice_find_m2m os _ o0 (hI o0 hO0),
    C12_slice_count_m2m os _ o0 (hI o0 hO0)⟩

/-! ### slices of owners, class bt (belongs-to), scoped -/

namespace Assoc

/-- well-formed scoped slice call (belongs-to): exactly one value per owner -/
def SliceOpOkBt (os : List Nat) (s : St) (op : Op) : Prop :=
  op.unscoped = false ∧
  ((op.kind = .append ∨ op.kind = .replace) →
    op.vals = [] ∨ (os.length = op.vals.length ∧ ValsOkBt s op.vals))

def SliceRunOkBt (os : List Nat) : List Op → St → Prop
  | [], _ => True
  | op :: ops, s => SliceOpOkBt os s op ∧ SliceRunOkBt os ops (step ⟨.bt, true⟩ os op s)

def sliceSpecBt (os : List Nat) (op : Op) (s : St) (o t : Nat) : Prop :=
  match op.kind with
  | .append =>
    if op.vals = [] then (o, t) ∈ s.links
    else if o ∈ os then t ∈ idsOf os op.vals s.next o else (o, t) ∈ s.links
  | .replace => if o ∈ os then t ∈ idsOf os op.vals s.next o else (o, t) ∈ s.links
  | .clear => (o, t) ∈ s.links ∧ o ∉ os
  | .delete => (o, t) ∈ s.links ∧ ¬(o ∈ os ∧ t ∈ opVs op)

end Assoc

/-- B4, per-step refinement for a slice of operated owners, class bt, scoped -/
theorem C12_slice_step_bt (os : List Nat) (s : St) (op : Op) (hnd : os.Nodup) (hos : os ≠ [])
    (hinv : ∀ o ∈ os, Inv ⟨.bt, true⟩ o s) (hok : SliceOpOkBt os s op) :
    (∀ o', (o' ∈ os ∨ Inv ⟨.bt, true⟩ o' s) → Inv ⟨.bt, true⟩ o' (step ⟨.bt, true⟩ os op s)) ∧
    (∀ o t, (o, t) ∈ (step ⟨.bt, true⟩ os op s).links ↔ sliceSpecBt os op s o t) ∧
    (step ⟨.bt, true⟩ os op s).next = sliceNext op s ∧
    (∀ t ∈ s.targets, t ∈ (step ⟨.bt, true⟩ os op s).targets) := by
  obtain ⟨o0, hO0⟩ := List.exists_mem_of_ne_nil os hos
  have he := (hinv o0 hO0).err
  have hall : ∀ o', (o' ∈ os ∨ Inv ⟨.bt, true⟩ o' s) → Inv ⟨.bt, true⟩ o' s :=
    fun o' h => h.elim (hinv o') id
  obtain ⟨kind, uns, vals⟩ := op
  obtain ⟨hu, hV⟩ := hok
  simp at hu hV
  subst hu
  have hset : vals ≠ [] → os.length = vals.length → ValsOkBt s vals →
      (∀ o', (o' ∈ os ∨ Inv ⟨.bt, true⟩ o' s) → Inv ⟨.bt, true⟩ o' (replace ⟨.bt, true⟩ os false vals s)) ∧
      (∀ o t, (o, t) ∈ (replace ⟨.bt, true⟩ os false vals s).links ↔
        if o ∈ os then t ∈ idsOf os vals s.next o else (o, t) ∈ s.links) ∧
      (replace ⟨.bt, true⟩ os false vals s).next = s.next + zerosAll vals ∧
      (∀ t ∈ s.targets, t ∈ (replace ⟨.bt, true⟩ os false vals s).targets) := by
    intro hv hlen hvok
    obtain ⟨a1, a2, a3, a4, a5⟩ := slice_set_bt os vals s hnd hlen hinv hvok he
    have hlen' : vals.length = os.length := hlen.symm
    simp only [replace, saveAssociation, hv, hlen']
    simp [a5]
    exact ⟨fun o' h => a1 o' (hall o' h), a2, a3, a4⟩
  have hclear := slice_clear_bt os s he
  cases kind
  · -- append
    by_cases hv : vals = []
    · subst hv
      simp [step, he, sliceSpecBt, sliceNext, zerosAll]
      exact hall
    · rcases hV (Or.inl rfl) with h | ⟨hlen, hvok⟩
      · exact absurd h hv
      · simpa [step, he, hv, sliceSpecBt, sliceNext] using hset hv hlen hvok
  · -- replace
    by_cases hv : vals = []
    · subst hv
      obtain ⟨c1, c2, c3, c4⟩ := hclear
      simp only [step, he, sliceSpecBt, idsOf_nil_vals, sliceNext]
      simp
      refine ⟨fun o' h => c1 o' (hall o' h), ?_, by simp [c3, zerosAll], by simp [c4]⟩
      intro o t; rw [c2]; by_cases ho : o ∈ os <;> simp [ho]
    · rcases hV (Or.inr rfl) with h | ⟨hlen, hvok⟩
      · exact absurd h hv
      · simpa [step, he, sliceSpecBt, sliceNext] using hset hv hlen hvok
  · -- delete
    obtain ⟨d1, d2, d3, d4⟩ := slice_delete_bt os (vals.headD []) s hnd
    simp only [step, he, sliceSpecBt, opVs, sliceNext]
    simp
    refine ⟨fun o' h => ?_, ?_, ?_, ?_⟩
    · simpa using d1 o' (hall o' h)
    · simpa using d2
    · simpa using d3
    · simp at d4; simp [d4]
  · -- clear
    obtain ⟨c1, c2, c3, c4⟩ := hclear
    simp only [step, he, sliceSpecBt, sliceNext]
    simp
    exact ⟨fun o' h => c1 o' (hall o' h), c2, c3, by simp [c4]⟩

/-- B4: the invariant of every operated owner holds after every scoped slice run (class bt) -/
theorem C12_slice_inv_run_bt (os : List Nat) (ops : List Op) (s : St) (hnd : os.Nodup) (hos : os ≠ [])
    (hinv : ∀ o ∈ os, Inv ⟨.bt, true⟩ o s) (hok : SliceRunOkBt os ops s) :
    ∀ o ∈ os, Inv ⟨.bt, true⟩ o (run ⟨.bt, true⟩ os ops s) := by
  induction ops generalizing s with
  | nil => exact hinv
  | cons op ops ih =>
    have m := C12_slice_step_bt os s op hnd hos hinv hok.1
    exact ih _ (fun o ho => m.1 o (Or.inl ho)) hok.2

/-- B4: a scoped slice run never touches the links of a non-operated owner (class bt) -/
theorem C12_slice_other_owners_bt (os : List Nat) (ops : List Op) (s : St) (hnd : os.Nodup) (hos : os ≠ [])
    (hinv : ∀ o ∈ os, Inv ⟨.bt, true⟩ o s) (hok : SliceRunOkBt os ops s) (o' : Nat) (ho' : o' ∉ os) :
    (∀ t, (o', t) ∈ (run ⟨.bt, true⟩ os ops s).links ↔ (o', t) ∈ s.links) ∧
    (Inv ⟨.bt, true⟩ o' s → Inv ⟨.bt, true⟩ o' (run ⟨.bt, true⟩ os ops s)) := by
  induction ops generalizing s with
  | nil => exact ⟨fun _ => Iff.rfl, id⟩
  | cons op ops ih =>
    have m := C12_slice_step_bt os s op hnd hos hinv hok.1
    have := ih _ (fun o ho => m.1 o (Or.inl ho)) hok.2
    refine ⟨fun t => (this.1 t).trans ?_, fun h => this.2 (m.1 o' (Or.inr h))⟩
    rw [m.2.1 o' t]
    obtain ⟨kind, uns, vals⟩ := op
    cases kind <;> simp [sliceSpecBt, ho']

/-- B2 (bt): Find on a slice reports exactly the links of the operated owners -/
theorem C12_slice_find_bt (os : List Nat) (s : St) (hinv : ∀ o ∈ os, Inv ⟨.bt, true⟩ o s) :
    ∀ t, t ∈ findIds ⟨.bt, true⟩ os s ↔ ∃ o ∈ os, (o, t) ∈ s.links := by
  intro t
  simp [findIds]
  constructor
  · rintro ⟨ht, h0, o, ho, hfk⟩
    refine ⟨o, ho, ?_⟩
    have h := hinv o ho
    have hq := h.fkq rfl
    rw [← h.agree]
    cases hm : s.mem o with
    | nil => simp [hm] at hq; omega
    | cons v l => simp [hm] at hq; simp; left; omega
  · rintro ⟨o, ho, hl⟩
    have h := hinv o ho
    have hq := h.fkq rfl
    have hone := h.one rfl
    have hmem := (h.agree t).2 hl
    refine ⟨h.dang _ hl, h.nzl _ hl, o, ho, ?_⟩
    cases hm : s.mem o with
    | nil => simp [hm] at hmem
    | cons v l =>
      cases l with
      | nil => simp [hm] at hmem hq; omega
      | cons w l => simp [hm] at hone

/-! ### slices of owners, class fk (has-many), scoped, under ¬F12e -/

namespace Assoc

/-- well-formed scoped slice call (has-many): Append under ¬F12e; Replace needs only the part of ¬F12e that
    says that the value lists of different owners share no non-zero key (`DisjVals`, implied by `NoF12e`) -/
def SliceOpOkFk (os : List Nat) (s : St) (op : Op) : Prop :=
  op.unscoped = false ∧
  (op.kind = .append →
    op.vals = [] ∨ (os.length = op.vals.length ∧ ValsOkFk s op.vals ∧ NoF12e os op.vals s)) ∧
  (op.kind = .replace →
    op.vals = [] ∨ (os.length = op.vals.length ∧ ValsOkFk s op.vals ∧ DisjVals os op.vals))

def SliceRunOkFk (os : List Nat) : List Op → St → Prop
  | [], _ => True
  | op :: ops, s => SliceOpOkFk os s op ∧ SliceRunOkFk os ops (step ⟨.fk, false⟩ os op s)

end Assoc

/-- B3, per-step refinement for a slice of operated owners, class fk (has-many), scoped, under ¬F12e:
    operated owners exactly as the specification, non-operated owners never gain a link -/
theorem C12_slice_step_fk (os : List Nat) (s : St) (op : Op) (hnd : os.Nodup) (hos : os ≠ [])
    (hinv : ∀ o ∈ os, Inv ⟨.fk, false⟩ o s) (hok : SliceOpOkFk os s op) :
    (∀ o ∈ os, Inv ⟨.fk, false⟩ o (step ⟨.fk, false⟩ os op s)) ∧
    (∀ o ∈ os, ∀ t, (o, t) ∈ (step ⟨.fk, false⟩ os op s).links ↔ sliceSpec os op s o t) ∧
    (∀ x, x ∉ os → ∀ t, (x, t) ∈ (step ⟨.fk, false⟩ os op s).links → (x, t) ∈ s.links) ∧
    (step ⟨.fk, false⟩ os op s).next = sliceNext op s ∧
    (∀ t ∈ s.targets, t ∈ (step ⟨.fk, false⟩ os op s).targets) := by
  obtain ⟨o0, hO0⟩ := List.exists_mem_of_ne_nil os hos
  have hG : Glob s := (hinv o0 hO0).glob
  have hU : Uniq s := (hinv o0 hO0).uniqFk
  have he := hG.err
  obtain ⟨kind, uns, vals⟩ := op
  obtain ⟨hu, hA, hR⟩ := hok
  simp at hu hA hR
  subst hu
  have hclear := slice_clear_fk os s he
  cases kind
  · -- append
    by_cases hv : vals = []
    · subst hv
      simp [step, he, saveAssociation, sliceSpec, idsOf_nil_vals, sliceNext, zerosAll]
      exact hinv
    · rcases hA rfl with h | ⟨hlen, hvok, hF⟩
      · exact absurd h hv
      · obtain ⟨a1, _, a3, a4, a5, a6⟩ := slice_append_fk os vals s [] hnd hlen hinv (by simp) hvok hF (by simp)
        have hlen' : vals.length = os.length := hlen.symm
        simp only [step, he, saveAssociation, hv, hlen', sliceSpec, sliceNext]
        simp
        refine ⟨a1, a3, ?_, a5, a6⟩
        intro x hx t hl
        rcases a4 x t hl with h | ⟨h, _⟩
        · exact h
        · exact absurd h hx
  · -- replace
    by_cases hv : vals = []
    · subst hv
      obtain ⟨c1, c2, c3, c4⟩ := hclear
      simp only [step, he, sliceSpec, idsOf_nil_vals, sliceNext]
      simp
      refine ⟨fun o ho => c1 o (hinv o ho), ?_, ?_, by simp [c3, zerosAll], by simp [c4]⟩
      · intro o ho t; rw [c2]; simp [ho]
      · intro x _ t hl; exact ((c2 x t).1 hl).1
    · rcases hR rfl with h | ⟨hlen, hvok, hD⟩
      · exact absurd h hv
      · obtain ⟨r1, r2, r3, r4⟩ := slice_replace_fk os vals s hnd hlen hv hG hU hvok hD
        simp only [step, he, sliceSpec, sliceNext]
        simp
        refine ⟨r1, ?_, ?_, r3, r4⟩
        · intro o ho t; rw [r2]; simp [ho]
        · intro x hx t hl; have := (r2 x t).1 hl; simp [hx] at this; exact this.1
  · -- delete
    obtain ⟨d1, d2, d3, d4⟩ := slice_delete_fk os (vals.headD []) s
    simp only [step, he, sliceSpec, opVs, sliceNext]
    simp
    refine ⟨fun o ho => ?_, ?_, ?_, ?_, ?_⟩
    · simpa using d1 o (hinv o ho)
    · intro o _ t; simpa using d2 o t
    · intro x _ t hl; exact ((d2 x t).1 (by simpa using hl)).1
    · simpa using d3
    · simp at d4; simp [d4]
  · -- clear
    obtain ⟨c1, c2, c3, c4⟩ := hclear
    simp only [step, he, sliceSpec, sliceNext]
    simp
    refine ⟨fun o ho => c1 o (hinv o ho), fun o _ t => c2 o t, ?_, c3, by simp [c4]⟩
    intro x _ t hl; exact ((c2 x t).1 hl).1

/-- B3: the invariant of every operated owner holds after every scoped slice run under ¬F12e (class fk) -/
theorem C12_slice_inv_run_fk (os : List Nat) (ops : List Op) (s : St) (hnd : os.Nodup) (hos : os ≠ [])
    (hinv : ∀ o ∈ os, Inv ⟨.fk, false⟩ o s) (hok : SliceRunOkFk os ops s) :
    ∀ o ∈ os, Inv ⟨.fk, false⟩ o (run ⟨.fk, false⟩ os ops s) := by
  induction ops generalizing s with
  | nil => exact hinv
  | cons op ops ih =>
    have m := C12_slice_step_fk os s op hnd hos hinv hok.1
    exact ih _ m.1 hok.2

/-- B3, run level: the links of every OPERATED owner are exactly the specification fold (class fk) -/
theorem C12_slice_links_refine_fk (os : List Nat) (ops : List Op) (s : St) (L : Nat → List Nat)
    (hnd : os.Nodup) (hos : os ≠ []) (hinv : ∀ o ∈ os, Inv ⟨.fk, false⟩ o s) (hok : SliceRunOkFk os ops s)
    (hL : ∀ o ∈ os, ∀ t, (o, t) ∈ s.links ↔ t ∈ L o) :
    (run ⟨.fk, false⟩ os ops s).next = (sliceSpecRun os ops (s.next, L)).1 ∧
    ∀ o ∈ os, ∀ t, (o, t) ∈ (run ⟨.fk, false⟩ os ops s).links ↔ t ∈ (sliceSpecRun os ops (s.next, L)).2 o := by
  induction ops generalizing s L with
  | nil => exact ⟨rfl, hL⟩
  | cons op ops ih =>
    have m := C12_slice_step_fk os s op hnd hos hinv hok.1
    have hn : (step ⟨.fk, false⟩ os op s).next = (sliceSpecStep os op (s.next, L)).1 := by
      rw [m.2.2.2.1]
      obtain ⟨kind, uns, vals⟩ := op
      cases kind <;> simp [sliceNext, sliceSpecStep]
    have hL' : ∀ o ∈ os, ∀ t, (o, t) ∈ (step ⟨.fk, false⟩ os op s).links ↔
        t ∈ (sliceSpecStep os op (s.next, L)).2 o := by
      intro o ho t
      rw [m.2.1 o ho t]
      obtain ⟨kind, uns, vals⟩ := op
      cases kind <;> simp [sliceSpec, sliceSpecStep, hL o ho, ho]
    have := ih (step ⟨.fk, false⟩ os op s) (sliceSpecStep os op (s.next, L)).2 m.1 hok.2 hL'
    rw [hn] at this
    exact this

/-- B3: a scoped slice run never ADDS a link to a non-operated owner (class fk) -/
theorem C12_slice_other_owners_shrink_fk (os : List Nat) (ops : List Op) (s : St) (hnd : os.Nodup) (hos : os ≠ [])
    (hinv : ∀ o ∈ os, Inv ⟨.fk, false⟩ o s) (hok : SliceRunOkFk os ops s) (x : Nat) (hx : x ∉ os) :
    ∀ t, (x, t) ∈ (run ⟨.fk, false⟩ os ops s).links → (x, t) ∈ s.links := by
  induction ops generalizing s with
  | nil => exact fun _ h => h
  | cons op ops ih =>
    intro t ht
    have m := C12_slice_step_fk os s op hnd hos hinv hok.1
    exact m.2.2.1 x hx t (ih _ m.1 hok.2 t ht)

/-- belongs-to: a stored link of an owner satisfying the invariant is its non-zero in-memory fk -/
theorem Assoc.bt_link_fk {o t : Nat} {s : St} (h : Inv ⟨.bt, true⟩ o s) (hl : (o, t) ∈ s.links) :
    s.memFk o = t ∧ t ≠ 0 := by
  have hq := h.fkq rfl
  have hone := h.one rfl
  have hmem := (h.agree t).2 hl
  refine ⟨?_, h.nzl _ hl⟩
  cases hm : s.mem o with
  | nil => simp [hm] at hmem
  | cons v l =>
    cases l with
    | nil => simp [hm] at hmem hq; omega
    | cons w l => simp [hm] at hone

/-- B2 (bt), under ¬F12b (`memFk` injective on the operated owners with a non-zero fk): Count on a slice =
    number of distinct (owner, target) links of the operated owners -/
theorem C12_slice_count_bt (os : List Nat) (s : St) (hinv : ∀ o ∈ os, Inv ⟨.bt, true⟩ o s)
    (hinj : ∀ a ∈ os, ∀ b ∈ os, s.memFk a ≠ 0 → s.memFk a = s.memFk b → a = b) :
    count ⟨.bt, true⟩ os s = (s.links.eraseDups.filter (fun p => p.1 ∈ os)).length := by
  rw [← List.length_map (f := fun p : Nat × Nat => p.2)]
  unfold count
  apply List.Perm.length_eq
  refine (List.perm_ext_iff_of_nodup ?_ ?_).2 ?_
  · have := nodup_map_filter (fun t : Nat => t) (fun t => decide (t ≠ 0 ∧ t ∈ os.map s.memFk))
      s.targets.eraseDups (nodup_eraseDups _) (fun a _ b _ _ _ e => e)
    simpa [findIds] using this
  · refine nodup_map_filter (fun p : Nat × Nat => p.2) (fun p => decide (p.1 ∈ os))
      s.links.eraseDups (nodup_eraseDups _) ?_
    rintro ⟨a1, a2⟩ ha ⟨b1, b2⟩ hb ha' hb' e
    simp at ha' hb' e ha hb
    subst e
    have fa := bt_link_fk (hinv a1 ha') ha
    have fb := bt_link_fk (hinv b1 hb') hb
    have : a1 = b1 := hinj a1 ha' b1 hb' (by rw [fa.1]; exact fa.2) (by rw [fa.1, fb.1])
    subst this; rfl
  · intro t
    rw [C12_slice_find_bt os s hinv t]
    simp [List.mem_filter]
    constructor
    · rintro ⟨o, ho, hl⟩; exact ⟨o, hl, ho⟩
    · rintro ⟨o, hl, ho⟩; exact ⟨o, ho, hl⟩

/-- B2: observations after any scoped slice run, class fk (under ¬F12e) -/
theorem C12_slice_observations_run_fk (os : List Nat) (ops : List Op) (s : St) (hnd : os.Nodup) (hos : os ≠ [])
    (hinv : ∀ o ∈ os, Inv ⟨.fk, false⟩ o s) (hok : SliceRunOkFk os ops s) :
    (∀ o ∈ os, ∀ t, t ∈ memKeys (run ⟨.fk, false⟩ os ops s) o ↔ t ∈ linksOf (run ⟨.fk, false⟩ os ops s) o) ∧
    (∀ t, t ∈ findIds ⟨.fk, false⟩ os (run ⟨.fk, false⟩ os ops s) ↔
      ∃ o ∈ os, (o, t) ∈ (run ⟨.fk, false⟩ os ops s).links) ∧
    count ⟨.fk, false⟩ os (run ⟨.fk, false⟩ os ops s) =
      ((run ⟨.fk, false⟩ os ops s).links.eraseDups.filter (fun p => p.1 ∈ os)).length :=
  ⟨fun o ho => C12_memory_agrees _ o _ (C12_slice_inv_run_fk os ops s hnd hos hinv hok o ho),
    C12_slice_find_fk false os _, C12_slice_count_fk false os _⟩

/-- B2: observations after any scoped slice run, class bt; Count under ¬F12b in the final state -/
theorem C12_slice_observations_run_bt (os : List Nat) (ops : List Op) (s : St) (hnd : os.Nodup) (hos : os ≠ [])
    (hinv : ∀ o ∈ os, Inv ⟨.bt, true⟩ o s) (hok : SliceRunOkBt os ops s) :
    (∀ o ∈ os, ∀ t, t ∈ memKeys (run ⟨.bt, true⟩ os ops s) o ↔ t ∈ linksOf (run ⟨.bt, true⟩ os ops s) o) ∧
    (∀ t, t ∈ findIds ⟨.bt, true⟩ os (run ⟨.bt, true⟩ os ops s) ↔
      ∃ o ∈ os, (o, t) ∈ (run ⟨.bt, true⟩ os ops s).links) ∧
    ((∀ a ∈ os, ∀ b ∈ os, (run ⟨.bt, true⟩ os ops s).memFk a ≠ 0 →
        (run ⟨.bt, true⟩ os ops s).memFk a = (run ⟨.bt, true⟩ os ops s).memFk b → a = b) →
      count ⟨.bt, true⟩ os (run ⟨.bt, true⟩ os ops s) =
        ((run ⟨.bt, true⟩ os ops s).links.eraseDups.filter (fun p => p.1 ∈ os)).length) := by
  have hI := C12_slice_inv_run_bt os ops s hnd hos hinv hok
  exact ⟨fun o ho => C12_memory_agrees _ o _ (hI o ho), C12_slice_find_bt os _ hI,
    fun hinj => C12_slice_count_bt os _ hI hinj⟩

/-- non-vacuity (slices, fk and bt): well-formed runs on the owners 1 and 2, and their kernel-evaluated result -/
example : SliceRunOkFk [1, 2] [⟨.append, false, [[0, 7], [0]]⟩, ⟨.replace, false, [[7], [0]]⟩, ⟨.delete, false, [[7]]⟩]
    { links := [], targets := [7], next := 21, mem := fun _ => [], memFk := fun _ => 0 } := by
  refine ⟨⟨rfl, fun _ => Or.inr ⟨rfl, ?_, ?_⟩, by simp⟩, ⟨rfl, by simp, fun _ => Or.inr ⟨rfl, ?_, ?_⟩⟩, ⟨rfl, by simp, by simp⟩, trivial⟩
  · intro vs hvs; simp at hvs; rcases hvs with h | h <;> subst h <;> simp
  · unfold NoF12e; decide
  · intro vs hvs; simp at hvs; rcases hvs with h | h <;> subst h <;> decide
  · unfold DisjVals; decide

example : SliceRunOkBt [1, 2] [⟨.append, false, [[0], [7]]⟩, ⟨.replace, false, [[7], [0]]⟩, ⟨.delete, false, [[7]]⟩, ⟨.clear, false, []⟩]
    { links := [], targets := [7], next := 21, mem := fun _ => [], memFk := fun _ => 0 } := by
  refine ⟨⟨rfl, fun _ => Or.inr ⟨rfl, ?_⟩⟩, ⟨rfl, fun _ => Or.inr ⟨rfl, ?_⟩⟩, ⟨rfl, by simp⟩, ⟨rfl, by simp⟩, trivial⟩
  · intro vs hvs; simp at hvs; rcases hvs with h | h <;> subst h <;> simp
  · intro vs hvs; simp at hvs; rcases hvs with h | h <;> subst h <;> exact ⟨_, rfl, by decide⟩

example :
    (run ⟨.fk, false⟩ [1, 2] [⟨.append, false, [[0, 7], [0]]⟩, ⟨.replace, false, [[7], [0]]⟩]
      { links := [], targets := [7], next := 21, mem := fun _ => [], memFk := fun _ => 0 }).links = [(1, 7), (2, 23)] ∧
    (run ⟨.bt, true⟩ [1, 2] [⟨.append, false, [[0], [7]]⟩, ⟨.replace, false, [[7], [0]]⟩]
      { links := [], targets := [7], next := 21, mem := fun _ => [], memFk := fun _ => 0 }).links = [(1, 7), (2, 22)] := by
  decide

/-- non-vacuity (slices, m2m): a well-formed run on the owners 1 and 2; model and specification agree -/
example : SliceRunOk [1, 2] [⟨.append, false, [[0, 7], [0]]⟩, ⟨.replace, false, [[7], [0]]⟩, ⟨.delete, false, [[7]]⟩]
    { links := [], targets := [7], next := 21, mem := fun _ => [], memFk := fun _ => 0 } := by
  refine ⟨?_, ?_, ?_, trivial⟩
  · simp [SliceOpOk, ValsOk]; decide
  · refine ⟨by simp, fun _ => Or.inr ⟨rfl, ?_, ?_⟩⟩
    · intro vs hvs; simp at hvs; rcases hvs with h | h <;> subst h <;> decide
    · intro A hA t hl
      have : (A, t) ∈ [(1, 21), (1, 7), (2, 22)] := hl
      simp at this hA
      rcases this with ⟨rfl, rfl⟩ | ⟨rfl, rfl⟩ | ⟨rfl, rfl⟩ <;> simp [valsOf]
  · simp [SliceOpOk]

example :
    (run ⟨.m2m, false⟩ [1, 2]
      [⟨.append, false, [[0, 7], [0]]⟩, ⟨.replace, false, [[7], [0]]⟩, ⟨.delete, false, [[7]]⟩]
      { links := [], targets := [7], next := 21, mem := fun _ => [], memFk := fun _ => 0 }).links = [(2, 23)] ∧
    (sliceSpecRun [1, 2]
      [⟨.append, false, [[0, 7], [0]]⟩, ⟨.replace, false, [[7], [0]]⟩, ⟨.delete, false, [[7]]⟩]
      (21, fun _ => [])).2 2 = [23] := by
  decide

/-- non-vacuity: the empty store satisfies the invariant for every relation kind the fragment covers … -/
example : Inv ⟨.m2m, false⟩ 1 { links := [], targets := [], next := 21, mem := fun _ => [], memFk := fun _ => 0 } := by
  constructor <;> simp

example : Inv ⟨.bt, true⟩ 1 { links := [], targets := [], next := 21, mem := fun _ => [], memFk := fun _ => 0 } := by
  constructor <;> simp

/-- … and a call with a preset key and two keyless values is well-formed in it -/
example : OpOk ⟨.m2m, false⟩ { links := [], targets := [], next := 21, mem := fun _ => [], memFk := fun _ => 0 }
    ⟨.append, false, [[0, 0, 7]]⟩ := by
  refine ⟨rfl, fun _ => Or.inr ⟨[0, 0, 7], rfl, by simp, by simp, fun _ => by decide, by simp⟩⟩

example : RunOk ⟨.fk, false⟩ 1 [⟨.append, false, [[0, 7]]⟩, ⟨.delete, false, [[7]]⟩, ⟨.clear, false, []⟩]
    { links := [], targets := [], next := 21, mem := fun _ => [], memFk := fun _ => 0 } := by
  simp [RunOk, OpOk]

/-- … and on a concrete run model and specification give the same links (kernel-evaluated) -/
example :
    (run ⟨.fk, false⟩ [1] [⟨.append, false, [[0, 7]]⟩, ⟨.append, false, [[0]]⟩, ⟨.delete, false, [[7]]⟩]
      { links := [], targets := [], next := 21, mem := fun _ => [], memFk := fun _ => 0 }).links
      = [(1, 21), (1, 22)] ∧
    specRun ⟨.fk, false⟩ [⟨.append, false, [[0, 7]]⟩, ⟨.append, false, [[0]]⟩, ⟨.delete, false, [[7]]⟩] (21, [])
      = (23, [21, 22]) := by
  decide


/-! ## Polymorphic has-one / has-many relations over a target table shared by owners of DIFFERENT types.
    The stored link is the triple (owner type, owner id, target): two columns of the target row. -/

/-- the column lists of the association upsert: the has-one block and the has-many block of SaveAfterAssociations
    agree, and for a polymorphic relation BOTH link columns (owner id AND type) are overwritten on conflict
    (tied to the real `DO UPDATE SET` lists by the suite poly-upsert-columns) -/
theorem C12_poly_assign_cols (r : AssocPoly.PRel) :
    AssocPoly.assignColsHasOne r = AssocPoly.assignColsHasMany r ∧
    (r.ty ≠ 0 → AssocPoly.Col.oid ∈ AssocPoly.assignCols r ∧ AssocPoly.Col.oty ∈ AssocPoly.assignCols r) :=
  ⟨AssocPoly.assignCols_agree r, AssocPoly.assignCols_poly r⟩

/-- … and the type column in that list is NECESSARY: with the owner-id column alone, appending toy 11 (stored as
    the toy of pet 1, type 3) to user 1 (type 1) does not link it to the user — it stays a toy of the pet that
    happens to have the user's id -/
theorem C12_poly_type_column_needed_counterexample :
    let rows := AssocPoly.upsert [AssocPoly.Col.oid] [AssocPoly.elem ⟨false, 1⟩ 1 11] [⟨11, 1, 3⟩]
    rows = [⟨11, 1, 3⟩] ∧ ¬ AssocPoly.Linked rows 1 1 11 ∧ AssocPoly.Linked rows 3 1 11 := by
  refine ⟨by decide, ?_, ?_⟩
  · intro h
    obtain ⟨_, x, hx, _, _, hty⟩ := h
    have : x = ⟨11, 1, 3⟩ := by
      have : x ∈ [(⟨11, 1, 3⟩ : AssocPoly.Row)] := hx
      simpa using this
    subst this
    exact absurd hty (by decide)
  · exact ⟨by decide, ⟨11, 1, 3⟩, by decide, rfl, rfl, rfl⟩

/-- the save of one owner (whatever its in-memory field holds): every saved element is stored, and EVERY row with
    its key carries the owner's (id, type) pair -/
theorem C12_poly_saved_pair (r : AssocPoly.PRel) (clear : Bool) (a : AssocPoly.Arg) (s : AssocPoly.St) (h : r.ty ≠ 0)
    (t : Nat) (ht : t ∈ AssocPoly.savedKeys r clear a s.next) :
    (∃ x ∈ (AssocPoly.saveOwner r clear a s).rows, x.id = t) ∧
    ∀ x ∈ (AssocPoly.saveOwner r clear a s).rows, x.id = t → x.oid = a.o ∧ x.oty = r.ty :=
  AssocPoly.saveOwner_pair r clear a s h t ht

/-- per-call refinement on the ternary link relation: any has-one / has-many relation, any owner type value, one
    owner or a slice, scoped or Unscoped, fresh or loaded handle -/
theorem C12_poly_step_refines (op : AssocPoly.POp) (s : AssocPoly.St) (hok : AssocPoly.OpOk op) (hn : s.next ≠ 0) :
    AssocPoly.Linked (AssocPoly.step op s).rows = AssocPoly.specStep op s.next (AssocPoly.Linked s.rows) ∧
    (AssocPoly.step op s).next = AssocPoly.nextStep op s.next :=
  AssocPoly.step_refines op s hok hn

/-- MAIN (polymorphic): along EVERY sequence of calls on any mix of relations, owners and owner types the stored
    links (owner type, owner id, target) are exactly the set-algebra fold -/
theorem C12_poly_links_refine (ops : List AssocPoly.POp) (s : AssocPoly.St) (hok : ∀ op ∈ ops, AssocPoly.OpOk op)
    (hn : s.next ≠ 0) :
    AssocPoly.Linked (AssocPoly.run ops s).rows = AssocPoly.specRun ops s.next (AssocPoly.Linked s.rows) :=
  AssocPoly.run_refines ops s hok hn

/-- readable single-owner instance, has-many Append: afterwards every target of the (filled) field is linked to the
    operated (type, owner) and to NO other (type, owner) — also when it was stored under another owner type before;
    every other target keeps exactly its links -/
theorem C12_poly_append_moves (r : AssocPoly.PRel) (uns : Bool) (a : AssocPoly.Arg) (s : AssocPoly.St)
    (hr : r.one = false) (hty : r.ty ≠ 0) (ho : a.o ≠ 0) (hn : s.next ≠ 0) (ty' o' t : Nat) :
    AssocPoly.Linked (AssocPoly.step ⟨r, .append, uns, [a], []⟩ s).rows ty' o' t ↔
      (t ∈ AssocPoly.savedKeys r false a s.next ∧ ty' = r.ty ∧ o' = a.o) ∨
      (t ∉ AssocPoly.savedKeys r false a s.next ∧ AssocPoly.Linked s.rows ty' o' t) := by
  have h := (AssocPoly.step_refines ⟨r, .append, uns, [a], []⟩ s ⟨hty, by simpa [AssocPoly.POp.os] using Ne.symm ho⟩ hn).1
  rw [h]
  simp [AssocPoly.specStep, hr, AssocPoly.specSave, AssocPoly.moveTo]

/-- readable single-owner instance, Replace (and has-one Append): the operated (type, owner) is linked to exactly the
    saved targets, those targets to nothing else; links of every OTHER (type, owner) — in particular rows with the
    same owner id under another type — lose only the targets that were moved -/
theorem C12_poly_replace_sets (r : AssocPoly.PRel) (uns : Bool) (a : AssocPoly.Arg) (s : AssocPoly.St)
    (hty : r.ty ≠ 0) (ho : a.o ≠ 0) (hn : s.next ≠ 0) (ty' o' t : Nat) :
    AssocPoly.Linked (AssocPoly.step ⟨r, .replace, uns, [a], []⟩ s).rows ty' o' t ↔
      (t ∈ AssocPoly.savedKeys r true a s.next ∧ ty' = r.ty ∧ o' = a.o) ∨
      (t ∉ AssocPoly.savedKeys r true a s.next ∧ ¬(ty' = r.ty ∧ o' = a.o) ∧ AssocPoly.Linked s.rows ty' o' t) := by
  have h := (AssocPoly.step_refines ⟨r, .replace, uns, [a], []⟩ s ⟨hty, by simpa [AssocPoly.POp.os] using Ne.symm ho⟩ hn).1
  rw [h]
  simp only [AssocPoly.specStep, AssocPoly.specReplace, AssocPoly.specSave, AssocPoly.moveTo, AssocPoly.dropWhere,
    AssocPoly.keepKeys, AssocPoly.POp.os, List.map, List.append_nil, List.mem_singleton]
  constructor
  · rintro ⟨h1 | h1, h2⟩
    · exact Or.inl h1
    · exact Or.inr ⟨h1.1, fun hc => h2 ⟨hc.1, hc.2, h1.1⟩, h1.2⟩
  · rintro (h1 | h1)
    · exact ⟨Or.inl h1, fun hc => hc.2.2 h1.1⟩
    · exact ⟨Or.inr ⟨h1.1, h1.2.2⟩, fun hc => h1.2.1 ⟨hc.1, hc.2.1⟩⟩

/-- readable single-owner instance, Delete / Clear: only links of the operated (type, owner) go (Delete: the named
    ones); a row with the same owner id under ANOTHER type is never unlinked -/
theorem C12_poly_delete_clear (r : AssocPoly.PRel) (uns : Bool) (a : AssocPoly.Arg) (ns : List Nat) (s : AssocPoly.St)
    (hty : r.ty ≠ 0) (ho : a.o ≠ 0) (hn : s.next ≠ 0) (ty' o' t : Nat) :
    (AssocPoly.Linked (AssocPoly.step ⟨r, .delete, uns, [a], ns⟩ s).rows ty' o' t ↔
      AssocPoly.Linked s.rows ty' o' t ∧ ¬(ty' = r.ty ∧ o' = a.o ∧ t ∈ ns)) ∧
    (AssocPoly.Linked (AssocPoly.step ⟨r, .clear, uns, [a], ns⟩ s).rows ty' o' t ↔
      AssocPoly.Linked s.rows ty' o' t ∧ ¬(ty' = r.ty ∧ o' = a.o)) := by
  have hok : ∀ k, AssocPoly.OpOk ⟨r, k, uns, [a], ns⟩ := fun k => ⟨hty, by simpa [AssocPoly.POp.os] using Ne.symm ho⟩
  constructor
  · rw [(AssocPoly.step_refines _ s (hok .delete) hn).1]
    simp [AssocPoly.specStep, AssocPoly.dropWhere, AssocPoly.POp.os]
  · rw [(AssocPoly.step_refines _ s (hok .clear) hn).1]
    simp [AssocPoly.specStep, AssocPoly.dropWhere, AssocPoly.POp.os]

/-- rows of ANOTHER owner type that are not among the written elements survive every call unchanged — Delete and
    Clear write no element, so for them unconditionally (decoy rows with equal owner ids) -/
theorem C12_poly_foreign_rows_untouched (op : AssocPoly.POp) (s : AssocPoly.St) (x : AssocPoly.Row)
    (hty : op.rel.ty ≠ 0) (hx : x ∈ s.rows) (hf : x.oty ≠ op.rel.ty) (hid : x.id ∉ AssocPoly.touched op s.next) :
    x ∈ (AssocPoly.step op s).rows :=
  AssocPoly.foreign_rows_untouched op s x hty hx hf hid

/-- Find / Count (buildCondition) report exactly the links of the operated (type, owner)s -/
theorem C12_poly_find (r : AssocPoly.PRel) (os : List Nat) (rows : List AssocPoly.Row) (h : r.ty ≠ 0) (hos : 0 ∉ os)
    (t : Nat) : t ∈ AssocPoly.findIds r os rows ↔ ∃ o ∈ os, AssocPoly.Linked rows r.ty o t :=
  AssocPoly.mem_findIds r os rows h hos t

/-- non-vacuity (polymorphic): toy 11 of pet 1 (type 3) appended to user 1 (type 1) while decoy 1 = (user id 1, type 5)
    exists; then Delete(11) on pet 1 (a no-op) and Clear on user 1: kernel-evaluated table -/
example :
    (AssocPoly.run [⟨⟨false, 1⟩, .append, false, [⟨1, [], [11, 0]⟩], []⟩, ⟨⟨false, 3⟩, .delete, false, [⟨1, [], []⟩], [11]⟩]
      ⟨[⟨1, 1, 5⟩, ⟨11, 1, 3⟩], 21, []⟩).rows = [⟨1, 1, 5⟩, ⟨11, 1, 1⟩, ⟨21, 1, 1⟩] ∧
    (AssocPoly.run [⟨⟨false, 1⟩, .append, false, [⟨1, [], [11, 0]⟩], []⟩, ⟨⟨false, 1⟩, .clear, false, [⟨1, [], []⟩], []⟩]
      ⟨[⟨1, 1, 5⟩, ⟨11, 1, 3⟩], 21, []⟩).rows = [⟨1, 1, 5⟩, ⟨11, 0, 1⟩, ⟨21, 0, 1⟩] ∧
    AssocPoly.OpOk ⟨⟨false, 1⟩, .append, false, [⟨1, [], [11, 0]⟩], []⟩ := by
  refine ⟨by decide, by decide, by decide, by decide⟩


/-! ## Keys that reference NON-primary columns, the state of the argument records, zero-argument calls

    `AssocRef.sitesOfFacts` resolves, from the facts regenerated out of association.go on every run, WHICH key of the
    in-memory records each condition of Delete / Replace reads (primary key, referenced column, foreign-key value);
    the theorems below hold for whatever the source says as long as it resolves to `AssocRef.sound`, which
    `C12_ref_sites_sound` checks against the current tree. -/

set_option maxRecDepth 16384 in
/-- every key-reading site of Association.Delete / Replace hands over the field list under which the statement
    addresses the records it is meant to address (operated owners / named targets / kept targets by the REFERENCED
    column where a foreign key or join column is compared, by the primary key where the target's own key is compared) -/
theorem C12_ref_sites_sound : AssocRef.sitesOfFacts = some AssocRef.sound := by
  decide

set_option maxRecDepth 16384 in
theorem AssocRef.nestedOmits_true : AssocRef.nestedOmits = true := by decide

set_option maxRecDepth 16384 in
theorem AssocRef.appendGuarded_true : AssocRef.appendGuarded = true := by decide

theorem AssocRef.sites_eq {S : AssocRef.Sites} (h : AssocRef.sitesOfFacts = some S) : S = AssocRef.sound :=
  Option.some.inj (h.symm.trans C12_ref_sites_sound)

/-- belongs-to whose foreign key references ANY column of the target (id ≠ code allowed): Delete removes exactly the
    links operated owner -> named target, every other owner row keeps its foreign key -/
theorem C12_ref_delete_belongs_to (S : AssocRef.Sites) (h : AssocRef.sitesOfFacts = some S)
    (os named owners : List AssocRef.Rec) (oid tcode : Nat) :
    AssocRef.BtLinked (AssocRef.btDelete S os named owners) oid tcode ↔
      AssocRef.BtLinked owners oid tcode ∧ ¬ (oid ∈ os.map (·.id) ∧ tcode ∈ named.map (·.code)) := by
  rw [AssocRef.sites_eq h]; exact AssocRef.bt_delete_links os named owners oid tcode

/-- has-one / has-many whose foreign key references ANY column of the owner: Delete removes exactly the links -/
theorem C12_ref_delete_has_many (S : AssocRef.Sites) (h : AssocRef.sitesOfFacts = some S)
    (os named targets : List AssocRef.Rec) (ocode tid : Nat) :
    AssocRef.FkLinked (AssocRef.fkDelete S os named targets) ocode tid ↔
      AssocRef.FkLinked targets ocode tid ∧ ¬ (ocode ∈ os.map (·.code) ∧ tid ∈ named.map (·.id)) := by
  rw [AssocRef.sites_eq h]; exact AssocRef.fk_delete_links os named targets ocode tid

/-- … Replace's clean-up keeps the other owners' links and the operated owners' links to the kept records -/
theorem C12_ref_replace_has_many (S : AssocRef.Sites) (h : AssocRef.sitesOfFacts = some S)
    (os keep targets : List AssocRef.Rec) (ocode tid : Nat) :
    AssocRef.FkLinked (AssocRef.fkReplaceCleanup S os keep targets) ocode tid ↔
      AssocRef.FkLinked targets ocode tid ∧ (ocode ∈ os.map (·.code) → tid ∈ keep.map (·.id)) := by
  rw [AssocRef.sites_eq h]; exact AssocRef.fk_replace_links os keep targets ocode tid

/-- many2many whose join columns reference ANY columns of owner and target (`references:` / `joinReferences:`) -/
theorem C12_ref_delete_many2many (S : AssocRef.Sites) (h : AssocRef.sitesOfFacts = some S)
    (os named : List AssocRef.Rec) (joins : List (Nat × Nat)) (j : Nat × Nat) :
    j ∈ AssocRef.m2mDelete S os named joins ↔
      j ∈ joins ∧ ¬ (j.1 ∈ os.map (·.code) ∧ j.2 ∈ named.map (·.code)) := by
  rw [AssocRef.sites_eq h]; exact AssocRef.m2m_delete_links os named joins j

theorem C12_ref_replace_many2many (S : AssocRef.Sites) (h : AssocRef.sitesOfFacts = some S)
    (os keep : List AssocRef.Rec) (joins : List (Nat × Nat)) (j : Nat × Nat) :
    j ∈ AssocRef.m2mReplaceCleanup S os keep joins ↔
      j ∈ joins ∧ (j.1 ∈ os.map (·.code) → keep ≠ [] ∧ j.2 ∈ keep.map (·.code)) := by
  rw [AssocRef.sites_eq h]; exact AssocRef.m2m_replace_links os keep joins j

/-- the in-memory clean-up of Delete compares PRIMARY keys on both sides -/
theorem C12_ref_delete_memory (S : AssocRef.Sites) (h : AssocRef.sitesOfFacts = some S)
    (field named : List AssocRef.Rec) (e : AssocRef.Rec) :
    e ∈ AssocRef.cleanMem S field named ↔ e ∈ field ∧ e.id ∉ named.map (·.id) := by
  rw [AssocRef.sites_eq h]; exact AssocRef.clean_mem field named e

/-- the distinction matters: reading the named targets of a belongs-to Delete by their PRIMARY key leaves the link of
    owner 1 to target (id 3, code 7) in place (the call matches nothing), and addressing has-many owners by their primary
    key instead of the referenced column unlinks nothing either -/
theorem C12_ref_primary_key_counterexample :
    AssocRef.BtLinked (AssocRef.btDelete { AssocRef.sound with btDelNamed := .pk } [⟨1, 5, 7⟩] [⟨3, 7, 0⟩] [⟨1, 5, 7⟩]) 1 7 ∧
    ¬ AssocRef.BtLinked (AssocRef.btDelete AssocRef.sound [⟨1, 5, 7⟩] [⟨3, 7, 0⟩] [⟨1, 5, 7⟩]) 1 7 ∧
    AssocRef.fkDelete { AssocRef.sound with fkDelOwner := .pk } [⟨1, 5, 0⟩] [⟨3, 7, 5⟩] [⟨3, 7, 5⟩] = [⟨3, 7, 5⟩] ∧
    AssocRef.fkDelete AssocRef.sound [⟨1, 5, 0⟩] [⟨3, 7, 5⟩] [⟨3, 7, 5⟩] = [⟨3, 7, 0⟩] := by
  refine ⟨⟨by decide, ⟨1, 5, 7⟩, by decide, rfl, rfl⟩, ?_, by decide, by decide⟩
  rintro ⟨_, x, hx, _, hfk⟩
  simp [AssocRef.btDelete, AssocRef.sound, AssocRef.keys, AssocRef.Rec.key] at hx
  subst hx
  simp at hfk

/-- ARGUMENT records: the nested upsert of association mode omits the arguments' own associations (regenerated from
    callbacks/associations.go saveAssociations), hence every argument - fresh, key-only, loaded with a stale foreign key,
    loaded with a preloaded back-reference to its previous owner - is linked to the operated owner, and its own
    in-memory foreign-key field says so afterwards -/
theorem C12_argument_links_owner (o : Nat) (args : List AssocRef.ArgRec) :
    AssocRef.nestedOmits = true ∧
    AssocRef.nestedLinks AssocRef.nestedOmits o args = args.map (fun a => (o, a.key)) ∧
    ∀ a ∈ args, (a.saved AssocRef.nestedOmits o).fkField = o := by
  have h : AssocRef.nestedOmits = true := AssocRef.nestedOmits_true
  rw [h]
  exact ⟨rfl, AssocRef.nested_links_owner o args, fun a _ => AssocRef.nested_saved_fk o a⟩

theorem C12_argument_state_irrelevant (o : Nat) (a b : AssocRef.ArgRec) (h : a.key = b.key) :
    AssocRef.nestedLinks AssocRef.nestedOmits o [a] = AssocRef.nestedLinks AssocRef.nestedOmits o [b] := by
  have hn : AssocRef.nestedOmits = true := AssocRef.nestedOmits_true
  rw [hn]; exact AssocRef.nested_independent_of_argument_state o a b h

/-- … and without that branch a member loaded with Preload("Manager") goes back to its old manager -/
theorem C12_argument_back_reference_counterexample :
    AssocRef.nestedLinks false 2 [{ key := 3, fkField := 1, back := some 1 }] = [(1, 3)] ∧
    AssocRef.nestedLinks true 2 [{ key := 3, fkField := 1, back := some 1 }] = [(2, 3)] :=
  AssocRef.nested_without_omit_counterexample

/-- ZERO-argument calls.  The dispatch of association.go with the guard of Append as regenerated from the source is the
    modelled `step`; Append that names no target changes NOTHING (links, targets, in-memory fields, statements), for
    every relation kind, scoped and Unscoped, single record and slice of records -/
theorem C12_append_nothing (r : Rel) (os : List Nat) (uns : Bool) (s : St) :
    AssocRef.call AssocRef.appendGuarded r os ⟨.append, uns, []⟩ s = s := by
  have h : AssocRef.appendGuarded = true := AssocRef.appendGuarded_true
  rw [h, AssocRef.call_guarded]; exact AssocRef.append_nothing r os uns s

theorem C12_dispatch_is_step (r : Rel) (os : List Nat) (op : Op) (s : St) :
    AssocRef.call AssocRef.appendGuarded r os op s = step r os op s := by
  have h : AssocRef.appendGuarded = true := AssocRef.appendGuarded_true
  rw [h]; exact AssocRef.call_guarded r os op s

/-- Replace that names no target is Clear -/
theorem C12_replace_nothing_is_clear (r : Rel) (os : List Nat) (uns : Bool) (s : St) :
    step r os ⟨.replace, uns, []⟩ s = step r os ⟨.clear, uns, []⟩ s :=
  AssocRef.replace_nothing_is_clear r os uns s

/-- a scoped Delete that names no target removes nothing and touches no in-memory field -/
theorem C12_delete_nothing (r : Rel) (os : List Nat) (s : St) (he : s.err = false) :
    let s' := step r os ⟨.delete, false, [[]]⟩ s
    s'.links = s.links ∧ s'.targets = s.targets ∧ s'.mem = s.mem ∧ s'.memFk = s.memFk :=
  AssocRef.delete_nothing r os s he

/-- the guard matters: delegating a zero-argument Append of a has-one to Replace() clears the link -/
theorem C12_append_unguarded_counterexample :
    let s : St := { links := [(1, 14)], targets := [14], next := 21, mem := fun o => if o = 1 then [14] else [],
                    memFk := fun _ => 0 }
    (AssocRef.call false ⟨.fk, true⟩ [1] ⟨.append, false, []⟩ s).links = [] ∧
    (AssocRef.call true ⟨.fk, true⟩ [1] ⟨.append, false, []⟩ s).links = [(1, 14)] :=
  AssocRef.append_unguarded_counterexample

/-- F12g (listed finding): has-one `Replace([]T{})` - ONE argument that is an empty slice - through a record that holds
    its link in memory: the link is kept, although Replace() without argument and the same call on a has-many clear.
    (The refinement theorems above demand a non-empty value list per argument: `OpOk`, `SliceOpOk*` - exactly the negation
    of the pattern.) -/
theorem C12_single_valued_empty_slice_counterexample :
    let s : St := { links := [(1, 14)], targets := [14], next := 21, mem := fun o => if o = 1 then [14] else [],
                    memFk := fun _ => 0 }
    (step ⟨.fk, true⟩ [1] ⟨.replace, false, [[]]⟩ s).links = [(1, 14)] ∧
    (step ⟨.fk, true⟩ [1] ⟨.replace, false, []⟩ s).links = [] ∧
    (step ⟨.fk, false⟩ [1] ⟨.replace, false, [[]]⟩ s).links = [] := by
  decide

/-- non-vacuity: a record whose referenced column differs from its primary key, named in a Delete -/
example : AssocRef.btDelete AssocRef.sound [⟨1, 5, 7⟩] [⟨3, 7, 0⟩] [⟨1, 5, 7⟩, ⟨2, 6, 7⟩] = [⟨1, 5, 0⟩, ⟨2, 6, 7⟩] := by
  decide


/-! ## Handles are values (round 3): `a := db.Model(&x).Association(f)` kept in a variable, `a.Unscoped()` called on it -/

/-- regenerated facts: `Association.Unscoped` returns a NEW `&Association{DB, Relationship, Error, Unscope: true}` literal, no
    function of association.go assigns to an `Unscope` (or `DB`) field of an existing struct, `Unscoped` assigns to no field at
    all, no other literal sets `Unscope`; every exported operation starts with `if association.Error == nil`. -/
theorem C12_handle_current_tree : unscopedFresh = true ∧ errorSticky = true := by decide

/-- "… unless Unscoped is used": for EVERY program over handle variables, an operation runs Unscoped exactly when the variable it
    is called through was bound to the RESULT of `Unscoped()`; calling `Unscoped()` on a handle (result dropped, kept, used for a
    read) never changes what later calls through that handle do. -/
theorem C12_handle_unscoped_is_pure (card1 : Nat → Bool) (prog : List Instr) (r : Nat) (o : Op) (d : Bool)
    (he : Ev.op r o d ∈ execAll true card1 {} prog) : o.unscoped = d :=
  execAll_flag card1 prog {} hinv_init r o d he

/-- … so the operations a program performs on a relation are those of the value semantics of handles, and every theorem above
    about `run` applies to them with the DECLARED flags -/
theorem C12_handle_ops_are_declared (card1 : Nat → Bool) (prog : List Instr) (rel : Nat) :
    opsOf rel (execAll true card1 {} prog) = declaredOpsOf rel (execAll true card1 {} prog) :=
  opsOf_eq_declared rel _ (fun r o d he => execAll_flag card1 prog {} hinv_init r o d he)

/-- why the regenerated fact matters: an `Unscoped` that sets the flag on its receiver turns a later plain `Clear()` through the
    ORIGINAL handle into an Unscoped one (records deleted instead of unlinked) -/
theorem C12_handle_receiver_mutation_counterexample :
    execAll false (fun _ => false) {} [.assoc 0 1, .unscoped none 0, .call 0 .clear [] false]
      = [.op 1 ⟨.clear, true, []⟩ false] ∧
    execAll true (fun _ => false) {} [.assoc 0 1, .unscoped none 0, .call 0 .clear [] false]
      = [.op 1 ⟨.clear, false, []⟩ false] := by
  decide

/-- a handle that has failed refuses every later call (association.Error is never reset) and nothing runs -/
theorem C12_handle_error_sticky (fresh : Bool) (card1 : Nat → Bool) (h : Heap) (v a : Nat) (kind : OpKind)
    (vals : List (List Nat)) (bad : Bool) (hv : h.var v = some a) (he : (h.cell a).err = true) :
    exec fresh card1 h (.call v kind vals bad) = (h, [.refused (h.cell a).rel]) := by
  simp [exec, hv, he]

/-- the copy made by `Unscoped()` inherits the error of its receiver; a failure AFTER the copy stays with the struct it hit -/
theorem C12_handle_error_copy_example :
    execAll true (fun _ => false) {} [.assoc 0 1, .call 0 .append [[11]] true, .unscoped (some 1) 0, .call 1 .clear [] false,
                                      .assoc 2 1, .unscoped (some 3) 2, .call 2 .append [[11]] true, .call 3 .clear [] false]
      = [.failed 1, .refused 1, .failed 1, .op 1 ⟨.clear, true, []⟩ true] := by
  decide

/-- F12h (listed finding): a second Delete through the SAME kept handle goes through a *gorm.DB that still carries the Model /
    WHERE clauses / ReflectValue of the first one - the model does not predict it (on the real code: `primary key required`) -/
theorem C12_handle_reuse_counterexample :
    opsOf 1 (execAll true (fun _ => false) {} [.assoc 0 1, .call 0 .append [[11, 12]] false, .call 0 .delete [[11]] false,
                                               .call 0 .delete [[12]] false]) = none ∧
    opsOf 1 (execAll true (fun _ => false) {} [.assoc 0 1, .call 0 .append [[11, 12]] false, .call 0 .delete [[11]] false,
                                               .assoc 0 1, .call 0 .delete [[12]] false])
      = some [⟨.append, false, [[11, 12]]⟩, ⟨.delete, false, [[11]]⟩, ⟨.delete, false, [[12]]⟩] := by
  decide

/-- … and outside that pattern (no call goes through an already used *gorm.DB) every call of the program is an operation of the
    sequence, a refused call or a failed call: the operations of each relation are defined -/
theorem C12_handle_reuse_partial (rel : Nat) (es : List Ev) (hclean : ∀ r, Ev.polluted r ∉ es) :
    ∃ ops, opsOf rel es = some ops := by
  induction es with
  | nil => exact ⟨[], rfl⟩
  | cons e es ih =>
    obtain ⟨ops, ho⟩ := ih (fun r hm => hclean r (List.mem_cons_of_mem _ hm))
    cases e with
    | op r o d =>
      by_cases hr : r = rel
      · exact ⟨o :: ops, by simp [opsOf, hr, ho]⟩
      · exact ⟨ops, by simp [opsOf, hr, ho]⟩
    | polluted r => exact absurd (by simp) (hclean r)
    | refused r => exact ⟨ops, by simp [opsOf, ho]⟩
    | failed r => exact ⟨ops, by simp [opsOf, ho]⟩
    | read r u => exact ⟨ops, by simp [opsOf, ho]⟩
    | nohandle => exact ⟨ops, by simp [opsOf, ho]⟩

/-! ## Record identity is exact key equality (round 3): letter case, blanks, digits, non-ASCII -/

/-- regenerated fact: `utils.ToStringKey` prints a string key VERBATIM (`case string: results[idx] = v`), `[]byte` as `string(v)`,
    `uint` in decimal - what `KeyVal.render` transcribes -/
theorem C12_key_render_current_tree :
    Gen.toStringKeyCases = [("string", ["v"]), ("[]byte", ["string(v)"]), ("uint", ["strconv.FormatUint(uint64(v), 10)"]),
                            ("default", ["\"nil\"", "fmt.Sprint(reflect.Indirect(vv).Interface())"])] := by
  decide

/-- string keys of one arity without the separator `_`: equal key strings mean equal key tuples -/
theorem C12_string_keys_exact (n : Nat) (r r' : IdRow) (h : StrKey n r) (h' : StrKey n r') (hk : r.keyStr = r'.keyStr) :
    r.vals = r'.vals :=
  strKey_exact n r r' h h' hk

/-- NONE FOREIGN: whatever partition into variadic arguments a call uses, every tuple of the IN / NOT IN list built by
    `GetIdentityFieldValuesMapFromValues` is the key of a record the call names -/
theorem C12_named_tuples_sound (args : List ArgV) (t : List KeyVal) (h : t ∈ (identityFromValues args).values) :
    t ∈ namedTuples args := by
  rw [fromValues_values] at h
  obtain ⟨a, ha, hta⟩ := List.mem_flatMap.1 h
  obtain ⟨r, hr, hv, hz⟩ := arg_values_sound a t hta
  unfold namedTuples
  refine List.mem_filterMap.2 ⟨r, List.mem_flatMap.2 ⟨a, ha, hr⟩, ?_⟩
  simp [hz, hv]

/-- NONE MISSING: for string keys (one arity, no separator) EVERY named record's key tuple is in the list - two records whose
    keys differ in any character (letter case, a blank, "1" vs "01", "ß" vs "ss") are both named -/
theorem C12_named_tuples_complete (n : Nat) (args : List ArgV) (hf : ∀ a ∈ args, AddrKeyFun a.rows)
    (hs : ∀ a ∈ args, ∀ r ∈ a.rows, StrKey n r) (t : List KeyVal) (h : t ∈ namedTuples args) :
    t ∈ (identityFromValues args).values := by
  rw [fromValues_values]
  unfold namedTuples at h
  obtain ⟨r, hr, hrt⟩ := List.mem_filterMap.1 h
  obtain ⟨a, ha, hra⟩ := List.mem_flatMap.1 hr
  by_cases hz : allZero r.key = true
  · simp [hz] at hrt
  · have hz' : allZero r.key = false := by simpa using hz
    simp [hz'] at hrt
    subst hrt
    exact List.mem_flatMap.2 ⟨a, ha, arg_values_complete n a (hf a ha) (hs a ha) r hra hz'⟩

/-- non-vacuity + the seeded shape: `Delete(&[]Locale{en, EN, "en "})` names three records; the clean-up of the in-memory field
    drops exactly those; a fourth, un-named "En" stays -/
theorem C12_key_case_blank_example :
    let k (s : String) (a : Nat) : IdRow := ⟨a, [⟨.str s.toList, false⟩]⟩
    (identityFromValues [.many [k "en" 1, k "EN" 2, k "en " 3]]).values.length = 3 ∧
    (cleanSlice [k "en" 1, k "En" 4, k "EN" 2] [.many [k "en" 5, k "EN" 6]]).map (·.addr) = [4] ∧
    cleanSlice [k "en" 1, k "En" 4, k "EN" 2] [.many [k "en" 5, k "EN" 6]]
      = cleanExact [k "en" 1, k "En" 4, k "EN" 2] [.many [k "en" 5, k "EN" 6]] := by
  decide

/-! ## The caller's copies of the relation slice (round 6): association mode builds every new field value in fresh memory -/

namespace AssocSlices

theorem read_stepFresh_old (s : St) (op : SOp) (c : Hdr) (hc : c.arr < s.heap.length) :
    read (stepFresh s op).heap c = read s.heap c := by
  simp [read, stepFresh, List.getD_eq_getElem?_getD, List.getElem?_append_left hc]

theorem read_stepFresh_field (s : St) (op : SOp) :
    read (stepFresh s op).heap (stepFresh s op).field = newContents (read s.heap s.field) op := by
  simp [read, stepFresh, List.getD_eq_getElem?_getD]

theorem heap_le_stepFresh (s : St) (op : SOp) : s.heap.length < (stepFresh s op).heap.length := by
  simp [stepFresh]

theorem heap_le_runFresh : ∀ (ops : List SOp) (s : St), s.heap.length ≤ (runFresh s ops).heap.length
  | [], _ => Nat.le_refl _
  | op :: ops, s => Nat.le_trans (Nat.le_of_lt (heap_le_stepFresh s op)) (heap_le_runFresh ops (stepFresh s op))

end AssocSlices

open AssocSlices in
/-- regenerated facts (association.go, current tree): the two slices grown by reflect.Append - `validFieldValues` of Delete's
    in-memory clean-up, `fieldValue` of appendToRelations - start from reflect.Zero / reflect.MakeSlice and from nothing else;
    association.go re-slices nothing (no `x[a:b]`, Slice, Slice3, SetLen, SetCap, Grow), writes into no element of a reflect
    slice, and its only reflect.Copy fills such a fresh slice. This is what makes `stepFresh` the transcription. -/
theorem C12_field_slices_fresh :
    Gen.assocReslices = [] ∧ Gen.assocElemWrites = [] ∧
    freshOrigins Gen.assocSliceOrigins = true ∧
    Gen.assocSliceOrigins.map (fun o => (o.1, o.2.1)) =
      [("Association.Delete", "validFieldValues"), ("Association.saveAssociation", "fieldValue"), ("Association.saveAssociation", "fieldValue")] ∧
    (∀ b ∈ Gen.assocAppendBases, b ∈ Gen.assocSliceOrigins.map (fun o => (o.1, o.2.1))) ∧
    (∀ d ∈ Gen.assocCopyDsts, d ∈ Gen.assocAppendBases) := by
  decide

open AssocSlices in
/-- CAPTURED SLICES ARE STABLE: whatever sequence of Append / Replace / Delete / Clear a record receives, a slice header the
    caller AssocSlices.read from the field before (any header into the heap as it was then) shows the same records afterwards -/
theorem C12_captured_slice_stable : ∀ (ops : List SOp) (s : AssocSlices.St) (c : Hdr), c.arr < s.heap.length →
    AssocSlices.read (runFresh s ops).heap c = AssocSlices.read s.heap c
  | [], _, _, _ => rfl
  | op :: ops, s, c, hc => by
    show AssocSlices.read (runFresh (stepFresh s op) ops).heap c = _
    rw [C12_captured_slice_stable ops (stepFresh s op) c (Nat.lt_trans hc (heap_le_stepFresh s op)), read_stepFresh_old s op c hc]

open AssocSlices in
/-- ... and the field itself holds what set algebra says: Append adds, Replace sets, Delete drops the named, Clear empties -/
theorem C12_field_after_call (s : AssocSlices.St) (op : SOp) :
    AssocSlices.read (stepFresh s op).heap (stepFresh s op).field =
      match op with
      | .append vs => AssocSlices.read s.heap s.field ++ vs
      | .replace vs => vs
      | .delete vs => (AssocSlices.read s.heap s.field).filter (fun x => !vs.contains x)
      | .clear => [] := by
  rw [read_stepFresh_field]; cases op <;> rfl

open AssocSlices in
/-- "remember, change, restore" is sound: `all := u.Rel; Delete(named…); Replace(all)` and `old := u.Rel; Replace(vs); Append(old)`
    name - through the remembered slice - exactly the records it held when it was AssocSlices.read -/
theorem C12_remember_then_restore (s : AssocSlices.St) (hf : s.field.arr < s.heap.length) (op : SOp) :
    let all := s.field
    let s1 := stepFresh s op
    AssocSlices.read (stepFresh s1 (.replace (AssocSlices.read s1.heap all))).heap (stepFresh s1 (.replace (AssocSlices.read s1.heap all))).field = AssocSlices.read s.heap s.field := by
  simp only [read_stepFresh_field, newContents, read_stepFresh_old s op s.field hf]

open AssocSlices in
/-- what the facts exclude (kernel-checked): with the filter-in-place idiom `fieldValue.Slice(0, 0)` the field is still right
    after `Delete(a)` on [a, b, c], but the caller's earlier copy reads [b, c, c]; after `Replace(c)` on [a, b] it reads [c, b] -/
theorem C12_in_place_filter_counterexample :
    let s : AssocSlices.St := ⟨[[1, 2, 3]], ⟨0, 3⟩⟩
    AssocSlices.read (stepInPlace s (.delete [1])).heap (stepInPlace s (.delete [1])).field = [2, 3] ∧
    AssocSlices.read (stepInPlace s (.delete [1])).heap s.field = [2, 3, 3] ∧
    AssocSlices.read (stepInPlace ⟨[[1, 2]], ⟨0, 2⟩⟩ (.replace [3])).heap ⟨0, 2⟩ = [3, 2] ∧
    AssocSlices.read (stepFresh s (.delete [1])).heap s.field = [1, 2, 3] := by
  decide

end Gorm
