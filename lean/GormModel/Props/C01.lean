/-
  C01 — argument values reach the database only as bound parameters, one per placeholder.

  Model: `GormModel/Model/Bind.lean` (`Gorm.Bind.addVar` = statement.go `Statement.AddVar` with everything it
  dispatches to).  `Val β` is polymorphic in the payload β of bindable data; SQL text is `List Seg` (no β).
-/
import GormModel.Lemmas.Bind
import GormModel.Gen.Misc
namespace Gorm
open Gorm.Bind

/-- **"never becomes part of the SQL text"**: for ALL values (any nesting of slices, expressions with their own
    arguments, named arguments, clause builders, sub-queries), both dialects, every amount of fuel and every start
    state: building commutes with an arbitrary re-labelling `f` of the payloads.  In particular the text segments do
    not depend on any payload, and the bound values are the payloads themselves, in the same positions. -/
theorem C01_naturality {β γ : Type} (f : β → γ) (d : Dialect) (n : Nat) (v : Val β) (st : St β) :
    addVar d n (v.map f) (st.map f) = (addVar d n v st).map f :=
  Bind.addVar_nat f d n v st

/-- the same for `render` (= `stmt.AddVar(stmt, v)` on a fresh statement with adequate fuel) -/
theorem C01_render_naturality {β γ : Type} (f : β → γ) (d : Dialect) (v : Val β) :
    render d (v.map f) = (render d v).map f :=
  Bind.render_nat f d v

/-- corollary: two inputs of the same shape (they differ only in payloads) produce the SAME text; the SQL sent to
    the driver is a function of the shape alone -/
theorem C01_text_independent {β γ : Type} (f : β → γ) (d : Dialect) (v : Val β) :
    concretize d (render d (v.map f)).segs = concretize d (render d v).segs := by
  rw [C01_render_naturality]; rfl

/-- corollary: the bound values are exactly the images of the bound values -/
theorem C01_vars_natural {β γ : Type} (f : β → γ) (d : Dialect) (v : Val β) :
    (render d (v.map f)).vars = (render d v).vars.map (Val.map f) := by
  rw [C01_render_naturality]; rfl

/-- non-vacuity / sanity: a hostile string payload in a slice after `(`, `$n` dialect -/
example :
    let v : Val String := .expr "name IN (?) AND age > ?".toList [.list true [.scalar "x'); DROP--", .scalar "?"], .scalar "@n"] false
    (String.ofList (concretize .dollar (render .dollar v).segs), (render .dollar v).vars.length, (render .dollar v).oof)
      = ("name IN ($1,$2) AND age > $3", 3, false) := by decide

/-! ### alignment of placeholders and bound values

`Aligned st`: the placeholder numbers written so far, read left to right, are exactly `1..len(Vars)`
(`ph n` is what BindVarTo wrote when `len(stmt.Vars) = n`, i.e. `$n`; for `?` the k-th `?` belongs to the k-th var). -/

def Aligned {β : Type} (st : St β) : Prop := phs st.segs = List.range' 1 st.vars.length

instance {β : Type} (st : St β) : Decidable (Aligned st) := by unfold Aligned; infer_instance

theorem phs_append (a b : List Seg) : phs (a ++ b) = phs a ++ phs b := by
  induction a with
  | nil => rfl
  | cons x xs ih => cases x <;> simp [phs, ih]

/-- the only primitive that appends to `stmt.Vars` in the non-NamedArg arms (`append` + `BindVarTo`) preserves alignment -/
theorem C01_bind_aligned {β : Type} (st : St β) (v : Val β) (h : Aligned st) : Aligned (st.bind v) := by
  unfold Aligned at *
  simp [St.bind, St.bindVarTo, St.appendVar, phs_append, phs, h, List.range'_concat]
  omega

/-- literal writes and quoted identifiers preserve alignment -/
theorem C01_write_aligned {β : Type} (st : St β) (s : List Char) (h : Aligned st) :
    Aligned (st.writeString s) ∧ Aligned (st.quote s) := by
  unfold Aligned at *
  simp [St.writeString, St.quote, phs_append, phs, h]

/-- FINDING F21 (kernel-checked witness, replayed on the real code by the harness):
    `Where("name = @n AND age = ?", sql.Named("n","x"), 5)` — one named and one positional parameter in the template,
    one named and one positional argument.  BuildCondition routes it to clause.Expr (the text contains `?`); the `?`
    consumes `Vars[0]`, which is the sql.NamedArg: AddVar's NamedArg arm appends its value and writes NO placeholder;
    the positional 5 is then surplus and is appended without placeholder as well: two bound values, no placeholder. -/
theorem C01_named_slot_counterexample :
    let args : List (Val String) := [.named "n".toList (.scalar "x"), .scalar "5"]
    let st := render .qmark (Val.whereC ((buildCondStr false "name = @n AND age = ?".toList args).getD []))
    String.ofList (concretize .qmark st.segs) = "name = @n AND age = " ∧ st.vars.map Val.payload? = [some "x", some "5"] ∧ phs st.segs = [] ∧ ¬ Aligned st := by
  decide

/-- with the positional argument first the same template is rendered with one placeholder for it and the
    sql.NamedArg is handed to the driver as a (driver-level) named argument for the `@n` left in the text -/
example :
    let args : List (Val String) := [.scalar "5", .named "n".toList (.scalar "x")]
    let st := render .qmark (Val.whereC ((buildCondStr false "age = ? AND name = @n".toList args).getD []))
    String.ofList (concretize .qmark st.segs) = "age = ? AND name = @n" ∧ st.vars.map Val.payload? = [some "5", none] ∧ phs st.segs = [1] := by
  decide

/-- `$n` with more than nine values: numbers are printed `$1 … $12` in order and the rendered sub-query
    (`db.Raw(..)` as argument, textual re-templating branch of AddVar) is re-numbered after the outer value -/
example :
    let inner : Val String := .expr "SELECT id FROM t WHERE age IN ?".toList [.list true ((List.range 11).map fun i => .scalar (toString i))] false
    let r := render .dollar inner
    let outer : Val String := .expr "email <> ? AND id IN (?)".toList [.scalar "e", .rsub (concretize .dollar r.segs) r.vars] false
    let st := render .dollar outer
    String.ofList (concretize .dollar st.segs)
        = "email <> $1 AND id IN (SELECT id FROM t WHERE age IN ($2,$3,$4,$5,$6,$7,$8,$9,$10,$11,$12))"
      ∧ Aligned st ∧ st.vars.length = 12 := by
  decide

/-! ### regenerated arm table of `Statement.AddVar` (extract/main.go → Gen/Misc.lean) -/

/-- every arm of the type switch that appends to `stmt.Vars` calls `BindVarTo` once per append — except the
    `sql.NamedArg` arm (append, no placeholder) -/
theorem C01_arms :
    ∀ a ∈ Gen.addVarArms, a.appendsVar > 0 → (a.types = ["sql.NamedArg"] ∨ a.bindVarTo = a.appendsVar) := by decide

/-- … and `sql.NamedArg` is the only such arm -/
theorem C01_arms_named_only :
    (Gen.addVarArms.filter (fun a => decide (a.appendsVar > a.bindVarTo))).map (·.types) = [["sql.NamedArg"]] := by decide

/-- the arm table the model was transcribed from equals the one regenerated from /repo on this run -/
theorem C01_arms_model : Bind.modelArms = Gen.addVarArms := by decide

end Gorm
