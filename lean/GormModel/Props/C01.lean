/-
  C01 — argument values reach the database only as bound parameters, one per placeholder.

  Model: `GormModel/Model/Bind.lean` (`Gorm.Bind.addVar` = statement.go `Statement.AddVar` with everything it
  dispatches to).  `Val β` is polymorphic in the payload β of bindable data; SQL text is `List Seg` (no β).
-/
import GormModel.Lemmas.Bind
import GormModel.Lemmas.BindAligned
import GormModel.Lemmas.BindRetemplate
import GormModel.Model.BindJoin
import GormModel.Gen.Misc
import GormModel.Gen.BindSites
import GormModel.Model.BindApi
import GormModel.Gen.BindApi
import GormModel.Model.BindStr
import GormModel.Lemmas.BindStr
import GormModel.Gen.BindStr
namespace Gorm
open Gorm.Bind

/-- **"never becomes part of the SQL text"**: for ALL values (any nesting of slices, expressions with their own
    arguments, named arguments, clause builders, sub-queries), both dialects, every amount of fuel and every start
    state: building commutes with an arbitrary re-labelling `f` of the payloads.  In particular the text segments do
    not depend on any payload, and the bound values are the payloads themselves, in the same positions. -/
theorem C01_naturality {β γ : Type} (f : β → γ) (d : Dialect) (n : Nat) (v : Val β) (st : St β) :
    addVar d n (v.map f) (st.map f) = (addVar d n v st).map f :=
  Bind.addVar_nat f d n v st

/-- the same for `render` (= `stmt.AddVar(stmt, v)` on a fresh statement with adequate fuel) -/
theorem C01_render_naturality {β γ : Type} (f : β → γ) (d : Dialect) (v : Val β) :
    render d (v.map f) = (render d v).map f :=
  Bind.render_nat f d v

/-- corollary: two inputs of the same shape (they differ only in payloads) produce the SAME text; the SQL sent to
    the driver is a function of the shape alone -/
theorem C01_text_independent {β γ : Type} (f : β → γ) (d : Dialect) (v : Val β) :
    concretize d (render d (v.map f)).segs = concretize d (render d v).segs := by
  rw [C01_render_naturality]; rfl

/-- corollary: the bound values are exactly the images of the bound values -/
theorem C01_vars_natural {β γ : Type} (f : β → γ) (d : Dialect) (v : Val β) :
    (render d (v.map f)).vars = (render d v).vars.map (Val.map f) := by
  rw [C01_render_naturality]; rfl

/-- non-vacuity / sanity: a hostile string payload in a slice after `(`, `$n` dialect -/
example :
    let v : Val String := .expr "name IN (?) AND age > ?".toList [.list true [.scalar "x'); DROP--", .scalar "?"], .scalar "@n"] false
    (String.ofList (concretize .dollar (render .dollar v).segs), (render .dollar v).vars.length, (render .dollar v).oof)
      = ("name IN ($1,$2) AND age > $3", 3, false) := by decide

/-! ### alignment of placeholders and bound values

`Aligned st`: the placeholder numbers written so far, read left to right, are exactly `1..len(Vars)`
(`ph n` is what BindVarTo wrote when `len(stmt.Vars) = n`, i.e. `$n`; for `?` the k-th `?` belongs to the k-th var). -/

def Aligned {β : Type} (st : St β) : Prop := phs st.segs = List.range' 1 st.vars.length

instance {β : Type} (st : St β) : Decidable (Aligned st) := by unfold Aligned; infer_instance

theorem phs_append (a b : List Seg) : phs (a ++ b) = phs a ++ phs b := by
  induction a with
  | nil => rfl
  | cons x xs ih => cases x <;> simp [phs, ih]

/-- the only primitive that appends to `stmt.Vars` in the non-NamedArg arms (`append` + `BindVarTo`) preserves alignment -/
theorem C01_bind_aligned {β : Type} (st : St β) (v : Val β) (h : Aligned st) : Aligned (st.bind v) := by
  unfold Aligned at *
  simp [St.bind, St.bindVarTo, St.appendVar, phs_append, phs, h, List.range'_concat]
  omega

/-- literal writes and quoted identifiers preserve alignment -/
theorem C01_write_aligned {β : Type} (st : St β) (s : List Char) (h : Aligned st) :
    Aligned (st.writeString s) ∧ Aligned (st.quote s) := by
  unfold Aligned at *
  simp [St.writeString, St.quote, phs_append, phs, h]

/-- FINDING F21 (kernel-checked witness, replayed on the real code by the harness):
    `Where("name = @n AND age = ?", sql.Named("n","x"), 5)` — one named and one positional parameter in the template,
    one named and one positional argument.  BuildCondition routes it to clause.Expr (the text contains `?`); the `?`
    consumes `Vars[0]`, which is the sql.NamedArg: AddVar's NamedArg arm appends its value and writes NO placeholder;
    the positional 5 is then surplus and is appended without placeholder as well: two bound values, no placeholder. -/
theorem C01_named_slot_counterexample :
    let args : List (Val String) := [.named "n".toList (.scalar "x"), .scalar "5"]
    let st := render .qmark (Val.whereC ((buildCondStr false "name = @n AND age = ?".toList args).getD []))
    String.ofList (concretize .qmark st.segs) = "name = @n AND age = " ∧ st.vars.map Val.payload? = [some "x", some "5"] ∧ phs st.segs = [] ∧ ¬ Aligned st := by
  decide

/-- with the positional argument first the same template is rendered with one placeholder for it and the
    sql.NamedArg is handed to the driver as a (driver-level) named argument for the `@n` left in the text -/
example :
    let args : List (Val String) := [.scalar "5", .named "n".toList (.scalar "x")]
    let st := render .qmark (Val.whereC ((buildCondStr false "age = ? AND name = @n".toList args).getD []))
    String.ofList (concretize .qmark st.segs) = "age = ? AND name = @n" ∧ st.vars.map Val.payload? = [some "5", none] ∧ phs st.segs = [1] := by
  decide

/-- `$n` with more than nine values: numbers are printed `$1 … $12` in order and the rendered sub-query
    (`db.Raw(..)` as argument, textual re-templating branch of AddVar) is re-numbered after the outer value -/
example :
    let inner : Val String := .expr "SELECT id FROM t WHERE age IN ?".toList [.list true ((List.range 11).map fun i => .scalar (toString i))] false
    let r := render .dollar inner
    let outer : Val String := .expr "email <> ? AND id IN (?)".toList [.scalar "e", .rsub (concretize .dollar r.segs) r.vars] false
    let st := render .dollar outer
    String.ofList (concretize .dollar st.segs)
        = "email <> $1 AND id IN (SELECT id FROM t WHERE age IN ($2,$3,$4,$5,$6,$7,$8,$9,$10,$11,$12))"
      ∧ Aligned st ∧ st.vars.length = 12 := by
  decide

/-! ### the other half of the property, PROVED: one placeholder per bound value, in order, slices expanded

Specification: `Model/BindSpec.lean` — `WellFormed d v` (decidable) and `flatten d v`, both projections of one
structural traversal `spec d v` that has no builder state and no fuel.
Invariant: `Lemmas/BindAligned.lean` — `Step o st xs`, preserved by every primitive and every builder. -/

/-- **Builder invariant, every arm of `AddVar` and every clause builder it dispatches to** (Expr.Build,
    NamedExpr.Build, Eq/Neq/…/IN, Values, Set, Limit, OnConflict, Where members, Clause.Build, Statement.Build, both
    sub-query branches), both dialects, ANY start state `st` (e.g. the outer statement with `p` vars already bound),
    any fuel above the nesting depth of the value (fuel adequacy): a well-formed value
      * appends exactly `flatten d v` to `stmt.Vars`,
      * writes exactly the placeholders numbered `len(Vars)+1, …, len(Vars)+k` (k = number of appended values), in
        that order, after the placeholders already written,
      * never runs out of fuel and never leaves the model. -/
theorem C01_step {β : Type} (d : Dialect) (n : Nat) (v : Val β) (st : St β)
    (hfuel : v.depth < n) (hwf : WellFormed d v) :
    (addVar d n v st).vars = st.vars ++ flatten d v ∧
    phs (addVar d n v st).segs = phs st.segs ++ List.range' (st.vars.length + 1) (flatten d v).length ∧
    (addVar d n v st).oof = st.oof ∧ (addVar d n v st).unsupported = st.unsupported :=
  let h := Bind.addVar_step d n v hfuel hwf st
  ⟨h.vars_eq, h.phs_eq, h.oof_eq, h.uns_eq⟩

/-- the invariant `Aligned` is preserved by `AddVar` of a well-formed value from every aligned state -/
theorem C01_addVar_aligned {β : Type} (d : Dialect) (n : Nat) (v : Val β) (st : St β)
    (hfuel : v.depth < n) (hwf : WellFormed d v) (h : Aligned st) : Aligned (addVar d n v st) :=
  (Bind.addVar_step d n v hfuel hwf st).aligned h

/-- **fuel adequacy**: `render` (fuel = depth + 1) never exhausts its fuel on a well-formed value, and more fuel
    changes nothing that the property speaks about -/
theorem C01_fuel_adequate {β : Type} (d : Dialect) (v : Val β) (hwf : WellFormed d v) :
    (render d v).oof = false ∧ (render d v).unsupported = false ∧
    ∀ n, v.depth < n → (addVar d n v {}).vars = (render d v).vars ∧ phs (addVar d n v {}).segs = phs (render d v).segs := by
  have h := Bind.addVar_step d (v.depth + 1) v (Nat.lt_succ_self _) hwf {}
  refine ⟨h.oof_eq, h.uns_eq, fun n hn => ?_⟩
  have h' := Bind.addVar_step d n v hn hwf {}
  exact ⟨h'.vars_eq.trans h.vars_eq.symm, h'.phs_eq.trans h.phs_eq.symm⟩

/-- **C01, alignment**: for every well-formed input and both dialects the placeholder segments of the output, read
    left to right, are exactly `ph 1, ph 2, …, ph n` with `n = len(Vars)` (`ph k` is printed `?` resp. `$k`). -/
theorem C01_aligned {β : Type} (d : Dialect) (v : Val β) (hwf : WellFormed d v) : Aligned (render d v) :=
  C01_addVar_aligned d _ v {} (Nat.lt_succ_self _) hwf (show phs ([] : List Seg) = List.range' 1 0 from rfl)

/-- what `concretize` prints for the k-th placeholder -/
theorem C01_placeholder_text (k : Nat) :
    segText .qmark (.ph k) = ['?'] ∧ segText .dollar (.ph k) = '$' :: Nat.toDigits 10 k := ⟨rfl, rfl⟩

/-- **C01, expansion**: the bound values are exactly the specified flattening (scalar ↦ 1; non-empty list ↦ one per
    element; empty list ↦ none (text `(NULL)`), resp. one nil in a `?` slot directly after `(`; []byte / Valuer ↦ 1;
    nested Expr ↦ its own flattening in place; sub-query ↦ its vars in place) -/
theorem C01_expansion {β : Type} (d : Dialect) (v : Val β) (hwf : WellFormed d v) :
    (render d v).vars = flatten d v := by
  have h := Bind.addVar_step d (v.depth + 1) v (Nat.lt_succ_self _) hwf {}
  show (addVar d (v.depth + 1) v {}).vars = (spec d v).xs
  simpa using h.vars_eq

/-- the equations of `flatten` a reader expects (all by `rfl`/`simp` from the definition of `spec`) -/
theorem C01_flatten_equations {β : Type} (d : Dialect) (b : β) (s : Bool) (x y : Val β) (bs : List β) :
    flatten d (.scalar b) = [.scalar b] ∧
    flatten d (.list s [x, y]) = flatten d x ++ flatten d y ∧
    flatten d (.list s ([] : List (Val β))) = [] ∧
    flatten d (.ilist [x, y]) = flatten d x ++ flatten d y ∧
    flatten d (.bytes false bs) = [.bytes false bs] ∧
    flatten d (.dvaluer false b) = [.dvaluer false b] ∧
    flatten d (.expr "a = ? AND b IN ?".toList [x, y] false) = flatten d x ++ flatten d y ∧
    flatten d (.expr "a IN (?)".toList [.list s [x, y]] false) = flatten d x ++ flatten d y ∧
    flatten d (.expr "a IN (?)".toList [.list s ([] : List (Val β))] false) = [.nil] ∧
    flatten d (.subq ["SELECT".toList, "WHERE".toList] [x, y]) = flatten d x ++ flatten d y := by
  simp [flatten, spec, annot, catSnd, Sp.cat, Sp.app, Sp.one, Sp.none, slotFlags, pickSlots, expandSp]

/-! ### sub-query re-numbering under `$n` -/

/-- **The textual re-templating loop is exact on aligned text.**  `AddVar case *DB` (rendered branch) and
    `genJoinClause` turn the dialect placeholders of a privately rendered text back into `?` with
    `for i { sql = strings.Replace(sql, "$i", "?", 1) }`.  The prefix problem — `$1` is a prefix of `$10`, `$11`, … —
    does NOT arise when the rendering is aligned (numbers increase left to right: `phs segs = i, i+1, …`) and the
    literal text contains no `$`: when the loop looks for `$i`, every earlier placeholder is already `?`, so the first
    `$` of the remaining text is the placeholder `$i` itself.  No bound on the number of placeholders. -/
theorem C01_retemplate (segs : List Seg) (k : Nat) (hnd : NoDollar segs) (hal : phs segs = List.range' 1 k) :
    retemplate .dollar 1 k (concretize .dollar segs) = concretize .qmark segs :=
  Bind.retemplate_aligned' segs k hnd hal

/-- under `?` the loop is the identity -/
theorem C01_retemplate_qmark (i k : Nat) (s : List Char) : retemplate .qmark i k s = s := Bind.retemplate_qmark i k s

/-- the hypothesis "no `$` in the literal text" is needed: a `$` inside a string literal of the raw sub-query is hit
    by the loop through exactly the prefix problem (`$1` matches the head of the literal `'$100'`), the literal is
    rewritten and the real placeholder keeps its INNER number.  (Caller-supplied SQL text containing placeholder
    syntax of the dialect — like a `?` inside a literal under the `?` dialect — is excluded as ill-formed.) -/
theorem C01_retemplate_dollar_literal_counterexample :
    String.ofList (retemplate .dollar 1 1 (concretize .dollar [.lit "label = '$100' AND age > ".toList, .ph 1]))
      = "label = '?00' AND age > $1" := Bind.retemplate_dollar_literal_counterexample

/-- hence embedding an ALIGNED `$n` rendering as a sub-query IS building `clause.Expr{SQL: <the same text with ?>,
    Vars: vars}` (resp. `NamedExpr` when the text contains `@`) at the current position of the outer statement:
    same output for every state and fuel, same specification (`hqd`: no placeholder of the rendering is directly
    followed by a digit in the literal text) -/
theorem C01_subquery_is_expr {β : Type} (segs : List Seg) (vars : List (Val β))
    (hnd : NoDollar segs) (hal : phs segs = List.range' 1 vars.length)
    (hqd : qDigit (concretize .qmark segs) = false) (n : Nat) (st : St β) :
    let t := concretize .qmark segs
    let e : Val β := if containsSub t ['@'] then .nexpr t vars else .expr t vars false
    addVar .dollar (n + 1) (.rsub (concretize .dollar segs) vars) st = addVar .dollar (n + 1) e st ∧
    spec .dollar (.rsub (concretize .dollar segs) vars) = spec .dollar e := by
  have hq : (concretize .qmark segs).contains '$' = false := by
    have := Bind.noDollar_concretize_qmark segs hnd
    simpa using this
  simp only [addVar, spec, C01_retemplate segs vars.length hnd hal, hq, hqd]
  split <;> simp [addVar, spec]

/-- **C01, sub-query re-numbering** (both branches of `AddVar case *DB`, stated for `$n`): embedding a well-formed
    sub-query — a chain (`subq`) or an already rendered `Raw` (`rsub`) — whose flattening has `k` values after `p`
    outer vars yields exactly the placeholders `$p+1 … $p+k`, in order, and appends its values in place. -/
theorem C01_subquery_renumber {β : Type} (n : Nat) (sub : Val β) (st : St β) (hfuel : sub.depth < n)
    (hwf : WellFormed .dollar sub) :
    phs (addVar .dollar n sub st).segs
        = phs st.segs ++ List.range' (st.vars.length + 1) (flatten .dollar sub).length ∧
    (addVar .dollar n sub st).vars = st.vars ++ flatten .dollar sub :=
  let h := Bind.addVar_step .dollar n sub hfuel hwf st
  ⟨h.phs_eq, h.vars_eq⟩

/-- FINDING F26 (kernel-checked witness, replayed on the real code by the harness):
    `db.Where("outer_col = ?", o).Where("id IN (?)", db.Raw("SELECT id FROM t WHERE label = '$100' AND age > ?", a))` under
    a `$n` dialect.  The sub-query was rendered on its own as `… label = '$100' AND age > $1`; the re-templating loop of
    `AddVar case *DB` looks for `$1` and hits the head of the literal `'$100'` (the prefix problem); the `?` it leaves there
    is then bound as the sub-query's value, the real placeholder keeps its INNER number: the statement reaches the driver
    with the literal rewritten to `'$200'`, `$1` twice and `$2` never, for two bound values.  `WellFormed` excludes exactly
    this (a `$` left over after re-templating); without an outer value the round trip is accidentally the identity. -/
theorem C01_dollar_literal_counterexample :
    let sub : Val String := .rsub "SELECT id FROM t WHERE label = '$100' AND age > $1".toList [.scalar "7"]
    let st := render .dollar (Val.whereC [.expr "outer_col = ?".toList [.scalar "o"] false, .expr "id IN (?)".toList [sub] false])
    String.ofList (concretize .dollar st.segs)
        = "outer_col = $1 AND id IN (SELECT id FROM t WHERE label = '$200' AND age > $1)" ∧
      st.vars.map Val.payload? = [some "o", some "7"] ∧ ¬ WellFormed .dollar sub ∧
      String.ofList (concretize .dollar (render .dollar (Val.whereC [.expr "id IN (?)".toList [sub] false])).segs)
        = "id IN (SELECT id FROM t WHERE label = '$100' AND age > $1)" := by
  decide

/-- **relation-join ON handles** (callbacks/query.go genJoinClause, model `joinOnExpr`): the ON conditions are rendered
    on a private statement, re-templated by the same textual loop and re-bound as `clause.Expr{SQL: onSQL, Vars: vars}`.
    For well-formed conditions the private rendering is aligned (`C01_aligned`), so under `$n` the loop is exact
    (`C01_retemplate`): the re-bound expression carries the SAME text with `?` for every placeholder, and the privately
    bound values in order — for any number of values (`$1`/`$10` prefixes included). -/
theorem C01_join_on_retemplate {β : Type} (on : List (Val β)) (hwf : WellFormed .dollar (.whereC on))
    (hnd : NoDollar (render .dollar (.whereC on)).segs) :
    joinOnExpr .dollar on =
      (if (concretize .dollar (render .dollar (.whereC on)).segs).isEmpty then none
       else some (.expr (concretize .qmark (render .dollar (.whereC on)).segs) (render .dollar (.whereC on)).vars false)) := by
  have hal : phs (render .dollar (Val.whereC on)).segs = List.range' 1 (render .dollar (Val.whereC on)).vars.length :=
    C01_aligned .dollar (.whereC on) hwf
  simp only [joinOnExpr, C01_retemplate _ _ hnd hal]

-- a join ON handle with 11 values under `$n`, after one outer SELECT value and before one outer WHERE value
set_option maxRecDepth 16384 in
example :
    let on : List (Val String) := [.expr "Company.name <> ? AND Company.id IN ?".toList [.scalar "n", .list true ((List.range 10).map fun i => .scalar (toString i))] false]
    let v := joinStmt .dollar (.expr "SELECT ? FROM u JOIN c".toList [.scalar "s"] false) [.cmp .eq (.column "u".toList "cid".toList [] false) (.column "c".toList "id".toList [] false)] on [.cmp .gt (.column [] "age".toList [] false) (.scalar "18")]
    WellFormed .dollar v ∧ Aligned (render .dollar v) ∧ (render .dollar v).vars.length = 13 ∧
    String.ofList (concretize .dollar (render .dollar v).segs)
      = "SELECT $1 FROM u JOIN c ON `u`.`cid` = `c`.`id` AND (Company.name <> $2 AND Company.id IN ($3,$4,$5,$6,$7,$8,$9,$10,$11,$12)) WHERE `age` > $13" := by
  decide

/-! ### non-vacuity of `WellFormed`, and what it excludes -/

/-- a template with a nested Expr, a slice after `(`, an empty slice after `(`, an empty slice in plain position, a
    []byte, a nil pointer Valuer, a chain sub-query with its own values, a rendered `$n` sub-query with 11 values
    (so `$1`/`$10`/`$11` occur): well formed under both dialects; 6 + 3 + 11 = 20 bound values -/
def c01Witness (d : Dialect) : Val String :=
  let inner : Val String := .expr "SELECT id FROM t WHERE age IN ?".toList [.list true ((List.range 11).map fun i => .scalar (toString i))] false
  let r := render d inner
  .expr "a = ? AND b IN (?) AND c IN (?) AND d IN ? AND e = ? AND f = ? AND g IN (?) AND h IN (?)".toList
    [ .expr "lower(?)".toList [.scalar "x'); DROP--"] false,
      .list true [.scalar "p", .scalar "?"],
      .list false [],
      .ilist [],
      .bytes false ["b1", "b2"],
      .gvaluer true .nil,
      .subq ["SELECT id FROM u WHERE".toList] [.whereC [.cmp .eq (.column [] "n".toList [] false) (.scalar "@n"), .inn false (.column [] "k".toList [] false) [.scalar "k1", .scalar "k2"]]],
      .rsub (concretize d r.segs) r.vars ] false

example : WellFormed .qmark (c01Witness .qmark) ∧ WellFormed .dollar (c01Witness .dollar) := by decide

set_option maxRecDepth 16384 in
example : (flatten .dollar (c01Witness .dollar)).length = 20 ∧ (render .dollar (c01Witness .dollar)).vars.length = 20 ∧
    phs (render .dollar (c01Witness .dollar)).segs = List.range' 1 20 := by decide

set_option maxRecDepth 16384 in
example : String.ofList (concretize .dollar (render .dollar (c01Witness .dollar)).segs)
    = "a = lower($1) AND b IN ($2,$3) AND c IN ($4) AND d IN (NULL) AND e = $5 AND f = $6 AND g IN (SELECT id FROM u WHERE `n` = $7 AND `k` IN ($8,$9)) AND h IN (SELECT id FROM t WHERE age IN ($10,$11,$12,$13,$14,$15,$16,$17,$18,$19,$20))" := by
  decide

/-- named arguments given as sql.Named, map and struct (with an embedded struct), values that are slices; a
    positional argument in the same template; `$n` -/
example :
    let v : Val String := .nexpr "name = @Name AND age > ? AND id IN @ids AND z IN (@Zs) AND w = @Inner".toList
      [ .scalar "18", .named "ids".toList (.list true [.scalar "1", .scalar "2"]),
        .nmap ["Zs".toList] [.list true [.scalar "z1"]],
        .strct [("Name".toList, false), ("Emb".toList, true)] [.scalar "n", .strct [("Inner".toList, false)] [.scalar "w"]] ]
    WellFormed .dollar v ∧ (flatten .dollar v).map Val.payload? = [some "n", some "18", some "1", some "2", some "z1", some "w"] ∧
    String.ofList (concretize .dollar (render .dollar v).segs)
      = "name = $1 AND age > $2 AND id IN ($3,$4) AND z IN (($5)) AND w = $6" := by decide

/-- FINDING F21 is exactly what `WellFormed` excludes: the witness of `C01_named_slot_counterexample` is not well
    formed (a `sql.NamedArg` in a positional slot), under either route (Expr because the text has `?`; NamedExpr as
    `db.Raw` would route it) -/
theorem C01_named_slot_illformed :
    let args : List (Val String) := [.named "n".toList (.scalar "x"), .scalar "5"]
    ¬ WellFormed .qmark (Val.whereC ((buildCondStr false "name = @n AND age = ?".toList args).getD [])) ∧
    ¬ WellFormed .qmark (Val.nexpr "name = @n AND age = ?".toList args) ∧
    WellFormed .qmark (Val.nexpr "age = ? AND name = @n".toList [.scalar "5", .named "n".toList (.scalar "x")]) := by
  decide

/-- arity is needed: a surplus argument is appended without placeholder, a surplus `?` stays in the text -/
theorem C01_illformed_counterexample :
    let a : Val String := .expr "x = ?".toList [.scalar "1", .scalar "2"] false
    let b : Val String := .expr "x = ? AND y = ?".toList [.scalar "1"] false
    ¬ WellFormed .qmark a ∧ ¬ Aligned (render .qmark a) ∧
    ¬ WellFormed .qmark b ∧ String.ofList (concretize .qmark (render .qmark b).segs) = "x = ? AND y = ?" ∧ (render .qmark b).vars.length = 1 := by
  decide

/-! ### regenerated arm table of `Statement.AddVar` (extract/main.go → Gen/Misc.lean) -/

/-- every arm of the type switch that appends to `stmt.Vars` calls `BindVarTo` once per append — except the
    `sql.NamedArg` arm (append, no placeholder) -/
theorem C01_arms :
    ∀ a ∈ Gen.addVarArms, a.appendsVar > 0 → (a.types = ["sql.NamedArg"] ∨ a.bindVarTo = a.appendsVar) := by decide

/-- … and `sql.NamedArg` is the only such arm -/
theorem C01_arms_named_only :
    (Gen.addVarArms.filter (fun a => decide (a.appendsVar > a.bindVarTo))).map (·.types) = [["sql.NamedArg"]] := by decide

/-- the arm table the model was transcribed from equals the one regenerated from /repo on this run -/
theorem C01_arms_model : Bind.modelArms = Gen.addVarArms := by decide

/-! ### regenerated facts about the re-templating loops and the Expr/NamedExpr dispatch (extract/gen_c01.go → Gen/BindSites.lean) -/

/-- what makes a Go loop `for … { BindVarTo(&bindvar, stmt, v); sql = strings.Replace(sql, bindvar.String(), "?", 1) }`
    an instance of the model function `retemplate d 1 k`: in iteration i the statement handed to BindVarTo has exactly
    i vars (so a numbered dialect prints the i-th placeholder), the builder is fresh, ONE occurrence is replaced by `?`,
    the text is threaded through -/
def retemplateLoopOk (l : Gen.RetemplateLoop) : Bool :=
  l.count == 1 && l.newText == "?" && (l.grows == "append1" || l.grows == "prefix") && l.reset && l.fresh && l.threads &&
    l.replaceAfterBind

/-- the re-templating loops in gorm are exactly the two the model covers (AddVar `case *DB` = `Val.rsub`;
    genJoinClause's ON handle = the same loop followed by `clause.Expr{SQL: onSQL, Vars: vars}`), and each of them is an
    instance of `retemplate` — to which `C01_retemplate` applies -/
theorem C01_retemplate_sites :
    Gen.retemplateLoops.map (fun l => (l.fn, l.file)) = [("BuildQuerySQL", "callbacks/query.go"), ("Statement.AddVar", "statement.go")] ∧
    ∀ l ∈ Gen.retemplateLoops, retemplateLoopOk l = true := by decide

/-- the conditions under which a text is handed to `clause.NamedExpr` (the only builder that resolves named arguments
    given as sql.NamedArg, map, struct or pointer to struct) look at the TEXT (and at most at the presence of
    arguments), never at the dynamic type of the arguments — as in the model (`buildCondStr`, `Val.rsub`, Raw/Exec) -/
def namedDispatchOk (s : Gen.NamedDispatch) : Bool :=
  (s.cond == "strings.Contains(" ++ s.sqlArg ++ ", \"@\")" && !s.inElse) ||
  (s.cond == "len(args) > 0 && strings.Contains(" ++ s.sqlArg ++ ", \"@\")" && !s.inElse) ||
  (s.cond == "strings.Count(" ++ s.sqlArg ++ ", \"@\") > 0 && len(args) > 0" && !s.inElse) ||
  -- raw-string joins: always NamedExpr (the else branches of "is it a relation name?")
  (s.fn == "BuildQuerySQL" && s.sqlArg == "join.Name" && s.inElse)

theorem C01_named_dispatch_sites :
    Gen.namedDispatch.map (·.fn) = ["BuildQuerySQL", "BuildQuerySQL", "DB.Raw", "DB.Select", "DB.Exec", "Statement.AddVar", "Statement.BuildCondition"] ∧
    ∀ s ∈ Gen.namedDispatch, namedDispatchOk s = true := by decide

/-- the reflect-kind switches the model transcribes: which kinds count as "a list" (`expandElems`, `Val.list`: Slice AND
    Array) and which test keeps a byte string as ONE bound value (`Val.bytes`: the element TYPE is exactly `uint8`, so a
    slice of a named uint8 enum type is a list of numbers, `Val.list`), empty first (`(NULL)` resp. `AddVar(nil)`) -/
def modelKindCases : List (String × String × List String) := [
  ("Statement.AddVar", "reflect.Slice, reflect.Array", ["rv.Len() == 0", "rv.Type().Elem() == reflect.TypeOf(uint8(0))"]),
  ("Statement.AddVar", "default", []),
  ("Expr.Build", "reflect.Slice, reflect.Array", ["rv.Len() == 0"]),
  ("Expr.Build", "default", []),
  ("NamedExpr.Build", "reflect.Struct", []),
  ("NamedExpr.Build", "reflect.Slice, reflect.Array", ["rv.Len() == 0"]),
  ("NamedExpr.Build", "default", [])
]

theorem C01_kind_cases_model : Gen.kindCases.map (fun k => (k.fn, k.kinds, k.conds)) = modelKindCases := by decide


/-! ### round 3: the `(text, args...)` entry points never drop their arguments depending on the text -/

/-- `(*DB).Table`: an expression WITH arguments is kept verbatim together with all of them, whatever its spelling —
    no blank, no backtick needed (`json_each(?)`, `generate_series(?,?)`, `(?)` + sub-query handle) -/
theorem C01_table_keeps_args {β : Type} (name : List Char) (args : List (Val β)) (h : args ≠ []) :
    tableDispatch name args = some (.expr name args false) := by
  have hl : args.length > 0 := List.length_pos_iff.mpr h
  simp [tableDispatch, tableForm, hl]

private theorem pickSlots_nil_xs {β : Type} (wop : Bool) (fl : List Bool) :
    (pickSlots (β := β) wop fl []).xs = [] := by
  cases fl <;> rfl

/-- … hence the values a `Table(name, args...)` call binds are, in EVERY branch of its dispatch, exactly those of the
    template `clause.Expr{SQL: name, Vars: args}` (none when there are no arguments: a quoted name binds nothing) -/
theorem C01_table_binds {β : Type} (d : Dialect) (name : List Char) (args : List (Val β)) :
    tableBinds d name args = flatten d (.expr name args false) := by
  by_cases h : args = []
  · subst h
    have hr : flatten d (Val.expr (β := β) name [] false) = [] := by
      simp [flatten, spec, annot, pickSlots_nil_xs]
    rw [hr]
    simp only [tableBinds, tableDispatch]
    cases tableForm name ([] : List (Val β)).length <;> simp [flatten, spec, annot, pickSlots_nil_xs, Sp.none]
  · simp [tableBinds, C01_table_keeps_args name args h]

/-- … and the table expression of a well-formed call is aligned like any other template (corollary of `C01_aligned`) -/
theorem C01_table_aligned {β : Type} (d : Dialect) (name : List Char) (args : List (Val β)) (h : args ≠ [])
    (wf : WellFormed d (Val.expr name args false)) :
    ∃ v, tableDispatch name args = some v ∧ Aligned (render d v) ∧ (render d v).vars = tableBinds d name args :=
  ⟨_, C01_table_keeps_args name args h, C01_aligned d _ wf, by
    rw [C01_table_binds]; exact C01_expansion d _ wf⟩

/-- every other entry point that chooses between `clause.Expr` and `clause.NamedExpr` by looking at the text
    (Raw / Exec, raw joins, Select) hands ALL arguments to the builder it chooses -/
theorem C01_entry_keeps_args {β : Type} (sql : List Char) (args : List (Val β)) :
    (rawDispatch sql args).tmplArgs = some args ∧ (rawJoinDispatch sql args).tmplArgs = some args ∧
    (∀ v, selectDispatch sql args = some v → v.tmplArgs = some args) ∧
    (∀ v, tableDispatch sql args = some v → args ≠ [] → v.tmplArgs = some args) := by
  refine ⟨?_, rfl, ?_, ?_⟩
  · unfold rawDispatch; split <;> rfl
  · intro v hv; unfold selectDispatch at hv
    split at hv
    · cases hv; rfl
    · split at hv
      · cases hv; rfl
      · cases hv
  · intro v hv h
    rw [C01_table_keeps_args sql args h] at hv; cases hv; rfl

/-- non-vacuity: the spellings a blank/backtick test would miss, `$n` dialect, after an outer bound value -/
example :
    let sub : Val String := .subq ["SELECT".toList, "FROM".toList, "WHERE".toList]
      [.expr "name".toList [] false, .table "users".toList [] false, .whereC [.expr "age > ?".toList [.scalar "18"] false]]
    tableForm "json_each(?)".toList 1 = .expr ∧ tableForm "(?)".toList 1 = .expr ∧ tableForm "json_each(?)".toList 0 = .plain ∧
    tableForm "main.users".toList 0 = .qualified ∧ tableForm "users u".toList 0 = .expr ∧ tableForm [] 0 = .empty ∧
    (tableBinds .dollar "generate_series(?,?)".toList [Val.scalar "1", .scalar "10"]).map Val.payload? = [some "1", some "10"] ∧
    (tableBinds .dollar "(?)".toList [sub]).map Val.payload? = [some "18"] ∧
    ((tableDispatch "(?)".toList [sub]).map fun v => String.ofList (concretize .dollar (render .dollar v).segs))
      = some "(SELECT name FROM `users` WHERE age > $1)" := by decide

/-- the alias forms (`tableRegexp`, `tableTarget`): `… AS u` anywhere (first one followed by end or comma), `name alias`,
    nothing for a bare call expression; a name with arguments is an expression and has no target of its own -/
example :
    tableTarget "(?) AS u".toList 1 [] = some "u".toList ∧ tableTarget "users u".toList 0 [] = some "u".toList ∧
    tableTarget "(?) as a, (?) as b".toList 2 [] = some "a".toList ∧ tableTarget "json_each(?)".toList 1 "prev".toList = some "prev".toList ∧
    tableTarget "json_each(?)".toList 0 [] = some "json_each(?)".toList ∧ tableTarget "main.users".toList 0 [] = some "users".toList ∧
    tableTarget "users AS u JOIN x".toList 0 [] = some [] ∧ tableTarget "a AS b AS c".toList 0 [] = some "c".toList ∧
    tableTarget "x\nAS y".toList 0 [] = none := by decide

/-! #### regenerated control-flow paths of every `args ...interface{}` / `...clause.Expression` function
    (extract/gen_c01_api.go → Gen/BindApi.lean) -/

/-- the path hands the WHOLE parameter on: as a slice (`p`, `p...`, `range p`), or head and tail together
    (`BuildCondition(p[0], p[1:]...)`), or the head alone where the path condition says there is exactly one -/
def argPathForwards (a : Gen.ArgPath) : Bool :=
  a.uses.contains "p" || a.uses.contains "p..." || a.uses.contains "range p" ||
  (a.uses.contains "p[0]" && (a.uses.contains "p[1:]..." || a.pos.contains "len(p) == 1"))

/-- the path condition says that there are no arguments -/
def argPathEmpty (a : Gen.ArgPath) : Bool :=
  a.neg.contains "len(p) > 0" || a.pos.contains "len(p) == 0"

/-- the path reports an error instead of building a statement (`AddError(… args …)`; the ConnPool wrappers of
    prepare_stmt.go return the error of `prepare`) -/
def argPathFails (a : Gen.ArgPath) : Bool :=
  (a.rejects && a.uses.isEmpty) || (a.file == "prepare_stmt.go" && a.neg.contains "err == nil")

/-- callbacks/preload.go `preload`: the path issues no preload query at all (no foreign-key values to look up, or the
    join-table query failed) — there is no statement the conditions could be missing from -/
def argPathNoStatement (a : Gen.ArgPath) : Bool :=
  a.fn == "preload" && a.file == "callbacks/preload.go" &&
    (a.pos.contains "len(foreignValues) == 0" || a.pos.contains "len(joinForeignValues) == 0" ||
     a.neg.contains "len(values) != 0" || (a.pos.contains "err != nil" && a.uses.isEmpty))

def argPathOk (a : Gen.ArgPath) : Bool := argPathForwards a || argPathEmpty a || argPathFails a || argPathNoStatement a

/-- **no entry point drops its arguments depending on the text**: on every control-flow path through every function
    of the statement-building API that has a variadic `…interface{}` / `…clause.Expression` parameter (chain methods,
    finishers, `BuildCondition`, `AddVar`, `gorm.Expr`, `clause.And/Or/Not`, the prepared-statement ConnPool wrappers;
    and the stored condition lists of `Preload` in callbacks/preload.go)
    the parameter is handed on as a whole — unless the path condition itself states that it is empty, or the path ends
    in an error.  (The m9 shape — arguments forwarded only under a condition on the string — leaves a path with
    neither.) -/
theorem C01_api_args_forwarded : ∀ a ∈ Gen.argPaths, argPathOk a = true := by decide

/-- the functions this is about — a new entry point with arguments shows up here -/
theorem C01_api_fns :
    Gen.apiFns.map (fun f => (f.fn, f.param)) =
      [("preload", "conds"), ("preloadEntryPoint", "associationsConds"),
       ("DB.Assign", "attrs"), ("DB.Attrs", "attrs"), ("DB.Clauses", "conds"), ("DB.Distinct", "args"), ("DB.Having", "args"),
       ("DB.InnerJoins", "args"), ("DB.Joins", "args"), ("DB.Not", "args"), ("DB.Or", "args"), ("DB.Preload", "args"),
       ("DB.Raw", "values"), ("DB.Select", "args"), ("DB.Table", "args"), ("DB.Where", "args"), ("joins", "args"),
       ("And", "exprs"), ("Not", "exprs"), ("Or", "exprs"),
       ("DB.Delete", "conds"), ("DB.Exec", "values"), ("DB.Find", "conds"), ("DB.First", "conds"), ("DB.FirstOrCreate", "conds"),
       ("DB.FirstOrInit", "conds"), ("DB.Last", "conds"), ("DB.Take", "conds"), ("DB.assignInterfacesToValue", "values"),
       ("Expr", "args"),
       ("PreparedStmtDB.ExecContext", "args"), ("PreparedStmtDB.QueryContext", "args"), ("PreparedStmtDB.QueryRowContext", "args"),
       ("PreparedStmtTX.ExecContext", "args"), ("PreparedStmtTX.QueryContext", "args"), ("PreparedStmtTX.QueryRowContext", "args"),
       ("Statement.AddVar", "vars"), ("Statement.BuildCondition", "args")] := by decide

/-- the source of `(*DB).Table` has exactly the dispatch `tableForm` transcribes: ONE path keeps the arguments, its
    condition is `blank ∨ backtick ∨ len(args) > 0`; on the other path all three are false -/
theorem C01_table_dispatch_source :
    (Gen.argPaths.filter (fun a => a.fn == "DB.Table")).map (fun a => (a.pos, a.neg, a.uses)) =
      [ (["strings.Contains(name, \" \") || strings.Contains(name, \"`\") || len(p) > 0"], [], ["p"]),
        ([], ["strings.Contains(name, \" \")", "strings.Contains(name, \"`\")", "len(p) > 0"], []) ] := by decide

/-- the finishers with inline conditions all have the same three paths: `BuildCondition(conds[0], conds[1:]...)`
    under `len(conds) > 0` (whatever comes back), nothing when there are none -/
theorem C01_inline_conds_source :
    ∀ fn ∈ ["DB.First", "DB.Take", "DB.Last", "DB.Find", "DB.Delete"],
      (Gen.argPaths.filter (fun a => a.fn == fn)).map (fun a => (a.pos, a.neg, a.uses)) =
        [ (["len(p) > 0", "len(exprs) > 0"], [], ["p[1:]...", "p[0]"]),
          (["len(p) > 0"], ["len(exprs) > 0"], ["p[1:]...", "p[0]"]),
          ([], ["len(p) > 0"], []) ] := by decide


/-- a template literal whose text is not a constant and not a quoted identifier -/
def templateVariable (t : Gen.TemplateSite) : Bool :=
  !(t.sql.toList.head? == some '"') && !(containsSub t.sql.toList "Quote(".toList)

/-- every place in gorm / gorm/callbacks that wraps a VARIABLE text into `clause.Expr{…}` / `clause.NamedExpr{…}`
    gives it the arguments that travel with that text (no template is built from caller text without its `Vars`) … -/
theorem C01_template_sites_carry_vars : ∀ t ∈ Gen.templateSites, templateVariable t = true → t.vars ≠ "" := by decide

/-- … and these places are: the text/argument pairs the model's entry points transcribe (`rawDispatch` Raw/Exec,
    `selectDispatch`, `tableDispatch`, `rawJoinDispatch` join.Name/join.Conds, `buildCondStr`, `Val.rsub` AddVar,
    `joinOnExpr` onSQL/vars, gorm.Expr) plus the many2many join-table condition of association.go -/
theorem C01_template_sites :
    (Gen.templateSites.filter templateVariable).map (fun t => (t.site, t.sql, t.vars)) =
      [ ("association.go:Association.buildCondition", "strings.Replace(joinStmt.SQL.String(), \"WHERE \", \"\", 1)", "joinStmt.Vars"),
        ("callbacks/query.go:BuildQuerySQL", "onSQL", "vars"),
        ("callbacks/query.go:BuildQuerySQL", "join.Name", "join.Conds"),
        ("callbacks/query.go:BuildQuerySQL", "join.Name", "join.Conds"),
        ("chainable_api.go:DB.Raw", "sql", "values"), ("chainable_api.go:DB.Raw", "sql", "values"),
        ("chainable_api.go:DB.Select", "v", "args"), ("chainable_api.go:DB.Select", "v", "args"), ("chainable_api.go:DB.Select", "v", "args"),
        ("chainable_api.go:DB.Table", "name", "args"),
        ("finisher_api.go:DB.Exec", "sql", "values"), ("finisher_api.go:DB.Exec", "sql", "values"),
        ("gorm.go:Expr", "expr", "args"),
        ("statement.go:Statement.AddVar", "sql", "vars"), ("statement.go:Statement.AddVar", "sql", "vars"),
        ("statement.go:Statement.BuildCondition", "s", "args"), ("statement.go:Statement.BuildCondition", "s", "args"),
        ("statement.go:Statement.BuildCondition", "s", "args") ] := by decide

/-! ### STRING arguments that are not templates: which strings are VALUES

`Statement.BuildCondition` decides by looking at the text of a string `query` whether it is a primary-key VALUE (bound) or a
condition TEMPLATE (SQL text by documented design).  Model: `Bind.buildCond` with `Bind.atoi` = strconv.Atoi
(Model/BindStr.lean; tied by the suites "strkey", "strkey-entry", "atoi" and by the regenerated table `Gen.textTests`). -/

/-- the strings `strconv.Atoi` accepts are EXACTLY the signed decimal integers of the int64 range: optional single `+`/`-`,
    then one or more ASCII digits (any number of leading zeros), value ≤ 2^63-1 resp. ≤ 2^63 after `-` -/
theorem C01_key_string_iff (s : List Char) : isKeyString s = true ↔ SignedDecimal s := Bind.isKeyString_iff s

/-- **every string that parses as a signed decimal integer (≤ 18 digits: no range question) is a key string** - unsigned,
    `+n`, `-n`, with leading zeros; on both paths of Atoi -/
theorem C01_signed_decimal_is_key (sign ds : List Char) (hs : sign = [] ∨ sign = ['+'] ∨ sign = ['-'])
    (hne : ds ≠ []) (hd : ds.all isDigit = true) (hlen : ds.length ≤ 18) : isKeyString (sign ++ ds) = true := by
  simp [isKeyString, Bind.atoi_signed_short sign ds hs hne hd hlen]

/-- a key string at the head of a condition (followed by plain values) is BOUND: the expression built is
    `IN{PrimaryColumn, [s, args…]}` whose first value is the string itself; no template is made of it -/
theorem C01_key_string_dispatch {β : Type} (inj : List Char → β) (pk : Val β) (s : List Char) (args : List (Val β))
    (hk : isKeyString s = true) (hp : args.all plainArg = true) :
    buildCond inj pk s args = some [.inn false pk (.scalar (inj s) :: args)] := by
  simp [buildCond, hk, hp]

/-- **a key string given alone** (`First(&m, "-5")`, `Delete(&M{}, "+7")`, `Where("00501")`): the statement binds exactly ONE
    value, the string itself (verbatim: sign and leading zeros kept), the placeholders are aligned, and the TEXT is the same
    for every key string (it is the text obtained for the unit payload: no character of the string reaches it) -/
theorem C01_key_string_bound {β : Type} (d : Dialect) (inj : List Char → β) (t n : List Char) (s : List Char)
    (hk : isKeyString s = true) :
    ∃ es, buildCond inj (.column t n [] false) s [] = some es ∧
      (render d (.whereC es)).vars = [.scalar (inj s)] ∧ Aligned (render d (.whereC es)) ∧
      concretize d (render d (.whereC es)).segs
        = concretize d (render d (.whereC [.inn false (.column t n [] false) [.scalar ()]] : Val Unit)).segs := by
  refine ⟨[.inn false (.column t n [] false) [.scalar (inj s)]], ?_, ?_, ?_, ?_⟩
  · simp [buildCond, hk, plainArg]
  · have hwf : WellFormed d (.whereC [.inn false (.column t n [] false) [.scalar (inj s)]] : Val β) := by
      simp [WellFormed, spec, annot, catSnd, colSp, Sp.cat, Sp.app, Sp.one, Sp.none]
    rw [C01_expansion d _ hwf]
    simp [flatten, spec, annot, catSnd, colSp, Sp.cat, Sp.app, Sp.one, Sp.none]
  · apply C01_aligned
    simp [WellFormed, spec, annot, catSnd, colSp, Sp.cat, Sp.app, Sp.one, Sp.none]
  · have h := C01_text_independent (fun _ : β => ()) d (.whereC [.inn false (.column t n [] false) [.scalar (inj s)]])
    simpa [Val.map, Val.mapL] using h.symm

/-- the other side of the dispatch (documented design): a string Atoi rejects, given without arguments, is a condition
    TEMPLATE - `clause.Expr{SQL: s}`: its text is written, nothing is bound; the empty string adds no condition -/
theorem C01_nonkey_string_is_template {β : Type} (inj : List Char → β) (pk : Val β) (s : List Char)
    (hk : isKeyString s = false) :
    buildCond inj pk s [] = (if s.isEmpty then some [] else some [.expr s [] false]) := by
  simp [buildCond, hk, buildCondStr]

/-- what is and what is not a key string (kernel-evaluated): signs, leading zeros, the int64 boundaries; blanks, radix
    prefixes, exponents, separators, non-ASCII digits, doubled signs, the empty string, a UUID are templates -/
theorem C01_key_string_examples :
    (["5", "-5", "+7", "00501", "-0", "+0", "0000000000000000000000005", "9223372036854775807", "-9223372036854775808"].map
        (fun s => isKeyString s.toList) = [true, true, true, true, true, true, true, true, true]) ∧
    ([" 5", "5 ", "0x10", "1e3", "1_000", "１２", "+-5", "--5", "", "+", "-", "5.0", "9223372036854775808",
      "-9223372036854775809", "18446744073709551615", "1b9d6bcd-bbfd-4b2d-9b5d-ab8dfbbd4bed"].map
        (fun s => isKeyString s.toList) = List.replicate 16 false) := by decide

/-- non-vacuity of `C01_key_string_bound`: `First(&m, "-5")` under `$n` -/
example :
    let es : List (Val String) := (buildCond (fun s => String.ofList s) (.column "t".toList "id".toList [] false) "-5".toList []).getD []
    (String.ofList (concretize .dollar (render .dollar (.whereC es)).segs), (render .dollar (.whereC es)).vars.length)
      = ("`t`.`id` = $1", 1) := by decide

/-- regenerated fact (extract/gen_c01_str.go → Gen/BindStr.lean): the text tests of Statement.BuildCondition, in source
    order.  The FIRST one is `strconv.Atoi(s)` failing - the parse function `Bind.atoi` transcribes; the template arms
    below it test for `?`, `@`, and a blank after trimming (= `Bind.buildCondStr`). -/
theorem C01_key_parse_function :
    (Gen.textTests.filter (fun t => t.fn == "Statement.BuildCondition")).map (fun t => (t.calls, t.cond)) =
      [ (["strconv.Atoi"], "_, err := strconv.Atoi(s); err != nil"),
        (["strings.Contains"], "len(args) == 0 || (len(args) > 0 && strings.Contains(s, \"?\"))"),
        (["strings.Contains"], "len(args) > 0 && strings.Contains(s, \"@\")"),
        (["strings.Contains", "strings.TrimSpace"], "strings.Contains(strings.TrimSpace(s), \" \")") ] := by decide

/-- regenerated fact: EVERY branch condition in package gorm / callbacks / clause that inspects the text of a string
    (calls into strconv / strings / regexp / unicode), per function: the places where a caller's string is classified as
    value, name or SQL.  A new or changed text test (another parse function, a trimmed / lower-cased operand, a changed
    comparison against `len(args)`) changes this table. -/
theorem C01_text_tests :
    Gen.textTests.map (fun t => (t.file ++ ":" ++ t.fn, t.calls)) =
      [ ("association.go:Association.saveAssociation", ["strings.HasPrefix"]),
        ("association.go:Association.saveAssociation", ["strings.TrimPrefix"]),
        ("association.go:Association.saveAssociation", ["strings.HasPrefix"]),
        ("callbacks/associations.go:saveAssociations", ["strings.HasPrefix"]),
        ("callbacks/create.go:ConvertToCreateValues", ["strings.EqualFold"]),
        ("callbacks/delete.go:DeleteBeforeAssociations", ["strings.HasPrefix"]),
        ("chainable_api.go:DB.Table", ["strings.Contains", "strings.Contains"]),
        ("chainable_api.go:DB.Table", ["regexp.FindStringSubmatch"]),
        ("chainable_api.go:DB.Table", ["strings.Split"]),
        ("chainable_api.go:DB.Select", ["strings.Count"]),
        ("chainable_api.go:DB.Select", ["strings.Count"]),
        ("chainable_api.go:DB.Omit", ["strings.ContainsRune"]),
        ("chainable_api.go:DB.Raw", ["strings.Contains"]),
        ("clause/where.go:NotConditions.Build", ["strings.Contains", "strings.Contains"]),
        ("clause/where.go:NotConditions.Build", ["strings.Contains", "strings.Contains"]),
        ("finisher_api.go:DB.Count", ["strings.HasPrefix", "strings.TrimSpace", "strings.ToLower"]),
        ("finisher_api.go:DB.Count", ["strings.ToUpper"]),
        ("finisher_api.go:DB.Exec", ["strings.Contains"]),
        ("statement.go:Statement.AddVar", ["strings.Contains"]),
        ("statement.go:Statement.BuildCondition", ["strconv.Atoi"]),
        ("statement.go:Statement.BuildCondition", ["strings.Contains"]),
        ("statement.go:Statement.BuildCondition", ["strings.Contains"]),
        ("statement.go:Statement.BuildCondition", ["strings.Contains", "strings.TrimSpace"]),
        ("statement.go:Statement.ParseWithSpecialTableName", ["strings.Split"]) ] := by decide

/-- regenerated fact: the text tests of the chain methods whose string is a TEMPLATE WITH ARGUMENTS or a name - the exact
    conditions (`Bind.selectDispatch`, `Bind.tableForm`, `Bind.rawDispatch` transcribe them) -/
theorem C01_text_tests_chain :
    (Gen.textTests.filter (fun t => t.file == "chainable_api.go" || t.file == "finisher_api.go")).map (fun t => (t.fn, t.cond)) =
      [ ("DB.Table", "strings.Contains(name, \" \") || strings.Contains(name, \"`\") || len(args) > 0"),
        ("DB.Table", "results := tableRegexp.FindStringSubmatch(name); len(results) == 3"),
        ("DB.Table", "tables := strings.Split(name, \".\"); len(tables) == 2"),
        ("DB.Select", "strings.Count(v, \"?\") >= len(args) && len(args) > 0"),
        ("DB.Select", "strings.Count(v, \"@\") > 0 && len(args) > 0"),
        ("DB.Omit", "len(columns) == 1 && strings.ContainsRune(columns[0], ',')"),
        ("DB.Raw", "strings.Contains(sql, \"@\")"),
        ("DB.Count", "!strings.HasPrefix(strings.TrimSpace(strings.ToLower(tx.Statement.Selects[0])), \"count(\")"),
        ("DB.Count", "len(fields) == 1 || (len(fields) == 3 && (strings.ToUpper(fields[1]) == \"AS\" || fields[1] == \".\"))"),
        ("DB.Exec", "strings.Contains(sql, \"@\")") ] := by decide

end Gorm
