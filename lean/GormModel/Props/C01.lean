/-
  C01 — argument values reach the database only as bound parameters, one per placeholder.

  Model: `GormModel/Model/Bind.lean` (`Gorm.Bind.addVar` = statement.go `Statement.AddVar` with everything it
  dispatches to).  `Val β` is polymorphic in the payload β of bindable data; SQL text is `List Seg` (no β).
-/
import GormModel.Lemmas.Bind
import GormModel.Gen.Misc
namespace Gorm
open Gorm.Bind

/-- **"never becomes part of the SQL text"**: for ALL values (any nesting of slices, expressions with their own
    arguments, named arguments, clause builders, sub-queries), both dialects, every amount of fuel and every start
    state: building commutes with an arbitrary re-labelling `f` of the payloads.  In particular the text segments do
    not depend on any payload, and the bound values are the payloads themselves, in the same positions. -/
theorem C01_naturality {β γ : Type} (f : β → γ) (d : Dialect) (n : Nat) (v : Val β) (st : St β) :
    addVar d n (v.map f) (st.map f) = (addVar d n v st).map f :=
  Bind.addVar_nat f d n v st

/-- the same for `render` (= `stmt.AddVar(stmt, v)` on a fresh statement with adequate fuel) -/
theorem C01_render_naturality {β γ : Type} (f : β → γ) (d : Dialect) (v : Val β) :
    render d (v.map f) = (render d v).map f :=
  Bind.render_nat f d v

/-- corollary: two inputs of the same shape (they differ only in payloads) produce the SAME text; the SQL sent to
    the driver is a function of the shape alone -/
theorem C01_text_independent {β γ : Type} (f : β → γ) (d : Dialect) (v : Val β) :
    concretize d (render d (v.map f)).segs = concretize d (render d v).segs := by
  rw [C01_render_naturality]; rfl

/-- corollary: the bound values are exactly the images of the bound values -/
theorem C01_vars_natural {β γ : Type} (f : β → γ) (d : Dialect) (v : Val β) :
    (render d (v.map f)).vars = (render d v).vars.map (Val.map f) := by
  rw [C01_render_naturality]; rfl

/-- non-vacuity / sanity: a hostile string payload in a slice after `(`, `$n` dialect -/
example :
    let v : Val String := .expr "name IN (?) AND age > ?".toList [.list true [.scalar "x'); DROP--", .scalar "?"], .scalar "@n"] false
    (String.ofList (concretize .dollar (render .dollar v).segs), (render .dollar v).vars.length, (render .dollar v).oof)
      = ("name IN ($1,$2) AND age > $3", 3, false) := by decide

/-! ### regenerated arm table of `Statement.AddVar` (extract/main.go → Gen/Misc.lean) -/

/-- every arm of the type switch that appends to `stmt.Vars` calls `BindVarTo` once per append — except the
    `sql.NamedArg` arm (append, no placeholder) -/
theorem C01_arms :
    ∀ a ∈ Gen.addVarArms, a.appendsVar > 0 → (a.types = ["sql.NamedArg"] ∨ a.bindVarTo = a.appendsVar) := by decide

/-- … and `sql.NamedArg` is the only such arm -/
theorem C01_arms_named_only :
    (Gen.addVarArms.filter (fun a => decide (a.appendsVar > a.bindVarTo))).map (·.types) = [["sql.NamedArg"]] := by decide

/-- the arm table the model was transcribed from equals the one regenerated from /repo on this run -/
theorem C01_arms_model : Bind.modelArms = Gen.addVarArms := by decide

end Gorm
