/-
  C11 — eager loading attaches to each record exactly its own rows: the key-string core.
-/
import GormModel.Model.Identity
import GormModel.Model.JoinScan
import GormModel.Gen.PreloadFacts
import GormModel.Gen.PreloadSessions
import GormModel.Lemmas.Identity
import GormModel.Model.PreloadBatch
import GormModel.Lemmas.PreloadBatch
import GormModel.Model.BindLookup
namespace Gorm

/-- `strings.Join(_, "_")` is injective on tuples of equal arity whose components contain no `_` -/
theorem C11_key_injective (a b : List (List Char)) (hlen : a.length = b.length)
    (ha : KeySafe a) (hb : KeySafe b) : joinKey a = joinKey b → a = b :=
  joinKey_injective a b hlen ha hb

/-- MAIN: under `KeySafe` (no component contains the separator) the string-keyed attachment of
    preload.go equals the tuple-keyed reference join, for every parent, every child set, every key arity:
    none missing, none attached to another parent. -/
theorem C11_attach_exact (children : List ChildRow) (pk : List (List Char))
    (hp : KeySafe pk) (hc : ∀ c ∈ children, KeySafe c.fk ∧ c.fk.length = pk.length) :
    attachByString children pk = attachByTuple children pk := by
  unfold attachByString attachByTuple
  congr 1
  apply List.filter_congr
  intro c hcm
  have ⟨hs, hl⟩ := hc c hcm
  by_cases h : c.fk = pk
  · simp [h]
  · have : joinKey c.fk ≠ joinKey pk := fun hj => h (joinKey_injective _ _ hl hs hp hj)
    simp [h, this]

/-- FINDING F6 (counterexample, kernel-checked): composite string keys ("a_b","c") and ("a","b_c")
    have the same key string -/
theorem C11_key_collision_counterexample :
    toStringKey [.str "a_b".toList, .str "c".toList] = toStringKey [.str "a".toList, .str "b_c".toList] ∧
    ([KeyVal.str "a_b".toList, .str "c".toList] ≠ [.str "a".toList, .str "b_c".toList]) := by
  decide

/-- … and the attachment then differs from the reference join: child 2 (fk = ("a","b_c")) is attached to
    the parent ("a_b","c") as well -/
theorem C11_wrong_attach_counterexample :
    attachByString [⟨["a_b".toList, "c".toList], 1⟩, ⟨["a".toList, "b_c".toList], 2⟩] ["a_b".toList, "c".toList] = [1, 2] ∧
    attachByTuple [⟨["a_b".toList, "c".toList], 1⟩, ⟨["a".toList, "b_c".toList], 2⟩] ["a_b".toList, "c".toList] = [1] := by
  decide

/-- second collision family: a zero-valued non-string component is printed as the text `nil` -/
theorem C11_nil_collision_counterexample :
    toStringKey [.str "nil".toList, .str "x".toList] = toStringKey [.int 0, .str "x".toList] := by
  decide

/-- non-vacuity: a composite key satisfying KeySafe -/
example : KeySafe ["ab".toList, "c".toList] := by
  intro p hp; simp at hp; rcases hp with h | h <;> subst h <;> decide


/-! ## `GetIdentityFieldValuesMap` (schema/utils.go): which parents enter the identity map -/

/-- the same element (address) always carries the same key — true of any Go slice -/
def AddrFun (rows : List IdRow) : Prop :=
  ∀ r r', r ∈ rows → r' ∈ rows → r.addr = r'.addr → r.key = r'.key

/-- NONE MISSING (identity map): every parent whose key tuple has AT LEAST ONE non-zero component — in particular
    a composite key with some zero-valued components — is registered under its key string. -/
theorem C11_identity_partial_zero_kept (rows : List IdRow) (hf : AddrFun rows) (r : IdRow) (hr : r ∈ rows)
    (hz : allZero r.key = false) : r.addr ∈ (identitySlice rows).lookup r.keyStr := by
  have hgood : IdGood rows (rows.foldl idStep ⟨[], IdMap.empty⟩) :=
    foldl_idStep_inv (IdGood rows) rows (fun st r0 hr0 h => idGood_step rows hf st r0 hr0 h) rows _
      (fun _ h => h) (by intro r _ hl; cases hl)
  exact hgood r hr (foldl_loaded_all rows _ r hr) hz

/-- NONE FOREIGN (identity map): whatever is registered under a key string is an element of the slice whose key is
    not entirely zero and renders to that string; all-zero (NULL / unset) keys are registered nowhere. -/
theorem C11_identity_only_nonzero (rows : List IdRow) (s : List Char) (a : Nat)
    (h : a ∈ (identitySlice rows).lookup s) :
    ∃ r ∈ rows, r.addr = a ∧ allZero r.key = false ∧ r.keyStr = s := by
  have hs : IdSound rows (rows.foldl idStep ⟨[], IdMap.empty⟩) :=
    foldl_idStep_inv (IdSound rows) rows (fun st r0 hr0 h => idSound_step rows st r0 hr0 h) rows _
      (fun _ h => h) (by intro s a ha; simp [IdMap.lookup, IdMap.empty] at ha)
  exact hs s a h

/-- an element all of whose occurrences have an entirely zero key is attached nowhere (NULL fk attaches nowhere) -/
theorem C11_identity_all_zero_skipped (rows : List IdRow) (a : Nat)
    (hz : ∀ r ∈ rows, r.addr = a → allZero r.key = true) (s : List Char) :
    a ∉ (identitySlice rows).lookup s := by
  intro h
  obtain ⟨r, hr, ha, hnz, _⟩ := C11_identity_only_nonzero rows s a h
  rw [hz r hr ha] at hnz; cases hnz

/-- the IN-list (`results`) holds exactly one value tuple per registered key string, in the same order, and each
    tuple is the key of some not-all-zero element -/
theorem C11_identity_values (rows : List IdRow) :
    (identitySlice rows).values.map toStringKey = (identitySlice rows).groups.map (·.1) ∧
    ∀ v ∈ (identitySlice rows).values, ∃ r ∈ rows, r.vals = v ∧ allZero r.key = false := by
  have hv : IdVals rows (rows.foldl idStep ⟨[], IdMap.empty⟩) :=
    foldl_idStep_inv (IdVals rows) rows (fun st r0 hr0 h => idVals_step rows st r0 hr0 h) rows _
      (fun _ h => h) ⟨rfl, by intro v hv; simp [IdMap.empty] at hv⟩
  exact hv

/-- single-struct path: registered iff some component is non-zero -/
theorem C11_identity_struct (r : IdRow) :
    (r.addr ∈ (identityStruct r).lookup r.keyStr ↔ allZero r.key = false) ∧
    (allZero r.key = false → (identityStruct r).values = [r.vals]) := by
  unfold identityStruct
  cases hz : allZero r.key <;> simp [IdMap.lookup, IdMap.empty]

/-- concrete shape of the rule: (0, "x") — one zero component — is kept; (0, "") is skipped -/
theorem C11_partial_zero_example :
    (identitySlice [⟨1, [⟨.int 0, true⟩, ⟨.str "x".toList, false⟩]⟩, ⟨2, [⟨.int 0, true⟩, ⟨.str [], true⟩]⟩]).groups
      = [("nil_x".toList, [1])] := by
  decide

/-! ## preload over abstract rows: none missing, none foreign -/

/-- NONE MISSING: a child whose fk tuple equals the key tuple of a parent with a not-all-zero key is attached to that
    parent, provided no OTHER key tuple among the parents renders to the same key string (the negation of finding F6). -/
theorem C11_preload_none_missing (parents : List IdRow) (hf : AddrFun parents) (children : List KChild)
    (r : IdRow) (hr : r ∈ parents) (hz : allZero r.key = false)
    (hinj : ∀ r' ∈ parents, r'.keyStr = r.keyStr → r'.vals = r.vals)
    (c : KChild) (hc : c ∈ children) (hfk : c.fk = r.vals) (hnn : KeyVal.nil ∉ c.fk) :
    c.id ∈ preloadDirect parents children r.addr := by
  have hk := C11_identity_partial_zero_kept parents hf r hr hz
  obtain ⟨hal, hvs⟩ := C11_identity_values parents
  have hin : r.vals ∈ (identitySlice parents).values := by
    have hs := lookup_mem_groups _ _ _ hk
    rw [← hal] at hs
    obtain ⟨v, hv, hvk⟩ := List.mem_map.mp hs
    obtain ⟨r', hr', hrv, _⟩ := hvs v hv
    have : r'.vals = r.vals := hinj r' hr' (by unfold IdRow.keyStr; rw [hrv]; exact hvk)
    rw [← this, hrv]; exact hv
  unfold preloadDirect attachedTo fetchIn
  apply List.mem_map.mpr
  refine ⟨c, ?_, rfl⟩
  simp only [List.mem_filter, List.contains_iff_mem, Bool.and_eq_true, Bool.not_eq_true']
  refine ⟨⟨hc, ?_, ?_⟩, ?_⟩
  · simpa using hnn
  · rw [hfk]; exact hin
  · rw [hfk]; exact hk

/-- NONE FOREIGN: every child attached to the element at address `a` was fetched for, and renders to the key string
    of, an occurrence of `a` with a not-all-zero key; where the key string is injective (`C11_key_injective`) that
    means fk tuple = key tuple. -/
theorem C11_preload_none_foreign (parents : List IdRow) (children : List KChild) (a id : Nat)
    (h : id ∈ preloadDirect parents children a) :
    ∃ c ∈ children, c.id = id ∧ ∃ r ∈ parents, r.addr = a ∧ allZero r.key = false ∧ toStringKey c.fk = r.keyStr := by
  unfold preloadDirect attachedTo fetchIn at h
  obtain ⟨c, hc, hid⟩ := List.mem_map.mp h
  simp only [List.mem_filter, List.contains_iff_mem] at hc
  obtain ⟨r, hr, ha, hz, hs⟩ := C11_identity_only_nonzero parents _ a hc.2
  exact ⟨c, hc.1.1, hid, r, hr, ha, hz, hs.symm⟩

/-! ## letter case: string components are copied verbatim -/

/-- single-column string (and []byte) keys: the key string IS the value, so keys differing only in letter case stay
    distinct -/
theorem C11_key_string_verbatim (a b : List Char) :
    (toStringKey [.str a] = a) ∧ (toStringKey [.bytes a] = a) ∧ (toStringKey [.str a] = toStringKey [.str b] → a = b) := by
  simp [toStringKey, joinKey, KeyVal.render]

theorem C11_key_case_example : toStringKey [.str "ab".toList] ≠ toStringKey [.str "AB".toList] := by decide

/-! ## association joins: the ON clause always carries the joined model's own scope -/

/-- the soft-delete (query-clause) filter of the joined model is part of the ON clause whether or not the caller
    supplied an ON condition; so are all reference equalities and the caller's conditions -/
theorem C11_join_on_complete (refs : List JoinRef) (qc un : Nat) :
    (∀ i, i < qc → OnAtom.scope i ∈ joinOnAtoms refs qc un) ∧
    (∀ i, i < un → OnAtom.user i ∈ joinOnAtoms refs qc un) ∧
    (∀ r ∈ refs, refAtom r ∈ joinOnAtoms refs qc un) := by
  unfold joinOnAtoms
  refine ⟨?_, ?_, ?_⟩
  · intro i hi
    simp only [List.mem_append, List.mem_map, List.mem_range]
    exact Or.inl (Or.inr ⟨i, hi, rfl⟩)
  · intro i hi
    simp only [List.mem_append, List.mem_map, List.mem_range]
    exact Or.inr ⟨i, hi, rfl⟩
  · intro r hr
    simp only [List.mem_append, List.mem_map]
    exact Or.inl (Or.inl ⟨r, hr, rfl⟩)

/-- non-vacuity of the preload theorems: a two-parent, composite-key instance with a zero component -/
example : preloadDirect
    [⟨0, [⟨.int 0, true⟩, ⟨.str "x".toList, false⟩]⟩, ⟨1, [⟨.int 2, false⟩, ⟨.str "x".toList, false⟩]⟩]
    [⟨7, [.int 0, .str "x".toList]⟩, ⟨8, [.int 2, .str "x".toList]⟩] 0 = [7] := by decide


/-! ## finding F6b: nested joins + Preload below them on a single-struct destination -/

/-- on a tree whose single-record branch does NOT test for nil (the pinned commit before the repair, finding F6b) a NULL
    joined relation followed by a further joined hop panics -/
theorem C11_entry_walk_counterexample :
    entryWalk false (.obj [("Parent".toList, .nilp)]) ["Parent".toList, "Parent".toList] = false := by
  decide

/-- … outside the pattern (no joined relation that is followed by a further joined hop is NULL) the walk completes, on
    either tree -/
theorem C11_entry_walk_partial (ns : Bool) (v : JVal) (hops : List (List Char))
    (h : ∀ k, k < hops.length → ∀ w, jreach v (hops.take k) = some w → w.isNil = false) :
    entryWalk ns v hops = true := by
  induction hops generalizing v with
  | nil => cases v <;> rfl
  | cons f rest ih =>
    cases v with
    | nilp =>
      have := h 0 (by simp) .nilp (by simp [jreach])
      simp [JVal.isNil] at this
    | obj fs =>
      simp only [entryWalk]
      cases hf : jfield fs f with
      | none => rfl
      | some v' =>
        apply ih
        intro k hk w hw
        apply h (k + 1) (by simpa using hk) w
        simp only [List.take_succ_cons, jreach, hf]
        exact hw

/-- in particular one joined hop never fails (the destination itself is not nil) -/
theorem C11_entry_walk_one_hop (ns : Bool) (fs : List (List Char × JVal)) (f : List Char) :
    entryWalk ns (.obj fs) [f] = true := by
  simp only [entryWalk]
  cases h : jfield fs f with
  | none => rfl
  | some v => cases v <;> rfl

/-- FULL statement on a tree with the nil test: the walk completes for EVERY loaded value and EVERY join path -/
theorem C11_entry_walk_total (v : JVal) (hops : List (List Char)) : entryWalk true v hops = true := by
  induction hops generalizing v with
  | nil => cases v <;> rfl
  | cons f rest ih =>
    cases v with
    | nilp => rfl
    | obj fs =>
      simp only [entryWalk]
      cases jfield fs f with
      | none => rfl
      | some v' => exact ih v'

/-- the tree as it is now (regenerated fact): either the branch tests for nil and the walk never panics, or it does
    not and the listed witness panics -/
theorem C11_entry_walk_current_tree :
    Gen.preloadSingleBranchFound = true ∧
    ((Gen.preloadSingleNilCheck = true ∧ ∀ v hops, entryWalk Gen.preloadSingleNilCheck v hops = true) ∨
     (Gen.preloadSingleNilCheck = false ∧
        entryWalk Gen.preloadSingleNilCheck (.obj [("Parent".toList, .nilp)]) ["Parent".toList, "Parent".toList] = false)) := by
  refine ⟨by decide, ?_⟩
  by_cases h : Gen.preloadSingleNilCheck = true
  · left; refine ⟨h, ?_⟩; rw [h]; exact C11_entry_walk_total
  · right
    have h' : Gen.preloadSingleNilCheck = false := by simpa using h
    refine ⟨h', ?_⟩; rw [h']; decide

/-! ## `Relationship.ToQueryConditions` (Association().Find / Count): exactly the rows whose foreign key equals the
     parent's REFERENCED key -/

/-- the IN list is complete: the value tuple of every record with a not-all-zero key is in `results`, provided no other
    record's key renders to the same key string (negation of finding F6) -/
theorem C11_identity_values_complete (rows : List IdRow) (hf : AddrFun rows) (r : IdRow) (hr : r ∈ rows)
    (hz : allZero r.key = false) (hinj : ∀ r' ∈ rows, r'.keyStr = r.keyStr → r'.vals = r.vals) :
    r.vals ∈ (identitySlice rows).values := by
  have hk := C11_identity_partial_zero_kept rows hf r hr hz
  obtain ⟨hal, hvs⟩ := C11_identity_values rows
  have hs := lookup_mem_groups _ _ _ hk
  rw [← hal] at hs
  obtain ⟨v, hv, hvk⟩ := List.mem_map.mp hs
  obtain ⟨r', hr', hrv, _⟩ := hvs v hv
  have : r'.vals = r.vals := hinj r' hr' (by unfold IdRow.keyStr; rw [hrv]; exact hvk)
  rw [← this, hrv]; exact hv

/-- the same record (address) always carries the same column values -/
def PAddrFun (parents : List PRow) : Prop :=
  ∀ p p', p ∈ parents → p' ∈ parents → p.addr = p'.addr → p.cols = p'.cols

/-- NONE FOREIGN, every relation kind (direct, polymorphic constant, join-table hop), any number of reference columns,
    all key values: a row accepted by the conditions of `ToQueryConditions` satisfies EVERY reference of the relation
    — foreign key = referenced column of one of the given records (whose key is not entirely zero), constants equal,
    join row linked to the target by the target's referenced column. -/
theorem C11_query_conditions_none_foreign (ft : List Char) (jt : Option (List Char)) (refs : List JoinRef)
    (parents : List PRow) (env : QEnv) (h : assocSelects ft jt refs parents env = true) :
    ∃ p ∈ parents, allZero (p.idRow (toQueryConditions ft jt refs).valFields).key = false ∧
      ∀ r ∈ refs, refHolds ft jt p env r = true := by
  unfold assocSelects inHolds at h
  simp only [Bool.and_eq_true, List.all_eq_true, Bool.not_eq_true', List.contains_iff_mem] at h
  obtain ⟨hat, hnil, hin⟩ := h
  obtain ⟨_, hvs⟩ := C11_identity_values (parents.map (·.idRow (toQueryConditions ft jt refs).valFields))
  obtain ⟨r, hr, hrv, hz⟩ := hvs _ hin
  obtain ⟨p, hp, hpr⟩ := List.mem_map.mp hr
  subst hpr
  refine ⟨p, hp, hz, ?_⟩
  rw [refs_hold_iff]
  refine ⟨?_, hat⟩
  have hnil' : KeyVal.nil ∉ (toQueryConditions ft jt refs).pairs.map (fun pr => env (jt.getD ft) pr.1) := by
    intro hm
    have : ((toQueryConditions ft jt refs).inCols.map (env (toQueryConditions ft jt refs).inTable)).contains KeyVal.nil = true := by
      simp only [List.contains_iff_mem, QConds.inCols, List.map_map]
      exact hm
    rw [this] at hnil; cases hnil
  have heq : (toQueryConditions ft jt refs).pairs.map (fun pr => env (jt.getD ft) pr.1)
      = (toQueryConditions ft jt refs).pairs.map (fun pr => (p.cols pr.2).val) := by
    have := idRow_vals p (toQueryConditions ft jt refs).pairs
    unfold QConds.valFields at hrv
    rw [this] at hrv
    rw [hrv]
    simp [QConds.inCols, List.map_map, Function.comp_def, toQueryConditions]
  exact (tuple_eq_iff_pairs (env (jt.getD ft)) p.cols _).mp ⟨hnil', heq⟩

/-- NONE MISSING: a row that satisfies every reference for one of the given records (key not entirely zero) is accepted,
    provided no other given record's key renders to the same key string (negation of finding F6). -/
theorem C11_query_conditions_none_missing (ft : List Char) (jt : Option (List Char)) (refs : List JoinRef)
    (parents : List PRow) (env : QEnv) (hf : PAddrFun parents) (p : PRow) (hp : p ∈ parents)
    (hz : allZero (p.idRow (toQueryConditions ft jt refs).valFields).key = false)
    (hinj : ∀ p' ∈ parents, (p'.idRow (toQueryConditions ft jt refs).valFields).keyStr
              = (p.idRow (toQueryConditions ft jt refs).valFields).keyStr →
            (p'.idRow (toQueryConditions ft jt refs).valFields).vals = (p.idRow (toQueryConditions ft jt refs).valFields).vals)
    (hr : ∀ r ∈ refs, refHolds ft jt p env r = true) :
    assocSelects ft jt refs parents env = true := by
  rw [refs_hold_iff] at hr
  obtain ⟨hpairs, hat⟩ := hr
  obtain ⟨hnil, heq⟩ := (tuple_eq_iff_pairs (env (jt.getD ft)) p.cols _).mpr hpairs
  have hin := C11_identity_values_complete (parents.map (·.idRow (toQueryConditions ft jt refs).valFields))
    (by
      intro r r' hr hr' ha
      obtain ⟨q, hq, rfl⟩ := List.mem_map.mp hr
      obtain ⟨q', hq', rfl⟩ := List.mem_map.mp hr'
      have := hf q q' hq hq' ha
      simp [PRow.idRow, this])
    (p.idRow (toQueryConditions ft jt refs).valFields) (List.mem_map.mpr ⟨p, hp, rfl⟩) hz
    (by
      intro r' hr' hk
      obtain ⟨q, hq, rfl⟩ := List.mem_map.mp hr'
      exact hinj q hq hk)
  unfold assocSelects inHolds
  simp only [Bool.and_eq_true, List.all_eq_true, Bool.not_eq_true', List.contains_iff_mem]
  have hrow : (toQueryConditions ft jt refs).inCols.map (env (toQueryConditions ft jt refs).inTable)
      = (toQueryConditions ft jt refs).pairs.map (fun pr => env (jt.getD ft) pr.1) := by
    simp [QConds.inCols, List.map_map, Function.comp_def, toQueryConditions]
  refine ⟨hat, ?_, ?_⟩
  · rw [hrow]
    cases hc : ((toQueryConditions ft jt refs).pairs.map (fun pr => env (jt.getD ft) pr.1)).contains KeyVal.nil with
    | false => rfl
    | true => exact absurd (List.contains_iff_mem.mp hc) hnil
  · rw [hrow]
    have hv := idRow_vals p (toQueryConditions ft jt refs).pairs
    unfold QConds.valFields at hin
    rw [hv] at hin
    have heq' : (toQueryConditions ft jt refs).pairs.map (fun pr => env (jt.getD ft) pr.1)
        = (toQueryConditions ft jt refs).pairs.map (fun pr => (p.cols pr.2).val) := heq
    rw [heq']; exact hin

/-- the references of a relation written down as column pairs mean exactly the reference join over those pairs -/
theorem C11_spec_refs (s : RelSpec) (ct : List Char) (p : PRow) (env : QEnv) (hw : ∀ cv ∈ s.consts, cv.2 ≠ []) :
    (∀ r ∈ s.refs, refHolds ct s.via p env r = true) ↔ s.holds ct p env = true := by
  unfold RelSpec.refs RelSpec.holds
  cases hv : s.via with
  | none =>
    simp only [List.mem_append, List.mem_map, Bool.and_eq_true, List.all_eq_true]
    constructor
    · intro h
      refine ⟨?_, ?_⟩
      · intro pc hpc
        cases hb : s.belongsTo with
        | true => simpa [refHolds] using h ⟨false, pc.2, pc.1, []⟩ (Or.inl (by rw [hb]; simp only [Bool.false_eq_true, ↓reduceIte]; exact List.mem_map.mpr ⟨pc, hpc, rfl⟩))
        | false => simpa [refHolds] using h ⟨true, pc.1, pc.2, []⟩ (Or.inl (by rw [hb]; simp only [Bool.false_eq_true, ↓reduceIte]; exact List.mem_map.mpr ⟨pc, hpc, rfl⟩))
      · intro cv hcv
        have := h ⟨false, [], cv.1, cv.2⟩ (Or.inr ⟨cv, hcv, rfl⟩)
        simpa [refHolds, hw cv hcv] using this
    · rintro ⟨h1, h2⟩ r hr
      rcases hr with hr | ⟨cv, hcv, rfl⟩
      · cases hb : s.belongsTo with
        | true =>
          rw [hb] at hr; simp only [if_true, List.mem_map] at hr
          obtain ⟨pc, hpc, rfl⟩ := hr
          simpa [refHolds] using h1 pc hpc
        | false =>
          rw [hb] at hr; simp only [Bool.false_eq_true, if_false, List.mem_map] at hr
          obtain ⟨pc, hpc, rfl⟩ := hr
          simpa [refHolds] using h1 pc hpc
      · simpa [refHolds, hw cv hcv] using h2 cv hcv
  | some j =>
    simp only [List.mem_append, List.mem_map, Bool.and_eq_true, List.all_eq_true]
    constructor
    · intro h
      refine ⟨?_, ?_⟩
      · intro pj hpj
        simpa [refHolds] using h ⟨true, pj.1, pj.2, []⟩ (Or.inl ⟨pj, hpj, rfl⟩)
      · intro jc hjc
        simpa [refHolds] using h ⟨false, jc.2, jc.1, []⟩ (Or.inr ⟨jc, hjc, rfl⟩)
    · rintro ⟨h1, h2⟩ r hr
      rcases hr with ⟨pj, hpj, rfl⟩ | ⟨jc, hjc, rfl⟩
      · simpa [refHolds] using h1 pj hpj
      · simpa [refHolds] using h2 jc hjc

/-- MAIN (Association().Find / Count, every relation kind, all key values): when the parsed references are, as a set, the
    references of the relation `s` (checked on every run against gorm's parser), the rows accepted by the conditions of
    `ToQueryConditions` are exactly the rows of the reference join "foreign key = the parent's REFERENCED key":
    (1) none foreign; (2) none missing (outside finding F6). -/
theorem C11_assoc_find_exact (s : RelSpec) (ct : List Char) (refs : List JoinRef) (hset : ∀ r, r ∈ refs ↔ r ∈ s.refs)
    (hw : ∀ cv ∈ s.consts, cv.2 ≠ []) (parents : List PRow) (env : QEnv) :
    (assocSelects ct s.via refs parents env = true → ∃ p ∈ parents, s.holds ct p env = true) ∧
    (PAddrFun parents → ∀ p ∈ parents,
      allZero (p.idRow (toQueryConditions ct s.via refs).valFields).key = false →
      (∀ p' ∈ parents, (p'.idRow (toQueryConditions ct s.via refs).valFields).keyStr
              = (p.idRow (toQueryConditions ct s.via refs).valFields).keyStr →
            (p'.idRow (toQueryConditions ct s.via refs).valFields).vals = (p.idRow (toQueryConditions ct s.via refs).valFields).vals) →
      s.holds ct p env = true → assocSelects ct s.via refs parents env = true) := by
  constructor
  · intro h
    obtain ⟨p, hp, _, hr⟩ := C11_query_conditions_none_foreign ct s.via refs parents env h
    exact ⟨p, hp, (C11_spec_refs s ct p env hw).mp (fun r hr' => hr r ((hset r).mpr hr'))⟩
  · intro hf p hp hz hinj hh
    apply C11_query_conditions_none_missing ct s.via refs parents env hf p hp hz hinj
    intro r hr
    exact (C11_spec_refs s ct p env hw).mpr hh r ((hset r).mp hr)

/-- the column choice, spelled out: a belongs-to declared with `references:Code` filters the target's `code` column by
    the record's foreign key — the target's primary key `id` plays no role; Preload's child query uses the same pairs -/
theorem C11_belongs_to_referenced_column :
    let refs : List JoinRef := [⟨false, "code".toList, "country_code".toList, []⟩]
    (toQueryConditions "countries".toList none refs).pairs = [("code".toList, "country_code".toList)] ∧
    (toQueryConditions "countries".toList none refs).inTable = "countries".toList ∧
    (toQueryConditions "countries".toList none refs).atoms = [] ∧
    preloadDirectPairs refs = (toQueryConditions "countries".toList none refs).pairs := by
  decide

/-- a key mix-up would be visible: the city with country_code "2" selects the country whose CODE is "2" (id 1), not the
    country whose ID is 2 (non-vacuity of the two theorems above, on values that look like another row's primary key) -/
theorem C11_referenced_key_example :
    let refs : List JoinRef := [⟨false, "code".toList, "country_code".toList, []⟩]
    let city : PRow := ⟨0, fun c => if c = "country_code".toList then ⟨.str "2".toList, false⟩ else ⟨.nil, true⟩⟩
    let alpha : QRow := fun c => if c = "id".toList then .uint 1 else if c = "code".toList then .str "2".toList else .nil
    let beta : QRow := fun c => if c = "id".toList then .uint 2 else if c = "code".toList then .str "1".toList else .nil
    assocSelects "countries".toList none refs [city] (fun _ => alpha) = true ∧
    assocSelects "countries".toList none refs [city] (fun _ => beta) = false := by
  decide

/-- many2many through non-primary columns: the join row is tied to the record by the record's referenced column and to
    the target by the target's referenced column -/
theorem C11_many2many_hop_example :
    let s : RelSpec := ⟨false, [], [], some "owner_tags".toList, [("ref".toList, "owner_ref".toList)], [("tag_code".toList, "code".toList)]⟩
    (toQueryConditions "tags".toList s.via s.refs).pairs = [("owner_ref".toList, "ref".toList)] ∧
    (toQueryConditions "tags".toList s.via s.refs).inTable = "owner_tags".toList ∧
    (toQueryConditions "tags".toList s.via s.refs).atoms
      = [.colEq "owner_tags".toList "tag_code".toList "tags".toList "code".toList] ∧
    preloadJoinPairs s.refs = [("owner_ref".toList, "ref".toList)] ∧
    preloadHopPairs s.refs = [("code".toList, "tag_code".toList)] := by
  decide

/-! ## Round 3 (1): scanning the columns of an association join into nested relation structs (`scanIntoStruct`) -/

theorem walkChain_null (pre : RelPath) (chain : List JLevel) (alloc : List RelPath) :
    (walkChain true pre chain alloc).2 = alloc := by
  induction chain generalizing pre alloc with
  | nil => rfl
  | cons l rest ih =>
    unfold walkChain
    by_cases hp : l.ptr = true
    · by_cases hc : pre ++ [l.name] ∈ alloc
      · simp [hp, hc, ih]
      · simp [hp, hc]
    · simp [hp, ih]

theorem walkChain_nonnull (pre : RelPath) (chain : List JLevel) (alloc : List RelPath) :
    (walkChain false pre chain alloc).1 = false ∧
    ∀ p, p ∈ (walkChain false pre chain alloc).2 ↔ p ∈ alloc ∨ p ∈ ptrPrefixes pre chain := by
  induction chain generalizing pre alloc with
  | nil => simp [walkChain, ptrPrefixes]
  | cons l rest ih =>
    unfold walkChain ptrPrefixes
    by_cases hp : l.ptr = true
    · by_cases hc : pre ++ [l.name] ∈ alloc
      · obtain ⟨h1, h2⟩ := ih (pre ++ [l.name]) alloc
        simp only [hp, List.contains_iff_mem, hc, if_true]
        refine ⟨h1, fun p => ?_⟩
        rw [h2 p]
        constructor
        · rintro (h | h)
          · exact Or.inl h
          · exact Or.inr (List.mem_cons_of_mem _ h)
        · rintro (h | h)
          · exact Or.inl h
          · rcases List.mem_cons.mp h with h | h
            · exact Or.inl (h ▸ hc)
            · exact Or.inr h
      · obtain ⟨h1, h2⟩ := ih (pre ++ [l.name]) (alloc ++ [pre ++ [l.name]])
        simp only [hp, List.contains_iff_mem, hc, if_true, if_false, Bool.false_eq_true]
        refine ⟨h1, fun p => ?_⟩
        rw [h2 p]
        simp only [List.mem_append, List.mem_cons, List.not_mem_nil, or_false]
        constructor
        · rintro ((h | h) | h)
          · exact Or.inl h
          · exact Or.inr (Or.inl h)
          · exact Or.inr (Or.inr h)
        · rintro (h | h | h)
          · exact Or.inl (Or.inl h)
          · exact Or.inl (Or.inr h)
          · exact Or.inr h
    · obtain ⟨h1, h2⟩ := ih (pre ++ [l.name]) alloc
      simp only [hp, if_false, Bool.false_eq_true]
      exact ⟨h1, h2⟩

theorem scanCell_alloc (st : ScanSt) (c : JCell) (p : RelPath) :
    p ∈ (scanCell st c).alloc ↔ p ∈ st.alloc ∨ (c.isNull = false ∧ p ∈ ptrPrefixes [] c.chain) := by
  unfold scanCell
  cases hn : c.isNull with
  | true =>
    have h := walkChain_null [] c.chain st.alloc
    by_cases h1 : (walkChain true [] c.chain st.alloc).1 = true <;> simp [h1, h]
  | false =>
    obtain ⟨h1, h2⟩ := walkChain_nonnull [] c.chain st.alloc
    simp [h1, h2]

theorem foldl_scan_alloc (cells : List JCell) (st : ScanSt) (p : RelPath) :
    p ∈ (cells.foldl scanCell st).alloc ↔
      p ∈ st.alloc ∨ ∃ c ∈ cells, c.isNull = false ∧ p ∈ ptrPrefixes [] c.chain := by
  induction cells generalizing st with
  | nil => simp
  | cons c rest ih =>
    rw [List.foldl_cons, ih, scanCell_alloc]
    constructor
    · rintro ((h | h) | ⟨c', hc', h⟩)
      · exact Or.inl h
      · exact Or.inr ⟨c, List.mem_cons_self, h⟩
      · exact Or.inr ⟨c', List.mem_cons_of_mem _ hc', h⟩
    · rintro (h | ⟨c', hc', h⟩)
      · exact Or.inl (Or.inl h)
      · rcases List.mem_cons.mp hc' with e | e
        · exact Or.inl (Or.inr (e ▸ h))
        · exact Or.inr ⟨c', e, h⟩

/-- MAIN (joined columns): for every result row, every column list in every order and every NULL pattern, a pointer
    relation is allocated for the row IFF some selected column in it or below it is non-NULL.  In particular a
    has-one / belongs-to row the LEFT JOIN matched is attached as soon as ANY of its selected columns carries a value —
    whichever column comes first — and a relation all of whose columns are NULL (no match) stays nil. -/
theorem C11_scan_attached_iff (cells : List JCell) (p : RelPath) :
    p ∈ (scanRow cells).alloc ↔ attachedSpec cells p := by
  unfold scanRow attachedSpec
  rw [foldl_scan_alloc]
  simp

/-- the decision does not depend on the ORDER of the selected columns (declaration order of the joined model, order of a
    Select list, nullable columns first or key last) -/
theorem C11_scan_order_independent (cells cells' : List JCell) (h : cells.Perm cells') (p : RelPath) :
    p ∈ (scanRow cells).alloc ↔ p ∈ (scanRow cells').alloc := by
  rw [C11_scan_attached_iff, C11_scan_attached_iff]
  unfold attachedSpec
  constructor
  · rintro ⟨c, hc, h1⟩; exact ⟨c, h.mem_iff.mp hc, h1⟩
  · rintro ⟨c, hc, h1⟩; exact ⟨c, h.mem_iff.mpr hc, h1⟩

/-- none foreign on the join side: a relation none of whose columns carries a value is not attached -/
theorem C11_scan_unmatched_not_attached (cells : List JCell) (p : RelPath)
    (h : ∀ c ∈ cells, p ∈ ptrPrefixes [] c.chain → c.isNull = true) : p ∉ (scanRow cells).alloc := by
  rw [C11_scan_attached_iff]
  rintro ⟨c, hc, hn, hp⟩
  rw [h c hc hp] at hn
  cases hn

theorem scanCell_sets_mono (st : ScanSt) (c : JCell) (x : RelPath × List Char × Bool) (h : x ∈ st.sets) :
    x ∈ (scanCell st c).sets := by
  unfold scanCell
  by_cases h1 : (walkChain c.isNull [] c.chain st.alloc).1 = true
  · simp [h1, h]
  · simp [h1, h]

theorem foldl_scan_sets_mono (cells : List JCell) (st : ScanSt) (x : RelPath × List Char × Bool) (h : x ∈ st.sets) :
    x ∈ (cells.foldl scanCell st).sets := by
  induction cells generalizing st with
  | nil => exact h
  | cons c rest ih => exact ih _ (scanCell_sets_mono st c x h)

/-- none missing inside the attached row: every non-NULL selected column is written into its relation struct -/
theorem C11_scan_value_kept (cells : List JCell) (c : JCell) (hc : c ∈ cells) (hn : c.isNull = false) :
    (c.path, c.col, false) ∈ (scanRow cells).sets := by
  unfold scanRow
  generalize (⟨[], []⟩ : ScanSt) = st
  induction cells generalizing st with
  | nil => cases hc
  | cons d rest ih =>
    rw [List.foldl_cons]
    rcases List.mem_cons.mp hc with e | e
    · subst e
      apply foldl_scan_sets_mono
      unfold scanCell
      have h1 := (walkChain_nonnull [] c.chain st.alloc).1
      rw [hn]
      simp [h1]
    · exact ih e _

/-- non-vacuity and the fault class it excludes: joined relation `Card` with columns (note = NULL, n = 7) — the real loop
    attaches it, a loop that decides from the first column would drop the matched row -/
theorem C11_scan_first_column_counterexample :
    let card : List JLevel := [⟨"Card".toList, true⟩]
    let cells : List JCell := [⟨card, "note".toList, true⟩, ⟨card, "n".toList, false⟩]
    (scanRow cells).alloc = [["Card".toList]] ∧ scanRowFirst cells = [] ∧
    (scanRow cells.reverse).alloc = [["Card".toList]] ∧ scanRowFirst cells.reverse = [["Card".toList]] := by
  decide

/-- a nested example: only the deepest relation has a value (its ancestors' selected columns are all NULL) — every
    pointer hop on the way is allocated; a non-pointer hop needs no allocation -/
theorem C11_scan_nested_example :
    let cells : List JCell := [⟨[⟨"P".toList, true⟩], "x".toList, true⟩,
      ⟨[⟨"P".toList, true⟩, ⟨"T".toList, false⟩, ⟨"W".toList, true⟩], "k".toList, false⟩]
    (scanRow cells).alloc = [["P".toList], ["P".toList, "T".toList, "W".toList]] := by
  decide

/-! ## Round 3 (2): the soft-delete scope of every level of a load is the finisher's `Unscoped` -/

theorem SessionRule.derive_inherits (r : SessionRule) (h : r.Inherits) (b : Bool) : r.derive b = b := by
  unfold SessionRule.derive
  rcases h with h | h
  · simp [h]
  · by_cases hc : r.copies = true <;> simp [hc, h]

theorem sessionAt_inherits (s : PreloadSessions) (h : s.Inherits) (flag : Bool) (hops : List LoadHop) :
    sessionAt s flag hops = flag := by
  obtain ⟨hr, hs, ht, he, hk⟩ := h
  induction hops generalizing flag with
  | nil => rfl
  | cons hop rest ih =>
    cases hop
    · simp only [sessionAt]; rw [ih, SessionRule.derive_inherits _ hs]
    · simp only [sessionAt]; rw [ih, SessionRule.derive_inherits _ ht]
    · simp only [sessionAt]
      rw [ih, SessionRule.derive_inherits _ hr]
      unfold PreloadSessions.query PreloadSessions.keep
      rw [SessionRule.derive_inherits _ he]; simp [hk]

/-- for EVERY path of joined / preloaded hops (any depth, any mixture, slice or single destination): if every session
    construction on the way either keeps the parent's statement or copies the flag, the SELECT that loads the relation
    runs with exactly the finisher's `Unscoped` -/
theorem C11_unscoped_inherited (s : PreloadSessions) (h : s.Inherits) (u : Bool) (hops : List LoadHop) :
    childQueryUnscoped s u hops = u := by
  unfold childQueryUnscoped
  rw [sessionAt_inherits s h]
  obtain ⟨hr, _, _, he, hk⟩ := h
  unfold PreloadSessions.query PreloadSessions.keep
  rw [SessionRule.derive_inherits _ he, SessionRule.derive_inherits _ hr]; simp [hk]

/-- the session constructions of the tree as it is now (regenerated from callbacks/query.go `Preload`,
    callbacks/preload.go `preloadDB` / `preloadEntryPoint`, statement.go `Statement.clone`) -/
def currentSessions : PreloadSessions :=
  ⟨⟨Gen.preloadRootNewDB, Gen.preloadRootCopies⟩, ⟨Gen.preloadJoinedSliceNewDB, Gen.preloadJoinedSliceCopies⟩,
   ⟨Gen.preloadJoinedStructNewDB, Gen.preloadJoinedStructCopies⟩, ⟨Gen.preloadEntryNewDB, Gen.preloadEntryCopies⟩,
   Gen.stmtCloneKeepsUnscoped⟩

theorem C11_unscoped_current_tree (u : Bool) (hops : List LoadHop) : childQueryUnscoped currentSessions u hops = u :=
  C11_unscoped_inherited currentSessions (by decide) u hops

/-- the fault class: a `NewDB` session below a joined relation without the copy loses `Unscoped` although the root session
    and plain (nested) preloads still carry it -/
theorem C11_unscoped_lost_counterexample :
    let s : PreloadSessions := ⟨⟨true, true⟩, ⟨true, false⟩, ⟨true, false⟩, ⟨false, true⟩, true⟩
    childQueryUnscoped s true [] = true ∧ childQueryUnscoped s true [.preloaded, .preloaded] = true ∧
    childQueryUnscoped s true [.joinedSlice] = false ∧ childQueryUnscoped s true [.joinedStruct, .preloaded] = false := by
  decide

/-! ## Round 3 (3): a failed query of a load is reported -/

theorem C11_fault_reported (checked : List Bool) (h : ∀ b ∈ checked, b = true) (k : Option Nat) :
    loadOutcome checked k ≠ .silentlyIncomplete := by
  cases k with
  | none => simp [loadOutcome]
  | some k =>
    cases hk : checked[k]? with
    | none => simp [loadOutcome, hk]
    | some b =>
      have hb : b ∈ checked := List.mem_of_getElem? hk
      have := h b hb
      subst this
      simp [loadOutcome, hk]

/-- `preload` sends (at least) the join-table query and the related-table query; the error of each is returned -/
theorem C11_fault_reported_current_tree :
    2 ≤ Gen.preloadFindsChecked.length ∧ ∀ k, loadOutcome Gen.preloadFindsChecked k ≠ .silentlyIncomplete :=
  ⟨by decide, C11_fault_reported _ (by decide)⟩

/-- the fault class: the first query's error lands on a handle nobody looks at -/
theorem C11_fault_swallowed_counterexample : loadOutcome [false, true] (some 0) = .silentlyIncomplete := by
  decide

/-! ## Round 4: preload as a function of the parent-key LIST — batches of the IN list, and on which handle

  (`Model/PreloadBatch.lean`; the shape of preload's `.Find(` calls is regenerated into `Gen/PreloadQuery.lean`) -/

/-- MAIN: however the (distinct) key tuples are cut into batches, fetching batch by batch — each batch on a FRESH statement —
    yields exactly the children of the single query over the whole list (as a multiset: none missing, none twice) -/
theorem C11_batch_partition_independent (children : List KChild) (batches : List (List (List KeyVal)))
    (hn : batches.flatten.Nodup) :
    (batchedFetch true children ⟨[]⟩ batches).Perm (fetchIn children batches.flatten) :=
  batched_cloning_perm children batches hn

/-- … hence every parent is handed the same children, whatever the partition -/
theorem C11_batch_attach_independent (m : IdMap) (children : List KChild) (batches : List (List (List KeyVal)))
    (hn : batches.flatten.Nodup) (a : Nat) :
    (attachedTo m (batchedFetch true children ⟨[]⟩ batches) a).Perm (attachedTo m (fetchIn children batches.flatten) a) := by
  unfold attachedTo
  exact ((batched_cloning_perm children batches hn).filter _).map _

/-- the key list preload sends (`foreignValues` of `GetIdentityFieldValuesMap`) never holds a tuple twice as long as the key
    string is injective on the parents' tuples (no listed F6 collision) -/
theorem C11_identity_values_nodup (rows : List IdRow) : (identitySlice rows).values.Nodup := by
  have hk := identity_keys_nodup rows
  have ha := (C11_identity_values rows).1
  unfold IdMap.KeysNodup at hk
  rw [← ha] at hk
  exact nodup_of_map _ _ hk

/-- the attached children do not depend on how the key list is partitioned: any batching equals the one-query preload of
    `C11_preload_none_missing` / `C11_preload_none_foreign`, for every parent list, child table and parent -/
theorem C11_preload_batched_eq_direct (split : List (List KeyVal) → List (List (List KeyVal)))
    (hsplit : ∀ l, (split l).flatten = l) (parents : List IdRow) (children : List KChild) (a : Nat) :
    (preloadBatched split parents children a).Perm (preloadDirect parents children a) := by
  unfold preloadBatched preloadDirect
  have hn : (split (identitySlice parents).values).flatten.Nodup := by
    rw [hsplit]; exact C11_identity_values_nodup parents
  have h := C11_batch_attach_independent (identitySlice parents) children (split (identitySlice parents).values) hn a
  rw [hsplit] at h
  exact h

/-- the PROVISO matters: on a handle that does not clone (the result of a chain call) the IN lists pile up in one
    statement, and every batch after the first — disjoint from it, as batches of distinct keys are — fetches nothing:
    what is loaded is the first batch only -/
theorem C11_batch_shared_statement_loses (children : List KChild) (b1 : List (List KeyVal))
    (rest : List (List (List KeyVal))) (hd : ∀ b ∈ rest, ∀ v ∈ b, v ∉ b1) :
    batchedFetch false children ⟨[]⟩ (b1 :: rest) = fetchIn children b1 := by
  simp only [batchedFetch, Bool.false_eq_true, if_false, List.nil_append]
  rw [runStmt_single, batched_shared_nil children b1 rest hd ⟨[b1]⟩ (by simp), List.append_nil]

/-- the fault class (kernel-checked witness): two parents, keys 1 and 2, one child each, batches [1] and [2]: on a cloning
    handle both children arrive, on a shared statement (`fk IN (1) AND fk IN (2)`) the second parent's child is lost -/
theorem C11_batch_shared_statement_counterexample :
    let children : List KChild := [⟨10, [.uint 1]⟩, ⟨20, [.uint 2]⟩]
    let parents : List IdRow := [⟨0, [⟨.uint 1, false⟩]⟩, ⟨1, [⟨.uint 2, false⟩]⟩]
    let batches : List (List (List KeyVal)) := [[[.uint 1]], [[.uint 2]]]
    attachedTo (identitySlice parents) (batchedFetch true children ⟨[]⟩ batches) 1 = [20] ∧
    attachedTo (identitySlice parents) (batchedFetch false children ⟨[]⟩ batches) 1 = [] ∧
    preloadDirect parents children 1 = [20] := by
  decide

/-- a query site of preload fetches exactly the one-query result provided it passes the whole key list and — when it sits
    in a loop — makes its handle fresh per iteration; then it does not matter whether `tx` itself still clones
    (`txClones = false`: nested path, function condition, polymorphic relation) nor how the list is split -/
theorem C11_site_fetch_exact (s : FindSite) (hw : s.whole = true) (hl : s.inLoop = false ∨ s.fresh = true)
    (txClones : Bool) (split : List (List KeyVal) → List (List (List KeyVal)))
    (sub : List (List KeyVal) → List (List KeyVal)) (children : List KChild) (values : List (List KeyVal))
    (hsplit : (split values).flatten = values) (hn : values.Nodup) :
    (siteFetch s txClones split sub children values).Perm (fetchIn children values) := by
  unfold siteFetch
  simp only [hw, if_true]
  cases hin : s.inLoop
  · simp
  · have hf : s.fresh = true := by
      rcases hl with h | h
      · rw [hin] at h; cases h
      · exact h
    simp only [hf, Bool.or_true, if_true]
    have h := batched_cloning_perm children (split values) (by rw [hsplit]; exact hn)
    rw [hsplit] at h
    exact h

/-- regenerated fact: preload of the current tree has its two `.Find(` calls (join-table query, related-table query), each
    passes the whole key list and none sits in a loop on a handle that is not made fresh -/
theorem C11_preload_query_current_tree :
    currentFindSites.length = 2 ∧ ∀ s ∈ currentFindSites, s.whole = true ∧ (s.inLoop = false ∨ s.fresh = true) := by
  decide

/-- … so both child queries of the current tree's preload fetch exactly `fetchIn` of the whole key list, whether or not
    `tx` was re-assigned from a chain call before (`Gen.preloadTxReassignments` such re-assignments exist) -/
theorem C11_preload_query_exact_current_tree (s : FindSite) (hs : s ∈ currentFindSites) (txClones : Bool)
    (split : List (List KeyVal) → List (List (List KeyVal))) (sub : List (List KeyVal) → List (List KeyVal))
    (children : List KChild) (values : List (List KeyVal))
    (hsplit : (split values).flatten = values) (hn : values.Nodup) :
    (siteFetch s txClones split sub children values).Perm (fetchIn children values) :=
  C11_site_fetch_exact s (C11_preload_query_current_tree.2 s hs).1 (C11_preload_query_current_tree.2 s hs).2
    txClones split sub children values hsplit hn

/-- the fault class at the level of the site shape: a looped, non-fresh site on a re-assigned `tx` loses the second batch;
    a site that sends a slice of the key list loses the parents cut off -/
theorem C11_site_fetch_counterexample :
    let children : List KChild := [⟨10, [.uint 1]⟩, ⟨20, [.uint 2]⟩]
    let values : List (List KeyVal) := [[.uint 1], [.uint 2]]
    let split : List (List KeyVal) → List (List (List KeyVal)) := fun l => l.map (fun v => [v])
    (siteFetch ⟨true, false, true⟩ false split id children values).map (·.id) = [10] ∧
    (siteFetch ⟨true, false, true⟩ true split id children values).map (·.id) = [10, 20] ∧
    (siteFetch ⟨true, true, true⟩ false split id children values).map (·.id) = [10, 20] ∧
    (siteFetch ⟨false, false, false⟩ true split (fun l => l.take 1) children values).map (·.id) = [10] ∧
    (fetchIn children values).map (·.id) = [10, 20] := by
  decide

/-- non-vacuity: a split that really cuts (singleton batches) satisfies the hypothesis of `C11_preload_batched_eq_direct` -/
example : ∀ l : List (List KeyVal), (l.map (fun v => [v])).flatten = l := by
  intro l; induction l with
  | nil => rfl
  | cons x t ih => simp [List.flatten_cons, ih]

-- ---- round 5: WHERE the key of a relation is declared — nested embedded structs ------------------------------------------

/-- first hit of a descending scan: the largest index that answers -/
theorem findSome_rev_range_closest {β : Type} (g : Nat → Option β) (n i : Nat) (f : β) (hi : i < n) (hg : g i = some f)
    (hno : ∀ j, i < j → j < n → g j = none) : (List.range n).reverse.findSome? g = some f := by
  induction n with
  | zero => omega
  | succ n ih =>
    rw [List.range_succ, List.reverse_append]
    by_cases h : i = n
    · subst h
      simp [hg]
    · have hn : g n = none := hno n (by omega) (by omega)
      simp only [List.reverse_cons, List.reverse_nil, List.nil_append, List.cons_append, List.findSome?_cons, hn]
      exact ih (by omega) (fun j h1 h2 => hno j h1 (by omega))

theorem findSome_rev_range_spec {β : Type} (g : Nat → Option β) (n : Nat) (f : β)
    (h : (List.range n).reverse.findSome? g = some f) :
    ∃ i, i < n ∧ g i = some f ∧ ∀ j, i < j → j < n → g j = none := by
  induction n with
  | zero => simp at h
  | succ n ih =>
    rw [List.range_succ, List.reverse_append] at h
    simp only [List.reverse_cons, List.reverse_nil, List.nil_append, List.cons_append, List.findSome?_cons] at h
    cases hn : g n with
    | some b =>
      rw [hn] at h
      refine ⟨n, by omega, ?_, fun j h1 h2 => by omega⟩
      rw [hn]; exact h
    | none =>
      rw [hn] at h
      obtain ⟨i, hi, hgi, hno⟩ := ih h
      refine ⟨i, by omega, hgi, fun j h1 h2 => ?_⟩
      by_cases hj : j = n
      · subst hj; exact hn
      · exact hno j h1 (by omega)

/-- THE INNERMOST ENCLOSING STRUCT'S FIELD WINS (schema.go LookUpFieldByBindName with the descending loop): if the struct
    `i` levels down the relation's bind path declares a field `name` and no struct further down the path does, that field is
    the answer — whatever the enclosing structs further out declare under the same name. -/
theorem C11_bind_closest_wins (fs : List BField) (bn : List String) (name : String) (i : Nat) (f : BField)
    (h0 : 0 < i) (hi : i < bn.length) (hf : byBind fs (bn.take i ++ [name]) = some f)
    (hno : ∀ j, i < j → j < bn.length → byBind fs (bn.take j ++ [name]) = none) :
    lookUpFieldByBindNameWith true fs bn name = some f := by
  unfold lookUpFieldByBindNameWith bindOrder
  simp only [if_true]
  apply findSome_rev_range_closest _ _ i f hi
  · unfold bindStep; rw [if_neg (by omega)]; exact hf
  · intro j h1 h2; unfold bindStep; rw [if_neg (by omega)]; exact hno j h1 h2

/-- … and nothing else: the answer of the descending loop is always the field of the closest enclosing struct that has one
    (complete characterisation; level 0 — the model itself — is never looked at). -/
theorem C11_bind_closest_iff (fs : List BField) (bn : List String) (name : String) (f : BField) :
    lookUpFieldByBindNameWith true fs bn name = some f ↔
      ∃ i, 0 < i ∧ i < bn.length ∧ byBind fs (bn.take i ++ [name]) = some f ∧
        ∀ j, i < j → j < bn.length → byBind fs (bn.take j ++ [name]) = none := by
  constructor
  · intro h
    unfold lookUpFieldByBindNameWith bindOrder at h
    simp only [if_true] at h
    obtain ⟨i, hi, hg, hno⟩ := findSome_rev_range_spec _ _ _ h
    have h0 : i ≠ 0 := by
      intro h0; subst h0; simp [bindStep] at hg
    refine ⟨i, by omega, hi, ?_, fun j h1 h2 => ?_⟩
    · unfold bindStep at hg; rw [if_neg h0] at hg; exact hg
    · have := hno j h1 h2
      unfold bindStep at this; rw [if_neg (by omega)] at this; exact this
  · rintro ⟨i, h0, hi, hf, hno⟩
    exact C11_bind_closest_wins fs bn name i f h0 hi hf hno

/-- whatever the loop direction: an answer is a field of the schema declared under `name` in a struct ON the relation's bind
    path, strictly below the model and at or above the struct that declares the relation -/
theorem C11_bind_lookup_sound (d : Bool) (fs : List BField) (bn : List String) (name : String) (f : BField)
    (h : lookUpFieldByBindNameWith d fs bn name = some f) :
    ∃ i, 0 < i ∧ i < bn.length ∧ f.bind = bn.take i ++ [name] ∧ f ∈ fs := by
  unfold lookUpFieldByBindNameWith at h
  obtain ⟨i, hmem, hg⟩ := List.exists_of_findSome?_eq_some h
  have hi : i < bn.length := by
    unfold bindOrder at hmem
    cases d <;> simp at hmem <;> exact hmem
  have h0 : i ≠ 0 := by
    intro h0; subst h0; simp [bindStep] at hg
  unfold bindStep at hg; rw [if_neg h0] at hg
  unfold byBind at hg
  refine ⟨i, by omega, hi, ?_, List.mem_of_find?_eq_some hg⟩
  have := List.find?_some hg
  simpa using this

/-- no enclosing struct below the model declares the name  ⇔  the lookup answers nothing (then guessRelation falls back to
    LookUpField over the whole model) -/
theorem C11_bind_lookup_none_iff (d : Bool) (fs : List BField) (bn : List String) (name : String) :
    lookUpFieldByBindNameWith d fs bn name = none ↔
      ∀ i, 0 < i → i < bn.length → byBind fs (bn.take i ++ [name]) = none := by
  unfold lookUpFieldByBindNameWith
  rw [List.findSome?_eq_none_iff]
  constructor
  · intro h i h0 hi
    have hm : i ∈ bindOrder d bn.length := by
      unfold bindOrder; cases d <;> simp <;> exact hi
    have := h i hm
    unfold bindStep at this; rw [if_neg (by omega)] at this; exact this
  · intro h i hm
    have hi : i < bn.length := by
      unfold bindOrder at hm
      cases d <;> simp at hm <;> exact hm
    unfold bindStep
    by_cases h0 : i = 0
    · rw [if_pos h0]
    · rw [if_neg h0]; exact h i (by omega) hi

/-- the facts regenerated from schema/schema.go and schema/relationship.go: one loop, `i := len(bindNames) - 1; i >= 0; i--`,
    key `strings.Join(bindNames[:i], ".") + "." + name`; guessRelation asks LookUpFieldByBindName before LookUpField -/
theorem C11_bind_lookup_current_tree :
    Gen.bindLookupFound = true ∧ Gen.bindLookupDescending = true ∧ Gen.bindLookupPrefixKey = true ∧
      Gen.guessBindFirst = true := by decide

/-- the closest enclosing struct wins in the CURRENT tree -/
theorem C11_bind_closest_wins_current_tree (fs : List BField) (bn : List String) (name : String) (i : Nat) (f : BField)
    (h0 : 0 < i) (hi : i < bn.length) (hf : byBind fs (bn.take i ++ [name]) = some f)
    (hno : ∀ j, i < j → j < bn.length → byBind fs (bn.take j ++ [name]) = none) :
    lookUpFieldByBindName fs bn name = some f := by
  unfold lookUpFieldByBindName
  rw [C11_bind_lookup_current_tree.2.1]
  exact C11_bind_closest_wins fs bn name i f h0 hi hf hno

/-- a loop that walks from the model INWARD answers the outermost same-named field: the relation `Outer.Inner.Country` would
    take `Outer.CountryID` for its key although `Outer.Inner.CountryID` stands next to it -/
theorem C11_bind_outermost_counterexample :
    let fs : List BField := [⟨["Outer", "CountryID"], "o_country_id"⟩, ⟨["Outer", "Inner", "CountryID"], "o_i_country_id"⟩]
    (lookUpFieldByBindNameWith false fs ["Outer", "Inner", "Country"] "CountryID").map (·.db) = some "o_country_id" ∧
    (lookUpFieldByBindNameWith true fs ["Outer", "Inner", "Country"] "CountryID").map (·.db) = some "o_i_country_id" := by
  decide

/-- guessRelation: a key found by walking outward from the relation beats every same-named field elsewhere in the model -/
theorem C11_guess_foreign_enclosing_first (d : Bool) (fs : List BField) (bn names : List String) (f : BField)
    (h : names.findSome? (lookUpFieldByBindNameWith d fs bn) = some f) :
    guessForeignWith d true fs bn names = some f := by
  unfold guessForeignWith
  simp [h]

/-- … and only when NO candidate name is declared in any enclosing struct does the model-wide LookUpField decide -/
theorem C11_guess_foreign_fallback (d : Bool) (fs : List BField) (bn names : List String)
    (h : ∀ n ∈ names, lookUpFieldByBindNameWith d fs bn n = none) :
    guessForeignWith d true fs bn names = names.findSome? (lookUpField fs) := by
  unfold guessForeignWith
  have : names.findSome? (lookUpFieldByBindNameWith d fs bn) = none := List.findSome?_eq_none_iff.mpr h
  simp [this]

/-- the reference gorm's conventions define, current tree: the first candidate name `<Field><PK>` declared by the closest
    enclosing struct is the relation's foreign key -/
theorem C11_guess_foreign_closest_current_tree (fs : List BField) (bn : List String) (name : String) (rest : List String)
    (i : Nat) (f : BField) (h0 : 0 < i) (hi : i < bn.length) (hf : byBind fs (bn.take i ++ [name]) = some f)
    (hno : ∀ j, i < j → j < bn.length → byBind fs (bn.take j ++ [name]) = none) :
    guessForeign fs bn (name :: rest) = some f := by
  unfold guessForeign
  rw [C11_bind_lookup_current_tree.2.1, C11_bind_lookup_current_tree.2.2.2]
  apply C11_guess_foreign_enclosing_first
  simp [C11_bind_closest_wins fs bn name i f h0 hi hf hno]

/-- LookUpField answers a field of the schema whose column or Go name is the text asked for -/
theorem C11_lookup_field_sound (fs : List BField) (name : String) (f : BField) (h : lookUpField fs name = some f) :
    f ∈ fs ∧ (f.db = name ∨ f.name = name) := by
  unfold lookUpField at h
  cases hdb : byDB fs name with
  | some g =>
    rw [hdb] at h
    have hg : g = f := by simpa using h
    subst hg
    unfold byDB at hdb
    exact ⟨List.mem_of_find?_eq_some hdb, Or.inl (by simpa using List.find?_some hdb)⟩
  | none =>
    rw [hdb] at h
    unfold byName at h
    have hm : f ∈ fs.filter (fun f => f.name == name) := List.mem_of_getLast? h
    rw [List.mem_filter] at hm
    exact ⟨hm.1, Or.inr (by simpa using hm.2)⟩

/-- finding F35 (tree before the repair, `once = false`): `Preload(clause.Associations, "n = ?", 7)` reaches a relation declared
    in an `embedded`-tagged struct with the conditions TWICE, and Find(dest, "n = ?", 7, "n = ?", 7) is ill-formed (one
    placeholder, three arguments) -/
theorem C11_assoc_conds_embedded_counterexample :
    assocCondsReaching false 1 ["n = ?", "7"] = ["n = ?", "7", "n = ?", "7"] ∧
      inlineWellFormed 1 (assocCondsReaching false 1 ["n = ?", "7"]) = false := by decide

/-- before the repair: whenever the relation sits in an `embedded`-tagged struct, an inline condition with arguments is ill-formed -/
theorem C11_assoc_conds_embedded_illformed {α : Type} (depth k : Nat) (q : α) (as : List α) (hd : 0 < depth) (hk : as.length = k) :
    inlineWellFormed k (assocCondsReaching false depth (q :: as)) = false := by
  unfold assocCondsReaching inlineWellFormed
  rw [if_neg (by simp; omega)]
  simp only [List.cons_append, List.length_append, List.length_cons, hk]
  simp

/-- outside the finding's pattern (relation declared at the top level / in an untagged anonymous struct) the conditions
    arrive once and a well-formed inline condition stays well-formed — on either tree -/
theorem C11_assoc_conds_partial {α : Type} (once : Bool) (args : List α) : assocCondsReaching once 0 args = args := by
  simp [assocCondsReaching]

theorem C11_assoc_conds_wellformed_partial {α : Type} (once : Bool) (k : Nat) (q : α) (as : List α) (hk : as.length = k) :
    inlineWellFormed k (assocCondsReaching once 0 (q :: as)) = true := by
  simp [assocCondsReaching, inlineWellFormed, hk]

/-- FULL statement on a tree with the repair of F35 (`once = true`): EVERY relation reached through clause.Associations —
    declared at the top level or any number of `embedded`-tagged structs deep — receives the conditions exactly once -/
theorem C11_assoc_conds_once {α : Type} (depth : Nat) (args : List α) : assocCondsReaching true depth args = args := by
  simp [assocCondsReaching]

/-- … hence an inline condition whose placeholders match its arguments reaches `Find` well-formed at every depth -/
theorem C11_assoc_conds_wellformed {α : Type} (depth k : Nat) (q : α) (as : List α) (hk : as.length = k) :
    inlineWellFormed k (assocCondsReaching true depth (q :: as)) = true := by
  rw [C11_assoc_conds_once]; simp [inlineWellFormed, hk]

/-- the tree as it is now (regenerated facts): the leaf appends associationsConds and the embedded recursion hands them on;
    either parsePreloadMap stores nothing for embedded relations and every relation receives the conditions exactly once
    (well-formed at every depth), or it stores them and the listed witness is ill-formed -/
theorem C11_assoc_conds_current_tree :
    Gen.assocLeafAppends = true ∧ Gen.assocEmbPassesConds = true ∧ Gen.assocCondsOnce = !Gen.assocEmbStoresArgs ∧
    ((Gen.assocCondsOnce = true ∧
        (∀ (depth : Nat) (args : List String), assocCondsCurrent depth args = args) ∧
        (∀ (depth k : Nat) (q : String) (as : List String), as.length = k →
            inlineWellFormed k (assocCondsCurrent depth (q :: as)) = true)) ∨
     (Gen.assocCondsOnce = false ∧
        inlineWellFormed 1 (assocCondsCurrent 1 ["n = ?", "7"]) = false)) := by
  refine ⟨by decide, by decide, by decide, ?_⟩
  unfold assocCondsCurrent
  by_cases h : Gen.assocCondsOnce = true
  · left; refine ⟨h, ?_, ?_⟩
    · intro d a; rw [h]; exact C11_assoc_conds_once d a
    · intro d k q as hk; rw [h]; exact C11_assoc_conds_wellformed d k q as hk
  · right
    have h' : Gen.assocCondsOnce = false := by simpa using h
    refine ⟨h', ?_⟩; rw [h']; decide

example : ∃ fs bn name i f, 0 < i ∧ i < List.length bn ∧ byBind fs (bn.take i ++ [name]) = some f ∧
    (∀ j, i < j → j < bn.length → byBind fs (bn.take j ++ [name]) = none) ∧ fs.length = 2 :=
  ⟨[⟨["Outer", "CountryID"], "o_country_id"⟩, ⟨["Outer", "Inner", "CountryID"], "o_i_country_id"⟩],
    ["Outer", "Inner", "Country"], "CountryID", 2, ⟨["Outer", "Inner", "CountryID"], "o_i_country_id"⟩,
    by decide, by decide, by decide, by intro j h1 h2; simp at h2; omega, rfl⟩


end Gorm
