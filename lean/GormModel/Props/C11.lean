/-
  C11 — eager loading attaches to each record exactly its own rows: the key-string core.
-/
import GormModel.Model.Identity
import GormModel.Lemmas.Identity
namespace Gorm

/-- `strings.Join(_, "_")` is injective on tuples of equal arity whose components contain no `_` -/
theorem C11_key_injective (a b : List (List Char)) (hlen : a.length = b.length)
    (ha : KeySafe a) (hb : KeySafe b) : joinKey a = joinKey b → a = b :=
  joinKey_injective a b hlen ha hb

/-- MAIN: under `KeySafe` (no component contains the separator) the string-keyed attachment of
    preload.go equals the tuple-keyed reference join, for every parent, every child set, every key arity:
    none missing, none attached to another parent. -/
theorem C11_attach_exact (children : List ChildRow) (pk : List (List Char))
    (hp : KeySafe pk) (hc : ∀ c ∈ children, KeySafe c.fk ∧ c.fk.length = pk.length) :
    attachByString children pk = attachByTuple children pk := by
  unfold attachByString attachByTuple
  congr 1
  apply List.filter_congr
  intro c hcm
  have ⟨hs, hl⟩ := hc c hcm
  by_cases h : c.fk = pk
  · simp [h]
  · have : joinKey c.fk ≠ joinKey pk := fun hj => h (joinKey_injective _ _ hl hs hp hj)
    simp [h, this]

/-- FINDING F6 (counterexample, kernel-checked): composite string keys ("a_b","c") and ("a","b_c")
    have the same key string -/
theorem C11_key_collision_counterexample :
    toStringKey [.str "a_b".toList, .str "c".toList] = toStringKey [.str "a".toList, .str "b_c".toList] ∧
    ([KeyVal.str "a_b".toList, .str "c".toList] ≠ [.str "a".toList, .str "b_c".toList]) := by
  decide

/-- … and the attachment then differs from the reference join: child 2 (fk = ("a","b_c")) is attached to
    the parent ("a_b","c") as well -/
theorem C11_wrong_attach_counterexample :
    attachByString [⟨["a_b".toList, "c".toList], 1⟩, ⟨["a".toList, "b_c".toList], 2⟩] ["a_b".toList, "c".toList] = [1, 2] ∧
    attachByTuple [⟨["a_b".toList, "c".toList], 1⟩, ⟨["a".toList, "b_c".toList], 2⟩] ["a_b".toList, "c".toList] = [1] := by
  decide

/-- second collision family: a zero-valued non-string component is printed as the text `nil` -/
theorem C11_nil_collision_counterexample :
    toStringKey [.str "nil".toList, .str "x".toList] = toStringKey [.int 0, .str "x".toList] := by
  decide

/-- non-vacuity: a composite key satisfying KeySafe -/
example : KeySafe ["ab".toList, "c".toList] := by
  intro p hp; simp at hp; rcases hp with h | h <;> subst h <;> decide

end Gorm
