/-
  C19 — DryRun and ToSQL send nothing.  Theorems over the REGENERATED tables
  `Gen.callSites`, `Gen.pipelines`, `Gen.handlers`, `Gen.sessionUses`, `Gen.dryRunAssigns`.
-/
import GormModel.Model.Pipeline
import GormModel.Gen.CallSites
import GormModel.Gen.Pipelines
import GormModel.Gen.Sessions
import GormModel.Gen.Misc
namespace Gorm
open Gen

def stmtMethods : List String := ["ExecContext", "QueryContext", "QueryRowContext", "PrepareContext"]

/-- Where may statement-sending driver calls live at all?  Only in callback handlers
    (callbacks/*.go) and in the ConnPool wrapper methods of prepare_stmt.go, which are
    themselves only reached through those handlers. -/
theorem C19_sites_located :
    ∀ s ∈ callSites, s.method ∈ stmtMethods →
      (s.pkg = "callbacks" ∨ s.file = "prepare_stmt.go") := by
  decide

/-- Every statement-sending call site in the callback handlers is dominated by `!db.DryRun`
    (and by `db.Error == nil`), and is made on the statement's own pool. -/
theorem C19_guards :
    ∀ s ∈ callSites, s.pkg = "callbacks" →
      ("!db.DryRun" ∈ s.guards ∧ "db.Error == nil" ∈ s.guards ∧ s.recv = "db.Statement.ConnPool"
        ∧ s.method ∈ stmtMethods) := by
  decide

/-- the extracted handler table agrees with the call-site table: every `driver` call recorded
    for a registered handler carries the `!db.DryRun` condition -/
theorem C19_handler_driver_calls_guarded :
    ∀ h ∈ handlers, ∀ c ∈ h.calls, c.kind = "driver" → "!db.DryRun" ∈ c.guards := by
  decide

/-- every registered callback has extracted handler facts (no handler escaped the extractor) -/
theorem C19_handlers_complete :
    ∀ p ∈ pipelines, ∀ r ∈ p.2, (handlerOf handlers r.handler).isSome = true := by
  decide

/-- the only handlers that open or finish a transaction are the two transaction callbacks, and
    both are registered under `Match(enableTransaction)` in every pipeline that has them -/
theorem C19_tx_only_in_tx_callbacks :
    (∀ h ∈ handlers, (∃ c ∈ h.calls, c.kind = "tx") →
        h.name = "BeginTransaction" ∨ h.name = "CommitOrRollbackTransaction") ∧
    (∀ p ∈ pipelines, ∀ r ∈ p.2,
        (r.handler = "BeginTransaction" ∨ r.handler = "CommitOrRollbackTransaction") →
        r.matchGuard = "enableTransaction") ∧
    enableTransactionSrc = "func(db *gorm.DB) bool { return !db.SkipDefaultTransaction }" := by
  decide

/-- MAIN (DryRun): in DryRun mode, whatever the other conditions evaluate to (`env`), whatever the
    error state, no pipeline can issue a prepare/exec/query driver call. -/
theorem C19_dryrun_silent (st : RunSt) (env : String → Bool) (hd : st.dryRun = true) :
    ∀ p ∈ pipelines, possibleCalls handlers p.2 st env ["driver"] = [] := by
  intro p hp
  unfold possibleCalls
  rw [List.flatMap_eq_nil_iff]
  intro r hr
  split
  · cases hh : handlerOf handlers r.handler with
    | none => rfl
    | some h =>
      simp only [List.map_eq_nil_iff, List.filter_eq_nil_iff]
      intro c hc
      have hmem : h ∈ handlers := by
        unfold handlerOf at hh
        exact List.mem_of_find?_eq_some hh
      by_cases hk : c.kind = "driver"
      · have hg := C19_handler_driver_calls_guarded h hmem c hc hk
        have := enabled_false_of_mem c st env "!db.DryRun" hg (atomVal_notDryRun st env hd)
        simp [this]
      · simp [hk]
  · rfl

/-- MAIN (ToSQL = Session{DryRun, SkipDefaultTransaction}): no driver call at all —
    no statement and no BEGIN/COMMIT/ROLLBACK. -/
theorem C19_tosql_silent (st : RunSt) (env : String → Bool)
    (hd : st.dryRun = true) (hs : st.skipDefaultTx = true) :
    ∀ p ∈ pipelines, possibleCalls handlers p.2 st env ["driver", "tx"] = [] := by
  intro p hp
  unfold possibleCalls
  rw [List.flatMap_eq_nil_iff]
  intro r hr
  split
  · rename_i hact
    cases hh : handlerOf handlers r.handler with
    | none => rfl
    | some h =>
      simp only [List.map_eq_nil_iff, List.filter_eq_nil_iff]
      intro c hc
      have hmem : h ∈ handlers := by
        unfold handlerOf at hh
        exact List.mem_of_find?_eq_some hh
      have hname : h.name = r.handler := by
        unfold handlerOf at hh
        have := List.find?_some hh
        simpa using this
      by_cases hk : c.kind = "driver"
      · have hg := C19_handler_driver_calls_guarded h hmem c hc hk
        have := enabled_false_of_mem c st env "!db.DryRun" hg (atomVal_notDryRun st env hd)
        simp [this]
      · by_cases hk2 : c.kind = "tx"
        · -- a tx call: the handler is a transaction callback, registered under enableTransaction,
          -- hence inactive when SkipDefaultTransaction is set: contradiction with `hact`
          exfalso
          have h1 := C19_tx_only_in_tx_callbacks.1 h hmem ⟨c, hc, hk2⟩
          have h2 := C19_tx_only_in_tx_callbacks.2.1 p hp r hr (by rw [← hname]; exact h1)
          simp [CbReg.active, h2, hs] at hact
        · simp [hk, hk2]
  · rfl

/-- ToSQL's session literal really is DryRun + SkipDefaultTransaction -/
theorem C19_tosql_session :
    ∃ u ∈ sessionUses, u.fn = "DB.ToSQL" ∧ ("DryRun", "true") ∈ u.fields ∧
      ("SkipDefaultTransaction", "true") ∈ u.fields := by
  decide

/-- DryRun is never switched off again by the operations in scope: every assignment to a `.DryRun`
    field assigns `true` -- the single exception is the migrator's schema-introspection handle
    (`Migrator.GetQueryAndExecTx`, outside this property's chains and finishers) -- and no internal
    `Session{…}` literal mentions DryRun except to set it. -/
theorem C19_dryrun_monotone :
    (∀ a ∈ dryRunAssigns, a.2.2 = "true" ∨ a.2.1 = "Migrator.GetQueryAndExecTx") ∧
    (∀ u ∈ sessionUses, ∀ f ∈ u.fields, f.1 = "DryRun" → f.2 = "true") := by
  decide

/-- `processor.Execute` keeps SQL/Vars exactly when DryRun is set -/
theorem C19_kept : executeKeepsSQLOnDryRun = true := by decide

/-- the build part does not look at DryRun: the flag is read only in the listed functions
    (executor guards, Execute's reset, Session/ToSQL plumbing, and the DryRun branches of the
    compound finishers), never inside clause building / statement building code -/
theorem C19_build_ignores_dryrun :
    ∀ u ∈ dryRunUses,
      u ∈ [("callbacks.go", "processor.Execute"),
           ("finisher_api.go", "DB.Save"), ("finisher_api.go", "DB.Row"), ("finisher_api.go", "DB.Rows"),
           ("gorm.go", "DB.Session"),
           ("callbacks/create.go", "Create"), ("callbacks/delete.go", "Delete"),
           ("callbacks/query.go", "Query"), ("callbacks/raw.go", "RawExec"),
           ("callbacks/row.go", "RowQuery"), ("callbacks/update.go", "Update"),
           ("migrator/migrator.go", "Migrator.GetQueryAndExecTx")] := by
  decide

/-- non-vacuity: with DryRun off and no error the create pipeline CAN issue driver calls -/
example : possibleCalls handlers
    ((pipelines.find? (fun p => p.1 = "create")).get!.2)
    { dryRun := false, skipDefaultTx := false, err := false, skipHooks := false, hasSchema := true }
    (fun _ => true) ["driver"] ≠ [] := by
  decide

end Gorm
