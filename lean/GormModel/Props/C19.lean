/-
  C19 — DryRun and ToSQL send nothing.  Theorems over the REGENERATED tables
  `Gen.callSites`, `Gen.pipelines`, `Gen.handlers`, `Gen.sessionUses`, `Gen.dryRunAssigns`.
-/
import GormModel.Model.Pipeline
import GormModel.Lemmas.DryRun
import GormModel.Lemmas.DryRunRecv
import GormModel.Gen.CallSites
import GormModel.Gen.Pipelines
import GormModel.Gen.Sessions
import GormModel.Gen.Misc
namespace Gorm
open Gen

def stmtMethods : List String := ["ExecContext", "QueryContext", "QueryRowContext", "PrepareContext"]

/-- Where may statement-sending driver calls live at all?  Only in callback handlers
    (callbacks/*.go) and in the ConnPool wrapper methods of prepare_stmt.go, which are
    themselves only reached through those handlers. -/
theorem C19_sites_located :
    ∀ s ∈ callSites, s.method ∈ stmtMethods →
      (s.pkg = "callbacks" ∨ s.file = "prepare_stmt.go") := by
  decide

/-- Every statement-sending call site in the callback handlers is dominated by `!db.DryRun`
    (and by `db.Error == nil`), and is made on the statement's own pool. -/
theorem C19_guards :
    ∀ s ∈ callSites, s.pkg = "callbacks" →
      ("!db.DryRun" ∈ s.guards ∧ "db.Error == nil" ∈ s.guards ∧ s.recv = "db.Statement.ConnPool"
        ∧ s.method ∈ stmtMethods) := by
  decide

/-- the extracted handler table agrees with the call-site table: every `driver` call recorded
    for a registered handler carries the `!db.DryRun` condition -/
theorem C19_handler_driver_calls_guarded :
    ∀ h ∈ handlers, ∀ c ∈ h.calls, c.kind = "driver" → "!db.DryRun" ∈ c.guards := by
  decide

/-- every registered callback has extracted handler facts (no handler escaped the extractor) -/
theorem C19_handlers_complete :
    ∀ p ∈ pipelines, ∀ r ∈ p.2, (handlerOf handlers r.handler).isSome = true := by
  decide

/-- the only handlers that open or finish a transaction are the two transaction callbacks, and
    both are registered under `Match(enableTransaction)` in every pipeline that has them -/
theorem C19_tx_only_in_tx_callbacks :
    (∀ h ∈ handlers, (∃ c ∈ h.calls, c.kind = "tx") →
        h.name = "BeginTransaction" ∨ h.name = "CommitOrRollbackTransaction") ∧
    (∀ p ∈ pipelines, ∀ r ∈ p.2,
        (r.handler = "BeginTransaction" ∨ r.handler = "CommitOrRollbackTransaction") →
        r.matchGuard = "enableTransaction") ∧
    enableTransactionSrc = "func(db *gorm.DB) bool { return !db.SkipDefaultTransaction }" := by
  decide

/-- MAIN (DryRun): in DryRun mode, whatever the other conditions evaluate to (`env`), whatever the
    error state, no pipeline can issue a prepare/exec/query driver call. -/
theorem C19_dryrun_silent (st : RunSt) (env : String → Bool) (hd : st.dryRun = true) :
    ∀ p ∈ pipelines, possibleCalls handlers p.2 st env ["driver"] = [] := by
  intro p hp
  unfold possibleCalls
  rw [List.flatMap_eq_nil_iff]
  intro r hr
  split
  · cases hh : handlerOf handlers r.handler with
    | none => rfl
    | some h =>
      simp only [List.map_eq_nil_iff, List.filter_eq_nil_iff]
      intro c hc
      have hmem : h ∈ handlers := by
        unfold handlerOf at hh
        exact List.mem_of_find?_eq_some hh
      by_cases hk : c.kind = "driver"
      · have hg := C19_handler_driver_calls_guarded h hmem c hc hk
        have := enabled_false_of_mem c st env "!db.DryRun" hg (atomVal_notDryRun st env hd)
        simp [this]
      · simp [hk]
  · rfl

/-- MAIN (ToSQL = Session{DryRun, SkipDefaultTransaction}): no driver call at all —
    no statement and no BEGIN/COMMIT/ROLLBACK. -/
theorem C19_tosql_silent (st : RunSt) (env : String → Bool)
    (hd : st.dryRun = true) (hs : st.skipDefaultTx = true) :
    ∀ p ∈ pipelines, possibleCalls handlers p.2 st env ["driver", "tx"] = [] := by
  intro p hp
  unfold possibleCalls
  rw [List.flatMap_eq_nil_iff]
  intro r hr
  split
  · rename_i hact
    cases hh : handlerOf handlers r.handler with
    | none => rfl
    | some h =>
      simp only [List.map_eq_nil_iff, List.filter_eq_nil_iff]
      intro c hc
      have hmem : h ∈ handlers := by
        unfold handlerOf at hh
        exact List.mem_of_find?_eq_some hh
      have hname : h.name = r.handler := by
        unfold handlerOf at hh
        have := List.find?_some hh
        simpa using this
      by_cases hk : c.kind = "driver"
      · have hg := C19_handler_driver_calls_guarded h hmem c hc hk
        have := enabled_false_of_mem c st env "!db.DryRun" hg (atomVal_notDryRun st env hd)
        simp [this]
      · by_cases hk2 : c.kind = "tx"
        · -- a tx call: the handler is a transaction callback, registered under enableTransaction,
          -- hence inactive when SkipDefaultTransaction is set: contradiction with `hact`
          exfalso
          have h1 := C19_tx_only_in_tx_callbacks.1 h hmem ⟨c, hc, hk2⟩
          have h2 := C19_tx_only_in_tx_callbacks.2.1 p hp r hr (by rw [← hname]; exact h1)
          simp [CbReg.active, h2, hs] at hact
        · simp [hk, hk2]
  · rfl

/-- ToSQL's session literal really is DryRun + SkipDefaultTransaction — and nothing else: there is exactly one
    `Session(&Session{…})` call in `DB.ToSQL`, made on the receiver `db`, and its literal sets exactly these two fields
    (an added `NewDB` / `Initialized` / `PrepareStmt` … changes which statement the callback works with) -/
theorem C19_tosql_session :
    sessionUses.filter (fun u => u.fn = "DB.ToSQL") =
      [{ file := "gorm.go", fn := "DB.ToSQL", recv := "db",
         fields := [("DryRun", "true"), ("SkipDefaultTransaction", "true")] }] := by
  decide

/-- DryRun is never switched off again by the operations in scope: every assignment to a `.DryRun`
    field assigns `true` -- the single exception is the migrator's schema-introspection handle
    (`Migrator.GetQueryAndExecTx`, outside this property's chains and finishers) -- and no internal
    `Session{…}` literal mentions DryRun except to set it. -/
theorem C19_dryrun_monotone :
    (∀ a ∈ dryRunAssigns, a.2.2 = "true" ∨ a.2.1 = "Migrator.GetQueryAndExecTx") ∧
    (∀ u ∈ sessionUses, ∀ f ∈ u.fields, f.1 = "DryRun" → f.2 = "true") := by
  decide

/-- `processor.Execute` keeps SQL/Vars exactly when DryRun is set -/
theorem C19_kept : executeKeepsSQLOnDryRun = true := by decide

/-- the build part does not look at DryRun: the flag is read only in the listed functions
    (executor guards, Execute's reset, Session/ToSQL plumbing, the DryRun branches of the
    compound finishers, and — on a tree carrying the repair of F25 — the explicit transaction API
    `DB.Begin`/`DB.Commit`/`DB.Rollback`), never inside clause building / statement building code -/
theorem C19_build_ignores_dryrun :
    ∀ u ∈ dryRunUses,
      u ∈ [("callbacks.go", "processor.Execute"),
           ("finisher_api.go", "DB.Save"), ("finisher_api.go", "DB.Row"), ("finisher_api.go", "DB.Rows"),
           ("finisher_api.go", "DB.Begin"), ("finisher_api.go", "DB.Commit"), ("finisher_api.go", "DB.Rollback"),
           ("gorm.go", "DB.Session"),
           ("callbacks/create.go", "Create"), ("callbacks/delete.go", "Delete"),
           ("callbacks/query.go", "Query"), ("callbacks/raw.go", "RawExec"),
           ("callbacks/row.go", "RowQuery"), ("callbacks/update.go", "Update"),
           ("migrator/migrator.go", "Migrator.GetQueryAndExecTx")] := by
  decide

/-- non-vacuity: with DryRun off and no error the create pipeline CAN issue driver calls -/
example : possibleCalls handlers
    ((pipelines.find? (fun p => p.1 = "create")).get!.2)
    { dryRun := false, skipDefaultTx := false, err := false, skipHooks := false, hasSchema := true }
    (fun _ => true) ["driver"] ≠ [] := by
  decide

/-! ## The build part / execute part split (regenerated `Gen.dryFns`, `Gen.dryReads`, `Gen.txSites`) -/

set_option maxRecDepth 8192 in
/-- (a) a DryRun test may only guard driver calls and what consumes their results: in every function
    reachable from a registered callback, every call dominated by a DryRun test is a driver call or a
    result consumer (never a hook call, association saving, clause building, ConvertTo*, Build, …) -/
theorem C19_dry_guard_scope : TableScoped dryFns := by
  unfold TableScoped; decide

set_option maxRecDepth 8192 in
/-- every driver call of those functions is dominated by `!db.DryRun` -/
theorem C19_dry_driver_guarded : TableGuarded dryFns := by
  unfold TableGuarded; decide

set_option maxRecDepth 8192 in
/-- transaction control inside the callbacks is dominated by `!db.Config.SkipDefaultTransaction` -/
theorem C19_dry_tx_guarded : TableClsGuarded dryFns .tx "!db.Config.SkipDefaultTransaction" := by
  unfold TableClsGuarded; decide

set_option maxRecDepth 8192 in
/-- every syntactic read of `.DryRun` is one the dominance rule sees through (an `if` condition, a
    boolean alias used in `if` conditions only, or the left side of an assignment); DryRun is spelled
    `db.DryRun` in every condition of the callback package; inside package callbacks it is read only
    by functions of the table that own a `!db.DryRun`-guarded driver call -/
theorem C19_dry_reads_accounted :
    (∀ r ∈ dryReads, r.how = "if" ∨ r.how = "alias" ∨ r.how = "assign") ∧
    dryAtomsOther = [] ∧
    (∀ r ∈ dryReads, r.pkg = "callbacks" →
      ∃ f ∈ dryFns, f.name = r.fn ∧ ∃ c ∈ f.calls, c.cls = .driver ∧ "!db.DryRun" ∈ c.guards) := by
  decide

set_option maxRecDepth 8192 in
/-- … and the non-call effects that depend on a DryRun test (assignments, inc/dec, break/continue/goto, send, go)
    are only: the result bookkeeping after the driver call (RowsAffected, Dest, the `rows` result and its error,
    RETURNING scan mode, back-filling of the inserted key incl. its loops and — with fix F26-C03 — the look-up `v, ok` of
    the key a caller's map already carries) -/
theorem C19_dry_effects_scope :
    ∀ e ∈ dryEffects,
      e ∈ [("Create", "assign", "mode"), ("Create", "assign", "db.RowsAffected"), ("Create", "assign", "pkField"),
           ("Create", "assign", "pkFieldName"), ("Create", "assign", "values[pkFieldName]"),
           ("Create", "assign", "(*values)[pkFieldName]"), ("Create", "assign", "mapValues"),
           ("Create", "assign", "insertID"), ("Create", "assign", "mapValue[pkFieldName]"),
           ("Create", "assign", "v"), ("Create", "assign", "ok"),
           ("Create", "incdec", "i"), ("Create", "branch", "break"),
           ("Delete", "assign", "db.RowsAffected"), ("RawExec", "assign", "db.RowsAffected"),
           ("RowQuery", "assign", "db.Statement.Dest"), ("RowQuery", "assign", "db.Error"),
           ("RowQuery", "assign", "db.RowsAffected"),
           ("Update", "assign", "db.Statement.Dest"), ("Update", "assign", "db.RowsAffected")] := by
  decide

set_option maxRecDepth 8192 in
/-- outside package callbacks a DryRun test guards only: Execute's SQL/Vars reset, Save's fallback
    INSERT (a second statement, decided on the first one's result), Row's log line, the
    migrator's introspection handle, and — on a tree carrying the repair of F25 — the pool's `BeginTx`
    in `DB.Begin` and the `ErrInvalidTransaction` of `DB.Commit`/`DB.Rollback` (transaction control,
    never statement building) -/
theorem C19_root_dry_guard_scope :
    ∀ x ∈ dryRootGuarded,
      x ∈ [("processor.Execute", "Reset", "stmt.SQL"),
           ("DB.Save", "Create", "tx.Session(&Session{SkipHooks: true}).Clauses(clause.OnConflict{UpdateAll: true})"),
           ("DB.Save", "Clauses", "tx.Session(&Session{SkipHooks: true})"),
           ("DB.Save", "Session", "tx"),
           ("DB.Row", "Error", "db.Logger"),
           ("DB.Row", "Error", "ErrDryRunModeUnsupported"),
           ("DB.Begin", "BeginTx", "beginner"), ("DB.Commit", "AddError", "db"), ("DB.Rollback", "AddError", "db"),
           ("Migrator.GetQueryAndExecTx", "Session", "m.DB")] := by
  decide

set_option maxRecDepth 8192 in
/-- (b) every `Transaction(` / `Begin(` / `BeginTx(` call outside the explicit transaction API itself
    (`DB.Transaction`, `DB.Begin`, the prepared-statement pool's `BeginTx` wrapper) is dominated by a
    test of SkipDefaultTransaction on the handle it is called on -/
theorem C19_tx_sites_honour_skip :
    ∀ s ∈ txSites, s.method ∈ ["Transaction", "Begin", "BeginTx"] →
      (s.fn ∈ ["DB.Transaction", "DB.Begin", "PreparedStmtDB.BeginTx"] ∨
       ("!" ++ s.recv ++ ".SkipDefaultTransaction") ∈ s.guards ∨
       ("!" ++ s.recv ++ ".Config.SkipDefaultTransaction") ∈ s.guards) := by
  decide

set_option maxRecDepth 8192 in
/-- (c) RowQuery: BOTH the Rows branch (QueryContext) and the Row branch (QueryRowContext) exist and
    are dominated by the DryRun test -/
theorem C19_rowquery_both_branches :
    (∀ m ∈ ["QueryContext", "QueryRowContext"],
      ∃ s ∈ callSites, s.fn = "RowQuery" ∧ s.method = m ∧ "!db.DryRun" ∈ s.guards) ∧
    (∀ s ∈ callSites, s.fn = "RowQuery" → "!db.DryRun" ∈ s.guards) := by
  decide

/-- MAIN (model of `processor.Execute`): for every pipeline, every state, every valuation of the other
    conditions and every expansion depth, and whichever `DB.Begin` the tree has (`b`): DryRun ⇒ the build
    part's output equals the real run's build part output, no driver call is issued, and SQL/Vars are kept -/
theorem C19_model_dry_equals_real (b : Bool) (st : RunSt) (env : String → Bool) (fuel : Nat) (hd : st.dryRun = true) :
    ∀ p ∈ pipelines,
      (execute b dryFns p.2 st env fuel).built = (execute b dryFns p.2 st.real env fuel).built ∧
      (execute b dryFns p.2 st env fuel).sent = [] ∧
      (execute b dryFns p.2 st env fuel).keepsSQL = true := by
  intro p _
  have h := execute_dry_equals_real b dryFns C19_dry_guard_scope C19_dry_driver_guarded p.2 st env fuel hd
  refine ⟨h.1, h.2, ?_⟩
  simp [execute, hd, C19_kept]

/-- … and under ToSQL's flags (DryRun + SkipDefaultTransaction) no transaction call either -/
theorem C19_model_tosql_silent (b : Bool) (st : RunSt) (env : String → Bool) (fuel : Nat)
    (hd : st.dryRun = true) (hs : st.skipDefaultTx = true) :
    ∀ p ∈ pipelines,
      (execute b dryFns p.2 st env fuel).sent = [] ∧ (execute b dryFns p.2 st env fuel).txs = [] := by
  intro p hp
  refine ⟨(C19_model_dry_equals_real b st env fuel hd p hp).2.1, ?_⟩
  unfold execute
  simp only
  split
  · exact pipelineTrace_cls_nil dryFns .tx "!db.Config.SkipDefaultTransaction" C19_dry_tx_guarded p.2 st env
      (atomVal_skipTx st env hs) fuel
  · rfl

/-- non-vacuity: the real create pipeline has a non-empty build part and does send -/
example :
    (execute true dryFns ((pipelines.find? (fun p => p.1 = "create")).get!.2)
      { dryRun := false, skipDefaultTx := false, err := false, skipHooks := false, hasSchema := true }
      (fun _ => true) 4).built ≠ [] ∧
    (execute true dryFns ((pipelines.find? (fun p => p.1 = "create")).get!.2)
      { dryRun := false, skipDefaultTx := false, err := false, skipHooks := false, hasSchema := true }
      (fun _ => true) 4).sent ≠ [] ∧
    (execute true dryFns ((pipelines.find? (fun p => p.1 = "create")).get!.2)
      { dryRun := false, skipDefaultTx := false, err := false, skipHooks := false, hasSchema := true }
      (fun _ => true) 4).txs ≠ [] := by
  decide

/-! ## Findings

  F25 (explicit transaction under ToSQL) is repairable: the model takes which `DB.Begin` exists as the
  parameter `beginDry` (regenerated fact `Gen.beginSkipsDryRun`).  The counterexample and the partial
  theorem are about the model WITHOUT the repair; `C19_dryrun_no_tx_full` is the full-strength statement
  for the model WITH it; `C19_tosql_explicit_tx_current_tree` discharges the obligation on either tree. -/

def tosqlSt : RunSt := { dryRun := true, skipDefaultTx := true, err := false, skipHooks := false, hasSchema := true }

/-- the finisher of the witness of F25: `tx.Transaction(func(t) { t.Create(…) })` on the ToSQL handle -/
def f25Witness : FinSpec := { name := "Transaction{Create}", pipeline := "create", batched := false, explicitTx := true }

/-- F25 (model without the repair): an explicit user transaction on the ToSQL handle reaches the driver
    (`DB.Begin`'s BeginTx call site is dominated by neither DryRun nor SkipDefaultTransaction) -/
theorem C19_tosql_explicit_tx_counterexample :
    finisherTx false dryFns f25Witness tosqlSt (fun _ => true) 4 ≠ [] := by
  decide

/-- … and without an explicit transaction a ToSQL finisher makes no transaction call at all
    (whichever `DB.Begin` exists) -/
theorem C19_tosql_silent_partial (b : Bool) (f : FinSpec) (st : RunSt) (env : String → Bool) (fuel : Nat)
    (hx : f.explicitTx = false) (hd : st.dryRun = true) (hs : st.skipDefaultTx = true) :
    finisherTx b dryFns f st env fuel = [] := by
  unfold finisherTx
  simp only [hx, Bool.false_and, Bool.false_eq_true, if_false, List.nil_append]
  cases hf : pipelines.find? (fun p => p.1 = f.pipeline) with
  | none => rfl
  | some p => exact (C19_model_tosql_silent b st env fuel hd hs p (List.mem_of_find?_eq_some hf)).2

/-- FULL STRENGTH (model with the repair of F25): in DryRun mode — by configuration, by session or under
    ToSQL, with or without SkipDefaultTransaction — NO finisher makes a transaction call, explicit user
    transaction (`Transaction` / `Begin`) included: the hypothesis `explicitTx = false` is gone (and so
    is `skipDefaultTx = true`: not even the empty implicit transaction is opened) -/
theorem C19_dryrun_no_tx_full (f : FinSpec) (st : RunSt) (env : String → Bool) (fuel : Nat)
    (hd : st.dryRun = true) :
    finisherTx true dryFns f st env fuel = [] := by
  have hr := txReaches_dry st hd
  unfold finisherTx
  simp only [hr, Bool.and_false, Bool.false_eq_true, if_false, List.nil_append]
  cases hf : pipelines.find? (fun p => p.1 = f.pipeline) with
  | none => rfl
  | some p => exact execute_txs_nil_of_not_reaches true dryFns p.2 st env fuel hr

/-- … and nothing at all reaches the driver under ToSQL's flags with the repair: no statement from the
    pipeline and no transaction call of the finisher, for every finisher incl. explicit transactions -/
theorem C19_tosql_silent_full (f : FinSpec) (p : String × List CbReg) (st : RunSt) (env : String → Bool) (fuel : Nat)
    (hp : pipelines.find? (fun q => q.1 = f.pipeline) = some p)
    (hd : st.dryRun = true) :
    (execute true dryFns p.2 st env fuel).sent = [] ∧ finisherTx true dryFns f st env fuel = [] :=
  ⟨(C19_model_dry_equals_real true st env fuel hd p (List.mem_of_find?_eq_some hp)).2.1,
   C19_dryrun_no_tx_full f st env fuel hd⟩

/-- the regenerated flag is the syntactic fact about `Gen.txSites` it claims to be: `DB.Begin` has `BeginTx`
    call sites and all of them carry the atom `!tx.DryRun` exactly when the flag is set -/
theorem C19_begin_flag_matches_sites :
    beginSkipsDryRun =
      (!(txSites.filter (fun s => s.fn = "DB.Begin" ∧ s.method = "BeginTx")).isEmpty &&
       (txSites.filter (fun s => s.fn = "DB.Begin" ∧ s.method = "BeginTx")).all (fun s => "!tx.DryRun" ∈ s.guards)) ∧
    beginTxSites = (txSites.filter (fun s => s.fn = "DB.Begin" ∧ s.method = "BeginTx")).length := by
  decide

/-- F25 on the tree that exists (`Gen.beginSkipsDryRun`): either the repair is present and the full-strength
    statement holds of the model of this tree, or it is absent and the witness still reaches the driver -/
theorem C19_tosql_explicit_tx_current_tree :
    (beginSkipsDryRun = true ∧
      ∀ (f : FinSpec) (st : RunSt) (env : String → Bool) (fuel : Nat), st.dryRun = true →
        finisherTx beginSkipsDryRun dryFns f st env fuel = []) ∨
    (beginSkipsDryRun = false ∧
      finisherTx beginSkipsDryRun dryFns f25Witness tosqlSt (fun _ => true) 4 ≠ []) := by
  cases h : beginSkipsDryRun with
  | true => exact Or.inl ⟨rfl, fun f st env fuel hd => C19_dryrun_no_tx_full f st env fuel hd⟩
  | false => exact Or.inr ⟨rfl, C19_tosql_explicit_tx_counterexample⟩

/-- non-vacuity of the full-strength statement: without DryRun the repaired model still opens the explicit
    transaction (the repair does not remove `Begin`) -/
example : finisherTx true dryFns f25Witness { tosqlSt with dryRun := false } (fun _ => true) 4 ≠ [] := by
  decide

/-- F26: a batched finisher exposes nothing although its real run builds (and sends) statements -/
theorem C19_batched_exposes_nothing_counterexample :
    ∀ b : Bool,
    exposed b dryFns { name := "CreateInBatches", pipeline := "create", batched := true, explicitTx := false }
      tosqlSt (fun _ => true) 4 = [] ∧
    (execute b dryFns ((pipelines.find? (fun p => p.1 = "create")).get!.2) tosqlSt.real (fun _ => true) 4).built ≠ [] := by
  decide

/-- … every other finisher exposes exactly the build part of the real run of its pipeline -/
theorem C19_exposed_is_built_partial (b : Bool) (f : FinSpec) (p : String × List CbReg) (st : RunSt) (env : String → Bool)
    (fuel : Nat) (hb : f.batched = false) (hp : pipelines.find? (fun q => q.1 = f.pipeline) = some p)
    (hd : st.dryRun = true) :
    exposed b dryFns f st env fuel = (execute b dryFns p.2 st.real env fuel).built := by
  unfold exposed
  simp only [hb, Bool.false_eq_true, if_false, hp]
  exact (C19_model_dry_equals_real b st env fuel hd p (List.mem_of_find?_eq_some hp)).1


/-! ## Round 4: the RECEIVER of ToSQL / Session{DryRun}, and the WIRE of the real run
    (Model/DryRunRecv.lean over `Gen.toSQLSession`, `Gen.toSQLStmts`, `Gen.sessionBody`, `Gen.getInstanceBody`,
     `Gen.cloneLiteral`, `Gen.cloneLater`, `Gen.prepFns`, `Gen.sendSites`) -/

/-- `DB.ToSQL` is `tx := queryFn(db.Session(&Session{DryRun: true, SkipDefaultTransaction: true}))`, `stmt := tx.Statement`,
    `return db.Dialector.Explain(stmt.SQL.String(), stmt.Vars...)`: the literal has exactly these fields and the callback
    gets the session of the RECEIVER with nothing chained in between -/
theorem C19_tosql_literal_exact :
    toSQLSession = [[("DryRun", "true"), ("SkipDefaultTransaction", "true")]] ∧ toSQLShapeOK = true ∧
    toSQLFlags = some [.dryRun, .skipDefaultTransaction] := by
  decide

/-- statement.go `clone()` carries every piece of chain state over (Model, Table, TableExpr, Unscoped, Selects, Omits,
    Distinct, Clauses, Joins, Preloads, scopes, Settings, attrs, assigns …) and the fresh statement of `getInstance()` of a
    `clone == 1` handle carries none -/
theorem C19_clone_keeps_chain_state : cloneKeepsState = true ∧ freshIsEmpty = true := by
  decide

/-- `getInstance()` over statement contents, read from its regenerated body: a chain handle (clone 0) works on the
    receiver's own statement, a `clone == 1` handle on a fresh one, any other on a copy with the receiver's contents -/
theorem C19_getInstance_contents (clone : Nat) :
    giStmt clone = if (clone == 1) = true then .empty else .recv := by
  have key : ∀ pos one : Bool, (one = true → pos = true) →
      (let r := giStmtRun pos one
       if r.bad.isEmpty && r.returned then r.result.getD .lost else .lost) =
      (if one = true then StSym.empty else StSym.recv) := by decide
  have hc : ((clone == 1) = true → decide (clone > 0) = true) := by
    intro h; have : clone = 1 := by simpa using h
    subst this; decide
  exact key (decide (clone > 0)) (clone == 1) hc

/-- what `Session()` must achieve for the statement, for one flag valuation -/
def SessKeepsRecv (r : SessStmt) : Prop := r.ok = true ∧ r.cur = .recv ∧ r.next = .recv

instance (r : SessStmt) : Decidable (SessKeepsRecv r) := by
  unfold SessKeepsRecv; exact inferInstance

/-- MAIN (receiver state): for EVERY combination of Session flags with `NewDB` off — DryRun, SkipDefaultTransaction,
    PrepareStmt, SkipHooks, Context, Initialized, … — the handle `Session()` returns, and the statement its first chain
    call / finisher works with, carry the RECEIVER's chain state (conditions, table, model, unscoped, scopes, clauses).
    Read from the regenerated bodies of `Session()` / `getInstance()` / `clone()`. -/
theorem C19_session_keeps_receiver_state (fl : SessFlags) (h : fl .newDB = false) :
    SessKeepsRecv (runSessStmt sessionProg fl) := by
  apply forall_flags_newDB_off sessionProg SessKeepsRecv _ fl h
  set_option maxRecDepth 20000 in decide

/-- `Session()` switches DryRun / SkipDefaultTransaction on under the literal's flag and nowhere writes them otherwise -/
theorem C19_session_sets_flags :
    sessionSetsConfig "DryRun" = true ∧ sessionSetsConfig "SkipDefaultTransaction" = true ∧
    sessionOnlySetsConfig "DryRun" = true ∧ sessionOnlySetsConfig "SkipDefaultTransaction" = true := by
  decide

/-- a DryRun session derived from ANY receiver (`recv.Session(&Session{DryRun: true, …})`, NewDB off) is a DryRun handle
    whose first operation starts from the receiver's chain state -/
theorem C19_dryrun_session_on_receiver (fl : SessFlags) (hd : fl .dryRun = true) (hn : fl .newDB = false)
    (recv : ChainState) :
    (sessionHandle fl).dryRun = true ∧ (sessionHandle fl).ok = true ∧
    (sessionHandle fl).stmt.resolve recv = some recv := by
  obtain ⟨h1, _, h3⟩ := C19_session_keeps_receiver_state fl hn
  refine ⟨?_, h1, ?_⟩
  · simp [sessionHandle, hd, C19_session_sets_flags.1]
  · simp [sessionHandle, h3, StSym.resolve]

/-- MAIN (ToSQL): the handle `DB.ToSQL` passes to its callback is in DryRun + SkipDefaultTransaction mode, is a
    `clone == 2` handle (every chain started inside the callback gets its own statement copy) and its first operation
    starts from the chain state of the handle ToSQL was CALLED ON -/
theorem C19_tosql_callback_handle :
    toSQLHandle = { stmt := .recv, clone := 2, dryRun := true, skipDefaultTx := true, ok := true } := by
  decide

theorem C19_tosql_shows_receiver_chain (recv : ChainState) :
    toSQLHandle.stmt.resolve recv = some recv := by
  rw [C19_tosql_callback_handle]; rfl

/-- hence whatever builds the statement from the chain state (the build part does not read DryRun:
    `C19_model_dry_equals_real`) builds, inside ToSQL's callback, from the same state as the real run of the same
    finisher on the receiver -/
theorem C19_tosql_builds_from_receiver {α : Type} (build : Option ChainState → α) (recv : ChainState) :
    build (toSQLHandle.stmt.resolve recv) = build ((giStmt 0).resolve recv) := by
  rw [C19_tosql_shows_receiver_chain, C19_getInstance_contents]; rfl

/-- non-vacuity / sensitivity: with `NewDB` added to the literal the callback handle forgets the receiver's chain
    (conditions, table, model): the statement shown would be that of an EMPTY chain; with `Initialized` added the callback
    handle is a clone-0 chain handle (operations inside the callback share one statement) -/
theorem C19_newdb_session_forgets_receiver :
    (sessionHandle (SessFlags.ofList [.dryRun, .skipDefaultTransaction, .newDB])).stmt.resolve
        { items := [1, 2], unscoped := true } = some { items := [], unscoped := false } ∧
    (sessionHandle (SessFlags.ofList [.dryRun, .skipDefaultTransaction, .initialized])).clone = 0 := by
  decide

/-- the prepared-statement pool and the executors hand text and values on untouched (regenerated `Gen.prepFns`,
    `Gen.sendSites`): `prepare` passes its `query` parameter to `PrepareContext` and keys the cache with it, no wrapper
    writes a parameter, each wrapper passes `query` to `prepare` and `args...` to the prepared statement, and every
    executor sends `Statement.SQL.String()` / `Statement.Vars...` -/
theorem C19_prepare_passes_text :
    prepareKeepsText = true ∧ prepDBKeeps = true ∧ prepTXKeeps = true ∧ executorsSendStatement = true := by
  decide

/-- MAIN (wire): whichever pool the real run uses — plain, PreparedStmtDB, PreparedStmtTX — the driver is handed exactly
    the text and the values of the built statement (in PrepareStmt mode: asked to PREPARE exactly that text, and the
    prepared statement is run with exactly those values) — i.e. what the dry run keeps in Statement.SQL / Vars (`C19_kept`) -/
theorem C19_wire_exact {V : Type} (k : PoolKind) (sql : String) (vars : List V) :
    wire k sql vars = some { prepared := if k = .plain then none else some sql, text := sql, args := vars } := by
  obtain ⟨_, h2, h3, h4⟩ := C19_prepare_passes_text
  cases k <;> simp [wire, h2, h3, h4]

end Gorm
