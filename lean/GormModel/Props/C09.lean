/-
  C09 — an Update or Delete without any condition never executes.

  Decision logic: which condition forms create a WHERE entry (`Form.cond`, chainable_api.go + BuildCondition),
  what the soft-delete modifier adds (`softDeleteModify`), and the guard `checkMissingWhereConditions`
  (`missingWhere`); plus, from the REGENERATED handler tables, the position of the guard relative to the driver
  calls of `Update` and `Delete`.
-/
import GormModel.Lemmas.Where
import GormModel.Props.C08
import GormModel.Gen.Pipelines
import GormModel.Gen.GuardFacts
import GormModel.Gen.GuardWhereFacts
import GormModel.Lemmas.DeleteKeys
import GormModel.Lemmas.Scopes
import GormModel.Lemmas.UpdateKeysGuard
import GormModel.Lemmas.GuardMode
import GormModel.Lemmas.AssocGuard
namespace Gorm

/-- a chain call contributes a condition iff its form is effective -/
def effective (f : Form) : Bool := f.cond.isSome

/-- the empty forms: "", nil, empty map, all-zero struct, empty slice, group without conditions -/
theorem C09_empty_forms_ineffective :
    effective .empty = false ∧ effective (.fields []) = false ∧ effective (.group []) = false := by
  simp [effective, Form.cond, mkAnd]

/-- every non-empty form is effective -/
theorem C09_nonempty_forms_effective (t : List Char) (n : Bool) (o : String) (fl : Flat) (a : Atom) (as : List Atom)
    (e : Ex) (g : Ex) (gs : List Ex) :
    effective (.raw t n o fl) = true ∧ effective (.col a) = true ∧ effective (.fields (a :: as)) = true ∧
    effective (.expr e) = true ∧ effective (.group (g :: gs)) = true := by
  refine ⟨rfl, rfl, ?_, ?_, ?_⟩
  · exact mkAnd_isSome (List.map Ex.atom (a :: as)) (by simp)
  · exact mkAnd_isSome [e] (by simp)
  · simp only [effective, Form.cond]
    cases gs with
    | nil => cases g <;> simp [mkAnd, Ex.isOr]
    | cons g2 gs2 => cases g <;> exact mkAnd_isSome (_ :: g2 :: gs2) (by simp)

theorem chainStep_length (es : List Ex) (op : ChainOp) (f : Form) :
    (chainStep es op f).length = es.length + (if effective f then 1 else 0) := by
  unfold chainStep effective
  cases hc : f.cond with
  | none => simp
  | some c =>
    cases op with
    | where_ => simp
    | not_ =>
      have : (mkNot [c]).isSome = true := by cases c <;> simp [mkNot]
      cases hn : mkNot [c] with
      | none => rw [hn] at this; simp at this
      | some x => simp [hn]
    | or_ =>
      have h1 : (mkAnd [c]).isSome = true := mkAnd_isSome _ (by simp)
      cases ha : mkAnd [c] with
      | none => rw [ha] at h1; simp at h1
      | some x => simp [ha, mkOr]

/-- number of effective condition calls of a chain -/
def effCount (ops : List (ChainOp × Form)) : Nat := (ops.filter (fun p => effective p.2)).length

theorem chainExprs_length_aux (ops : List (ChainOp × Form)) (acc : List Ex) :
    (ops.foldl (fun a p => chainStep a p.1 p.2) acc).length = acc.length + effCount ops := by
  induction ops generalizing acc with
  | nil => simp [effCount]
  | cons p r ih =>
    simp only [List.foldl_cons]
    rw [ih, chainStep_length]
    by_cases h : effective p.2 = true
    · simp [effCount, List.filter_cons, h]; omega
    · have h' : effective p.2 = false := by simpa using h
      simp [effCount, List.filter_cons, h']

/-- the WHERE entry holds exactly one expression per effective condition call, whatever Where/Not/Or mix -/
theorem C09_where_length (ops : List (ChainOp × Form)) : (chainExprs ops).length = effCount ops := by
  have := chainExprs_length_aux ops []
  simpa [chainExprs] using this

/-- BLOCKS: without AllowGlobalUpdate, a chain none of whose condition calls is effective and a model value
    without primary key is rejected — on a plain model (no WHERE entry at all) and on a soft-delete model
    (the filter alone does not count) -/
theorem C09_blocks (ce : Bool) (ops : List (ChainOp × Form)) (soft : Option Atom)
    (h : ∀ p ∈ ops, effective p.2 = false) :
    missingWhere ce false (guardState ops none soft false) = true := by
  have hc : effCount ops = 0 := by
    simp only [effCount, List.length_eq_zero_iff, List.filter_eq_nil_iff]
    intro p hp; simp [h p hp]
  have hl := C09_where_length ops
  rw [hc] at hl
  have hnil : chainExprs ops = [] := List.eq_nil_of_length_eq_zero hl
  cases soft with
  | none => simp [guardState, hnil, missingWhere]
  | some f => simp [guardState, hnil, missingWhere, softDeleteModify]

/-- ADMITS: a chain with at least one effective condition call, or a model value with a primary key, is never
    rejected on this ground — plain or soft-delete model, scoped or Unscoped -/
theorem C09_admits (ce : Bool) (ops : List (ChainOp × Form)) (pk : Option Atom) (soft : Option Atom) (unscoped : Bool)
    (h : (∃ p ∈ ops, effective p.2 = true) ∨ pk.isSome = true) :
    missingWhere ce false (guardState ops pk soft unscoped) = false := by
  have hne : chainExprs ops ++ (pk.map Ex.atom).toList ≠ [] := by
    rcases h with ⟨p, hp, he⟩ | hk
    · have : effCount ops ≥ 1 := by
        have : p ∈ ops.filter (fun q => effective q.2) := List.mem_filter.mpr ⟨hp, he⟩
        exact List.length_pos_of_mem this
      have hl := C09_where_length ops
      intro hnil
      have h0 : (chainExprs ops).length = 0 := by
        rw [(List.append_eq_nil_iff.mp hnil).1]; rfl
      omega
    · cases pk with
      | none => simp at hk
      | some a => simp
  generalize hes : chainExprs ops ++ (pk.map Ex.atom).toList = es at hne
  have hemp : es.isEmpty = false := by cases es with | nil => exact absurd rfl hne | cons _ _ => rfl
  cases soft with
  | none => simp [guardState, hes, hemp, missingWhere]
  | some f =>
    cases unscoped with
    | true => simp [guardState, hes, hemp, missingWhere, softDeleteModify]
    | false =>
      have hr := regroup_length_pos es hne
      simp only [guardState, hes, hemp, Bool.false_eq_true, if_false]
      rw [show (softDeleteModify false f { exprs := some es, softEnabled := false })
            = { exprs := some (regroup es ++ [.atom f]), softEnabled := true } by
          simp [softDeleteModify, regroup]]
      simp only [missingWhere, Bool.false_eq_true, if_false, if_true, List.length_append, List.length_singleton]
      simp; omega

/-- BLOCKS also on a REUSED statement: after a condition-free query on the same statement (its soft-delete filter and
    marker are still there) a condition-free Update/Delete is rejected — scoped or Unscoped -/
theorem C09_blocks_after_query (ce : Bool) (ops : List (ChainOp × Form)) (soft : Option Atom) (unscoped : Bool)
    (h : ∀ p ∈ ops, effective p.2 = false) :
    missingWhere ce false (guardStateAfterQuery ops none soft unscoped) = true := by
  have hc : effCount ops = 0 := by
    simp only [effCount, List.length_eq_zero_iff, List.filter_eq_nil_iff]
    intro p hp; simp [h p hp]
  have hl := C09_where_length ops
  rw [hc] at hl
  have hnil : chainExprs ops = [] := List.eq_nil_of_length_eq_zero hl
  cases soft with
  | none => simp [guardStateAfterQuery, hnil, missingWhere]
  | some f => cases unscoped <;> simp [guardStateAfterQuery, hnil, missingWhere, softDeleteModify]

/-- AllowGlobalUpdate (config or session) switches the guard off -/
theorem C09_allow_global (ce : Bool) (s : WhereState) : missingWhere ce true s = false := by simp [missingWhere]

/-! ### statement reuse: the guard after ANY sequence of earlier calls on the same statement -/

/-- BLOCKS on a reused statement: after any sequence of condition-free calls — empty condition forms, Unscoped toggled
    anywhere, read AND write finishers in every order (Count/Find/First/Take/Last/Pluck/Scan/Rows/Update/Delete) — a
    write finisher on a key-less model value is rejected; plain or soft-delete model.  (`_partial`: the hypothesis
    `opBare` excludes `Clauses(clause.Where{…})` calls, see `C09_empty_where_counterexample`.) -/
theorem C09_blocks_reuse_partial (ce : Bool) (cfg : StmtCfg) (hk : cfg.modelKey = []) (hag : cfg.allowGlobal = false)
    (ops : List StmtOp) (ho : ∀ op ∈ ops, opBare op = true) (k : FinKind) (hw : k.isWrite = true) (same : Bool) :
    finRejected ce cfg (stmtRun cfg StmtState.fresh ops) k [] same = true :=
  bare_rejected ce cfg hk hag _ (stmtRun_bare cfg hk _ ops (Or.inl rfl) ho) k hw same

/-- ADMITS on a reused statement: once any call supplied a condition (`Where/Not/Or` with a non-empty form, or a
    non-empty `clause.Where`), no later write finisher on that statement is rejected on this ground, whatever ran in
    between -/
theorem C09_admits_reuse (ce : Bool) (cfg : StmtCfg) (ops1 ops2 : List StmtOp) (op : StmtOp) (ho : opEffective op = true)
    (k : FinKind) (vk : List Atom) (same : Bool) :
    finRejected ce cfg (stmtRun cfg StmtState.fresh (ops1 ++ op :: ops2)) k vk same = false := by
  have h1 : MarkerInv cfg (stmtRun cfg StmtState.fresh ops1) := stmtRun_markerInv cfg _ ops1 (markerInv_fresh cfg)
  have h2 := stmtStep_effective_rich cfg _ op (markerInv_nonempty cfg _ h1) ho
  have h3 := stmtRun_rich cfg _ ops2 h2
  have : stmtRun cfg StmtState.fresh (ops1 ++ op :: ops2) = stmtRun cfg (stmtStep cfg (stmtRun cfg StmtState.fresh ops1) op) ops2 := by
    simp [stmtRun, List.foldl_append]
  rw [this]
  exact rich_admitted ce cfg _ h3 k vk same

/-- … and a write whose value (or Model) carries a primary key is admitted after any history -/
theorem C09_admits_keyed_reuse (ce : Bool) (cfg : StmtCfg) (ops : List StmtOp) (k : FinKind) (vk : List Atom) (same : Bool)
    (hkeys : writeKeys cfg k vk same ≠ [])
    (hset : k = .update → (stmtRun cfg StmtState.fresh ops).keys.contains "SET" = false) :
    finRejected ce cfg (stmtRun cfg StmtState.fresh ops) k vk same = false :=
  keyed_admitted ce cfg _ (markerInv_nonempty cfg _ (stmtRun_markerInv cfg _ ops (markerInv_fresh cfg))) k vk same hkeys hset

/-- FINDING F26 (kernel-checked; the guard as written BEFORE the repair, `countsExprs = false`):
    `Clauses(clause.Where{})` — a WHERE entry with ZERO expressions — supplies no condition, yet on a plain model (or
    Unscoped) the guard lets the write through: `checkMissingWhereConditions` looks at the PRESENCE of the entry and
    counts expressions only next to the soft-delete marker.  The statement `UPDATE … WHERE ` / `DELETE FROM … WHERE ` is
    sent (and refused by the database's parser). -/
theorem C09_empty_where_counterexample :
    let cfg : StmtCfg := { soft := none, modelKey := [], allowGlobal := false }
    opEffective (.clauseWhere []) = false ∧
    finRejected false cfg (stmtRun cfg StmtState.fresh [.clauseWhere []]) .update [] false = false ∧
    finRejected false cfg (stmtRun cfg StmtState.fresh [.clauseWhere []]) .delete [] false = false ∧
    -- the same on a soft-delete model once Unscoped
    finRejected false { cfg with soft := some { col := "deleted_at", kind := .eq, val := .nil, id := 0 } }
      (stmtRun { cfg with soft := some { col := "deleted_at", kind := .eq, val := .nil, id := 0 } } StmtState.fresh [.unscoped, .clauseWhere []])
      .delete [] false = false := by
  decide

/-- … while on a soft-delete model that is not Unscoped the empty entry is harmless: filter + marker, one expression -/
theorem C09_empty_where_soft_blocks (ce : Bool) (f : Atom) (k : FinKind) (hw : k.isWrite = true) (same : Bool) :
    let cfg : StmtCfg := { soft := some f, modelKey := [], allowGlobal := false }
    finRejected ce cfg (stmtRun cfg StmtState.fresh [.clauseWhere []]) k [] same = true := by
  cases k <;> simp_all [FinKind.isWrite, finRejected, stmtRun, stmtStep, finWhere, writeKeys, modifyBy, softDeleteModify,
    addWhere, missingWhere, StmtState.fresh, mkAnd]

/-! ### the repaired guard (`countsExprs = true`): F26 is gone, nothing else changed -/

/-- BLOCKS on a reused statement, FULL STRENGTH (guard that counts expressions): after any sequence of calls none of
    which supplies a condition — empty condition forms, `Clauses(clause.Where{})` with no expression, Unscoped toggled
    anywhere, read and write finishers in every order — a write finisher on a key-less model value is rejected; plain or
    soft-delete model.  `opCondFree` is exactly "not `opEffective`" on the condition-carrying calls
    (`C09_condFree_iff_not_effective`): the hypothesis that excluded `clause.Where{}` is gone. -/
theorem C09_blocks_reuse (cfg : StmtCfg) (hk : cfg.modelKey = []) (hag : cfg.allowGlobal = false)
    (ops : List StmtOp) (ho : ∀ op ∈ ops, opCondFree op = true) (k : FinKind) (hw : k.isWrite = true) (same : Bool) :
    finRejected true cfg (stmtRun cfg StmtState.fresh ops) k [] same = true :=
  bareEW_rejected cfg hk hag _ (stmtRun_bareEW cfg hk _ ops (bareEW_fresh cfg) ho) k hw same

/-- the blocking side and the admitting side now meet: a `Where/Not/Or/Clauses(clause.Where{…})` call is condition-free
    iff it is not effective (no call is left undecided between `C09_blocks_reuse` and `C09_admits_reuse`) -/
theorem C09_condFree_iff_not_effective :
    (∀ o f, opCondFree (.cond o f) = !opEffective (.cond o f)) ∧
    (∀ es, opCondFree (.clauseWhere es) = !opEffective (.clauseWhere es)) := by
  constructor
  · intro o f; rfl
  · intro es; simp [opCondFree, opEffective]

/-- the former witnesses are rejected by the repaired guard -/
theorem C09_empty_where_repaired :
    let cfg : StmtCfg := { soft := none, modelKey := [], allowGlobal := false }
    finRejected true cfg (stmtRun cfg StmtState.fresh [.clauseWhere []]) .update [] false = true ∧
    finRejected true cfg (stmtRun cfg StmtState.fresh [.clauseWhere []]) .delete [] false = true ∧
    finRejected true { cfg with soft := some { col := "deleted_at", kind := .eq, val := .nil, id := 0 } }
      (stmtRun { cfg with soft := some { col := "deleted_at", kind := .eq, val := .nil, id := 0 } } StmtState.fresh [.unscoped, .clauseWhere []])
      .delete [] false = true := by
  decide

/-- the repair is conservative: the two guards differ ONLY on an entry without expressions next to no marker — every
    decision about a statement without WHERE entry, with a non-empty entry, or with the soft-delete marker is unchanged -/
theorem C09_repair_conservative (ag : Bool) (s : WhereState)
    (h : s.exprs ≠ some [] ∨ s.softEnabled = true) : missingWhere true ag s = missingWhere false ag s := by
  unfold missingWhere
  cases ag with
  | true => rfl
  | false =>
    cases he : s.exprs with
    | none => rfl
    | some es =>
      cases hs : s.softEnabled with
      | true => rfl
      | false =>
        cases es with
        | nil => rcases h with h | h
                 · exact absurd he h
                 · rw [hs] at h; cases h
        | cons _ _ => rfl

/-- the guard of the tree that is being verified (regenerated fact `Gen.guardRejectsEmptyWhere`, extract/gen_c09_fix.go):
    EITHER it counts the expressions of the WHERE entry and the full-strength blocking theorem holds for it, OR it is the
    guard that only tests the presence of the entry and the listed witness of F26 passes it -/
theorem C09_blocks_reuse_current_tree :
    (Gen.guardRejectsEmptyWhere = true ∧
      ∀ (cfg : StmtCfg), cfg.modelKey = [] → cfg.allowGlobal = false →
      ∀ (ops : List StmtOp), (∀ op ∈ ops, opCondFree op = true) →
      ∀ (k : FinKind), k.isWrite = true → ∀ (same : Bool),
        finRejected Gen.guardRejectsEmptyWhere cfg (stmtRun cfg StmtState.fresh ops) k [] same = true) ∨
    (Gen.guardRejectsEmptyWhere = false ∧
      finRejected Gen.guardRejectsEmptyWhere { soft := none, modelKey := [], allowGlobal := false }
        (stmtRun { soft := none, modelKey := [], allowGlobal := false } StmtState.fresh [.clauseWhere []]) .update [] false = false) := by
  cases hg : Gen.guardRejectsEmptyWhere with
  | true => exact Or.inl ⟨rfl, fun cfg hk hag ops ho k hw same => C09_blocks_reuse cfg hk hag ops ho k hw same⟩
  | false => exact Or.inr ⟨rfl, by decide⟩

/-- the guard function and its soft-delete branch were found by the extractor (the fact above is not about nothing) -/
theorem C09_guard_fn_found : Gen.guardFnFound = true ∧ Gen.guardSoftBranchFound = true := by decide

/-! ### position of the guard in the regenerated `Update` / `Delete` handlers -/

def guardBeforeDriver (h : HandlerFact) : Bool :=
  match h.calls.findIdx? (fun c => c.kind == "checkMissingWhere") with
  | none => false
  | some i =>
    let g := (h.calls.getD i { kind := "", what := "", guards := [], inClosure := false }).guards
    -- every driver call comes after the guard, and re-tests db.Error == nil after it
    (List.range h.calls.length).all (fun k =>
      let c := h.calls.getD k { kind := "", what := "", guards := [], inClosure := false }
      c.kind != "driver" || (decide (i < k) && (c.guards.drop g.length).contains "db.Error == nil"))

/-- in callbacks/update.go `Update` and callbacks/delete.go `Delete` (as they are in /repo now) the call of
    checkMissingWhereConditions precedes every ExecContext/QueryContext, and each of those is guarded by a
    `db.Error == nil` test evaluated after the guard ran -/
theorem C09_guard_position :
    ∀ h ∈ Gen.handlers, (h.name = "Update" ∨ h.name = "Delete") → guardBeforeDriver h = true := by
  decide

theorem C09_guard_handlers_exist :
    (Gen.handlers.filter (fun h => h.name == "Update" || h.name == "Delete")).length = 2 := by decide

/-! ### the same from the PATH facts (Gen/GuardFacts.lean): domination on every branch

  `Gen.handlers` lists the conditions dominating a call but not whether the guard ITSELF is conditional; the path facts
  give, for the guard, the build and every driver call, the way from the handler closure's body to the call. -/

def stepOK (s : Gen.GuardStep) : Bool :=
  s.branch == "stmt" || s.branch == "then" || s.branch == "else" || s.branch == "block"

/-- `g` (path of the guard call) dominates `d` (path of a driver call), and a `db.Error == nil` test evaluated after
    the guard dominates `d` too: the guard is a plain statement of some block; `d` lies inside a LATER statement of
    the same block, on a path of if/else/blocks only, one of which is the THEN branch of an `if` having the conjunct
    `db.Error == nil` -/
def guardDominates (g d : List Gen.GuardStep) : Bool :=
  match g.reverse with
  | [] => false
  | gl :: preRev =>
    let pre := preRev.reverse
    gl.branch == "stmt" && pre.isPrefixOf d &&
    match d.drop pre.length with
    | [] => false
    | dk :: rest =>
      decide (gl.idx < dk.idx) && (dk :: rest).all stepOK &&
      (dk :: rest).any (fun s => s.branch == "then" && s.conds.contains "db.Error == nil")

/-- the statement build lies in an EARLIER statement of the guard's block: the guard sees the final clauses -/
def buildBefore (b g : List Gen.GuardStep) : Bool :=
  match g.reverse with
  | [] => false
  | gl :: preRev =>
    let pre := preRev.reverse
    pre.isPrefixOf b &&
    match b.drop pre.length with
    | [] => false
    | bk :: _ => decide (bk.idx < gl.idx)

def handlerGuarded (h : Gen.GuardHandler) : Bool :=
  match h.calls.filter (fun c => c.kind == "guard") with
  | [g] =>
    (h.calls.filter (fun c => c.kind == "driver")).all (fun d => guardDominates g.path d.path) &&
    (h.calls.filter (fun c => c.kind == "build")).all (fun b => buildBefore b.path g.path) &&
    !(h.calls.filter (fun c => c.kind == "driver")).isEmpty
  | _ => false

/-- in callbacks/update.go `Update` and callbacks/delete.go `Delete` (as they are in /repo now) there is exactly one call
    of checkMissingWhereConditions; it is unconditional in its block; EVERY driver call (ExecContext and the
    RETURNING branch's QueryContext alike) lies in a later statement of that block under an `if … db.Error == nil`;
    the statement is built before the guard runs -/
theorem C09_guard_dominates : ∀ h ∈ Gen.guardHandlers, handlerGuarded h = true := by
  decide

theorem C09_guard_paths_exist : Gen.guardHandlers.map (·.name) = ["Update", "Delete"] := by decide

/-- the decision procedure is not vacuous: it rejects a guard nested in a branch the driver call is not in, and a driver
    call whose `if` lost the error test -/
example :
    guardDominates [{ idx := 4, branch := "then", conds := ["!ok"] }, { idx := 0, branch := "stmt", conds := [] }]
                   [{ idx := 5, branch := "then", conds := ["!db.DryRun", "db.Error == nil"] }, { idx := 0, branch := "stmt", conds := [] }] = false ∧
    guardDominates [{ idx := 3, branch := "stmt", conds := [] }]
                   [{ idx := 4, branch := "then", conds := ["!db.DryRun"] }, { idx := 0, branch := "stmt", conds := [] }] = false ∧
    guardDominates [{ idx := 3, branch := "stmt", conds := [] }]
                   [{ idx := 4, branch := "then", conds := ["!db.DryRun", "db.Error == nil"] }, { idx := 0, branch := "stmt", conds := [] }] = true := by
  decide

end Gorm
