/-
  C09 — an Update or Delete without any condition never executes.

  Decision logic: which condition forms create a WHERE entry (`Form.cond`, chainable_api.go + BuildCondition),
  what the soft-delete modifier adds (`softDeleteModify`), and the guard `checkMissingWhereConditions`
  (`missingWhere`); plus, from the REGENERATED handler tables, the position of the guard relative to the driver
  calls of `Update` and `Delete`.
-/
import GormModel.Lemmas.Where
import GormModel.Props.C08
import GormModel.Gen.Pipelines
namespace Gorm

/-- a chain call contributes a condition iff its form is effective -/
def effective (f : Form) : Bool := f.cond.isSome

/-- the empty forms: "", nil, empty map, all-zero struct, empty slice, group without conditions -/
theorem C09_empty_forms_ineffective :
    effective .empty = false ∧ effective (.fields []) = false ∧ effective (.group []) = false := by
  simp [effective, Form.cond, mkAnd]

/-- every non-empty form is effective -/
theorem C09_nonempty_forms_effective (t : List Char) (n : Bool) (o : String) (fl : Flat) (a : Atom) (as : List Atom)
    (e : Ex) (g : Ex) (gs : List Ex) :
    effective (.raw t n o fl) = true ∧ effective (.col a) = true ∧ effective (.fields (a :: as)) = true ∧
    effective (.expr e) = true ∧ effective (.group (g :: gs)) = true := by
  refine ⟨rfl, rfl, ?_, ?_, ?_⟩
  · exact mkAnd_isSome (List.map Ex.atom (a :: as)) (by simp)
  · exact mkAnd_isSome [e] (by simp)
  · simp only [effective, Form.cond]
    cases gs with
    | nil => cases g <;> simp [mkAnd, Ex.isOr]
    | cons g2 gs2 => cases g <;> exact mkAnd_isSome (_ :: g2 :: gs2) (by simp)

theorem chainStep_length (es : List Ex) (op : ChainOp) (f : Form) :
    (chainStep es op f).length = es.length + (if effective f then 1 else 0) := by
  unfold chainStep effective
  cases hc : f.cond with
  | none => simp
  | some c =>
    cases op with
    | where_ => simp
    | not_ =>
      have : (mkNot [c]).isSome = true := by cases c <;> simp [mkNot]
      cases hn : mkNot [c] with
      | none => rw [hn] at this; simp at this
      | some x => simp [hn]
    | or_ =>
      have h1 : (mkAnd [c]).isSome = true := mkAnd_isSome _ (by simp)
      cases ha : mkAnd [c] with
      | none => rw [ha] at h1; simp at h1
      | some x => simp [ha, mkOr]

/-- number of effective condition calls of a chain -/
def effCount (ops : List (ChainOp × Form)) : Nat := (ops.filter (fun p => effective p.2)).length

theorem chainExprs_length_aux (ops : List (ChainOp × Form)) (acc : List Ex) :
    (ops.foldl (fun a p => chainStep a p.1 p.2) acc).length = acc.length + effCount ops := by
  induction ops generalizing acc with
  | nil => simp [effCount]
  | cons p r ih =>
    simp only [List.foldl_cons]
    rw [ih, chainStep_length]
    by_cases h : effective p.2 = true
    · simp [effCount, List.filter_cons, h]; omega
    · have h' : effective p.2 = false := by simpa using h
      simp [effCount, List.filter_cons, h']

/-- the WHERE entry holds exactly one expression per effective condition call, whatever Where/Not/Or mix -/
theorem C09_where_length (ops : List (ChainOp × Form)) : (chainExprs ops).length = effCount ops := by
  have := chainExprs_length_aux ops []
  simpa [chainExprs] using this

/-- BLOCKS: without AllowGlobalUpdate, a chain none of whose condition calls is effective and a model value
    without primary key is rejected — on a plain model (no WHERE entry at all) and on a soft-delete model
    (the filter alone does not count) -/
theorem C09_blocks (ops : List (ChainOp × Form)) (soft : Option Atom)
    (h : ∀ p ∈ ops, effective p.2 = false) :
    missingWhere false (guardState ops none soft false) = true := by
  have hc : effCount ops = 0 := by
    simp only [effCount, List.length_eq_zero_iff, List.filter_eq_nil_iff]
    intro p hp; simp [h p hp]
  have hl := C09_where_length ops
  rw [hc] at hl
  have hnil : chainExprs ops = [] := List.eq_nil_of_length_eq_zero hl
  cases soft with
  | none => simp [guardState, hnil, missingWhere]
  | some f => simp [guardState, hnil, missingWhere, softDeleteModify]

/-- ADMITS: a chain with at least one effective condition call, or a model value with a primary key, is never
    rejected on this ground — plain or soft-delete model, scoped or Unscoped -/
theorem C09_admits (ops : List (ChainOp × Form)) (pk : Option Atom) (soft : Option Atom) (unscoped : Bool)
    (h : (∃ p ∈ ops, effective p.2 = true) ∨ pk.isSome = true) :
    missingWhere false (guardState ops pk soft unscoped) = false := by
  have hne : chainExprs ops ++ (pk.map Ex.atom).toList ≠ [] := by
    rcases h with ⟨p, hp, he⟩ | hk
    · have : effCount ops ≥ 1 := by
        have : p ∈ ops.filter (fun q => effective q.2) := List.mem_filter.mpr ⟨hp, he⟩
        exact List.length_pos_of_mem this
      have hl := C09_where_length ops
      intro hnil
      have h0 : (chainExprs ops).length = 0 := by
        rw [(List.append_eq_nil_iff.mp hnil).1]; rfl
      omega
    · cases pk with
      | none => simp at hk
      | some a => simp
  generalize hes : chainExprs ops ++ (pk.map Ex.atom).toList = es at hne
  have hemp : es.isEmpty = false := by cases es with | nil => exact absurd rfl hne | cons _ _ => rfl
  cases soft with
  | none => simp [guardState, hes, hemp, missingWhere]
  | some f =>
    cases unscoped with
    | true => simp [guardState, hes, hemp, missingWhere, softDeleteModify]
    | false =>
      have hr := regroup_length_pos es hne
      simp only [guardState, hes, hemp, Bool.false_eq_true, if_false]
      rw [show (softDeleteModify false f { exprs := some es, softEnabled := false })
            = { exprs := some (regroup es ++ [.atom f]), softEnabled := true } by
          simp [softDeleteModify, regroup]]
      simp only [missingWhere, Bool.false_eq_true, if_false, if_true, List.length_append, List.length_singleton]
      simp; omega

/-- BLOCKS also on a REUSED statement: after a condition-free query on the same statement (its soft-delete filter and
    marker are still there) a condition-free Update/Delete is rejected — scoped or Unscoped -/
theorem C09_blocks_after_query (ops : List (ChainOp × Form)) (soft : Option Atom) (unscoped : Bool)
    (h : ∀ p ∈ ops, effective p.2 = false) :
    missingWhere false (guardStateAfterQuery ops none soft unscoped) = true := by
  have hc : effCount ops = 0 := by
    simp only [effCount, List.length_eq_zero_iff, List.filter_eq_nil_iff]
    intro p hp; simp [h p hp]
  have hl := C09_where_length ops
  rw [hc] at hl
  have hnil : chainExprs ops = [] := List.eq_nil_of_length_eq_zero hl
  cases soft with
  | none => simp [guardStateAfterQuery, hnil, missingWhere]
  | some f => cases unscoped <;> simp [guardStateAfterQuery, hnil, missingWhere, softDeleteModify]

/-- AllowGlobalUpdate (config or session) switches the guard off -/
theorem C09_allow_global (s : WhereState) : missingWhere true s = false := by simp [missingWhere]

/-- boundary, stated not hidden: an explicit EMPTY `clause.Where{}` object creates a WHERE entry with zero
    expressions and passes the guard on a plain model -/
theorem C09_empty_where_clause_example :
    missingWhere false { exprs := some [], softEnabled := false } = false := by decide

/-! ### position of the guard in the regenerated `Update` / `Delete` handlers -/

def guardBeforeDriver (h : HandlerFact) : Bool :=
  match h.calls.findIdx? (fun c => c.kind == "checkMissingWhere") with
  | none => false
  | some i =>
    let g := (h.calls.getD i { kind := "", what := "", guards := [], inClosure := false }).guards
    -- every driver call comes after the guard, and re-tests db.Error == nil after it
    (List.range h.calls.length).all (fun k =>
      let c := h.calls.getD k { kind := "", what := "", guards := [], inClosure := false }
      c.kind != "driver" || (decide (i < k) && (c.guards.drop g.length).contains "db.Error == nil"))

/-- in callbacks/update.go `Update` and callbacks/delete.go `Delete` (as they are in /repo now) the call of
    checkMissingWhereConditions precedes every ExecContext/QueryContext, and each of those is guarded by a
    `db.Error == nil` test evaluated after the guard ran -/
theorem C09_guard_position :
    ∀ h ∈ Gen.handlers, (h.name = "Update" ∨ h.name = "Delete") → guardBeforeDriver h = true := by
  decide

theorem C09_guard_handlers_exist :
    (Gen.handlers.filter (fun h => h.name == "Update" || h.name == "Delete")).length = 2 := by decide

end Gorm
