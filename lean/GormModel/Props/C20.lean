/-
  C20 — AutoMigrate is idempotent and never loses data: the decision logic of migrator/migrator.go over an abstract
  catalog, under an explicit specification `Faithful reflect` of the dialect's column report.
-/
import GormModel.Model.Migrate
import GormModel.Lemmas.Migrate
import GormModel.Lemmas.MigrateReorder
import GormModel.Lemmas.MigrateReach
import GormModel.Gen.MigrateOptFacts
import GormModel.Model.MigrateJoin
import GormModel.Lemmas.MigrateJoin
import GormModel.Gen.MigrateJoinFacts
import GormModel.Model.MigrateCols
import GormModel.Lemmas.MigrateCols
import GormModel.Gen.MigrateColsFacts
import GormModel.Model.MigrateNames
import GormModel.Lemmas.MigrateNames
import GormModel.Lemmas.MigrateNames2
import GormModel.Gen.MigrateNameFacts
namespace Gorm.Mig

/-- CORE LEMMA.  For EVERY field declaration, MigrateColumn on the column report of a faithful dialect issues nothing:
    no AlterColumn, no Create/DropConstraint.  (Case analysis over primary key / type prefix / size / precision /
    nullability / default by data type / comment / unique.) -/
theorem C20_migrateColumn_faithful_noop (reflect : FieldDecl → ColumnInfo) (h : Faithful reflect) (f : FieldDecl) :
    migrateColumn f (reflect f) = [] := by
  unfold migrateColumn
  cases f.ignoreMigration with
  | true => rfl
  | false => simp [migrateAlter_agrees (h.agrees f), migrateUnique_agrees (h.unique f)]

/-- the column `ci` of the database matches the declaration `f` (only what MigrateColumn can observe) -/
def ColMatches (f : FieldDecl) (ci : ColumnInfo) : Prop :=
  Agrees f ci ∧ (ci.unique.2 = true → ci.unique.1 = f.unique)

/-- the catalog already matches model `m`: the table exists, every migrated field has a matching column, every
    relation / check constraint and every index of the model exists -/
def ModelMatches (m : ModelDecl) (c : Catalog) : Prop :=
  ∃ ts, lookup m.table c = some ts ∧
    (∀ f ∈ m.fields, f.ignoreMigration = true ∨ ∃ ci, lookup f.dbName ts.cols = some ci ∧ ColMatches f ci) ∧
    (∀ n ∈ m.fks ++ m.checks, n ∈ ts.constraints) ∧ (∀ n ∈ m.indexes, n ∈ ts.indexes)

theorem columnDDL_nil_of_matches (t : Str) (cols : List (Str × ColumnInfo)) (fs : List FieldDecl)
    (h : ∀ f ∈ fs, f.ignoreMigration = true ∨ ∃ ci, lookup f.dbName cols = some ci ∧ ColMatches f ci) :
    columnDDL t cols fs = [] := by
  induction fs with
  | nil => rfl
  | cons f r ih =>
    have hr := ih (fun g hg => h g (by simp [hg]))
    simp only [columnDDL, hr, List.append_nil]
    rcases h f (by simp) with hi | ⟨ci, hl, hm⟩
    · cases hc : lookup f.dbName cols with
      | none => simp [hi]
      | some ci => simp [migrateColumn, hi]
    · simp [hl, migrateColumn, migrateAlter_agrees hm.1, migrateUnique_agrees hm.2]

theorem autoMigrateOne_nil_of_matches (m : ModelDecl) (c : Catalog) (h : ModelMatches m c) : autoMigrateOne m c = [] := by
  rcases h with ⟨ts, hl, hf, hc, hi⟩
  simp [autoMigrateOne, hl, columnDDL_nil_of_matches _ _ _ hf, missing_nil_of_subset _ _ hc, missing_nil_of_subset _ _ hi]

/-- PROPERTY, sentence 1: running AutoMigrate on a database that already matches the models issues no statement at
    all (any number of models, any catalog), and leaves the catalog as it is. -/
theorem C20_noop_on_matching (reflect : FieldDecl → ColumnInfo) (ms : List ModelDecl) (c : Catalog)
    (h : ∀ m ∈ ms, ModelMatches m c) : autoMigrate reflect ms c = ([], c) := by
  induction ms with
  | nil => rfl
  | cons m r ih =>
    have h1 := autoMigrateOne_nil_of_matches m c (h m (by simp))
    have h2 := ih (fun x hx => h x (by simp [hx]))
    simp [autoMigrate, h1, applyAll, h2]

theorem lookup_append_none {β} (k : Str) (a : List (Str × β)) (v : β) (h : lookup k a = none) :
    lookup k (a ++ [(k, v)]) = some v := by
  induction a with
  | nil => simp [lookup]
  | cons p r ih =>
    rcases p with ⟨k', w⟩
    by_cases hk : k' = k
    · simp [lookup, hk] at h
    · simp only [lookup, hk, if_false] at h
      simp [lookup, hk, ih h]

theorem lookup_createdCols (reflect : FieldDecl → ColumnInfo) (fs : List FieldDecl) (hnd : (fs.map (·.dbName)).Nodup)
    (f : FieldDecl) (hf : f ∈ fs) (hi : f.ignoreMigration = false) :
    lookup f.dbName (createdCols reflect fs) = some (reflect f) := by
  induction fs with
  | nil => cases hf
  | cons g r ih =>
    simp only [List.map_cons, List.nodup_cons] at hnd
    rcases List.mem_cons.mp hf with rfl | hr
    · simp [createdCols, hi, lookup]
    · have hne : g.dbName ≠ f.dbName := fun e => hnd.1 (e ▸ List.mem_map_of_mem hr)
      cases hg : g.ignoreMigration with
      | true => simp [createdCols, hg, ih hnd.2 hr]
      | false => simp [createdCols, hg, lookup, hne, ih hnd.2 hr]

/-- IDEMPOTENCE on a table AutoMigrate created itself (history migrate(v1) → migrate(v1)): the database produced by
    CreateTable on a faithful dialect matches the model, so the second run issues nothing. -/
theorem C20_second_run_after_create (reflect : FieldDecl → ColumnInfo) (h : Faithful reflect) (m : ModelDecl) (c : Catalog)
    (hnew : lookup m.table c = none) (hnd : (m.fields.map (·.dbName)).Nodup) :
    autoMigrateOne m c = [.createTable m] ∧
    autoMigrateOne m (applyAll reflect (autoMigrateOne m c) c) = [] := by
  have h1 : autoMigrateOne m c = [.createTable m] := by simp [autoMigrateOne, hnew]
  refine ⟨h1, ?_⟩
  apply autoMigrateOne_nil_of_matches
  rw [h1]
  refine ⟨_, by simpa [applyAll, applyDDL] using lookup_append_none m.table c _ hnew, ?_, ?_, ?_⟩
  · intro f hf
    cases hi : f.ignoreMigration with
    | true => left; rfl
    | false =>
      right
      exact ⟨reflect f, lookup_createdCols reflect m.fields hnd f hf hi, h.agrees f, h.unique f⟩
  · intro n hn; exact hn
  · intro n hn; exact hn

/-- `f'` is the old declaration `f`, possibly with a `unique` tag added -/
def SameOrUniqueAdded (f f' : FieldDecl) : Prop := f' = { f with unique := f'.unique } ∧ (f.unique = true → f'.unique = true)

/-- MigrateColumnUnique never drops a constraint when `unique` was only added to the declaration -/
theorem migrateUnique_additive (f f' : FieldDecl) (ci : ColumnInfo)
    (hm : ci.unique.2 = true → ci.unique.1 = f.unique) (hmono : f.unique = true → f'.unique = true) :
    ∀ a ∈ migrateUnique f' ci, a = .createUnique := by
  obtain ⟨_, _, _, _, _, _, _, ⟨u, ok⟩⟩ := ci
  intro a ha
  simp only [migrateUnique] at ha
  simp only at hm
  generalize f'.primaryKey = p at ha
  generalize f'.unique = u' at ha hmono
  generalize f.unique = uf at hm hmono
  revert hm hmono ha
  cases ok <;> cases u <;> cases p <;> cases u' <;> cases uf <;> simp

/-- PROPERTY, sentence 2 (statements): when every field of the new model that already has a column is an old,
    matching field (possibly with `unique` added) — i.e. the new model only ADDS fields, indexes, constraints — every
    statement AutoMigrate issues is CreateTable / AddColumn / CreateConstraint / CreateIndex: no AlterColumn, no
    DropConstraint. -/
theorem C20_additive (m' : ModelDecl) (c : Catalog)
    (hold : ∀ ts, lookup m'.table c = some ts → ∀ f' ∈ m'.fields, ∀ ci, lookup f'.dbName ts.cols = some ci →
      ∃ f, ColMatches f ci ∧ SameOrUniqueAdded f f') :
    ∀ d ∈ autoMigrateOne m' c, d.additive = true := by
  intro d hd
  unfold autoMigrateOne at hd
  cases hl : lookup m'.table c with
  | none => simp [hl] at hd; subst hd; rfl
  | some ts =>
    simp only [hl, List.mem_append, List.mem_map] at hd
    rcases hd with (hcol | ⟨n, _, rfl⟩) | ⟨n, _, rfl⟩
    · have key : ∀ fs : List FieldDecl, (∀ f' ∈ fs, f' ∈ m'.fields) → ∀ d ∈ columnDDL m'.table ts.cols fs, d.additive = true := by
        intro fs
        induction fs with
        | nil => intro _ d hd; cases hd
        | cons f' r ih =>
          intro hsub d hd
          simp only [columnDDL, List.mem_append] at hd
          rcases hd with hd | hd
          · cases hc : lookup f'.dbName ts.cols with
            | none =>
              simp only [hc] at hd
              split at hd
              · cases hd
              · simp at hd; subst hd; rfl
            | some ci =>
              simp only [hc, List.mem_map] at hd
              rcases hd with ⟨a, ha, rfl⟩
              rcases hold ts hl f' (hsub f' (by simp)) ci hc with ⟨f, hm, hsame, hmono⟩
              have halter : migrateAlter f' ci = false := by
                rw [hsame]
                exact (migrateAlter_unique_irrel f ci f'.unique ci.unique).trans (migrateAlter_agrees hm.1)
              have hall : ∀ a ∈ migrateColumn f' ci, a = .createUnique := by
                intro a ha
                simp only [migrateColumn, halter] at ha
                split at ha
                · cases ha
                · exact migrateUnique_additive f f' ci hm.2 hmono a (by simpa using ha)
              rw [hall a ha]
              rfl
          · exact ih (fun g hg => hsub g (by simp [hg])) d hd
      exact key m'.fields (fun _ h => h) d hcol
    · rfl
    · rfl

def project (cols : List Str) (r : Row) : Row := r.filter (fun p => decide (p.1 ∈ cols))

theorem lookup_append_some {β} (k : Str) (a b : List (Str × β)) (v : β) (h : lookup k a = some v) :
    lookup k (a ++ b) = some v := by
  induction a with
  | nil => simp [lookup] at h
  | cons p r ih =>
    rcases p with ⟨k', w⟩
    by_cases hk : k' = k
    · simpa [lookup, hk] using h
    · simp only [lookup, hk, if_false] at h
      simp [lookup, hk, ih h]

/-- PROPERTY, sentence 2 (data): an additive statement keeps every existing row and every value of the existing
    columns `cols` (an added column is new: its name is not among `cols`), in the same order. -/
theorem C20_rows_preserved (dflt : FieldDecl → Int) (d : DDL) (hadd : d.additive = true) (cols : List Str)
    (hnew : ∀ t f, d = .addColumn t f → f.dbName ∉ cols) (db : Data) (t : Str) (rows : List Row)
    (h : lookup t db = some rows) :
    ∃ rows', lookup t (applyData dflt d db) = some rows' ∧ rows'.map (project cols) = rows.map (project cols) := by
  cases d with
  | createTable m => exact ⟨rows, lookup_append_some _ _ _ _ h, rfl⟩
  | addColumn t2 f =>
    by_cases ht : t = t2
    · subst ht
      refine ⟨rows.map (fun r => r ++ [(f.dbName, dflt f)]), ?_, ?_⟩
      · simp [applyData, lookup_update_same, h]
      · have hn := hnew t f rfl
        simp [project, List.filter_append, hn]
    · exact ⟨rows, by simp [applyData, lookup_update_other _ _ _ _ ht, h], rfl⟩
  | alterColumn _ _ => cases hadd
  | dropUnique _ _ => cases hadd
  | createUnique _ _ => exact ⟨rows, h, rfl⟩
  | createConstraint _ _ => exact ⟨rows, h, rfl⟩
  | createIndex _ _ => exact ⟨rows, h, rfl⟩

/-- OBSERVATION (kernel-checked, reproduced on the real code by the E2E run, not a violation of the property text):
    a field declared `unique` that is ADDED to an existing table gets its column without the constraint (AddColumn's
    DDL text has no UNIQUE); only the NEXT AutoMigrate creates it.  One run does not always reach a matching database. -/
def uField : FieldDecl :=
  { dbName := ['n'], ignoreMigration := false, primaryKey := false, dataTypeSql := "text".toList, size := 0, precision := 0,
    notNull := false, hasDefault := false, defaultIface := false, defaultValue := [], defaultExplained := [],
    gtype := .other, comment := [], unique := true }
def uReflect (f : FieldDecl) : ColumnInfo :=
  { typeName := "text".toList, aliases := [], length := (0, false), decimal := (0, false), nullable := (!f.notNull, true),
    dflt := (f.defaultValue, currentDefaultNotNull f), comment := ([], false), unique := (f.unique, true) }
def uModel : ModelDecl := { table := ['t'], fields := [uField], fks := [], checks := [], indexes := [] }
def uCatalog : Catalog := [(['t'], { cols := [], constraints := [], indexes := [] })]

theorem C20_added_unique_second_run_counterexample :
    autoMigrateOne uModel uCatalog = [.addColumn ['t'] uField] ∧
    autoMigrateOne uModel (applyAll uReflect (autoMigrateOne uModel uCatalog) uCatalog) = [.createUnique ['t'] uField] ∧
    autoMigrateOne uModel (applyAll uReflect [.createUnique ['t'] uField]
      (applyAll uReflect (autoMigrateOne uModel uCatalog) uCatalog)) = [] := by
  decide

/-- FINDING F20 at model level: with the column report a faithful dialect gives for the DDL gorm emitted
    (`DEFAULT 7` for the tag `default:007`: the parsed value is written, the tag text is compared), MigrateColumn
    alters the column on every run. -/
def respelled : FieldDecl :=
  { dbName := ['n'], ignoreMigration := false, primaryKey := false, dataTypeSql := "integer".toList, size := 64, precision := 0,
    notNull := false, hasDefault := true, defaultIface := true, defaultValue := "007".toList, defaultExplained := ['7'],
    gtype := .other, comment := [], unique := false }
def respelledReport : ColumnInfo :=
  { typeName := "integer".toList, aliases := [], length := (0, false), decimal := (0, false), nullable := (true, true),
    dflt := (['7'], true), comment := ([], false), unique := (false, true) }

theorem C20_respelled_default_counterexample : migrateColumn respelled respelledReport = [.alter] := by decide

/-- … and outside that pattern (the reported default IS the declared text) the same column is left alone -/
theorem C20_respelled_default_partial (f : FieldDecl) (ci : ColumnInfo) (h : Agrees f ci)
    (hu : ci.unique.2 = true → ci.unique.1 = f.unique) : migrateColumn f ci = [] := by
  unfold migrateColumn
  cases f.ignoreMigration with
  | true => rfl
  | false => simp [migrateAlter_agrees h, migrateUnique_agrees hu]

/-! ### ReorderModels: every model once, every requested model present, dependencies first (cycles as the code breaks them) -/

/-- ReorderModels never lists a model twice (any graph, any request list with duplicates, both autoAdd values) -/
theorem C20_reorder_nodup (g : List ModelDeps) (values : List Str) (autoAdd : Bool) :
    (reorderModels g values autoAdd).Nodup := reorder_nodup g values autoAdd

/-- with autoAdd (AutoMigrate's call) every requested model is in the result -/
theorem C20_reorder_complete (g : List ModelDeps) (values : List Str) :
    ∀ v ∈ values, v ∈ tablesOf g → v ∈ reorderModels g values true := reorder_complete g values

/-- ORDERING: every model a listed model's constraints reference is listed too (auto-added) and comes BEFORE it, unless the
    dependency runs along a cycle (`Reach g d n`: d transitively depends on n), where the code cuts at the model visited
    first -/
theorem C20_reorder_dependencies_first (g : List ModelDeps) (values : List Str) :
    ∀ n ∈ reorderModels g values true, ∀ d ∈ depsOf g n,
      d ∈ reorderModels g values true ∧
      (List.idxOf d (reorderModels g values true) < List.idxOf n (reorderModels g values true) ∨ Reach g d n) :=
  reorder_deps_first g values

/-! ### Relationship.ParseConstraint: the belongs-to fold -/

/-- `r` is a relation of the referenced schema that points back to `rel`'s schema with exactly the same references
    (same primary key fields, same FOREIGN KEY fields, same polymorphic values) -/
def Mirror (rel r : Rel) : Prop :=
  r.key ≠ rel.key ∧ r.fieldSchema = rel.schema ∧ r.refs.map Ref.core = rel.refs.map Ref.core

theorem refsMatch_iff : ∀ (a b : List Ref), a.length = b.length → (refsMatch a b = true ↔ a.map Ref.core = b.map Ref.core)
  | [], [], _ => by simp [refsMatch]
  | [], _ :: _, h => by simp at h
  | _ :: _, [], h => by simp at h
  | x :: xs, y :: ys, h => by
    have ih := refsMatch_iff xs ys (by simpa using h)
    simp [refsMatch, ih]

theorem folded_iff (rel : Rel) (rels : List Rel) :
    folded rel rels = true ↔ rel.typ = .belongsTo ∧ ∃ r ∈ rels, Mirror rel r := by
  unfold folded Mirror
  simp only [Bool.and_eq_true, beq_iff_eq, List.any_eq_true, bne_iff_ne, ne_eq]
  constructor
  · rintro ⟨ht, r, hr, ⟨⟨hk, hs⟩, hl⟩, hm⟩
    exact ⟨ht, r, hr, hk, hs, ((refsMatch_iff _ _ hl).mp hm).symm⟩
  · rintro ⟨ht, r, hr, hk, hs, hm⟩
    have hl : rel.refs.length = r.refs.length := by
      have := congrArg List.length hm
      simpa using this.symm
    exact ⟨ht, r, hr, ⟨⟨hk, hs⟩, hl⟩, (refsMatch_iff _ _ hl).mpr hm.symm⟩

/-- the foreign-key field a reference contributes to the constraint (line 698: it has a primary key; for a join-table
    relation only the own side) -/
def ownedFk (rel : Rel) (ref : Ref) : Option FieldId :=
  if ref.primaryKey.isSome && (!rel.hasJoinTable || ref.ownPrimaryKey) then some ref.foreignKey else none

/-- the foreign-key fields the constraint of `rel` carries -/
def ownedFks (rel : Rel) : List FieldId := rel.refs.filterMap (ownedFk rel)

theorem constraintStep_fks (rel : Rel) (c : Constraint) (ref : Ref) :
    (constraintStep rel c ref).fks = c.fks ++ (ownedFk rel ref).toList ∧ (constraintStep rel c ref).name = c.name := by
  unfold constraintStep ownedFk
  cases hpk : ref.primaryKey with
  | none => simp
  | some pk =>
    cases hj : rel.hasJoinTable <;> cases ho : ref.ownPrimaryKey <;> simp

theorem buildConstraint_fold (rel : Rel) (refs : List Ref) (c0 : Constraint) :
    (refs.foldl (constraintStep rel) c0).fks = c0.fks ++ refs.filterMap (ownedFk rel) ∧
    (refs.foldl (constraintStep rel) c0).name = c0.name := by
  induction refs generalizing c0 with
  | nil => simp
  | cons ref rest ih =>
    have h1 := constraintStep_fks rel c0 ref
    have h2 := ih (constraintStep rel c0 ref)
    simp only [List.foldl_cons, List.filterMap_cons]
    rw [h2.1, h2.2, h1.1, h1.2]
    cases ownedFk rel ref <;> simp

theorem buildConstraint_fks (rel : Rel) :
    (buildConstraint rel).fks = ownedFks rel ∧ (buildConstraint rel).name = constraintName rel := by
  have h := buildConstraint_fold rel rel.refs
    { name := constraintName rel, schema := [], refSchema := [], fks := [], refs := [],
      onDelete := tagSetting rel.tag "ONDELETE".toList, onUpdate := tagSetting rel.tag "ONUPDATE".toList }
  simp only [List.nil_append] at h
  exact h

/-- ParseConstraint yields NO constraint exactly when the relation is switched off (`constraint:-`) or it is a belongs-to
    whose referenced schema holds a mirror relation with the SAME foreign keys: a declared foreign key is dropped only
    when another relation declares the very same one -/
theorem C20_constraint_dropped_iff_mirrored (rel : Rel) (rels : List Rel) :
    parseConstraint rel rels = none ↔ rel.tag = ['-'] ∨ (rel.typ = .belongsTo ∧ ∃ r ∈ rels, Mirror rel r) := by
  unfold parseConstraint
  by_cases ht : rel.tag = ['-']
  · simp [ht]
  · by_cases hf : folded rel rels = true
    · simp [ht, hf, (folded_iff rel rels).mp hf]
    · have : ¬ (rel.typ = .belongsTo ∧ ∃ r ∈ rels, Mirror rel r) := fun h => hf ((folded_iff rel rels).mpr h)
      simp [ht, hf, this]

/-- … and otherwise it yields the constraint over the relation's own foreign-key fields, under the declared name -/
theorem C20_constraint_emitted (rel : Rel) (rels : List Rel) (ht : rel.tag ≠ ['-'])
    (hm : ¬ (rel.typ = .belongsTo ∧ ∃ r ∈ rels, Mirror rel r)) :
    ∃ c, parseConstraint rel rels = some c ∧ c.fks = ownedFks rel ∧ c.name = constraintName rel := by
  have hf : folded rel rels = false := by
    cases h : folded rel rels with
    | false => rfl
    | true => exact absurd ((folded_iff rel rels).mp h) hm
  exact ⟨buildConstraint rel, by simp [parseConstraint, ht, hf], (buildConstraint_fks rel).1, (buildConstraint_fks rel).2⟩

/-- TWO RELATIONS WITH DIFFERENT FOREIGN KEYS YIELD TWO CONSTRAINTS: for two enabled relations `a`, `b` whose foreign-key
    fields differ (two belongs-to to one parent, …), whatever relations the referenced schema holds:
    each is either emitted with its own foreign keys or mirrored by a relation with exactly its references; no single
    relation mirrors both; and two emitted constraints differ in their foreign keys. -/
theorem C20_two_foreign_keys_two_constraints (a b : Rel) (rels : List Rel) (ha : a.tag ≠ ['-']) (hb : b.tag ≠ ['-'])
    (hne : a.refs.map (·.foreignKey) ≠ b.refs.map (·.foreignKey)) :
    (∀ x, x = a ∨ x = b → (∃ c, parseConstraint x rels = some c ∧ c.fks = ownedFks x) ∨ (∃ r ∈ rels, Mirror x r)) ∧
    (∀ r, ¬ (Mirror a r ∧ Mirror b r)) ∧
    (∀ ca cb, parseConstraint a rels = some ca → parseConstraint b rels = some cb → ownedFks a ≠ ownedFks b → ca.fks ≠ cb.fks) := by
  refine ⟨?_, ?_, ?_⟩
  · intro x hx
    have hxt : x.tag ≠ ['-'] := by rcases hx with rfl | rfl <;> assumption
    by_cases hm : x.typ = .belongsTo ∧ ∃ r ∈ rels, Mirror x r
    · exact Or.inr hm.2
    · obtain ⟨c, hc, hf, _⟩ := C20_constraint_emitted x rels hxt hm
      exact Or.inl ⟨c, hc, hf⟩
  · rintro r ⟨⟨_, _, h1⟩, ⟨_, _, h2⟩⟩
    apply hne
    have h := h1.symm.trans h2
    have := congrArg (List.map (fun (t : Option FieldId × FieldId × Str) => t.2.1)) h
    simpa [List.map_map, Function.comp_def, Ref.core] using this
  · intro ca cb hca hcb hd
    have fa : ca.fks = ownedFks a := by
      unfold parseConstraint at hca
      split at hca
      · cases hca
      · split at hca
        · cases hca
        · cases hca; exact (buildConstraint_fks a).1
    have fb : cb.fks = ownedFks b := by
      unfold parseConstraint at hcb
      split at hcb
      · cases hcb
      · split at hcb
        · cases hcb
        · cases hcb; exact (buildConstraint_fks b).1
    rw [fa, fb]
    exact hd

/-- non-vacuity, and the shape a maintainer knows: Post.Author / Post.Editor -> Writer, Writer.Posts over AuthorID.
    Author is folded into the has-many, Editor keeps its own constraint. -/
def fPostAuthorID : FieldId := { id := "posts.author_id".toList, schema := "posts".toList }
def fPostEditorID : FieldId := { id := "posts.editor_id".toList, schema := "posts".toList }
def fWriterID : FieldId := { id := "writers.id".toList, schema := "writers".toList }
def relAuthor : Rel :=
  { key := "Post.Author".toList, typ := .belongsTo, schema := "posts".toList, fieldSchema := "writers".toList,
    refs := [{ primaryKey := some fWriterID, primaryValue := [], foreignKey := fPostAuthorID, ownPrimaryKey := false }],
    hasJoinTable := false, tag := [], defaultName := "fk_posts_author".toList }
def relEditor : Rel :=
  { key := "Post.Editor".toList, typ := .belongsTo, schema := "posts".toList, fieldSchema := "writers".toList,
    refs := [{ primaryKey := some fWriterID, primaryValue := [], foreignKey := fPostEditorID, ownPrimaryKey := false }],
    hasJoinTable := false, tag := [], defaultName := "fk_posts_editor".toList }
def relPosts : Rel :=
  { key := "Writer.Posts".toList, typ := .hasMany, schema := "writers".toList, fieldSchema := "posts".toList,
    refs := [{ primaryKey := some fWriterID, primaryValue := [], foreignKey := fPostAuthorID, ownPrimaryKey := true }],
    hasJoinTable := false, tag := [], defaultName := "fk_writers_posts".toList }

theorem C20_seed_shape_example :
    parseConstraint relAuthor [relPosts] = none ∧
    (parseConstraint relEditor [relPosts]).map (fun c => (c.name, c.schema, c.refSchema, c.fks)) =
      some ("fk_posts_editor".toList, "posts".toList, "writers".toList, [fPostEditorID]) ∧
    (parseConstraint relPosts [relAuthor, relEditor, relPosts]).map (fun c => (c.name, c.schema, c.refSchema, c.fks)) =
      some ("fk_writers_posts".toList, "posts".toList, "writers".toList, [fPostAuthorID]) := by
  decide

/-! ### AddColumn: the added column carries the full declaration -/

theorem migrateUnique_added (f : FieldDecl) (ci : ColumnInfo) (ok : Bool) :
    migrateUnique f { ci with unique := (false, ok) } =
      if ok && !f.primaryKey && f.unique then [.createUnique] else [] := by
  simp only [migrateUnique]
  cases ok <;> cases hp : f.primaryKey <;> cases hu : f.unique <;> simp

/-- a column added by `ALTER TABLE ADD <FullDataTypeOf>` on a faithful dialect already agrees with its declaration: the
    next run does not alter it; the only thing that can still follow is the late UNIQUE constraint of a `unique` field -/
theorem C20_added_column_settles (reflect : FieldDecl → ColumnInfo) (h : Faithful reflect) (f : FieldDecl) :
    migrateAlter f (addedInfo reflect f) = false ∧
    migrateColumn f (addedInfo reflect f) =
      (if !f.ignoreMigration && (reflect f).unique.2 && !f.primaryKey && f.unique then [.createUnique] else []) := by
  have halt : migrateAlter f (addedInfo reflect f) = false :=
    (migrateAlter_unique_irrel f (reflect f) f.unique (false, (reflect f).unique.2)).trans (migrateAlter_agrees (h.agrees f))
  refine ⟨halt, ?_⟩
  have hu : migrateUnique f (addedInfo reflect f) =
      if (reflect f).unique.2 && !f.primaryKey && f.unique then [.createUnique] else [] :=
    migrateUnique_added f (reflect f) (reflect f).unique.2
  unfold migrateColumn
  rw [halt, hu]
  cases f.ignoreMigration <;> simp

/-- the statement AddColumn sends carries the whole `FullDataTypeOf` text: NOT NULL and DEFAULT of the declaration
    are part of it -/
theorem C20_add_column_sql_full (t : Str) (f : FieldDecl) :
    fullDataTypeOf f <:+ addColumnSQL t f ∧
    (f.notNull = true → ∃ rest, fullDataTypeOf f = f.dataTypeSql ++ " NOT NULL".toList ++ rest) := by
  refine ⟨⟨_, rfl⟩, ?_⟩
  intro hn
  unfold fullDataTypeOf
  rw [if_pos hn]
  exact ⟨_, rfl⟩

/-! ### ParseIndexes -/

theorem addEntry_names (e : IdxEntry) (l : List Index) :
    (addEntry e l).map (·.name) = if e.name ∈ l.map (·.name) then l.map (·.name) else l.map (·.name) ++ [e.name] := by
  induction l with
  | nil => simp [addEntry, mergeEntry]
  | cons i r ih =>
    by_cases h : i.name = e.name
    · simp [addEntry, h, mergeEntry]
    · have h' : ¬ e.name = i.name := fun x => h x.symm
      simp only [addEntry, h, if_false, List.map_cons, ih, List.mem_cons, h', false_or]
      split <;> simp

/-- ParseIndexes yields ONE index per name (any number of fields / tags / shared composite names) -/
theorem C20_indexes_once (es : List IdxEntry) : ((parseIndexes es).map (·.name)).Nodup := by
  unfold parseIndexes
  have key : ∀ (acc : List Index), (acc.map (·.name)).Nodup →
      ((es.foldl (fun acc e => addEntry e acc) acc).map (·.name)).Nodup := by
    induction es with
    | nil => intro acc h; exact h
    | cons e r ih =>
      intro acc h
      apply ih
      rw [addEntry_names]
      split
      · exact h
      · rename_i hn
        exact List.nodup_append.mpr ⟨h, by simp, by intro a ha b hb; simp at hb; subst hb; intro e; subst e; exact hn ha⟩
  exact key [] (by simp)

def SortedPrio (l : List (Str × Int)) : Prop := l.Pairwise (fun a b => a.2 ≤ b.2)

theorem insertByPriority_mem (x y : Str × Int) (l : List (Str × Int)) :
    y ∈ insertByPriority x l ↔ y = x ∨ y ∈ l := by
  induction l with
  | nil => simp [insertByPriority]
  | cons z r ih =>
    simp only [insertByPriority]
    split
    · simp
    · simp only [List.mem_cons, ih]
      constructor
      · rintro (h | h | h) <;> simp [h]
      · rintro (h | h | h) <;> simp [h]

theorem insertByPriority_sorted (x : Str × Int) (l : List (Str × Int)) (h : SortedPrio l) :
    SortedPrio (insertByPriority x l) := by
  induction l with
  | nil => simp [insertByPriority, SortedPrio]
  | cons z r ih =>
    unfold SortedPrio at h ⊢
    rw [List.pairwise_cons] at h
    simp only [insertByPriority]
    split
    · rename_i hlt
      refine List.pairwise_cons.mpr ⟨?_, List.pairwise_cons.mpr h⟩
      intro b hb
      rcases List.mem_cons.mp hb with rfl | hb
      · omega
      · have := h.1 b hb; omega
    · rename_i hge
      refine List.pairwise_cons.mpr ⟨?_, ih h.2⟩
      intro b hb
      rcases (insertByPriority_mem x b r).mp hb with rfl | hb
      · omega
      · exact h.1 b hb

theorem addEntry_sorted (e : IdxEntry) (l : List Index) (h : ∀ i ∈ l, SortedPrio i.fields) :
    ∀ i ∈ addEntry e l, SortedPrio i.fields := by
  induction l with
  | nil =>
    intro i hi
    simp only [addEntry, List.mem_singleton] at hi
    subst hi
    simp [mergeEntry, emptyIndex, insertByPriority, SortedPrio]
  | cons j r ih =>
    intro i hi
    simp only [addEntry] at hi
    split at hi
    · rcases List.mem_cons.mp hi with rfl | hi
      · exact insertByPriority_sorted _ _ (h j (by simp))
      · exact h i (by simp [hi])
    · rcases List.mem_cons.mp hi with rfl | hi
      · exact h _ (by simp)
      · exact ih (fun k hk => h k (by simp [hk])) i hi

/-- … and the fields of every index are in priority order -/
theorem C20_index_fields_by_priority (es : List IdxEntry) : ∀ i ∈ parseIndexes es, SortedPrio i.fields := by
  unfold parseIndexes
  have key : ∀ (acc : List Index), (∀ i ∈ acc, SortedPrio i.fields) →
      ∀ i ∈ es.foldl (fun acc e => addEntry e acc) acc, SortedPrio i.fields := by
    induction es with
    | nil => intro acc h; exact h
    | cons e r ih => intro acc h; exact ih _ (addEntry_sorted e acc h)
  exact key [] (by simp)

/-! ### non-vacuity -/

/-- `uReflect` (an SQLite-like report) satisfies `Faithful` for every declaration whose type is `text`; here: the
    hypotheses of the core lemma are satisfiable by a non-trivial value -/
example : Agrees { uField with notNull := true, hasDefault := true, defaultIface := true, defaultValue := ['x'], defaultExplained := "\"x\"".toList }
    (uReflect { uField with notNull := true, hasDefault := true, defaultIface := true, defaultValue := ['x'] }) := by
  refine ⟨?_, ?_, ?_, ?_, ?_, ?_, ?_⟩
  · exact List.isPrefixOf_iff_prefix.mp (by decide)
  · right; exact ⟨by decide, Or.inl rfl⟩
  · intro h; cases h
  · intro _; rfl
  · rfl
  · intro _; rfl
  · intro h; cases h

example : ModelMatches uModel [(['t'], { cols := [(['n'], uReflect uField)], constraints := [], indexes := [] })] := by
  refine ⟨_, rfl, ?_, by simp [uModel], by simp [uModel]⟩
  intro f hf
  simp [uModel] at hf
  subst hf
  right
  refine ⟨_, rfl, ⟨?_, ?_, ?_, ?_, ?_, ?_, ?_⟩, ?_⟩
  · exact List.isPrefixOf_iff_prefix.mp (by decide)
  · right; exact ⟨by decide, Or.inl rfl⟩
  · intro h; cases h
  · intro _; rfl
  · rfl
  · intro h; cases h
  · intro h; cases h
  · intro _; rfl

/-! ### configuration switches: what they may switch off (Model/MigrateOpts.lean, Lemmas/MigrateReach.lean) -/

/-- Everything the requested models NEED is on the list AutoMigrate works through (`ReorderModels(values, true)`): the
    requested models, the join table of each of their many2many relations (and the far side when parsed first), and —
    transitively — the reference schema of every constraint an already listed model owns (belongs-to parents; both ends
    of a join table).  Fuel sufficiency of the model's recursion is part of the proof. -/
theorem C20_reorder_needs (g : List ModelDeps) (values : List Str) :
    ∀ t, Needs g values t → t ∈ reorderModels g values true := reorder_needs g values

/-- `DisableForeignKeyConstraintWhenMigrating` does not change the list of tables AutoMigrate creates / reconciles -/
theorem C20_fk_option_keeps_tables (o : MigOpts) (ms : List ModelRels) (values : List Str) (autoAdd : Bool) :
    reorderModelsOpt o ms values autoAdd = reorderModelsOpt { o with disableFK := false } ms values autoAdd :=
  reorderModelsOpt_disableFK o ms values autoAdd

/-- whatever the foreign-key switch says (relationships not ignored): the parent a belongs-to field of a requested model
    references — reference schema of a constraint the model owns, not switched off by `constraint:-` — is auto-added -/
theorem C20_parent_auto_added_whatever_fk_option (o : MigOpts) (ho : o.ignoreRel = false) (ms : List ModelRels)
    (values : List Str) (m : ModelRels) (hm : ms.find? (fun x => x.table = m.table) = some m) (hv : m.table ∈ values)
    (r : RelDecl) (hr : r ∈ m.rels) (hi : r.ignoreMigration = false) (n p : Str)
    (hc : r.con = some (n, m.table, p)) (hp : p ≠ m.table) :
    p ∈ reorderModelsOpt o ms values true :=
  reorderOpt_parent_added o ho ms values m hm hv r hr hi n p hc hp

/-- whatever the foreign-key switch says: the join table of a many2many relation of a requested model is auto-added,
    and so is everything the join table's own constraints reference (both ends of the relation) -/
theorem C20_join_table_auto_added_whatever_fk_option (o : MigOpts) (ho : o.ignoreRel = false) (ms : List ModelRels)
    (values : List Str) (m : ModelRels) (hm : ms.find? (fun x => x.table = m.table) = some m) (hv : m.table ∈ values)
    (r : RelDecl) (hr : r ∈ m.rels) (hi : r.ignoreMigration = false) (j : Str) (hj : r.join = some j)
    (hjm : j ∈ ms.map (·.table)) :
    j ∈ reorderModelsOpt o ms values true ∧
    ∀ d ∈ depsOf (ms.map (relDeps o)) j, d ∈ reorderModelsOpt o ms values true :=
  reorderOpt_join_added o ho ms values m hm hv r hr hi j hj hjm

/-- `IgnoreRelationshipsWhenMigrating`: nothing but the requested models is listed -/
theorem C20_ignore_relationships_only_requested (o : MigOpts) (ho : o.ignoreRel = true) (ms : List ModelRels)
    (values : List Str) (autoAdd : Bool) :
    ∀ t ∈ reorderModelsOpt o ms values autoAdd, t ∈ values := reorderOpt_ignore o ho ms values autoAdd

/-- the two switches touch the relation constraints of a model and nothing else of what AutoMigrate reconciles for its
    table: fields, check constraints and indexes are the same under every configuration; the relation constraints are
    the owned ones, or none when either switch is on -/
theorem C20_options_touch_relation_constraints_only (o : MigOpts) (m : ModelRels) (fields : List FieldDecl)
    (checks indexes : List Str) :
    (modelDeclOpt o m fields checks indexes).table = m.table ∧
    (modelDeclOpt o m fields checks indexes).fields = fields ∧
    (modelDeclOpt o m fields checks indexes).checks = checks ∧
    (modelDeclOpt o m fields checks indexes).indexes = indexes ∧
    (modelDeclOpt o m fields checks indexes).fks =
      (if o.disableFK = true ∨ o.ignoreRel = true then [] else ownedRelFks m.table m.rels) := by
  refine ⟨rfl, rfl, rfl, rfl, ?_⟩
  unfold modelDeclOpt fksOpt
  cases o.disableFK <;> cases o.ignoreRel <;> simp

/-- REGENERATED FACTS (extract/gen_c20.go, every run): in package migrator the two switches are read in `if` conditions
    only; `DisableForeignKeyConstraintWhenMigrating` is read exactly in the guard `!DisableFK && !IgnoreRel` around the
    relation-constraint loops of `AutoMigrate` and `CreateTable`, whose bodies call nothing but constraint
    parsing / lookup / creation; `ReorderModels` has exactly one guarded block, under `!IgnoreRelationshipsWhenMigrating`
    alone — the premise under which `relVisited` / `fksOpt` transcribe the code. -/
theorem C20_option_read_sites :
    Gen.migOptOther = [] ∧
    (∀ s ∈ Gen.migOptSites, s.readsFK = true →
      (s.fn = "AutoMigrate" ∨ s.fn = "CreateTable") ∧
      s.cond = "!m.DB.DisableForeignKeyConstraintWhenMigrating && !m.DB.IgnoreRelationshipsWhenMigrating" ∧
      "ParseConstraint" ∈ s.calls ∧
      (∀ c ∈ s.calls, c ∈ ["ParseConstraint", "HasConstraint", "CreateConstraint", "Build", "append", "Migrator"])) ∧
    (∀ s ∈ Gen.migOptSites, s.fn = "ReorderModels" →
      s.readsFK = false ∧ s.cond = "!m.DB.IgnoreRelationshipsWhenMigrating" ∧ "parseDependence" ∈ s.calls) ∧
    (Gen.migOptSites.map (·.fn)) = ["AutoMigrate", "CreateTable", "ReorderModels"] := by decide

/-- OBSERVATION on the unchanged code (not demanded by the oracle): Go's `for _, name := range modelNames` evaluates the
    slice once, so a join table discovered while a DEPENDENCY is auto-added in phase 2 is never listed — `thing`
    belongs to `owner`, `owner` has a many2many through `owner_tags`: AutoMigrate(thing) lists `owner` but neither
    `owner_tags` nor `tags` (reproduced on the real code: tables [owners things]) -/
theorem C20_reorder_join_behind_dependency_counterexample :
    reorderModels exQuirk [exThing] true = [exOwner, exThing] := reorder_join_behind_dependency_not_added

/-- non-vacuity: under `DisableForeignKeyConstraintWhenMigrating` the article's parent, join table and far side are listed;
    under `IgnoreRelationshipsWhenMigrating` only the article -/
example : reorderModelsOpt { disableFK := true, ignoreRel := false } exRels [exArticle] true =
    [exAuthor, exArticle, exTag, exArticleTags] := exRels_disableFK
example : reorderModelsOpt { disableFK := true, ignoreRel := true } exRels [exArticle] true = [exArticle] := exRels_ignoreRel

/-! ### round 3: what an auto-created many2many join table inherits from the columns it references -/

/-- REGENERATED FACTS (extract/gen_c20_join.go, every run): schema.buildMany2ManyRelation builds a join-table field in
    exactly two places — the loop over the owner's key fields and the loop over the referenced fields — and BOTH copy the
    source field's struct tag through `removeSettingFromTag(appendSettingFromTag(tag, "primaryKey"), …)` with the SAME
    literal clean-up list `column, autoincrement, index, unique, uniqueindex`, which is the list `joinStrip` the model
    `joinCol` (and every theorem below) uses; the only other field of the generated struct is the ignored back pointer.
    A shortened or reordered list on either side breaks this obligation. -/
theorem C20_join_strip_lists :
    Gen.joinTagCalls =
      [{ source := "ownField.StructField.Tag", appended := String.ofList joinAppend,
         names := joinStrip.map String.ofList, literal := true },
       { source := "relField.StructField.Tag", appended := String.ofList joinAppend,
         names := joinStrip.map String.ofList, literal := true }] ∧
    Gen.joinTagOther = ["`gorm:\"-\"`"] := by decide

set_option maxRecDepth 20000 in
/-- REGENERATED FACTS: the helper bodies the model transcribes (`removeSetting` = one `ReplaceAllString` of the unanchored,
    case-insensitive pattern per name with replacement `${1}${5}`; `appendSetting` = the `strings.Contains` guard and the
    `gorm:"%s;%s"` rebuild) and the readers of the resulting settings (`Field.Unique` = CheckTruth(UNIQUE) feeding
    ParseUniqueConstraints, the INDEX / UNIQUEINDEX gate of ParseIndexes, `Field.PrimaryKey`) are the ones in the source. -/
theorem C20_join_tag_helpers_transcribed :
    Gen.removeSettingBody =
      ["for _, name := range names { tag = reflect.StructTag(regexp.MustCompile(`(?i)(gorm:.*?)(`+name+`(:.*?)?)(;|(\"))`).ReplaceAllString(string(tag), \"${1}${5}\")) }",
       "return tag"] ∧
    Gen.appendSettingBody =
      ["t := tag.Get(\"gorm\")", "if strings.Contains(t, value) { return tag }",
       "return reflect.StructTag(fmt.Sprintf(`gorm:\"%s;%s\"`, value, t))"] ∧
    Gen.uniqueReaders =
      [("Field.TagSettings", "tagSetting"),
       ("Field.PrimaryKey", "utils.CheckTruth(tagSetting[\"PRIMARYKEY\"], tagSetting[\"PRIMARY_KEY\"])"),
       ("Field.AutoIncrement", "utils.CheckTruth(tagSetting[\"AUTOINCREMENT\"])"),
       ("Field.Unique", "utils.CheckTruth(tagSetting[\"UNIQUE\"])"),
       ("ParseUniqueConstraints.if", "field.Unique"),
       ("ParseIndexes.if", "field.TagSettings[\"INDEX\"] != \"\" || field.TagSettings[\"UNIQUEINDEX\"] != \"\"")] := by decide

set_option maxRecDepth 20000 in
/-- the m8 shape, computed by the model: `References:` a column tagged `uniqueIndex` / `unique` / `uniqueIndex:name` with
    further settings — the join column is a plain member of the composite primary key, neither unique nor indexed -/
theorem C20_join_column_examples :
    (joinCol joinStrip (gormTag "uniqueIndex".toList)).unique = false ∧
    (joinCol joinStrip (gormTag "unique".toList)).unique = false ∧
    (joinCol joinStrip (gormTag "size:30;unique;not null".toList)).unique = false ∧
    (joinCol joinStrip (gormTag "uniqueIndex:ux_c;size:40".toList)).tag = "gorm:\"primaryKey;uniquesize:40\"".toList ∧
    (joinCol joinStrip (gormTag "index:ix,unique".toList)).indexed = false ∧
    (joinCol joinStrip (gormTag "uniqueIndex".toList)).primaryKey = true ∧
    -- without `unique` in the list (the seeded shape) the column would stay unique:
    (joinCol (["column", "autoincrement", "index", "uniqueindex"].map String.toList) (gormTag "uniqueIndex".toList)).unique = true := by
  decide

/-- A source column WITHOUT any uniqueness / index setting (arbitrarily many settings, none of which contains one of the
    stripped names): the join-table column buildMany2ManyRelation derives from it is neither UNIQUE (no `uni_…` constraint
    from ParseUniqueConstraints) nor indexed — for every list of settings. -/
theorem C20_join_column_clean (ss : List Str) (h : ∀ s ∈ ss, CleanSetting s) :
    (joinCol joinStrip (gormTag (joinWith ';' ss))).unique = false ∧
    (joinCol joinStrip (gormTag (joinWith ';' ss))).indexed = false := joinCol_clean ss h

/-- FINDING F30 (unchanged tree, reproduced end to end on SQLite: the second link to a shared target is dropped silently).
    "A join-table column is never unique by itself" does NOT hold for every tag: `removeSettingFromTag` removes ONE match per
    name, so of two uniqueness settings one survives as `unique`; and `uniqueIndex` followed by a blank setting leaves
    `unique ` (key UNIQUE after trimming). -/
theorem C20_join_column_unique_counterexample :
    (joinCol joinStrip (gormTag "unique;uniqueIndex".toList)).unique = true ∧
    (joinCol joinStrip (gormTag "uniqueIndex:a;uniqueIndex:b".toList)).unique = true ∧
    (joinCol joinStrip (gormTag "uniqueIndex; ".toList)).unique = true ∧
    (joinCol joinStrip (gormTag "index:a;index:b".toList)).indexed = true :=
  ⟨joinCol_two_unique_witness, joinCol_two_uniqueIndex_witness, joinCol_glue_space_witness, joinCol_two_index_witness⟩

/-- THE PROPERTY OF THE CLEAN-UP LIST, outside the finding's pattern: a source column with exactly ONE uniqueness / index
    setting `hot` — `unique`, `uniqueIndex`, `index` in any letter case, bare or with a (clean) value — anywhere among
    arbitrarily many other settings gives a join-table column that is NOT unique and NOT indexed: the only uniqueness of an
    auto-created join table is its composite primary key, so one target row can be linked to any number of owners.
    (Proviso for `uniqueIndex`: the next setting does not begin with white space — the third witness above.)
    Together with `C20_join_strip_lists` this is what the seeded change (a list without `unique`) destroys. -/
theorem C20_join_column_unique_partial (pre post : List Str) (hot : Str)
    (hpre : ∀ s ∈ pre, CleanSetting s) (hpost : ∀ s ∈ post, CleanSetting s) (hh : HotSetting hot)
    (hg : HotWith nUniqueIndex hot → GlueSafe post) :
    let c := joinCol joinStrip (gormTag (joinWith ';' (pre ++ hot :: post)))
    c.unique = false ∧ c.indexed = false := joinCol_single_hot pre post hot hpre hpost hh hg

/-- non-vacuity: `size:10;uniqueIndex:ux;not null` -/
example : (joinCol joinStrip (gormTag (joinWith ';' (["size:10".toList] ++ "uniqueIndex:ux".toList :: ["not null".toList])))).unique = false := by
  decide

/-! ## Round 4: one decision per COLUMN (several struct fields mapping to one column), and the table name the
    constraint look-ups use (schema-qualified table names) -/

/-- `Schema.DBNames` / `FieldsByDBName` hold each column name once and miss no field's column; every owner is a field
    of the struct. -/
theorem C20_columns_resolved_once (raw : List RawField) :
    ((resolveColumns raw).map (·.dbName)).Nodup ∧
    (∀ f ∈ raw, f.decl.dbName ≠ [] → f.decl.dbName ∈ (resolveColumns raw).map (·.dbName)) ∧
    (∀ d ∈ resolveColumns raw, ∃ f ∈ raw, f.decl = d) :=
  ⟨resolveColumns_nodup raw, fun f hf he => resolveColumns_complete raw f hf he, fun d hd => resolveColumns_from_raw raw d hd⟩

/-- whatever the catalog, AutoMigrate's column loop (over the owners of the columns) issues ADD COLUMN at most once per
    column name — also for models in which gorm.Model / a base struct is shadowed by own fields, a `column:` tag appears
    twice, or a struct is embedded twice -/
theorem C20_one_add_per_column (t : Str) (cols : List (Str × ColumnInfo)) (raw : List RawField) :
    (addedNames (columnDDL t cols (resolveColumns raw))).Nodup :=
  addedNames_columnDDL_nodup t cols _ (resolveColumns_nodup raw)

/-- IDEMPOTENCE for models whose struct fields SHARE columns: the table CreateTable produced from the column owners is
    left alone by the next AutoMigrate (no hypothesis on the field list: the ownership loop provides distinct names) -/
theorem C20_second_run_after_create_shared_columns (reflect : FieldDecl → ColumnInfo) (h : Faithful reflect)
    (table : Str) (raw : List RawField) (fks checks indexes : List Str) (c : Catalog) (hnew : lookup table c = none) :
    autoMigrateOne (modelOfRaw table raw fks checks indexes) c = [.createTable (modelOfRaw table raw fks checks indexes)] ∧
    autoMigrateOne (modelOfRaw table raw fks checks indexes)
      (applyAll reflect (autoMigrateOne (modelOfRaw table raw fks checks indexes) c) c) = [] :=
  C20_second_run_after_create reflect h (modelOfRaw table raw fks checks indexes) c hnew (resolveColumns_nodup raw)

def shTime : FieldDecl :=
  { dbName := "updated_at".toList, ignoreMigration := false, primaryKey := false, dataTypeSql := "datetime".toList, size := 0,
    precision := 0, notNull := false, hasDefault := false, defaultIface := false, defaultValue := [], defaultExplained := [],
    gtype := .time, comment := [], unique := false }
def shInt : FieldDecl := { shTime with dataTypeSql := "integer".toList, size := 64, gtype := .other }
/-- `struct { gorm.Model; UpdatedAt int64 }`: the embedded `UpdatedAt time.Time` (bind path of length 2) and the own one -/
def shRaw : List RawField := [{ decl := shTime, depth := 2, perm := true }, { decl := shInt, depth := 1, perm := true }]
def shReflect (f : FieldDecl) : ColumnInfo :=
  { typeName := f.dataTypeSql, aliases := [], length := (0, false), decimal := (0, false), nullable := (!f.notNull, true),
    dflt := ([], false), comment := ([], false), unique := (f.unique, true) }

/-- WHY the loop must run over columns: visiting every struct FIELD that maps to a column (`Schema.Fields`) compares the
    shadowed field with the owner's column and alters it on every run, and adds a missing shared column twice. -/
theorem C20_per_field_loop_counterexample :
    resolveColumns shRaw = [shInt] ∧
    columnDDL ['t'] (createdCols shReflect (resolveColumns shRaw)) (resolveColumns shRaw) = [] ∧
    columnDDL ['t'] (createdCols shReflect (resolveColumns shRaw)) (columnFields shRaw) = [.alterColumn ['t'] shTime] ∧
    addedNames (columnDDL ['t'] [] (columnFields shRaw)) = ["updated_at".toList, "updated_at".toList] := by
  decide

/-- TIE (regenerated facts): the loops of AutoMigrate and CreateTable that add / compare / declare columns range over
    `stmt.Schema.DBNames` and take the field from `stmt.Schema.FieldsByDBName[dbName]` — the list `resolveColumns` models. -/
theorem C20_column_loop_sites :
    Gen.migColumnLoops = [
      { fn := "AutoMigrate", over := "stmt.Schema.DBNames", key := "_", val := "dbName",
        fields := ["stmt.Schema.FieldsByDBName[dbName]"], calls := ["AddColumn(value, dbName)", "MigrateColumn(value, field, foundColumn)"] },
      { fn := "CreateTable", over := "stmt.Schema.DBNames", key := "_", val := "dbName",
        fields := ["stmt.Schema.FieldsByDBName[dbName]"], calls := ["FullDataTypeOf(field)"] }] := by
  decide

/-- FINDING F33 (unchanged tree): `ParseUniqueConstraints` ranges over `Schema.Fields`, so CREATE TABLE declares
    UNIQUE(col) for a `unique` tag on a field that LOST `col` to another field; the next AutoMigrate compares the owner
    (not unique) with the column (unique) and drops the constraint — a schema change on a repeated run. -/
def shA : FieldDecl := { shInt with dbName := "shared".toList }
def shB : FieldDecl := { shInt with dbName := "shared".toList, dataTypeSql := "text".toList, size := 0, unique := true }
def shURaw : List RawField := [{ decl := shA, depth := 1, perm := true }, { decl := shB, depth := 1, perm := true }]

theorem C20_shadowed_unique_counterexample :
    Gen.migConstraintRanges = [("ParseCheckConstraints", "schema.FieldsByDBName"), ("ParseUniqueConstraints", "schema.Fields")] ∧
    resolveColumns shURaw = [shA] ∧
    columnDDL ['t'] (createdColsU shReflect (declaredUnique shURaw) (resolveColumns shURaw)) (resolveColumns shURaw)
      = [.dropUnique ['t'] shA] := by
  decide

/-- … and only then: when no shadowed field adds a `unique` the owner does not carry, CREATE TABLE declares exactly the
    owners' uniqueness and the idempotence theorem above applies. -/
theorem C20_shadowed_unique_partial (reflect : FieldDecl → ColumnInfo) (u : Str → Bool) (fs : List FieldDecl)
    (h : ∀ f ∈ fs, u f.dbName = (reflect f).unique.1) : createdColsU reflect u fs = createdCols reflect fs := by
  induction fs with
  | nil => rfl
  | cons f r ih =>
    have hr := ih (fun g hg => h g (by simp [hg]))
    have hf := h f (by simp)
    cases hi : f.ignoreMigration with
    | true => simp [createdColsU, createdCols, hi, hr]
    | false => simp [createdColsU, createdCols, hi, hr, hf]

/-! ### table names -/

/-- the look-ups for CHECK, UNIQUE and belongs-to constraints use the name under which the catalogue files the table
    (`stmt.Table`), whatever the spelling of the schema's table name -/
theorem C20_constraint_lookup_table (s : Str) (k : Found)
    (hk : k = .check ∨ k = .unique ∨ ∃ r, k = .rel r ∧ r.typ = .belongsTo) : guessTable s k = catalogName s := by
  rcases hk with rfl | rfl | ⟨r, rfl, hr⟩
  · rfl
  · rfl
  · simp [guessTable, getTable, getTableArm, hr, catalogName]

/-- for a schema-qualified table `schema.table` that name is the bare `table` -/
theorem C20_constraint_lookup_qualified (a b : Str) (ha : Undotted a) (hb : Undotted b) (k : Found)
    (hk : k = .check ∨ k = .unique ∨ ∃ r, k = .rel r ∧ r.typ = .belongsTo) : guessTable (a ++ '.' :: b) k = b := by
  rw [C20_constraint_lookup_table _ k hk]
  exact stmtTable_qualified a b ha hb

/-- TIE (regenerated facts): the answers of GuessConstraintInterfaceAndTable, its getTable closure, the two places that
    split a qualified name, and the table spelling each constraint / index name is derived from -/
theorem C20_guess_table_sites :
    Gen.guessReturns = [("nil", "stmt.Table"), ("&chk", "stmt.Table"), ("&uni", "stmt.Table"), ("constraint", "getTable(rel)"),
      ("&v", "stmt.Table"), ("&v", "stmt.Table"), ("constraint", "getTable(rel)"), ("nil", "stmt.Schema.Table")] ∧
    Gen.guessGetTable = [("schema.HasOne, schema.HasMany", "rel.FieldSchema.Table"), ("schema.Many2Many", "rel.JoinTable.Table"),
      ("default", "stmt.Table")] ∧
    Gen.stmtTableSplit = [("Table", "tables := strings.Split(name, \".\"); len(tables) == 2", "tables[1]"),
      ("ParseWithSpecialTableName", "tables := strings.Split(stmt.Schema.Table, \".\"); len(tables) == 2", "tables[1]")] ∧
    Gen.constraintNameArgs = [("migrator.MigrateColumnUnique", "UniqueName", "stmt.Table"),
      ("schema.ParseCheckConstraints", "CheckerName", "schema.Table"), ("schema.ParseUniqueConstraints", "UniqueName", "schema.Table"),
      ("schema.parseFieldIndexes", "IndexName", "field.Schema.Table")] := by
  decide

/-- FINDING F32 (unchanged tree): for a has-one / has-many constraint the look-up answers with the CHILD schema's table
    name as declared — `main.kids` — while the catalogue knows `kids`: HasConstraint misses, CreateConstraint cannot
    find the table's DDL. -/
theorem C20_child_constraint_lookup_counterexample :
    guessTable "parents".toList (.rel { typ := .hasMany, fieldSchemaTable := "main.kids".toList, joinTable := [] }) = "main.kids".toList ∧
    catalogName "main.kids".toList = "kids".toList := by
  decide

theorem C20_child_constraint_lookup_partial (s : Str) (r : RelTables) (hr : r.typ = .hasOne ∨ r.typ = .hasMany)
    (hu : Undotted r.fieldSchemaTable) : guessTable s (.rel r) = catalogName r.fieldSchemaTable := by
  rcases hr with hr | hr <;> simp [guessTable, getTable, getTableArm, hr, catalogName, stmtTable_undotted _ hu]

/-- FINDING F31 (unchanged tree): a `unique` added to an existing column of a schema-qualified table.  MigrateColumnUnique
    names the constraint after `stmt.Table`, the schema's parser after `schema.Table`: the name is not found, the
    fall-through answers with the qualified table name. -/
theorem C20_added_unique_qualified_counterexample :
    migrateUniqueFound "main.items".toList ['a'] = .none ∧
    guessTable "main.items".toList (migrateUniqueFound "main.items".toList ['a']) = "main.items".toList ∧
    catalogName "main.items".toList = "items".toList := by
  decide

theorem C20_added_unique_partial (s col : Str) (h : Undotted s) :
    guessTable s (migrateUniqueFound s col) = catalogName s := by
  simp [migrateUniqueFound, stmtTable_undotted s h, guessTable, catalogName]

/-- FINDING F34 (unchanged tree, SQLite): a numeric Go kind whose `type:` tag carries a digit group — `int(11)`,
    `decimal(10,2)`, `bigint(20)`.  Field.Size is the Go bit size (64), the dialect reports the digit group as the column
    length (11): "check size" alters the column on every run. -/
def int11 : FieldDecl := { shInt with dbName := ['a'], dataTypeSql := "int(11)".toList }
def int11Report : ColumnInfo :=
  { typeName := "int".toList, aliases := [], length := (11, true), decimal := (0, false), nullable := (true, true),
    dflt := ([], false), comment := ([], false), unique := (false, true) }

theorem C20_numeric_type_digit_group_counterexample : migrateColumn int11 int11Report = [.alter] := by decide

/-- … and only through the size comparison: a report whose length is acceptable (`LenOk`: the declared size, or not
    comparable) never triggers "check size" -/
theorem C20_numeric_type_digit_group_partial (f : FieldDecl) (ci : ColumnInfo) (h : Agrees f ci) : sizeAlter f ci = false :=
  sizeAlter_agrees h

example : Undotted "main".toList ∧ Undotted "items".toList := by unfold Undotted; decide
example : stmtTable ("main".toList ++ '.' :: "items".toList) = "items".toList := by decide
example : resolveColumns shRaw ≠ columnFields shRaw := by decide

/-! ### round 5 — WHO decides that a column is missing: the exact column list, and nothing between decision and ALTER -/

/-- "only adds what is missing", column by column: AutoMigrate's column loop issues ADD COLUMN for a name IFF a non-ignored
    field of that name is declared and the name is NOT in the exact list `ColumnTypes` reported.  (Whether the name occurs
    elsewhere in the table's DDL text — inside a longer name, a check expression, a referenced column — is irrelevant.) -/
theorem C20_column_added_iff_not_listed (t : Str) (cols : List (Str × ColumnInfo)) (fs : List FieldDecl) (n : Str) :
    n ∈ addedNames (columnDDL t cols fs) ↔ ∃ f ∈ fs, f.dbName = n ∧ f.ignoreMigration = false ∧ n ∉ listed cols :=
  mem_addedNames_columnDDL t cols fs n

theorem addedNames_map_createConstraint (t : Str) (ns : List Str) : addedNames (ns.map (DDL.createConstraint t)) = [] := by
  induction ns with
  | nil => rfl
  | cons n ns ih => simpa [addedNames] using ih

theorem addedNames_map_createIndex (t : Str) (ns : List Str) : addedNames (ns.map (DDL.createIndex t)) = [] := by
  induction ns with
  | nil => rfl
  | cons n ns ih => simpa [addedNames] using ih

/-- one AutoMigrate iteration never issues ADD COLUMN for a column the table already lists -/
theorem C20_only_missing_columns_added (m : ModelDecl) (c : Catalog) (n : Str) (hn : n ∈ addedNames (autoMigrateOne m c)) :
    n ∉ tableCols c m.table := by
  unfold autoMigrateOne at hn
  unfold tableCols
  cases hl : lookup m.table c with
  | none => simp
  | some ts =>
    rw [hl] at hn
    simp only [addedNames_append, addedNames_map_createConstraint, addedNames_map_createIndex, List.append_nil] at hn
    obtain ⟨_, _, _, _, hnot⟩ := (mem_addedNames_columnDDL m.table ts.cols m.fields n).mp hn
    exact hnot

/-- "… the migrated table accepts records of the new model": after one AutoMigrate iteration EVERY non-ignored field of
    the model has its column in the table (whatever the catalog looked like before) -/
theorem C20_columns_complete_after_migrate (reflect : FieldDecl → ColumnInfo) (m : ModelDecl) (c : Catalog) (f : FieldDecl)
    (hf : f ∈ m.fields) (hi : f.ignoreMigration = false) :
    f.dbName ∈ tableCols (applyAll reflect (autoMigrateOne m c) c) m.table :=
  columns_complete_after reflect m c f hf hi

/-- … and every column the table had is still there -/
theorem C20_columns_kept_after_migrate (reflect : FieldDecl → ColumnInfo) (m : ModelDecl) (c : Catalog) (n : Str)
    (hn : n ∈ tableCols c m.table) : n ∈ tableCols (applyAll reflect (autoMigrateOne m c) c) m.table :=
  columns_kept_after reflect m c n hn

/-- a second opinion consulted before the ALTER is harmless exactly as far as it is SOUND for the exact list … -/
theorem C20_sound_guard_harmless (has : Str → Bool) (t : Str) (cols : List (Str × ColumnInfo)) (fs : List FieldDecl)
    (h : SoundFor has cols) : columnDDLGuarded has t cols fs = columnDDL t cols fs :=
  columnDDLGuarded_of_sound has t cols fs h

/-- … in general the guarded loop adds a column iff the list lacks it AND the second opinion does not claim it -/
theorem C20_guarded_add_iff (has : Str → Bool) (t : Str) (cols : List (Str × ColumnInfo)) (fs : List FieldDecl) (n : Str) :
    n ∈ addedNames (columnDDLGuarded has t cols fs) ↔
      ∃ f ∈ fs, f.dbName = n ∧ f.ignoreMigration = false ∧ n ∉ listed cols ∧ has n = false :=
  mem_addedNames_columnDDLGuarded has t cols fs n

def tmInfo : ColumnInfo :=
  { typeName := "real".toList, aliases := [], length := (0, false), decimal := (0, false), nullable := (true, true),
    dflt := ([], false), comment := ([], false), unique := (false, true) }
def tmSql : Str :=
  "CREATE TABLE `products` (`id` integer PRIMARY KEY AUTOINCREMENT,`unit_price` real,`vendor_code` text,CONSTRAINT `fk_products_vendor` FOREIGN KEY (`vendor_code`) REFERENCES `vendors`(`code`),CONSTRAINT `chk_products_unit_price` CHECK (unit_price >= 0))".toList
def tmCols : List (Str × ColumnInfo) := [("id".toList, tmInfo), ("unit_price".toList, tmInfo), ("vendor_code".toList, tmInfo)]
def tmField (n : String) : FieldDecl := { shInt with dbName := n.toList }

set_option maxRecDepth 40000 in
/-- WHY nothing may overrule the exact list: the SQLite dialector's HasColumn is a text match on the CREATE TABLE
    statement.  It claims `price` (inside `unit_price >= 0`), `code` (the referenced column of the foreign key) and `key`
    (a keyword) although the exact list has none of them; the loop adds all three, a loop guarded by that predicate adds
    none — the new model's records would be rejected.  (`note` occurs nowhere: both agree.) -/
theorem C20_text_match_guard_counterexample :
    textHasColumn tmSql "price".toList = true ∧ textHasColumn tmSql "code".toList = true ∧ textHasColumn tmSql "key".toList = true ∧
    textHasColumn tmSql "note".toList = false ∧
    "price".toList ∉ listed tmCols ∧ "code".toList ∉ listed tmCols ∧ "key".toList ∉ listed tmCols ∧
    addedNames (columnDDL ['t'] tmCols [tmField "price", tmField "code", tmField "key", tmField "note"])
      = ["price".toList, "code".toList, "key".toList, "note".toList] ∧
    addedNames (columnDDLGuarded (textHasColumn tmSql) ['t'] tmCols [tmField "price", tmField "code", tmField "key", tmField "note"])
      = ["note".toList] := by
  decide

example : SoundFor (fun n => decide (n ∈ listed tmCols)) tmCols := by intro n h; simpa using h
example : ¬ SoundFor (textHasColumn tmSql) tmCols := by
  intro h
  exact C20_text_match_guard_counterexample.2.2.2.2.1 (h "price".toList C20_text_match_guard_counterexample.1)

/-- TIE (regenerated facts).  (1) In package migrator only AutoMigrate asks the catalogue anything (HasTable, ColumnTypes
    once per model BEFORE the column loop, HasConstraint twice, HasIndex): AddColumn, AlterColumn, MigrateColumn,
    MigrateColumnUnique, CreateIndex, CreateConstraint consult no `Has…` predicate, so nothing can overrule the decision
    between the loop and the statement.  (2) The decision is the exact comparison `columnType.Name() == dbName` and
    `foundColumn == nil` guards AddColumn, its else-branch MigrateColumn.  (3) The bodies that issue the statements have
    exactly these guards (AddColumn: schema / field look-up / IgnoreMigration) and statement texts. -/
theorem C20_add_decision_sites :
    Gen.migCatalogReads = [
      ("AutoMigrate", ["queryTx.Migrator().HasTable(value)", "queryTx.Migrator().ColumnTypes(value)",
        "queryTx.Migrator().HasConstraint(value, constraint.Name)", "queryTx.Migrator().HasConstraint(value, chk.Name)",
        "queryTx.Migrator().HasIndex(value, idx.Name)"]),
      ("ColumnTypes", ["rows.ColumnTypes()"])] ∧
    Gen.migAddDecision = [
      ("columnType.Name() == dbName", [], []),
      ("foundColumn == nil", ["AddColumn(value, dbName)"], ["MigrateColumn(value, field, foundColumn)"]),
      ("err = execTx.Migrator().AddColumn(value, dbName); err != nil", [], []),
      ("err = execTx.Migrator().MigrateColumn(value, field, foundColumn); err != nil", [], [])] ∧
    Gen.migFoundColumn = ["var gorm.ColumnType", "columnType"] ∧
    Gen.migExecBodies = [
      ("AddColumn", ["stmt.Schema == nil", "f == nil", "!f.IgnoreMigration"], ["\"ALTER TABLE ? ADD ? ?\""]),
      ("AlterColumn", ["stmt.Schema != nil", "field := stmt.Schema.LookUpField(field); field != nil"],
        ["\"ALTER TABLE ? ALTER COLUMN ? TYPE ?\""]),
      ("MigrateColumnUnique", ["!ok || field.PrimaryKey", "unique && !field.Unique", "!unique && field.Unique"], []),
      ("CreateConstraint", ["constraint != nil", "stmt.TableExpr != nil"], ["\"ALTER TABLE ? ADD \" + sql"]),
      ("CreateIndex", ["stmt.Schema == nil", "idx := stmt.Schema.LookIndex(name); idx != nil", "idx.Class != \"\"",
        "idx.Type != \"\"", "idx.Comment != \"\"", "idx.Option != \"\""], ["createIndexSQL"])] := by
  decide


end Gorm.Mig
