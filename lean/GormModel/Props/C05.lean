/-
  C05 — each single write is all-or-nothing.  Theorems over the REGENERATED pipeline / handler
  tables (callbacks/callbacks.go and the handler bodies) and the executable semantics in Model/Exec.lean.
-/
import GormModel.Model.Exec
import GormModel.Lemmas.Exec
import GormModel.Gen.Pipelines
import GormModel.Gen.Sessions
import GormModel.Gen.Misc
import GormModel.Gen.TxFacts
import GormModel.Lemmas.TxFault
import GormModel.Gen.StageSinks
import GormModel.Lemmas.Stages
import GormModel.Gen.EnclFacts
import GormModel.Gen.UpsertKeyFacts
namespace Gorm
open Gen

def writePipelines : List String := ["create", "update", "delete"]

/-- In each write pipeline `gorm:begin_transaction` is registered first and
    `gorm:commit_or_rollback_transaction` last, both under `Match(enableTransaction)`, each exactly once. -/
theorem C05_shape :
    ∀ p ∈ pipelines, p.1 ∈ writePipelines →
      (p.2.head?.map (fun r => (r.name, r.handler, r.matchGuard)) =
          some ("gorm:begin_transaction", "BeginTransaction", "enableTransaction")) ∧
      (p.2.getLast?.map (fun r => (r.name, r.handler, r.matchGuard)) =
          some ("gorm:commit_or_rollback_transaction", "CommitOrRollbackTransaction", "enableTransaction")) ∧
      (p.2.filter (fun r => r.handler = "BeginTransaction" || r.handler = "CommitOrRollbackTransaction")).length = 2 ∧
      (∀ r ∈ p.2, r.op = "Register" ∧ r.before = "" ∧ r.after = "") := by
  decide

/-- the guard discipline of the regenerated handler table: every statement-sending call and the Commit
    are dominated by `db.Error == nil`; Rollback is dominated by `db.Error != nil` -/
theorem C05_guarded : GuardedTable handlers := by
  unfold GuardedTable; decide

theorem C05_rollback_on_error :
    ∀ h ∈ handlers, ∀ c ∈ h.calls, c.kind = "tx" → c.what = "Rollback" → "db.Error != nil" ∈ c.guards := by
  decide

/-- every step between BEGIN and COMMIT that does work on the database -- running hooks, saving or
    deleting associations, building and checking the statement -- is skipped once an error is recorded -/
theorem C05_work_guarded :
    ∀ h ∈ handlers, ∀ c ∈ h.calls,
      (c.kind = "callMethod" ∨ c.kind = "nested" ∨ c.kind = "checkMissingWhere" ∨ c.kind = "build"
        ∨ (c.kind = "session" ∧ h.name ≠ "AfterQuery")) →
      "db.Error == nil" ∈ c.guards := by
  decide

/-- nested operations (association upserts, join rows, association deletes) are started from
    `db.Session(&gorm.Session{NewDB: true…})` of the operation's own handle: the statement's ConnPool --
    the transaction -- is inherited (C18_copy_facts), and no such session literal switches
    SkipDefaultTransaction or DryRun on by itself -/
theorem C05_nested_sessions :
    ∀ u ∈ sessionUses, u.file = "callbacks/associations.go" ∨ u.file = "callbacks/delete.go" →
      (u.recv = "db" ∨ u.recv = "db.Session(&gorm.Session{NewDB: true}).Clauses(clause.OnConflict{DoNothing: true})"
        ∨ u.recv = "db.Session(&gorm.Session{NewDB: true}).Clauses(onConflict)") ∧
      (∀ f ∈ u.fields, f.1 ≠ "Context" ∧ f.1 ≠ "DryRun" ∧ f.1 ≠ "SkipDefaultTransaction") := by
  decide

/-- `AddError` never turns a recorded error back into nil (error stickiness) -/
theorem C05_error_sticky (cur : Option String) (err : Option String) (h : cur ≠ none) :
    addError cur err ≠ none := by
  cases cur with
  | none => exact absurd rfl h
  | some c => cases err <;> simp [addError]

set_option maxRecDepth 8192 in
/-- the Go source of AddError is the one `addError` transcribes (regenerated text compared literally) -/
theorem C05_addError_src :
    addErrorSrc = "{ if err != nil { if db.Config.TranslateError { if errTranslator, ok := db.Dialector.(ErrorTranslator); ok { err = errTranslator.Translate(err) } } if db.Error == nil { db.Error = err } else { db.Error = fmt.Errorf(\"%v; %w\", db.Error, err) } } return db.Error }" := by
  decide

/-- MAIN: for every write pipeline, every valuation `env` of the conditions the model does not
    interpret, every initial state without error and EVERY fault position `k`: after the failing
    statement no further statement is sent and no COMMIT is issued, and the error flag is set at the
    end (so `CommitOrRollbackTransaction` takes its Rollback branch: `C05_rollback_on_error`). -/
theorem C05_fault_stops_writes (p : String × List CbReg) (hp : p ∈ pipelines)
    (env : String → Bool) (k : Nat) (st0 : RunSt) :
    let out := execPipeline handlers env k p.2 { st := st0, evs := [] }
    out.post.all Ev.harmless = true ∧ (out.faulted = true → out.st.err = true) := by
  intro out
  have h := execPipeline_inv handlers env k p.2 { st := st0, evs := [] } C05_guarded
    ⟨by simp, by simp⟩
  exact ⟨h.2, h.1⟩

/-- non-vacuity: in the create pipeline a fault at event 1 (the INSERT) really is injected, is followed
    by a Rollback and by nothing else -/
example :
    let out := execPipeline handlers (fun _ => true) 1
      ((pipelines.find? (fun p => p.1 = "create")).get!.2)
      { st := { dryRun := false, skipDefaultTx := false, err := false, skipHooks := false, hasSchema := true }, evs := [] }
    out.faulted = true ∧ out.post.map (·.what) = ["Rollback"] := by
  decide

/-! ### the failure is REPORTED: error values are never inspected, cleared or dropped on the way to `db.Error` -/

/-- no code in the root or callbacks package sets an `.Error` field back to nil, except BeginTransaction
    discarding the error of the throw-away handle returned by `db.Begin()` -/
theorem C05_error_never_cleared :
    ∀ w ∈ errorWrites, w.2.2.2 = "nil" →
      w = ("callbacks/transaction.go", "BeginTransaction", "tx.Error", "nil") := by
  decide

/-- `.Error` is assigned directly only by AddError itself and by four places that store a freshly produced
    error; in particular neither the transaction finisher nor Commit/Rollback nor a write handler does -/
theorem C05_error_writers :
    ∀ w ∈ errorWrites, w.2.1 ∈ ["DB.AddError", "DB.FirstOrCreate", "DB.Rows", "RowQuery", "BeginTransaction"] := by
  decide

/-- the only places that look at WHICH error they hold: schema parsing (`ErrUnsupportedDataType`), the prepared
    statement cache eviction (`driver.ErrBadConn`, the error is still returned: C14) and BeginTransaction
    recognising "already inside a transaction".  No commit, rollback, statement or hook error is special-cased. -/
theorem C05_no_error_value_special_casing :
    ∀ t ∈ errValueTests,
      (t.2.2 = "errors.Is(err, schema.ErrUnsupportedDataType)" ∧ (t.2.1 = "processor.Execute" ∨ t.2.1 = "DB.ScanRows")) ∨
      (t.2.2 = "errors.Is(err, driver.ErrBadConn)" ∧ t.1 = "prepare_stmt.go") ∨
      t = ("callbacks/transaction.go", "BeginTransaction", "tx.Error == gorm.ErrInvalidTransaction") := by
  decide

/-- `DB.Commit` / `DB.Rollback` hand the pool's result to AddError directly (`db.AddError(committer.Commit())`),
    under conditions about the pool only; `DB.Begin` hands over every non-nil BeginTx error.  The only latitude: the
    `ErrInvalidTransaction` of gorm's own (no pool result) raised when the statement's pool is no TxCommitter may be
    limited to handles that are not in DryRun mode (`else if !db.DryRun`, repair of F25-C19) -/
theorem C05_tx_errors_to_addError :
    ∃ inv : List String, (inv = [] ∨ inv = ["!db.DryRun"]) ∧
    txFuncs.map (fun h => (h.name, (h.calls.filter (fun c => c.kind = "adderror")).map
        (fun c => (c.what, c.guards.filter (· ≠ "tx.Error == nil"))))) =
      [ ("DB.Begin", [("err", ["err != nil"])]),
        ("DB.Commit", [("committer.Commit()", ["ok", "committer != nil", "!reflect.ValueOf(committer).IsNil()"]),
                       ("ErrInvalidTransaction", inv)]),
        ("DB.Rollback", [("committer.Rollback()", ["ok", "committer != nil", "!reflect.ValueOf(committer).IsNil()"]),
                         ("ErrInvalidTransaction", inv)]) ] := by
  first
    | exact ⟨[], Or.inl rfl, by decide⟩
    | exact ⟨["!db.DryRun"], Or.inr rfl, by decide⟩

set_option maxRecDepth 8192 in
/-- the sources `TxF.beginTransaction` / `TxF.commitOrRollback` transcribe (regenerated text compared literally):
    after `db.Commit()` / `db.Rollback()` nothing but the pool reset follows -/
theorem C05_tx_callbacks_src :
    beginTransactionSrc = "{ if !db.Config.SkipDefaultTransaction && db.Error == nil { if tx := db.Begin(); tx.Error == nil { db.Statement.ConnPool = tx.Statement.ConnPool db.InstanceSet(\"gorm:started_transaction\", true) } else if tx.Error == gorm.ErrInvalidTransaction { tx.Error = nil } else { db.Error = tx.Error } } }" ∧
    commitOrRollbackSrc = "{ if !db.Config.SkipDefaultTransaction { if _, ok := db.InstanceGet(\"gorm:started_transaction\"); ok { if db.Error != nil { db.Rollback() } else { db.Commit() } db.Statement.ConnPool = db.ConnPool } } }" := by
  constructor <;> decide

/-- every statement-sending call of the write / query / raw handlers is immediately followed by `AddError(err)`
    under the same conditions (at most narrowed by `err != nil`) -/
theorem C05_statement_error_sinks :
    ∀ h ∈ handlers, h.name ∈ ["Create", "Update", "Delete", "Query", "RawExec"] → TxF.sinkOK h.calls = true := by
  decide

/-! ### the implicit transaction over error values (Model/TxFault.lean, tied by suites tx-callbacks / tx-trace) -/

open TxF in
/-- a failing COMMIT is reported, whatever value it fails with -/
theorem C05_commit_failure_reported (s : St) (e : String) (r : Option String)
    (hs : s.started = true) (he : s.err = none) :
    (commitOrRollback false s (some e) r).err = some e ∧
    (commitOrRollback false s (some e) r).log = s.log ++ ["C!"] := by
  simp [commitOrRollback, hs, he, addError]

open TxF in
/-- a failing BEGIN is reported and starts nothing (any value but gorm's own "already in a transaction" sentinel) -/
theorem C05_begin_failure_reported (s : St) (e : String) (he : s.err = none) :
    (beginTransaction false s (.fail e)).err = some e ∧ (beginTransaction false s (.fail e)).started = false
      ∨ s.started = true := by
  cases hst : s.started with
  | true => exact Or.inr rfl
  | false => left; simp [beginTransaction, he, beginErr, hst]

open TxF in
/-- MAIN (values): whichever of BEGIN, a statement or the COMMIT fails, with whatever error value, the
    operation ends with an error; and an operation that ends with an error has not committed -/
theorem C05_failure_reported (b : BeginRes) (es : List (Option String)) (c r : Option String) :
    ((∃ e, b = .fail e) ∨ (b = .ok ∧ (es.any Option.isSome = true ∨ c.isSome = true)) →
        (runWrite false b es c r).err ≠ none) ∧
    ((runWrite false b es c r).err ≠ none → "C" ∉ (runWrite false b es c r).log) := by
  constructor
  · rintro (⟨e, rfl⟩ | ⟨rfl, hf⟩)
    · -- BEGIN failed
      have h1 : (beginTransaction false St.init (.fail e)).err ≠ none := by
        simp [beginTransaction, St.init, beginErr]
      exact finish_sticky _ _ _ _ (stmts_err_sticky _ es h1)
    · -- BEGIN ok
      have hstarted : (stmts (beginTransaction false St.init .ok) es).started = true := by
        rw [(stmts_frame _ es).1, begin_ok]
      apply finish_reports _ _ _ hstarted
      rcases hf with hf | hf
      · exact Or.inl (stmts_reports _ es hf)
      · right; cases c with
        | none => simp at hf
        | some x => simp
  · -- an error at the end => no successful COMMIT in the trace
    intro herr
    exact finish_noC _ _ _ (stmts_noC _ es (begin_inv b).2.2) herr

open TxF in
/-- the implicit transaction is always finished: whatever fails, no transaction opened by the operation stays
    open and the statement is back on the base pool -/
theorem C05_always_finished (b : BeginRes) (es : List (Option String)) (c r : Option String) :
    (runWrite false b es c r).openTx = 0 ∧ (runWrite false b es c r).onTx = false := by
  have hfr := stmts_frame (beginTransaction false St.init b) es
  have hb := begin_inv b
  apply finish_finished
  · intro h; rw [hfr.2.2]; exact hb.1 (hfr.1 ▸ h)
  · intro h; rw [hfr.2.2, hfr.2.1]; exact hb.2.1 (hfr.1 ▸ h)

open TxF in
/-- without a failure the operation applies completely: BEGIN, every statement in order, COMMIT, no error -/
theorem C05_no_failure_applies (es : List (Option String)) (r : Option String)
    (h : es.all Option.isNone = true) :
    runWrite false .ok es none r =
      { err := none, started := true, onTx := false, openTx := 0,
        log := ["B"] ++ List.replicate es.length "S" ++ ["C"] } := by
  have hb : beginTransaction false St.init .ok =
      { St.init with started := true, onTx := true, openTx := 1, log := ["B"] } := by
    simp [beginTransaction, St.init, beginErr]
  unfold runWrite
  rw [hb, stmts_all_ok _ es (by simp [St.init]) h]
  simp [commitOrRollback, St.init, addError]

/-- non-vacuity: a COMMIT failing with the text of sql.ErrTxDone after two statements -/
example :
    (TxF.runWrite false .ok [none, none] (some "sql: transaction has already been committed or rolled back") none).err
      = some "sql: transaction has already been committed or rolled back" ∧
    (TxF.runWrite false .ok [none, none] (some "x") none).log = ["B", "S", "S", "C!"] ∧
    (TxF.runWrite false .ok [none, some "boom", none] none none).log = ["B", "S", "S!", "R"] := by
  decide

/-! ### the stages of one statement: rows.Err() / rows.Close() / Result (Gen/StageSinks.lean, Model/Stages.lean) -/

/-- conditions that may dominate a `rows.Err()` / `rows.Close()` call: "the operation is still running and the
    statement was sent on the query path" – nothing about the scan mode, the conflict clause or any other flag -/
def stageCallGuards : List String :=
  ["db.Error == nil", "!db.DryRun", "ok", "err == nil", "db.AddError(err) == nil", "!rows.Next()"]

/-- every `rows.Err()` and every `rows.Close()` in scan.go, finisher_api.go and callbacks/*.go hands its error to
    `AddError`; between the call and `AddError` stands at most `err != nil` and the "same value already reported"
    test `err != db.Error`; the call itself is dominated only by `stageCallGuards`.  (A statement with RETURNING
    that the database refuses while it is stepped reaches gorm ONLY through these calls.) -/
theorem C05_stage_errors_reach_addError :
    ∀ s ∈ stageSinks, s.2.2.1 ∈ ["rows.Err()", "rows.Close()"] →
      s.2.2.2.2.1 = "adderror" ∧
      (∀ g ∈ s.2.2.2.2.2, g ∈ ["err != nil", "err != db.Error"]) ∧
      (∀ g ∈ s.2.2.2.1, g ∈ stageCallGuards) := by
  decide

/-- the calls exist: `Scan` consults `rows.Err()` unconditionally (no dominating condition at all), and each of the
    Create / Update / Delete / Query handlers closes its rows through `AddError` -/
theorem C05_stage_sites_present :
    ("scan.go", "Scan", "rows.Err()", ([] : List String), "adderror", ["err != nil", "err != db.Error"]) ∈ stageSinks ∧
    ∀ h ∈ ["Create", "Update", "Delete", "Query"],
      (stageSinks.any fun s => s.2.1 = h ∧ s.2.2.1 = "rows.Close()" ∧ s.2.2.2.2.1 = "adderror") = true := by
  decide

/-- `Result.RowsAffected()` / `Result.LastInsertId()` are consulted only after the error of the `ExecContext` call
    itself was looked at (`err == nil` / `db.AddError(err) == nil` dominates the call): a failing Exec can never be
    mistaken for "0 rows".  (What the unchanged code does with the errors of these two calls – RowsAffected's is
    discarded, LastInsertId's is reported only by dialects without RETURNING – is `Stg.execStmt`.) -/
theorem C05_result_stages_after_call_check :
    ∀ s ∈ stageSinks, s.2.2.1 ∈ ["result.RowsAffected()", "result.LastInsertId()"] →
      ("err == nil" ∈ s.2.2.2.1 ∨ "db.AddError(err) == nil" ∈ s.2.2.2.1) ∧
      (s.2.2.2.2.1 = "discarded" ∨ s.2.2.2.2.1 = "adderror") := by
  decide

set_option maxRecDepth 8192 in
/-- the source `Stg.scanTail` transcribes (regenerated text compared literally) -/
theorem C05_scan_tail_src :
    scanSrcTail = "if err := rows.Err(); err != nil && err != db.Error { db.AddError(err) } ;; if db.RowsAffected == 0 && db.Statement.RaiseErrorOnNotFound && db.Error == nil { db.AddError(ErrRecordNotFound) }" := by
  decide

open Stg in
/-- whichever stage of a statement on the query path fails – the call, reading a row, `rows.Err()` after the rows,
    `rows.Close()` – and whatever the scan mode (ScanInitialized / ScanUpdate / ScanOnConflictDoNothing, any
    combination), the statement contributes an error to the operation -/
theorem C05_stage_failure_reported (mode : ScanMode) (q : QueryRes)
    (h : q.callErr.isSome = true ∨ q.loopErr.isSome = true ∨ q.rowsErr.isSome = true ∨ q.closeErr.isSome = true) :
    queryStmt mode none q ≠ none :=
  queryStmt_reports mode q h

open Stg in
/-- a failure that appears only in `rows.Err()` (nothing else went wrong) is reported with exactly its value -/
theorem C05_rows_err_value (mode : ScanMode) (e : String) (same : Bool) :
    queryStmt mode none { callErr := none, loopErr := none, rowsErr := some e, sameAsCur := same, closeErr := none } = some e := by
  cases same <;> rfl

open Stg in
/-- the scan mode never decides what happens to an error -/
theorem C05_stage_mode_irrelevant (m₁ m₂ : ScanMode) (cur : Option String) (q : QueryRes) :
    queryStmt m₁ cur q = queryStmt m₂ cur q := rfl

open Stg in
/-- the exec path: a failing `ExecContext` is reported with its value; the errors of the two Result calls are what
    the unchanged code makes of them (RowsAffected: discarded and read as 0 rows; LastInsertId: reported only without
    RETURNING support) – the statement itself has been executed and answered in those cases -/
theorem C05_exec_stage_outcomes (isCreate sr : Bool) (x : ExecRes) (e : String) :
    (x.callErr = some e → execStmt isCreate sr none x = some e) ∧
    (x.callErr = none → x.rowsAffErr = some e → execStmt isCreate sr none x = none) ∧
    (x.callErr = none → x.rowsAffErr = none → x.affected ≠ 0 → x.lastIdErr = some e →
        execStmt true false none x = some e ∧ execStmt true true none x = none) := by
  refine ⟨?_, ?_, ?_⟩
  · intro h; simp [execStmt, h, addError]
  · intro h1 h2; cases isCreate <;> simp [execStmt, h1, h2]
  · intro h1 h2 h3 h4
    have h3' : (x.affected == 0) = false := by simpa using h3
    simp [execStmt, h1, h2, h3', h4, addError]

open TxF Stg in
/-- MAIN (stages): a write operation whose statements are described stage by stage – if the database or the driver
    fails ANY statement at the call or while its rows are read (`rows.Err()`), under any scan mode, the operation
    ends with an error and without a successful COMMIT, and its transaction is finished -/
theorem C05_staged_failure_reported (qs : List (ScanMode × QueryRes)) (c r : Option String)
    (h : qs.any (fun p => p.2.failed) = true) :
    let res := runWrite false .ok (qs.map (fun p => stmtErr p.1 p.2)) c r
    res.err ≠ none ∧ "C" ∉ res.log ∧ res.openTx = 0 := by
  have hf := C05_failure_reported .ok (qs.map (fun p => stmtErr p.1 p.2)) c r
  have hany := any_failed_any_isSome qs h
  have herr := hf.1 (Or.inr ⟨rfl, Or.inl hany⟩)
  exact ⟨herr, hf.2 herr, (C05_always_finished .ok _ c r).1⟩

/-- non-vacuity: an `INSERT … ON CONFLICT DO NOTHING RETURNING` (mode 4) refused while its first row is fetched,
    between two statements that succeed -/
example :
    (TxF.runWrite false .ok
      ([(0, ⟨none, none, none, false, none⟩), (4, ⟨none, none, some "CHECK constraint failed", false, none⟩),
        (0, ⟨none, none, none, false, none⟩)].map (fun p => Stg.stmtErr p.1 p.2)) none none).log = ["B", "S", "S!", "R"] := by
  decide

/-! ### WHERE the write runs: the enclosing context (Gen/EnclFacts.lean, Model/Stages.lean `Ctx` … `createFin`) -/

/-- the wrapping decision of `CreateInBatches`: exactly ONE `if` hands `callFc` on, the wrapper is skipped under
    `tx.SkipDefaultTransaction || reflectLen <= batchSize` and under nothing else (in particular not because the
    handle is already inside a transaction), and the other branch is `tx.Transaction(callFc)`;
    `Create` delegates to `CreateInBatches` exactly when `CreateBatchSize > 0` -/
theorem C05_batch_wrap_decision :
    cibWrapDecision = [("tx.SkipDefaultTransaction || reflectLen <= batchSize",
        ["callFc(tx.Session(&Session{}))"], ["tx.Transaction(callFc)"])] ∧
    createDelegation = [(["db.CreateBatchSize > 0"], "db.CreateInBatches(value, db.CreateBatchSize)")] ∧
    cibBatchCalls.map (·.1) = ["tx.getInstance()", "reflectValue.Slice(i, ends).Interface()",
        "reflectValue.Slice(i, ends)", "subtx.callbacks.Create().Execute(subtx)"] := by
  decide

/-- `Transaction`: SAVEPOINT under "pool is a TxCommitter" and `!db.DisableNestedTransaction` only; the block runs in
    both branches; BEGIN otherwise, COMMIT only when the block returned nil -/
theorem C05_tx_block_calls :
    txBlockCalls =
      [ ("db.SavePoint", ["ok", "committer != nil", "!db.DisableNestedTransaction"], false),
        ("db.RollbackTo", [], true),
        ("fc", ["ok", "committer != nil"], false),
        ("db.Begin", [], false),
        ("tx.Rollback", [], true),
        ("fc", ["tx.Error == nil"], false),
        ("tx.Commit", ["tx.Error == nil", "err == nil"], false) ] := by
  decide

/-- the sources `Stg.createInBatches` / `Stg.createFin` / `Stg.blockWrap` + `Stg.under` transcribe (regenerated text
    compared literally) -/
theorem C05_batch_sources :
    createInBatchesSrc = "{ reflectValue := reflect.Indirect(reflect.ValueOf(value)) switch reflectValue.Kind() { case reflect.Slice, reflect.Array: var rowsAffected int64 tx = db.getInstance() reflectLen := reflectValue.Len() callFc := func(tx *DB) error { for i := 0; i < reflectLen; i += batchSize { ends := i + batchSize if ends > reflectLen { ends = reflectLen } subtx := tx.getInstance() subtx.Statement.Dest = reflectValue.Slice(i, ends).Interface() subtx.callbacks.Create().Execute(subtx) if subtx.Error != nil { return subtx.Error } rowsAffected += subtx.RowsAffected } return nil } if tx.SkipDefaultTransaction || reflectLen <= batchSize { tx.AddError(callFc(tx.Session(&Session{}))) } else { tx.AddError(tx.Transaction(callFc)) } tx.RowsAffected = rowsAffected default: tx = db.getInstance() tx.Statement.Dest = value tx = tx.callbacks.Create().Execute(tx) } return }" ∧
    createFinisherSrc = "{ if db.CreateBatchSize > 0 { return db.CreateInBatches(value, db.CreateBatchSize) } tx = db.getInstance() tx.Statement.Dest = value return tx.callbacks.Create().Execute(tx) }" ∧
    transactionSrc = "{ panicked := true if committer, ok := db.Statement.ConnPool.(TxCommitter); ok && committer != nil { if !db.DisableNestedTransaction { spID := new(maphash.Hash).Sum64() err = db.SavePoint(fmt.Sprintf(\"sp%d\", spID)).Error if err != nil { return } defer func() { if panicked || err != nil { db.RollbackTo(fmt.Sprintf(\"sp%d\", spID)) } }() } err = fc(db.Session(&Session{NewDB: db.clone == 1})) } else { tx := db.Begin(opts...) if tx.Error != nil { return tx.Error } defer func() { if panicked || err != nil { tx.Rollback() } }() if err = fc(tx); err == nil { panicked = false return tx.Commit().Error } } panicked = false return }" := by
  refine ⟨?_, ?_, ?_⟩ <;> rfl

open Stg in
/-- MAIN (enclosing context): a CreateInBatches / Create-with-batch-size of several batches that ends with an error
    leaves the view of the ENCLOSING transaction (at top level: the database) exactly as it was before the write –
    whatever the earlier batches wrote, whichever statement of whichever batch failed, even if the failing statement
    took effect before it was reported – in every context in which a wrapper is available: default transaction on,
    and inside a caller's transaction SAVEPOINTs not disabled.  Everything the enclosing transaction did before
    (`v.rows`) is kept. -/
theorem C05_enclosed_batches_failed_unchanged (c : Ctx) (len batch : Nat) (v : View) (bs : List (List W))
    (hs : c.skipDefault = false) (hb : batch < len) (hn : c.inTx = true → c.disableNested = false)
    (he : (createInBatches c len batch v bs).err ≠ none) :
    (createInBatches c len batch v bs).rows = v.rows := by
  have hcond : (c.skipDefault || decide (len ≤ batch)) = false := by
    simp [hs, Nat.not_le.mpr hb]
  unfold createInBatches at he ⊢
  simp only [hcond, Bool.false_eq_true, if_false] at he ⊢
  exact under_protected _ _ _ (blockWrap_ne_none c hn) he

open Stg in
/-- a single pipeline run (Create / Save / Update / Delete with its association statements and hooks) at top level –
    plain handle, `db.Connection` handle, PrepareStmt handle: every pool that can begin – that ends with an error
    leaves the database as it was -/
theorem C05_enclosed_toplevel_write_failed_unchanged (c : Ctx) (v : View) (ws : List W)
    (hs : c.skipDefault = false) (ht : c.inTx = false)
    (he : (pipeline c v ws).err ≠ none) : (pipeline c v ws).rows = v.rows := by
  unfold pipeline at he ⊢
  have : implicitWrap c = .ownTx := by simp [implicitWrap, hs, ht]
  rw [this] at he ⊢
  exact under_protected _ _ _ (by simp) he

open Stg in
/-- without a failure the write applies completely in EVERY context (wrappers never lose rows) -/
theorem C05_enclosed_no_failure_applies (c : Ctx) (len batch : Nat) (v : View) (bs : List (List W))
    (hv : v.err = none) (h : bs.all (fun b => b.all (fun w => w.fail.isNone)) = true) :
    (createInBatches c len batch v bs).err = none ∧
    (createInBatches c len batch v bs).rows = v.rows ++ bs.flatten.map (·.row) := by
  unfold createInBatches
  split
  · exact runBatches_allOk c v bs hv h
  · cases hw : blockWrap c with
    | none => exact runBatches_allOk _ v bs hv h
    | ownTx =>
      have := runBatches_allOk { c with inTx := true } { v with log := v.log ++ ["B"] } bs hv h
      simp only [under]; rw [this.1]; exact ⟨rfl, this.2⟩
    | savepoint =>
      have := runBatches_allOk { c with inTx := true } { v with log := v.log ++ ["SP"] } bs hv h
      simp only [under]; rw [this.1]; exact ⟨this.1, this.2⟩

open Stg in
/-- COUNTEREXAMPLE (configuration latitude, not "default settings"): with `DisableNestedTransaction` a
    CreateInBatches issued inside a caller's transaction has no wrapper – batch 1 stays in the caller's transaction
    when batch 2 fails -/
theorem C05_enclosed_batches_nested_disabled_counterexample :
    let c : Ctx := { inTx := true, skipDefault := false, disableNested := true }
    let r := createInBatches c 3 2 { rows := [7], err := none, log := [] }
      [[⟨1, none, false⟩, ⟨2, none, false⟩], [⟨3, some "CHECK constraint failed", false⟩]]
    r.err ≠ none ∧ r.rows = [7, 1, 2] ∧ r.log = ["S", "S", "S!"] := by
  decide

open Stg in
/-- COUNTEREXAMPLE (finding F33-C05-no-savepoint-for-write-inside-transaction): a single pipeline run of more than one
    statement – parent row, then an association row the database refuses – issued inside a caller's transaction:
    `BeginTransaction` ignores `ErrInvalidTransaction`, no SAVEPOINT is taken, the parent row stays in the caller's
    transaction although the write reported an error.  The same for a CreateInBatches whose slice fits one batch. -/
theorem C05_enclosed_write_in_tx_counterexample :
    let c : Ctx := { inTx := true, skipDefault := false, disableNested := false }
    let v : View := { rows := [7], err := none, log := [] }
    let ws : List W := [⟨1, none, false⟩, ⟨2, some "CHECK constraint failed", false⟩]
    (pipeline c v ws).err ≠ none ∧ (pipeline c v ws).rows = [7, 1] ∧
    (createInBatches c 1 2 v [ws]).err ≠ none ∧ (createInBatches c 1 2 v [ws]).rows = [7, 1] ∧
    -- whereas two batches get the SAVEPOINT:
    (createInBatches c 2 1 v [[⟨1, none, false⟩], [⟨2, some "CHECK constraint failed", false⟩]]).rows = [7] ∧
    (createInBatches c 2 1 v [[⟨1, none, false⟩], [⟨2, some "CHECK constraint failed", false⟩]]).log
      = ["SP", "S", "S!", "RT"] := by
  decide

open Stg in
/-- PARTIAL: outside the pattern of F33 (and with default settings) every write is all-or-nothing towards its
    enclosing context: `Ctx.protects` = default transaction on ∧ (not inside a caller's transaction ∨ several batches
    with SAVEPOINTs allowed).  `len ≤ batch` means the slice fits one batch (`bs.length ≤ 1`). -/
theorem C05_enclosed_write_atomic_partial (c : Ctx) (len batch : Nat) (v : View) (bs : List (List W))
    (hp : c.protects len batch = true) (hone : len ≤ batch → bs.length ≤ 1)
    (he : (createInBatches c len batch v bs).err ≠ none) :
    (createInBatches c len batch v bs).rows = v.rows := by
  simp only [Ctx.protects, Bool.and_eq_true, Bool.not_eq_true', Bool.or_eq_true, decide_eq_true_eq] at hp
  obtain ⟨hs, hp⟩ := hp
  by_cases hb : batch < len
  · rcases hp with ht | ⟨_, hd⟩
    · exact C05_enclosed_batches_failed_unchanged c len batch v bs hs hb (by simp [ht]) he
    · exact C05_enclosed_batches_failed_unchanged c len batch v bs hs hb (fun _ => hd) he
  · have hle : len ≤ batch := Nat.le_of_not_lt hb
    have ht : c.inTx = false := by
      rcases hp with ht | ⟨h1, _⟩
      · exact ht
      · exact absurd h1 hb
    have hcond : (c.skipDefault || decide (len ≤ batch)) = true := by simp [hle]
    unfold createInBatches at he ⊢
    simp only [hcond, if_true] at he ⊢
    match bs, hone hle with
    | [], _ => rfl
    | [b], _ =>
      rw [runBatches_single] at he ⊢
      exact C05_enclosed_toplevel_write_failed_unchanged c v b hs ht he

/-- non-vacuity: top level, three batches, the third refused: BEGIN … ROLLBACK and nothing stays; inside a caller's
    transaction that already wrote row 7: SAVEPOINT … ROLLBACK TO and row 7 stays -/
example :
    (Stg.createInBatches { inTx := false, skipDefault := false, disableNested := false } 3 1
      { rows := [], err := none, log := [] }
      [[⟨1, none, false⟩], [⟨2, none, false⟩], [⟨3, some "boom", true⟩]]).log = ["B", "S", "S", "S!", "R"] ∧
    (Stg.createInBatches { inTx := true, skipDefault := false, disableNested := false } 3 1
      { rows := [7], err := none, log := [] }
      [[⟨1, none, false⟩], [⟨2, none, false⟩], [⟨3, some "boom", true⟩]]).rows = [7] := by
  decide

/-- ROUND 6. Save's INSERT fallback (`tx.Session(&Session{…}).Clauses(OnConflict{UpdateAll}).Create(value)`, the only nested
    `Create` of DB.Save that is reached through a Session literal) derives its handle with exactly the key `SkipHooks`:
    nothing in the literal switches the implicit transaction of the fallback's Create pipeline off (that pipeline still
    saves association records and join rows and has to be all-or-nothing in itself). Regenerated: Gen/UpsertKeyFacts. -/
theorem C05_save_fallback_session :
    (finisherNestedCalls.filter (fun c => c.fn == "DB.Save" && c.method == "Create" && c.steps.contains "Session")).map
      (fun c => (c.root, c.steps, c.sess)) = [("tx", ["Session", "Clauses"], ["SkipHooks"])] := by
  decide

/-- … and the UPDATE phase of Save runs on `tx.Session(&Session{Initialized: true})`; these two are all the Session
    literals of DB.Save -/
theorem C05_save_session_literals :
    (finisherSessionLits.filter (fun l => l.1 == "DB.Save")).map (fun l => l.2.2) = [["Initialized"], ["SkipHooks"]] := by
  decide

/-- no finisher of finisher_api.go derives a handle with a Session literal that sets `SkipDefaultTransaction` (or
    re-targets the pool): whether a nested pipeline runs inside an implicit transaction is decided by the caller's
    configuration alone (C05_nested_sessions for the callbacks package, this one for the finishers) -/
theorem C05_finishers_keep_default_transaction :
    finisherSessionLits.all (fun l => !l.2.2.contains "SkipDefaultTransaction" && !l.2.2.contains "ConnPool") = true ∧
    finisherNestedCalls.all (fun c => !c.sess.contains "SkipDefaultTransaction") = true := by
  decide

end Gorm
