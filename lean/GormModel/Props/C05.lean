/-
  C05 — each single write is all-or-nothing.  Theorems over the REGENERATED pipeline / handler
  tables (callbacks/callbacks.go and the handler bodies) and the executable semantics in Model/Exec.lean.
-/
import GormModel.Model.Exec
import GormModel.Lemmas.Exec
import GormModel.Gen.Pipelines
import GormModel.Gen.Sessions
import GormModel.Gen.Misc
namespace Gorm
open Gen

def writePipelines : List String := ["create", "update", "delete"]

/-- In each write pipeline `gorm:begin_transaction` is registered first and
    `gorm:commit_or_rollback_transaction` last, both under `Match(enableTransaction)`, each exactly once. -/
theorem C05_shape :
    ∀ p ∈ pipelines, p.1 ∈ writePipelines →
      (p.2.head?.map (fun r => (r.name, r.handler, r.matchGuard)) =
          some ("gorm:begin_transaction", "BeginTransaction", "enableTransaction")) ∧
      (p.2.getLast?.map (fun r => (r.name, r.handler, r.matchGuard)) =
          some ("gorm:commit_or_rollback_transaction", "CommitOrRollbackTransaction", "enableTransaction")) ∧
      (p.2.filter (fun r => r.handler = "BeginTransaction" || r.handler = "CommitOrRollbackTransaction")).length = 2 ∧
      (∀ r ∈ p.2, r.op = "Register" ∧ r.before = "" ∧ r.after = "") := by
  decide

/-- the guard discipline of the regenerated handler table: every statement-sending call and the Commit
    are dominated by `db.Error == nil`; Rollback is dominated by `db.Error != nil` -/
theorem C05_guarded : GuardedTable handlers := by
  unfold GuardedTable; decide

theorem C05_rollback_on_error :
    ∀ h ∈ handlers, ∀ c ∈ h.calls, c.kind = "tx" → c.what = "Rollback" → "db.Error != nil" ∈ c.guards := by
  decide

/-- every step between BEGIN and COMMIT that does work on the database -- running hooks, saving or
    deleting associations, building and checking the statement -- is skipped once an error is recorded -/
theorem C05_work_guarded :
    ∀ h ∈ handlers, ∀ c ∈ h.calls,
      (c.kind = "callMethod" ∨ c.kind = "nested" ∨ c.kind = "checkMissingWhere" ∨ c.kind = "build"
        ∨ (c.kind = "session" ∧ h.name ≠ "AfterQuery")) →
      "db.Error == nil" ∈ c.guards := by
  decide

/-- nested operations (association upserts, join rows, association deletes) are started from
    `db.Session(&gorm.Session{NewDB: true…})` of the operation's own handle: the statement's ConnPool --
    the transaction -- is inherited (C18_copy_facts), and no such session literal switches
    SkipDefaultTransaction or DryRun on by itself -/
theorem C05_nested_sessions :
    ∀ u ∈ sessionUses, u.file = "callbacks/associations.go" ∨ u.file = "callbacks/delete.go" →
      (u.recv = "db" ∨ u.recv = "db.Session(&gorm.Session{NewDB: true}).Clauses(clause.OnConflict{DoNothing: true})"
        ∨ u.recv = "db.Session(&gorm.Session{NewDB: true}).Clauses(onConflict)") ∧
      (∀ f ∈ u.fields, f.1 ≠ "Context" ∧ f.1 ≠ "DryRun" ∧ f.1 ≠ "SkipDefaultTransaction") := by
  decide

/-- `AddError` never turns a recorded error back into nil (error stickiness) -/
theorem C05_error_sticky (cur : Option String) (err : Option String) (h : cur ≠ none) :
    addError cur err ≠ none := by
  cases cur with
  | none => exact absurd rfl h
  | some c => cases err <;> simp [addError]

set_option maxRecDepth 8192 in
/-- the Go source of AddError is the one `addError` transcribes (regenerated text compared literally) -/
theorem C05_addError_src :
    addErrorSrc = "{ if err != nil { if db.Config.TranslateError { if errTranslator, ok := db.Dialector.(ErrorTranslator); ok { err = errTranslator.Translate(err) } } if db.Error == nil { db.Error = err } else { db.Error = fmt.Errorf(\"%v; %w\", db.Error, err) } } return db.Error }" := by
  decide

/-- MAIN: for every write pipeline, every valuation `env` of the conditions the model does not
    interpret, every initial state without error and EVERY fault position `k`: after the failing
    statement no further statement is sent and no COMMIT is issued, and the error flag is set at the
    end (so `CommitOrRollbackTransaction` takes its Rollback branch: `C05_rollback_on_error`). -/
theorem C05_fault_stops_writes (p : String × List CbReg) (hp : p ∈ pipelines)
    (env : String → Bool) (k : Nat) (st0 : RunSt) :
    let out := execPipeline handlers env k p.2 { st := st0, evs := [] }
    out.post.all Ev.harmless = true ∧ (out.faulted = true → out.st.err = true) := by
  intro out
  have h := execPipeline_inv handlers env k p.2 { st := st0, evs := [] } C05_guarded
    ⟨by simp, by simp⟩
  exact ⟨h.2, h.1⟩

/-- non-vacuity: in the create pipeline a fault at event 1 (the INSERT) really is injected, is followed
    by a Rollback and by nothing else -/
example :
    let out := execPipeline handlers (fun _ => true) 1
      ((pipelines.find? (fun p => p.1 = "create")).get!.2)
      { st := { dryRun := false, skipDefaultTx := false, err := false, skipHooks := false, hasSchema := true }, evs := [] }
    out.faulted = true ∧ out.post.map (·.what) = ["Rollback"] := by
  decide

end Gorm
