/-
  C14 — the prepared-statement cache is transparent, leak-free, safe in any interleaving.
  Theorems over the LTS of Model/StmtCache.lean, for ARBITRARY schedules (lists of scheduler choices with the
  driver's answers); invariants are in Lemmas/StmtCacheInv.lean.
-/
import GormModel.Model.StmtCache
import GormModel.Lemmas.StmtCacheInv
import GormModel.Lemmas.StmtCacheLeak
import GormModel.Lemmas.StmtCacheBroadcast
import GormModel.Lemmas.StmtCacheTransp
import GormModel.Gen.StmtCacheFacts
import GormModel.Gen.LockSections
import GormModel.Model.StmtCacheStore
import GormModel.Lemmas.StmtCacheStore
import GormModel.Gen.StmtCacheStoreFacts
import GormModel.Gen.StmtCacheSessFacts
import GormModel.Model.StmtCacheKinds
import GormModel.Lemmas.StmtCacheKinds
import GormModel.Gen.StmtCacheKindFacts
import GormModel.Gen.StmtCacheTextFacts
namespace Gorm
open SC

/-- thread `t` runs `n` consecutive sections with answer `a` -/
def stepsOf (t n : Nat) (a : Ans := .ok) : List Act := List.replicate n (.thr t a)

/-- DEADLOCK FREEDOM.  In every state reachable by any schedule from any program (any number of goroutines, texts,
    views, transactions, Reset/Close), if some operation has not returned then some goroutine can take a step
    (pending driver calls are steps: they return).  Waiters wait only for an entry whose preparer is running, and
    preparers never wait. -/
theorem C14_deadlock_free (ops : List Op) (nV : Nat) (cfg : Cfg) (sched : List Act) :
    let s := run (init ops nV cfg) sched
    (∃ t, t < s.nT ∧ isFin s t = false) → ∃ t a, t < s.nT ∧ (act s (.thr t a)).isSome = true := by
  intro s ⟨t, ht, hf⟩
  by_cases hen : ∃ a, (act s (.thr t a)).isSome = true
  · obtain ⟨a, ha⟩ := hen
    exact ⟨t, a, ht, ha⟩
  · have hb : ∀ a, act s (.thr t a) = none := by
      intro a
      cases hact : act s (.thr t a) with
      | none => rfl
      | some s' => exact absurd ⟨a, by simp [hact]⟩ hen
    have hinv := inv1_reachable ops nV cfg sched
    have hop := hinv.2.2.2
    obtain ⟨e, hpc, hprep⟩ := blocked_is_waiter s t ht hop hf hb
    have he : e < s.nE := ((hinv.1.1 t).1 e hpc).1
    obtain ⟨ht0, hown⟩ := hinv.1.2 e he hprep
    generalize (s.entries e).owner = t0 at ht0 hown
    refine ⟨t0, .ok, ht0, ?_⟩
    -- an owner is always enabled
    have ht0' : t0 < s.nT := ht0
    simp only [act, ht0', if_true, tstep]
    cases hop' : (s.threads t0).op with
    | reset v =>
      rcases hop t0 v (Or.inl hop') with h1 | h1
      · rw [h1] at hown; simp [owns] at hown
      · simp only [isFin] at h1; split at h1
        · rename_i hh; rw [hh] at hown; simp [owns] at hown
        · cases h1
    | close v =>
      rcases hop t0 v (Or.inr hop') with h1 | h1
      · rw [h1] at hown; simp [owns] at hown
      · simp only [isFin] at h1; split at h1
        · rename_i hh; rw [hh] at hown; simp [owns] at hown
        · cases h1
    | use v q tx =>
      simp only
      cases hpc0 : (s.threads t0).pc <;> rw [hpc0] at hown <;> simp [owns] at hown <;> simp [stepUse, hpc0]

/-- AT MOST ONCE (accounting form).  For every map object `m` (= cache generation: `NewPreparedStmtDB` and every
    `Reset` allocate a fresh one) and every text `q`, after ANY schedule: the number of `ConnPool.PrepareContext`
    calls issued for `(m, q)` equals the number of entries removed from `m[q]` (failed-prepare delete, ErrBadConn
    eviction, Transaction entry overwritten by a non-transaction request — the only steps that log a removal)
    plus one if an entry is cached now.  However many goroutines ask at the same time, a second PrepareContext
    for the same text and generation needs a removal in between. -/
theorem C14_at_most_once (ops : List Op) (nV : Nat) (cfg : Cfg) (sched : List Act) (m : Nat) (q : Text) :
    let s := run (init ops nV cfg) sched
    prepCount s m q = removedCount s m q + (if (s.maps m q).isSome then 1 else 0) ∧
    prepCount s m q ≤ removedCount s m q + 1 := by
  intro s
  have h := (inv1_reachable ops nV cfg sched).2.2.1 m q
  refine ⟨h, ?_⟩
  have h' : prepCount s m q = removedCount s m q + (if (s.maps m q).isSome then 1 else 0) := h
  split at h' <;> omega

/-- non-vacuity: three goroutines asking for the same text at the same time cause exactly one PrepareContext -/
example : prepCount (run (init [.use 0 0 false, .use 0 0 false, .use 0 0 false])
    (stepsOf 0 1 ++ stepsOf 1 1 ++ stepsOf 2 1 ++ stepsOf 0 1 ++ stepsOf 1 1 ++ stepsOf 2 1 ++ stepsOf 0 4 ++
     stepsOf 1 3 ++ stepsOf 2 3 ++ stepsOf 0 1)) 0 0 = 1 := by decide

/-- TIE of the step granularity (regenerated from prepare_stmt.go on every run): while `Mux` is held no driver /
    database-sql call and no channel operation is executed (closers are only SPAWNED with `go`), so every
    Lock..Unlock section is one atomic step of the LTS; and the sections are exactly the ones the model has:
    Close, Reset, the four of `prepare` (RLock lookup, Lock double-check+publish, Lock delete, Lock store) and the
    four ErrBadConn evictions. -/
theorem C14_lock_sections_atomic :
    (Gen.lockSections.all fun s => s.blockingCalls.isEmpty && s.chanOps == 0) = true ∧
    Gen.lockSections.map (fun s => (s.fn, s.kind)) =
      [("PreparedStmtDB.Close", "Lock"), ("PreparedStmtDB.Reset", "Lock"),
       ("PreparedStmtDB.prepare", "RLock"), ("PreparedStmtDB.prepare", "Lock"),
       ("PreparedStmtDB.prepare", "Lock"), ("PreparedStmtDB.prepare", "Lock"),
       ("PreparedStmtDB.ExecContext", "Lock"), ("PreparedStmtDB.QueryContext", "Lock"),
       ("PreparedStmtTX.ExecContext", "Lock"), ("PreparedStmtTX.QueryContext", "Lock")] := by
  decide

/-- CLEAN RUN: a generation/text without a recorded removal (no failed prepare, no ErrBadConn eviction, no Transaction
    entry overwritten) sees at most one `ConnPool.PrepareContext`, however many goroutines asked and in whatever order
    the scheduler ran them. -/
theorem C14_single_prepare_clean (ops : List Op) (nV : Nat) (cfg : Cfg) (sched : List Act) (m : Nat) (q : Text) :
    let s := run (init ops nV cfg) sched
    removedCount s m q = 0 → prepCount s m q ≤ 1 := by
  intro s h0
  have h2 : prepCount s m q ≤ removedCount s m q + 1 := (C14_at_most_once ops nV cfg sched m q).2
  omega

/-- FAILURE BROADCAST.  After ANY schedule, for every entry `e` whose `PrepareContext` failed:
    (1) every operation that resolved to `e` — the preparer, which published it, and every goroutine that found it in
        the map and waited on `e.prepared` — and has returned, returned the preparation error;
    (2) the preparer is among them; it cannot return anything else;
    (3) once the preparer is past its delete section (`prepared` closed, or about to close it), `e` is not the entry
        cached under its text in the map of the struct it was published through: the failure is not cached.
    Needs owner uniqueness and the entry-shape invariant (`Shape`), the ghost/operation agreement (`EOp`) and `FB`. -/
theorem C14_failure_broadcast (ops : List Op) (nV : Nat) (cfg : Cfg) (sched : List Act) (hw : wfOps ops nV) (e : Nat) :
    let s := run (init ops nV cfg) sched
    e < s.nE → (s.entries e).err = true →
      (∀ t r, (s.threads t).ent = some e → result s t = some r → r = .prepErr) ∧
      (s.threads (s.entries e).owner).ent = some e ∧
      ((s.entries e).prepared = true → cachedAt s (s.entries e).view (s.entries e).text ≠ some e) := by
  intro s he herr
  have hI : Inv2 s ∧ FB s := by
    apply run_inv (fun s => Inv2 s ∧ FB s) (fun s s' h hs => ⟨step_inv2 s s' h.1 hs, step_fb s s' h.2 h.1.1.1 h.1.1.2.1 h.1.2.1 hs⟩)
    refine ⟨init_inv2 ops nV cfg hw, ?_, ?_⟩
    · intro e he; simp [init] at he
    · intro e he; simp [init] at he
  obtain ⟨h2, hF⟩ := hI
  refine ⟨fun t r hent hres => ?_, hF.1 e he, fun hp => hF.2 e he herr (Or.inl hp)⟩
  have hT := h2.1.1.1 t
  unfold result at hres
  split at hres
  next r' hpc =>
    have hr : r' = r := by simpa using hres
    rw [← hr]
    exact ((hT.2.2.2.2.2.2.2.2 r' hpc e hent).2.2).mp herr
  next => cases hres

/-- non-vacuity: goroutine 0's prepare fails while goroutine 1 waits for it; both return the preparation error and the
    entry is gone from the map -/
example : (let s := run (init [.use 0 0 false, .use 0 0 false]) (stepsOf 0 2 ++ stepsOf 1 1 ++ [.thr 0 .err] ++ stepsOf 0 2 ++ stepsOf 1 1)
    (s.entries 0).err = true ∧ result s 0 = some .prepErr ∧ result s 1 = some .prepErr ∧ s.maps 0 0 = none) := by decide

/-- LEAK FREEDOM, partial form (holds for the code with or without the delete guards): for any program whose
    operations go through declared structs and ANY schedule, at quiescence (all operations returned, no closer
    goroutine pending) every statement prepared on the pool is closed or is still the entry cached under its text in
    the map of some struct — provided no `delete(db.Stmts, query)` removed ANOTHER goroutine's entry (the negation
    of the F14b pattern). -/
theorem C14_closed_eventually_partial (ops : List Op) (nV : Nat) (cfg : Cfg) (sched : List Act) (hw : wfOps ops nV) :
    let s := run (init ops nV cfg) sched
    quiescent s → foreignRemovals s = 0 → NoLeak s := by
  intro s hq hf
  exact noLeak_of_inv s (inv2_reachable ops nV cfg hw sched) hq hf

/-- LEAK FREEDOM, full statement, for the code whose deletes are identity-guarded (`cur == &cacheStmt` in prepare's
    error branch, `cur.Stmt == stmt.Stmt` in the ErrBadConn branches): no hypothesis about removals — with the guards
    a delete never removes a foreign entry (`NF`), so at quiescence every statement the cache prepared and that no
    struct's current map references any more is closed. -/
theorem C14_closed_eventually (ops : List Op) (nV : Nat) (cfg : Cfg) (sched : List Act) (hw : wfOps ops nV)
    (hg : cfg.guardFail = true ∧ cfg.guardEvict = true) :
    let s := run (init ops nV cfg) sched
    quiescent s → NoLeak s := by
  intro s hq
  have hI := inv2_reachable ops nV cfg hw sched
  have hcfg : s.cfg = cfg := by
    have : (fun s : St => s.cfg = cfg) (run (init ops nV cfg) sched) :=
      run_inv (fun s => s.cfg = cfg) (fun s s' h hs => by rw [(step_ghost s s' hs).2.2.2.1]; exact h) _ sched rfl
    exact this
  have hnf : foreignRemovals s = 0 := hI.2.2.2.2.2.2.2 (by rw [hcfg]; exact hg.1) (by rw [hcfg]; exact hg.2)
  exact noLeak_of_inv s hI hq hnf

/-- non-vacuity of the guarded theorem's hypotheses and of quiescence: the F14b schedule on the guarded code ends
    quiescent with nothing leaked -/
def guardedRun : St :=
  run (init [.use 0 0 true, .use 0 0 false, .close 0] 1 { guardFail := true, guardEvict := true })
    (stepsOf 0 2 ++ stepsOf 1 2 ++ [.thr 0 .err] ++ stepsOf 0 2 ++ stepsOf 1 5 ++ stepsOf 2 1 ++ [.closeE 1])
example : (let s := guardedRun
    quiescentB s = true ∧ result s 1 = some .rows ∧ leakedB s 0 = false ∧ foreignRemovals s = 0) := by decide

/-- TRANSPARENCY, partial form (outside the F14a / F14c patterns).  In every state reachable by any schedule:
    (1) a goroutine whose wait is over on a successfully prepared entry finds a statement there — the nil `*sql.Stmt`
        dereference (`Res.nilStmt`) is unreachable;
    (2) a pool statement is closed only by a closer that a Reset/Close spawned for its entry or by the `go stmt.Close()`
        of an ErrBadConn eviction: as long as no Reset/Close has been executed and no operation has returned
        ErrBadConn, a non-transaction operation that holds a statement executes it (it does not get
        "sql: statement is closed"), whatever the driver answers.
    The hypotheses of (2) are exactly the negation of F14a (Reset/Close through another struct) and F14c (Reset of the
    own struct / eviction by another goroutine). -/
theorem C14_transparent_partial (ops : List Op) (nV : Nat) (cfg : Cfg) (sched : List Act) (hw : wfOps ops nV) :
    let s := run (init ops nV cfg) sched
    (∀ t e, (s.threads t).pc = .waiting e → (s.entries e).prepared = true → (s.entries e).err = false →
      ∃ h, (s.entries e).handle = some h) ∧
    (∀ t v q e h a, t < s.nT → (s.threads t).op = .use v q false → (s.threads t).pc = .ready e h →
      ¬ rcDone s → ¬ badDone s → act s (.thr t a) = some (setPc s t (.using e h))) := by
  intro s
  obtain ⟨h2, h3⟩ := inv3_reachable ops nV cfg hw sched
  obtain ⟨hES, hRC, hBC, hCL, hUT⟩ := h3
  refine ⟨fun t e hpc hp herr => hES e ((h2.1.1.1 t).1 e hpc).1 hp herr, ?_⟩
  intro t v q e h a ht hop hpc hnr hnb
  have h7 := (h2.1.1.1 t).2.2.2.2.2.2.1 e h (Or.inl hpc)
  have htx : (s.entries e).tx = false := (hUT t e h7.2.2.2.2).2 v q hop
  have hh := h2.2.2.2.1.2 e h h7.1 h7.2.2.2.1
  have hh1 := h2.2.2.2.1.1 h hh.1
  rw [hh.2] at hh1
  have hhtx : (s.handles h).tx = false := by rw [← hh1.2.2.1]; exact htx
  have hcl : (s.handles h).closed = false := by
    cases hc : (s.handles h).closed with
    | false => rfl
    | true =>
      rcases hCL h hh.1 hhtx hc with c | c
      · exact absurd (hBC h hh.1 c) hnb
      · rw [hh.2] at c; exact absurd (hRC e h7.1 c) hnr
  simp [act, ht, tstep, hop, hpc, stepUse, hcl]


/-! ### ONE cache per `gorm.Open`: every way of enabling prepared-statement mode ends up on the same cache object -/

open SCS in
/-- CREATION SITES (regenerated from gorm.go on every run).  `NewPreparedStmtDB(` is called at exactly two places, `Open`
    and `DB.Session`.  The one in `Open` is bound to a variable that is stored in `cacheStore` under `preparedStmtDBKey`
    and becomes `db.ConnPool`.  The one in `Session` is reached only after a failed `cacheStore.Load(preparedStmtDBKey)`
    whose success branch reuses the loaded `*PreparedStmtDB`, and it is registered under the same key EITHER by a `Store`
    of the variable it is bound to (unrepaired F14d) OR as the value argument of the one `LoadOrStore` whose result the
    session goes on with (`genSessAtomic`).  The structs `Session` builds take `Mux`/`Stmts` (resp. `PreparedStmtDB`) from
    that variable — or the handle gets the variable itself (`sessReuse`, repaired F14a) — and `BeginTx` binds the
    transaction to its receiver.  Hence the five cooperating sites of the current tree are the healthy ones. -/
theorem C14_cache_creation_sites :
    Gen.cacheSites.map (·.fn) = ["Open", "DB.Session"] ∧
    (Gen.cacheSites.all fun s =>
      (s.bound != "" && s.stored && s.storeKey == "preparedStmtDBKey" &&
        (s.poolAssigned != "" || (s.afterFailedLoad && s.loadKey == "preparedStmtDBKey"))) ||
      (s.fn == "DB.Session" && genSessAtomic && s.afterFailedLoad && s.loadKey == "preparedStmtDBKey")) = true ∧
    genSCfg = goodWith genSCfg.sessReuse := by
  decide

open SCS in
/-- ONE CACHE.  For `Open` with or without `Config.PrepareStmt` and EVERY sequence of derivations — `Session` with or
    without `PrepareStmt` on any handle (plain, prepared, inside a transaction; nested), `Begin`/`Transaction` on any
    handle, `Reset`/`Close` through any handle — : `NewPreparedStmtDB` ran at most once, every `PreparedStmtDB` struct
    that exists holds the `Mux` of cache object 0, the cache is registered in `cacheStore` as soon as it exists, and
    every handle works with cache object 0 or with none.  `reuse`: whether the session-level handle is the registered
    struct itself or a second struct around its Mux and current map (both forms of gorm.go, see `SCfg.sessReuse`). -/
theorem C14_one_cache (reuse prepare : Bool) (seq : List DOp) :
    let w := runD (goodWith reuse) prepare seq
    OneCache w ∧ ∀ p ∈ w.handles, ∀ c, cacheOfPool w p = some c → c = 0 := by
  intro w
  have hI := inv_run reuse prepare seq
  exact ⟨oneCache_of_inv w hI, fun p hp c hc => cacheOf_zero w hI p hp c hc⟩

open SCS in
/-- … and this is what the CURRENT source tree does (configuration computed from the regenerated facts) -/
theorem C14_one_cache_current_tree (prepare : Bool) (seq : List DOp) :
    let w := runD genSCfg prepare seq
    OneCache w ∧ ∀ p ∈ w.handles, ∀ c, cacheOfPool w p = some c → c = 0 := by
  rw [C14_cache_creation_sites.2.2]
  exact C14_one_cache _ prepare seq

open SCS in
/-- non-vacuity: a PrepareStmt root, a prepared session on it, a transaction from that session, a prepared session
    inside a plain transaction of a `Session{NewDB}` handle …: five prepared handles, one cache -/
example : ∀ r : Bool, (let w := runD (goodWith r) true [.session 0 true, .begin 1, .session 0 false, .session 3 true, .session 2 true]
    w.nC = 1 ∧ w.handles.length = 6 ∧ w.handles.all (fun p => cacheOfPool w p == some 0) = true) := by decide

open SCS in
example : ∀ r : Bool, (let w := runD (goodWith r) false [.begin 0, .session 1 true, .session 0 true, .session 2 true, .begin 3]
    w.nC = 1 ∧ (w.handles.map (cacheOfPool w)) = [none, none, some 0, some 0, some 0, some 0]) := by decide

open SCS in
/-- ONE GENERATION (the partial form outside the F14a pattern; holds for both forms of the session-level handle).
    Without `Reset`/`Close` every prepared handle derived from one `Open`, however it was derived,
    points to map object 0: the structs are exactly the `views` of the cache LTS in its initial state
    (`SC.init ops nV cfg` puts every view on map object 0), so the LTS theorems above (at most once per text, failure
    broadcast, leak freedom, deadlock freedom) speak about ALL handles of the database together. -/
theorem C14_one_generation_shared (reuse prepare : Bool) (seq : List DOp) (h : noRC seq = true) :
    let w := runD (goodWith reuse) prepare seq
    ∀ p ∈ w.handles, ∀ s, structOf p = some s →
      mapOfPool w p = some 0 ∧ ∀ ops nV cfg, mapOfPool w p = (SC.init ops nV cfg).views s := by
  intro w p hp s hs
  have hI := inv2_run reuse prepare seq h
  exact ⟨mapOf_zero w hI p hp s hs, fun _ _ _ => mapOf_zero w hI p hp s hs⟩

open SCS in
/-- CLOSED FOR EVERYBODY.  After ANY derivation history on a database opened with `Config.PrepareStmt`, `Close()` on the
    database's cache (handle 0) leaves the root with a nil map, and a `Session(PrepareStmt)` obtained afterwards from ANY
    existing handle — root, older session, transaction — is created (it exists and is prepared) with a nil map too … -/
theorem C14_session_after_close_invalid (reuse : Bool) (seq : List DOp) (h : Nat) :
    let w := runD (goodWith reuse) true (seq ++ [.close 0])
    h < w.handles.length →
    mapOfPool w (.pdb 0) = none ∧
    ∃ p, (stepD w (.session h true)).handles = w.handles ++ [p] ∧ (structOf p).isSome = true ∧
         mapOfPool (stepD w (.session h true)) p = none := by
  intro w hh
  have hw : w = stepD (runD (goodWith reuse) true seq) (.close 0) := runD_snoc _ _ _ _
  rw [hw] at hh ⊢
  exact session_after_close _ (inv3_run reuse seq) h hh

/-- … and a struct with a nil map answers `ErrInvalidDB` without touching the pool: in ANY state of the cache LTS, an
    `Exec/Query` (in or outside a transaction) through a view whose map is nil takes the two lock sections of `prepare`
    and returns `invalidDB` — no entry is published, no `PrepareContext` is issued. -/
theorem C14_nil_map_invalid (s : St) (t v : Nat) (q : Text) (tx : Bool) (a : Ans) (ht : t < s.nT)
    (hop : (s.threads t).op = .use v q tx) (hpc : (s.threads t).pc = .init) (hv : s.views v = none) :
    ∃ s1 s2, act s (.thr t a) = some s1 ∧ act s1 (.thr t a) = some s2 ∧ result s2 t = some .invalidDB ∧
      s2.log = s.log ∧ s2.nE = s.nE := by
  have h1 : act s (.thr t a) = some (setPc s t .missed) := by
    simp [act, ht, tstep, hop, hpc, stepUse, hv]
  refine ⟨setPc s t .missed, finish (setPc s t .missed) t .invalidDB, h1, ?_, ?_, ?_, ?_⟩
  · simp [act, ht, tstep, setPc, hop, stepUse, hv]
  · cases tx <;> simp [result, finish, setPc, hop]
  · cases tx <;> simp [finish, setPc, hop]
  · cases tx <;> simp [finish, setPc, hop]

open SCS in
/-- WHAT EACH COOPERATING SITE IS NEEDED FOR (kernel-checked derivations with TWO cache objects when one is missing):
    `Open` not registering its cache + one prepared session; `Session` not looking the cache up, or not registering the
    one it creates + two prepared sessions on a plain root; `Session` building its struct from something else than the
    looked-up cache; `BeginTx` not binding the transaction to the struct it was begun on.  With `Open` not registering,
    a prepared session obtained after `Close()` on the database's cache still has a live map. -/
theorem C14_one_cache_counterexample :
    (let w := runD { openStores := false } true [.session 0 true]
     w.nC = 2 ∧ w.handles.map (cacheOfPool w) = [some 0, some 1]) ∧
    (let w := runD { sessLoads := false } true [.session 0 true]
     w.nC = 2 ∧ w.handles.map (cacheOfPool w) = [some 0, some 1]) ∧
    (let w := runD { sessStores := false } false [.session 0 true, .session 0 true]
     w.nC = 2 ∧ w.handles.map (cacheOfPool w) = [none, some 0, some 1]) ∧
    (let w := runD { sessShares := false } true [.session 0 true]
     w.nC = 2 ∧ w.handles.map (cacheOfPool w) = [some 0, some 1]) ∧
    (let w := runD { txBinds := false } true [.begin 0]
     w.nC = 2 ∧ w.handles.map (cacheOfPool w) = [some 0, some 1]) ∧
    (let w := runD { openStores := false } true [.close 0, .session 0 true]
     w.handles.map (mapOfPool w) = [none, some 1]) := by
  decide


open SCS in
/-- F14d witness (kernel-checked), UNREPAIRED registration (`Load`, then `NewPreparedStmtDB` + `Store`): two goroutines call
    `Session(&Session{PrepareStmt: true})` on a database opened WITHOUT `Config.PrepareStmt` before any cache is registered;
    both `Load`s miss, both create and `Store`: two cache objects are registered one after the other (the second `Store`
    overwrites the first) and the two handles work with different ones. -/
theorem C14_first_session_race_counterexample :
    (let s := crun false {} [.load 0, .load 1, .build 0, .build 1]
     s.nC = 2 ∧ s.got 0 = some 0 ∧ s.got 1 = some 1 ∧ s.store = some 1 ∧ s.regs = [1, 0]) := by
  decide

open SCS in
/-- ONE CACHE under concurrent session creation, outside the F14d pattern (holds for both forms of the registration): once
    a cache is registered (the database was opened with `Config.PrepareStmt`, or a first prepared session has been
    obtained), any number of goroutines calling `Session(PrepareStmt)` afterwards, in ANY interleaving of their `Load` /
    create-and-register steps, all get that cache; no further cache object is allocated and none is registered. -/
theorem C14_first_session_partial (atomic : Bool) (c n : Nat) (s0 : CState) (sched : List CAct)
    (hstore : s0.store = some c) (hn : s0.nC = n) (hfresh : ∀ g, s0.loaded g = none ∧ s0.got g = none) :
    let s := crun atomic s0 sched
    s.nC = n ∧ s.store = some c ∧ s.regs = s0.regs ∧ ∀ g c', s.got g = some c' → c' = c := by
  intro s
  have hI : CInv c n s0.regs s :=
    crun_inv atomic c n s0.regs sched s0 ⟨hstore, hn, rfl, fun g => Or.inl (hfresh g).1, fun g => Or.inl (hfresh g).2⟩
  refine ⟨hI.nC, hI.store, hI.regs, fun g c' hg => ?_⟩
  rcases hI.got g with h | h
  · rw [h] at hg; cases hg
  · rw [h] at hg; cases hg; rfl

open SCS in
/-- non-vacuity: after one completed prepared session three concurrent ones share its cache -/
example : ∀ a : Bool, (let s0 := crun a {} [.load 9, .build 9]
           let s := crun a { store := s0.store, nC := s0.nC } [.load 0, .load 1, .build 1, .load 2, .build 0, .build 2]
           s.nC = 1 ∧ s.got 0 = some 0 ∧ s.got 1 = some 0 ∧ s.got 2 = some 0) := by decide

open SCS in
/-- ONE CACHE under concurrent session creation, FULL statement, for the REPAIRED registration (a cache that had to be
    created is registered with `LoadOrStore`): starting with NO cache registered, for ANY number of goroutines calling
    `Session(PrepareStmt)` at the same time and EVERY interleaving of their `Load` / `LoadOrStore` steps, at most one cache
    object is ever registered, and every handle that was handed out works with exactly that object — which is also what
    `cacheStore` holds (the objects the losers allocated stay unused). -/
theorem C14_first_session_atomic (s0 : CState) (sched : List CAct)
    (hstore : s0.store = none) (hregs : s0.regs = []) (hfresh : ∀ g, s0.loaded g = none ∧ s0.got g = none) :
    let s := crun true s0 sched
    s.regs.length ≤ 1 ∧ ∀ g c, s.got g = some c → s.store = some c ∧ s.regs = [c] := by
  intro s
  have hI : AInv s := arun_inv sched s0
    ⟨Or.inl ⟨hstore, hregs⟩, fun g x hx => (by rw [(hfresh g).1] at hx; cases hx), fun g x hx => (by rw [(hfresh g).2] at hx; cases hx)⟩
  refine ⟨?_, fun g c hg => ?_⟩
  · rcases hI.regs with ⟨_, h⟩ | ⟨c, _, h⟩ <;> simp [h]
  · have hs := hI.got g c hg
    refine ⟨hs, ?_⟩
    rcases hI.regs with ⟨h, _⟩ | ⟨c', h, hr⟩
    · rw [hs] at h; cases h
    · rw [hs] at h; cases h; exact hr

open SCS in
/-- non-vacuity: the F14d schedule (both `Load`s miss) and a three-goroutine schedule on the repaired registration: two /
    three objects are allocated, ONE is registered, every handle is on it -/
example : (let s := crun true {} [.load 0, .load 1, .build 0, .build 1]
     s.nC = 2 ∧ s.got 0 = some 0 ∧ s.got 1 = some 0 ∧ s.store = some 0 ∧ s.regs = [0]) ∧
    (let s := crun true {} [.load 0, .load 1, .load 2, .build 2, .build 0, .build 1]
     s.nC = 3 ∧ s.got 0 = some 0 ∧ s.got 1 = some 0 ∧ s.got 2 = some 0 ∧ s.regs = [0]) := by decide

open SCS in
/-- WHAT HOLDS FOR THE CURRENT SOURCE TREE (decided by the regenerated registration facts, `genSessAtomic`): either
    `DB.Session` registers with `LoadOrStore` and one cache holds for every interleaving from an empty `cacheStore`, or it
    does not and the two-goroutine F14d schedule ends with two registered caches and two handles on different ones —
    while one cache still holds outside the F14d pattern (`C14_first_session_partial`, either form). -/
theorem C14_first_session_current_tree :
    (genSessAtomic = true ∧
      ∀ (s0 : CState) (sched : List CAct), s0.store = none → s0.regs = [] → (∀ g, s0.loaded g = none ∧ s0.got g = none) →
        (crun genSessAtomic s0 sched).regs.length ≤ 1 ∧
        ∀ g c, (crun genSessAtomic s0 sched).got g = some c →
          (crun genSessAtomic s0 sched).store = some c ∧ (crun genSessAtomic s0 sched).regs = [c])
    ∨ (genSessAtomic = false ∧
      (let s := crun genSessAtomic {} [.load 0, .load 1, .build 0, .build 1]
       s.regs.length = 2 ∧ s.got 0 ≠ s.got 1)) := by
  cases h : genSessAtomic with
  | true => exact Or.inl ⟨rfl, fun s0 sched h1 h2 h3 => C14_first_session_atomic s0 sched h1 h2 h3⟩
  | false => exact Or.inr ⟨rfl, by decide⟩

/-! ### ONE struct (F14a): which `PreparedStmtDB` value a session-level handle works with -/

open SCS in
/-- F14a in the derivation world (kernel-checked), UNREPAIRED session-level handle (a second struct around the registered
    cache's Mux and CURRENT map): on a `Config.PrepareStmt` database, a prepared session and `Reset()` through it — the
    session moves to a fresh map, the root stays on the old one (whose statements the Reset closes); likewise `Close()`
    through the session leaves the root on a live map; and Reset through the ROOT leaves the session on the old map. -/
theorem C14_stale_map_counterexample :
    (let w := runD good true [.session 0 true, .reset 1]
     w.handles.map (mapOfPool w) = [some 0, some 1]) ∧
    (let w := runD good true [.session 0 true, .close 1]
     w.handles.map (mapOfPool w) = [some 0, none]) ∧
    (let w := runD good true [.session 0 true, .reset 0]
     w.handles.map (mapOfPool w) = [some 1, some 0]) := by
  decide

open SCS in
/-- ONE STRUCT, FULL statement, for the REPAIRED session-level handle (`tx.Statement.ConnPool = preparedStmt`): for `Open`
    with or without `Config.PrepareStmt` and EVERY sequence of derivations, `Reset`s and `Close`s through any handle — no
    hypothesis about Reset/Close — at most one `PreparedStmtDB` value exists, every prepared handle (session, nested
    session, transaction) works through it, hence all of them point to the same map object at any time: a `Reset` /
    `Close` through any handle is seen through every handle, and the handles are the single view of an instance of the
    cache LTS with `nV = 1`. -/
theorem C14_one_struct (prepare : Bool) (seq : List DOp) :
    let w := runD (goodWith true) prepare seq
    w.structs.length ≤ 1 ∧
    (∀ p ∈ w.handles, ∀ s, structOf p = some s → s = 0) ∧
    (∀ p ∈ w.handles, ∀ q ∈ w.handles, (structOf p).isSome = true → (structOf q).isSome = true →
      mapOfPool w p = mapOfPool w q) := by
  intro w
  obtain ⟨h1, h2⟩ := oneStruct_of_invR w (invR_run prepare seq)
  refine ⟨h1, h2, fun p hp q hq hps hqs => ?_⟩
  obtain ⟨s, hs⟩ := Option.isSome_iff_exists.mp hps
  obtain ⟨s', hs'⟩ := Option.isSome_iff_exists.mp hqs
  have e1 := h2 p hp s hs
  have e2 := h2 q hq s' hs'
  subst e1; subst e2
  simp [mapOfPool, hs, hs']

open SCS in
/-- non-vacuity: the three F14a derivations on the repaired form — one struct, the handles agree on the map -/
example : (let w := runD (goodWith true) true [.session 0 true, .reset 1]
     w.structs.length = 1 ∧ w.handles.map (mapOfPool w) = [some 1, some 1]) ∧
    (let w := runD (goodWith true) true [.session 0 true, .close 1]
     w.handles.map (mapOfPool w) = [none, none]) ∧
    (let w := runD (goodWith true) false [.session 0 true, .session 0 true, .begin 1, .reset 2, .session 3 true]
     w.structs.length = 1 ∧ w.handles.map (mapOfPool w) = [none, some 1, some 1, some 1, some 1]) := by
  decide

open SCS in
/-- WHAT HOLDS FOR THE CURRENT SOURCE TREE (configuration computed from the regenerated facts): either `DB.Session` hands the
    registered struct itself to the new handle and ONE STRUCT holds for every derivation / Reset / Close sequence, or it
    builds a second struct and the F14a derivation leaves the root of a `Config.PrepareStmt` database on the old map after
    a Reset through a session — while without Reset/Close all handles still share map object 0. -/
theorem C14_one_struct_current_tree :
    (genSCfg.sessReuse = true ∧
      ∀ (prepare : Bool) (seq : List DOp),
        (runD genSCfg prepare seq).structs.length ≤ 1 ∧
        ∀ p ∈ (runD genSCfg prepare seq).handles, ∀ q ∈ (runD genSCfg prepare seq).handles,
          (structOf p).isSome = true → (structOf q).isSome = true →
          mapOfPool (runD genSCfg prepare seq) p = mapOfPool (runD genSCfg prepare seq) q)
    ∨ (genSCfg.sessReuse = false ∧
      (let w := runD genSCfg true [.session 0 true, .reset 1]
       w.handles.map (mapOfPool w) = [some 0, some 1]) ∧
      (∀ (prepare : Bool) (seq : List DOp), noRC seq = true →
        ∀ p ∈ (runD genSCfg prepare seq).handles, ∀ s, structOf p = some s →
          mapOfPool (runD genSCfg prepare seq) p = some 0)) := by
  have hg := C14_cache_creation_sites.2.2
  cases hr : genSCfg.sessReuse with
  | true =>
    rw [hr] at hg
    refine Or.inl ⟨rfl, fun prepare seq => ?_⟩
    rw [hg]
    exact ⟨(C14_one_struct prepare seq).1, (C14_one_struct prepare seq).2.2⟩
  | false =>
    rw [hr] at hg
    refine Or.inr ⟨rfl, ?_, fun prepare seq h p hp s hs => ?_⟩
    · rw [hg]; decide
    · rw [hg] at hp ⊢
      exact (C14_one_generation_shared false prepare seq h p hp s hs).1

/-! ### findings: concrete schedules on which the full statement fails (kernel-checked) -/

/-- F14b witness 1 (late delete after a FAILED prepare): a transaction prepares text 0; a non-transaction request
    overwrites the Transaction entry and prepares too; the transaction's PrepareContext fails and its
    `delete(db.Stmts, query)` removes the OTHER goroutine's entry; that goroutine's statement is stored in an
    entry no map knows, so neither Reset nor Close ever closes it. -/
def cexLeakFail : List Op × List Act :=
  ([.use 0 0 true, .use 0 0 false, .close 0],
   stepsOf 0 2 ++ stepsOf 1 2 ++ [.thr 0 .err] ++ stepsOf 0 2 ++ stepsOf 1 5 ++ stepsOf 2 1)

/-- F14b witness 2 (late ErrBadConn eviction): goroutines 0 and 1 execute the same cached statement, both get
    ErrBadConn; 0 evicts; goroutine 2 re-prepares and caches a fresh statement; then 1's eviction deletes THAT entry. -/
def cexLeakBadConn : List Op × List Act :=
  ([.use 0 0 false, .use 0 0 false, .use 0 0 false, .close 0],
   stepsOf 0 6 ++ stepsOf 1 3 ++ [.thr 0 .bad] ++ stepsOf 0 1 ++ [.closeH 0] ++ stepsOf 2 7 ++
   [.thr 1 .bad] ++ stepsOf 1 1 ++ stepsOf 3 1)

/-- F14b on the UNGUARDED code: whichever of the two guards is missing, the corresponding schedule ends quiescent with
    a statement that is neither closed nor reachable through any struct's map (and exactly one foreign removal). -/
theorem C14_closed_eventually_counterexample :
    (∀ b : Bool, let s := run (init cexLeakFail.1 1 { guardFail := false, guardEvict := b }) cexLeakFail.2
     quiescentB s = true ∧ result s 1 = some .rows ∧ leakedB s 0 = true ∧ foreignRemovals s = 1) ∧
    (∀ b : Bool, let s := run (init cexLeakBadConn.1 1 { guardFail := b, guardEvict := false }) cexLeakBadConn.2
     quiescentB s = true ∧ result s 2 = some .rows ∧ leakedB s 1 = true ∧ foreignRemovals s = 1) := by
  constructor <;> intro b <;> cases b <;> decide

/-- the regenerated table of `delete(db.Stmts, query)` sites has exactly the five sites the model has (prepare's error
    branch and the four ErrBadConn branches), on either tree -/
theorem C14_delete_sites :
    Gen.deleteSites.map (·.fn) =
      ["PreparedStmtDB.prepare", "PreparedStmtDB.ExecContext", "PreparedStmtDB.QueryContext",
       "PreparedStmtTX.ExecContext", "PreparedStmtTX.QueryContext"] := by
  decide

/-- WHAT HOLDS FOR THE CURRENT SOURCE TREE, decided by the regenerated delete-site facts (`genCfg`): either both
    kinds of delete are identity-guarded and leak freedom holds in full, or one is not and the F14b schedule leaks on
    this very configuration while leak freedom still holds outside the F14b pattern. -/
theorem C14_closed_eventually_current_tree :
    (genCfg.guardFail = true ∧ genCfg.guardEvict = true ∧
      ∀ (ops : List Op) (nV : Nat) (sched : List Act), wfOps ops nV →
        quiescent (run (init ops nV genCfg) sched) → NoLeak (run (init ops nV genCfg) sched))
    ∨ ((genCfg.guardFail = false ∨ genCfg.guardEvict = false) ∧
      (∃ (ops : List Op) (sched : List Act) (h : Nat), wfOps ops 1 ∧
        quiescentB (run (init ops 1 genCfg) sched) = true ∧ leakedB (run (init ops 1 genCfg) sched) h = true) ∧
      (∀ (ops : List Op) (nV : Nat) (sched : List Act), wfOps ops nV →
        quiescent (run (init ops nV genCfg) sched) → foreignRemovals (run (init ops nV genCfg) sched) = 0 →
        NoLeak (run (init ops nV genCfg) sched))) := by
  have hpart : ∀ (ops : List Op) (nV : Nat) (sched : List Act), wfOps ops nV →
      quiescent (run (init ops nV genCfg) sched) → foreignRemovals (run (init ops nV genCfg) sched) = 0 →
      NoLeak (run (init ops nV genCfg) sched) :=
    fun ops nV sched hw => C14_closed_eventually_partial ops nV genCfg sched hw
  have hwf1 : wfOps cexLeakFail.1 1 := by
    intro v q tx hm; simp [cexLeakFail] at hm; omega
  have hwf2 : wfOps cexLeakBadConn.1 1 := by
    intro v q tx hm; simp [cexLeakBadConn] at hm; omega
  cases hcfg : genCfg with
  | mk a b =>
    rw [hcfg] at hpart
    cases a with
    | false =>
      right
      refine ⟨Or.inl rfl, ⟨cexLeakFail.1, cexLeakFail.2, 0, hwf1, ?_⟩, hpart⟩
      have := C14_closed_eventually_counterexample.1 b
      exact ⟨this.1, this.2.2.1⟩
    | true =>
      cases b with
      | false =>
        right
        refine ⟨Or.inr rfl, ⟨cexLeakBadConn.1, cexLeakBadConn.2, 1, hwf2, ?_⟩, hpart⟩
        have := C14_closed_eventually_counterexample.2 true
        exact ⟨this.1, this.2.2.1⟩
      | true =>
        left
        exact ⟨rfl, rfl, fun ops nV sched hw => C14_closed_eventually ops nV _ sched hw ⟨rfl, rfl⟩⟩

/-- F14a witness (stale session-level struct): view 1 (a `Session(PrepareStmt)` handle) prepares text 0 and Resets;
    the closers close the statement but the struct behind view 0 still points to the OLD map, so its next
    request finds the closed statement: "sql: statement is closed" although nothing was closed on view 0. -/
def cexStale : List Op × List Act :=
  ([.use 1 0 false, .reset 1, .use 0 0 false],
   stepsOf 0 7 ++ stepsOf 1 1 ++ [.closeE 0] ++ stepsOf 2 3)

/-- F14c witness (Reset closes a statement another goroutine already holds, single struct): goroutine 0 got its
    copy of the Stmt (`ready`), Reset + closer run, then 0 executes a closed statement. -/
def cexHeld : List Op × List Act :=
  ([.use 0 0 false, .reset 0],
   stepsOf 0 5 ++ stepsOf 1 1 ++ [.closeE 0] ++ stepsOf 0 1)

theorem C14_transparent_counterexample :
    (let s := run (init cexStale.1 2) cexStale.2
     result s 0 = some .rows ∧ result s 2 = some .stmtClosed ∧ s.views 0 = some 0) ∧
    (let s := run (init cexHeld.1) cexHeld.2
     result s 0 = some .stmtClosed ∧ s.views 0 = some 1) := by
  decide

/-! ### which POOL the cache wraps, prepares on and runs on (round 3; Model/StmtCacheKinds.lean) -/

open SCK in
/-- REGENERATED FACTS about the pools.  `NewPreparedStmtDB(` is called in `Open` and in `DB.Session` only, and both times
    its argument is `db.ConnPool` — the `Config.ConnPool` of the function's own `db`, never a statement-level pool
    (`tx.Statement.ConnPool`, the type-switch variable); the type switch of `DB.Session` over `tx.Statement.ConnPool` has the
    arms `Tx` and `default` only (no arm keeps or wraps a pinned `*sql.Conn`); the six `prepare(` calls prepare on the
    cache's own pool (`db.ConnPool`, Transaction = false) resp. on the transaction (`tx.Tx`, Transaction = true);
    `DB.Connection` pins `tx.Statement.ConnPool = conn` and defers `conn.Close()`.  Hence the configuration the pool-kind
    model is instantiated with is the healthy one. -/
theorem C14_pool_sites :
    (Gen.newCacheArgs.map fun a => (a.fn, a.recv, a.arg)) = [("Open", "", "db.ConnPool"), ("DB.Session", "db", "db.ConnPool")] ∧
    ((Gen.switchArms.filter fun a => a.fn == "DB.Session").map fun a => (a.subject, a.types)) =
      [("tx.Statement.ConnPool", "Tx"), ("tx.Statement.ConnPool", "default")] ∧
    (Gen.prepareCalls.map fun c => (c.fn, c.recv, c.on, c.conn, c.isTx)) =
      [("PreparedStmtDB.ExecContext", "db", "db", "db.ConnPool", "false"),
       ("PreparedStmtDB.QueryContext", "db", "db", "db.ConnPool", "false"),
       ("PreparedStmtDB.QueryRowContext", "db", "db", "db.ConnPool", "false"),
       ("PreparedStmtTX.ExecContext", "tx", "tx.PreparedStmtDB", "tx.Tx", "true"),
       ("PreparedStmtTX.QueryContext", "tx", "tx.PreparedStmtDB", "tx.Tx", "true"),
       ("PreparedStmtTX.QueryRowContext", "tx", "tx.PreparedStmtDB", "tx.Tx", "true")] ∧
    (Gen.pinSites.map fun p => (p.fn, p.connVar, p.deferClose)) = [("DB.Connection", "conn", true)] ∧
    ((Gen.poolAssigns.filter fun a => a.fn == "DB.Connection").map fun a => (a.lhs, a.rhs)) = [("tx.Statement.ConnPool", "conn")] ∧
    genKCfg = SCK.good := by
  decide

open SCK in
/-- THE REGISTERED CACHE WRAPS THE ROOT POOL, whatever handle first enabled prepared mode.  For `Open` with or without
    `Config.PrepareStmt` and EVERY sequence of derivations and uses — sessions with or without `PrepareStmt` on any handle,
    transactions begun on the pool / on a pinned connection / through the cache, `Connection` on any handle (inside
    transactions too), default transactions, Reset, connections and transactions ending in any order — :
    every `PreparedStmtDB` struct wraps the pool `gorm.Open` was given; every cached statement is bound to NOTHING
    (prepared on the pool, Transaction = false) or to a TRANSACTION (Transaction = true: `Tx.StmtContext` re-prepares it
    wherever it is used later), never to a pinned connection — every statement lives on something that outlives its use. -/
theorem C14_cache_wraps_root (prepare : Bool) (seq : List KOp) :
    let w := runK SCK.good prepare seq
    (∀ st ∈ w.structs, st.wraps = .root) ∧
    (∀ hd ∈ w.handles, ∀ s, hd.stmt = .pdb s → baseOf w hd.stmt = .root) ∧
    (∀ e ∈ w.entries, (e.txFlag = false → e.on = .root) ∧ (e.txFlag = true → ∃ t, e.on = .tx t)) := by
  intro w
  have hI := run_inv prepare seq
  exact ⟨hI.s.2.1, fun hd _ s hs => by rw [hs]; exact baseOf_pdb w hI.s.2.1 s, hI.e⟩

open SCK in
/-- … and this is what the CURRENT source tree does -/
theorem C14_cache_wraps_root_current_tree (prepare : Bool) (seq : List KOp) :
    let w := runK genKCfg prepare seq
    (∀ st ∈ w.structs, st.wraps = .root) ∧
    (∀ hd ∈ w.handles, ∀ s, hd.stmt = .pdb s → baseOf w hd.stmt = .root) ∧
    (∀ e ∈ w.entries, (e.txFlag = false → e.on = .root) ∧ (e.txFlag = true → ∃ t, e.on = .tx t)) := by
  rw [C14_pool_sites.2.2.2.2.2]
  exact C14_cache_wraps_root prepare seq

open SCK in
/-- NO FOREIGN CONNECTION ERROR ("the same rows as non-prepared mode", error part).  Whatever was done before on whatever
    handle — texts first prepared inside a `Connection` that has returned, inside transactions that have ended, through
    other sessions — an operation answers `sql: connection is already closed` / `transaction has already been committed`
    only if the handle's OWN connection / transaction is over. -/
theorem C14_no_foreign_connection_error (prepare : Bool) (seq : List KOp) :
    ∀ o ∈ (runK SCK.good prepare seq).log, o.ownAlive = true → o.res = .ok :=
  (run_inv prepare seq).l

open SCK in
/-- SAME CONNECTION AS NON-PREPARED MODE, outside the pattern of finding F14e: if no prepared session was derived from a
    handle pinned to a connection, every operation ran on what the same derivation without any `PrepareStmt` runs on (the
    pool, the pinned connection, the transaction). -/
theorem C14_pinned_session_partial (prepare : Bool) (seq : List KOp)
    (h : (runK SCK.good prepare seq).pinnedPrep = false) :
    (∀ hd ∈ (runK SCK.good prepare seq).handles, baseOf (runK SCK.good prepare seq) hd.stmt = hd.ghost) ∧
    ∀ o ∈ (runK SCK.good prepare seq).log, o.ranOn = o.want :=
  (run_inv prepare seq).g h

open SCK in
/-- F14e witness: `db.Connection(func(tx){ tx.Session(&Session{PrepareStmt: true}).… })` — the prepared session's statement
    runs on the pool although non-prepared mode runs it on pinned connection 0 (with and without `Config.PrepareStmt`). -/
theorem C14_pinned_session_counterexample :
    ∀ prepare : Bool,
      (let w := runK SCK.good prepare [.connection 0, .session 1 true, .use 2 0 false]
       w.pinnedPrep = true ∧ w.log.map (fun o => (o.ranOn, o.want, o.res)) = [(.root, .conn 0, .ok)]) := by
  decide

open SCK in
/-- the fault class of seed m7 (kernel-checked on the model): a cache created around / a session struct built on the
    statement's CURRENT pool ends up bound to pinned connection 0; after `Connection` returned, the same text through a
    session of the root handle answers `sql: connection is already closed` — and keeps doing so (nothing evicts it). -/
theorem C14_statement_pool_counterexample :
    (let w := runK { sessArg := .statement } false
        [.connection 0, .session 1 true, .use 2 0 false, .endConn 0, .session 0 true, .use 3 0 false, .use 3 0 false]
     w.structs.map (·.wraps) = [.conn 0] ∧ w.log.map (·.res) = [.ok, .connDone, .connDone]) ∧
    (let w := runK { sessPool := .aroundStatement } false
        [.connection 0, .session 1 true, .use 2 0 false, .endConn 0, .session 0 true, .use 3 0 false]
     w.entries.map (·.on) = [.conn 0] ∧ w.log.map (·.res) = [.ok, .connDone]) := by
  decide

open SCK in
/-- non-vacuity: prepared mode first enabled inside a transaction on a pinned connection inside a transaction; texts
    reused after everything ended, in a new transaction and in a new pinned connection: one cache on the root pool, a
    pool-level and a transaction-level entry, every operation ok -/
def kindsDemo : List KOp :=
  [.begin 0, .connection 1, .begin 2, .session 3 true, .use 4 0 false, .use 4 1 false, .endTx 1, .endConn 0, .endTx 0,
   .session 0 true, .use 5 0 false, .begin 5, .use 6 1 false, .endTx 2, .connection 5, .use 7 0 false, .use 5 1 true]

open SCK in
example :
    (runK SCK.good false kindsDemo).nC = 1 ∧ (runK SCK.good false kindsDemo).structs.map (·.wraps) = [.root] ∧
    (runK SCK.good false kindsDemo).pinnedPrep = false ∧ (runK SCK.good false kindsDemo).log.length = 6 ∧
    (runK SCK.good false kindsDemo).log.all (·.res == .ok) = true ∧
    (runK SCK.good false kindsDemo).entries.map (fun e => (e.text, e.on, e.txFlag)) = [(1, .tx 1, true), (0, .root, false)] := by
  decide

/-! ## Round 5 — the cache treats every statement TEXT alike

The LTS is parametric in the text (`Text := Nat`, only ever a key of `maps m`).  That is a claim about the source, so it
is (1) decided on regenerated facts about every occurrence of the text in prepare_stmt.go and (2) proved of the model:
the next section of an `Exec/Query` depends on its text only through what the map holds under it, and it never touches
the cache slot of another text.  A text-dependent admission rule (length bound, statement-kind prefix, normalised key)
breaks (1) on the tree and would break (2) in a model that transcribed it. -/

/-- WHAT prepare_stmt.go DOES WITH A STATEMENT TEXT (regenerated `Gen/StmtCacheTextFacts`, extract/gen_c14t.go): in the
    seven functions that take one (`prepare`, and Exec/Query/QueryRow of the cache and of its transaction) every
    occurrence of the text is the index of `….Stmts[text]`, the key of `delete(….Stmts, text)`, or handed on unchanged to
    `prepare` / `ConnPool.PrepareContext`; no `if` / `switch` / `for` condition mentions the text except as that map
    index.  There is no `len(query)`, no strings function, no comparison, no re-assignment: texts of any length, case,
    spacing — the empty one included — take the same path.  Non-vacuity: `prepare` looks the text up twice (read lock,
    double check), publishes it once and prepares it once. -/
theorem C14_text_uniform_sites :
    Gen.textFuncs = ["PreparedStmtDB.prepare", "PreparedStmtDB.ExecContext", "PreparedStmtDB.QueryContext",
      "PreparedStmtDB.QueryRowContext", "PreparedStmtTX.ExecContext", "PreparedStmtTX.QueryContext",
      "PreparedStmtTX.QueryRowContext"] ∧
    (Gen.textUses.all fun u =>
      u.kind == "key" || u.kind == "delete" ||
      (u.kind == "pass" && (if u.fn == "PreparedStmtDB.prepare" then u.callee == "PrepareContext" else u.callee == "prepare"))) = true ∧
    (Gen.textConds.all fun c => c.mention == "none" || c.mention == "key") = true ∧
    (Gen.textUses.filter fun u => u.fn == "PreparedStmtDB.prepare").map (·.kind) =
      ["key", "key", "key", "pass", "key", "delete"] ∧
    (Gen.textFuncs.all fun f => f == "PreparedStmtDB.prepare" ||
      (Gen.textUses.filter fun u => u.fn == f && u.kind == "pass").length == 1) = true := by
  decide

/-- what a goroutine's section decides and produces, with the text abstracted away: its next program counter, the
    allocation counters (entries published, statements prepared, maps) and every driver statement's state -/
def ctl (s : St) (t : Nat) : Pc × Nat × Nat × Nat × (Nat → Handle) := ((s.threads t).pc, s.nE, s.nH, s.nM, s.handles)

/-- everything `ctl` looks at -/
def core (s : St) : (Nat → Thread) × Nat × Nat × Nat × (Nat → Handle) := (s.threads, s.nE, s.nH, s.nM, s.handles)

theorem core_delAt (s : St) (v : Nat) (q : Text) (own : Nat) : core (delAt s v q own) = core s := by
  unfold delAt
  split
  · rfl
  · split <;> rfl

theorem core_delFail (s : St) (v : Nat) (q : Text) (e : Nat) : core (delFail s v q e) = core s := by
  unfold delFail
  split
  · rfl
  · exact core_delAt s v q e

theorem core_delEvict (s : St) (v : Nat) (q : Text) (e h : Nat) : core (delEvict s v q e h) = core s := by
  unfold delEvict
  split
  · rfl
  · exact core_delAt s v q e

theorem ctl_setPc_congr (s1 s2 : St) (t : Nat) (pc : Pc) (h : core s1 = core s2) :
    ctl (setPc s1 t pc) t = ctl (setPc s2 t pc) t := by
  cases s1; cases s2
  simp only [core, Prod.mk.injEq] at h
  obtain ⟨rfl, rfl, rfl, rfl, rfl⟩ := h
  rfl

theorem ctl_finish_congr (s1 s2 : St) (t : Nat) (r : Res) (h : core s1 = core s2) :
    ctl (finish s1 t r) t = ctl (finish s2 t r) t := by
  cases s1; cases s2
  simp only [core, Prod.mk.injEq] at h
  obtain ⟨rfl, rfl, rfl, rfl, rfl⟩ := h
  simp only [finish, setPc, ctl]
  split <;> rfl

/-- NO BRANCH ON THE TEXT.  In any state, the next section of an `Exec/Query` for text `q` and for text `q'` decide and
    produce the same (same next program counter — hit, wait, publish-and-prepare, `ErrInvalidDB`, eviction —, same
    allocations, same statements closed) whenever the maps hold the same entry under both: the text is looked at only
    through the map lookup.  In particular an uncached long text and an uncached short text are both published and
    prepared once, and both answer `ErrInvalidDB` on a nil map. -/
theorem C14_text_uniform (s : St) (t : Nat) (a : Ans) (v : Nat) (q q' : Text) (tx : Bool) (pc : Pc)
    (h : ∀ m, s.maps m q = s.maps m q') :
    (stepUse s t a v q tx pc).map (ctl · t) = (stepUse s t a v q' tx pc).map (ctl · t) := by
  cases pc with
  | init =>
    simp only [stepUse]
    cases hv : s.views v with
    | none => rfl
    | some m =>
      simp only [← h m]
  | missed =>
    simp only [stepUse]
    cases hv : s.views v with
    | none => rfl
    | some m =>
      simp only [← h m]
      cases hq : s.maps m q with
      | none => simp [publish, setPc, setEnt, ctl]
      | some e =>
        by_cases hu : usable s e tx = true
        · simp [hu]
        · simp [hu, publish, setPc, setEnt, ctl]
  | failing e =>
    simp only [stepUse, Option.map_some, Option.some.injEq]
    exact ctl_setPc_congr _ _ t _ ((core_delFail s v q e).trans (core_delFail s v q' e).symm)
  | evicting e hh =>
    simp only [stepUse, Option.map_some, Option.some.injEq]
    exact ctl_finish_congr _ _ t _ ((core_delEvict _ v q e hh).trans (core_delEvict _ v q' e hh).symm)
  | _ => rfl

/-- TEXTS DO NOT INTERFERE.  A section of an `Exec/Query` for text `q` leaves the cache slot of every OTHER text — in
    every map object — exactly as it was: publishing, the failed-prepare delete and the ErrBadConn eviction all act on
    the key `q` alone.  Two texts that differ only in letter case or white space are two keys with two entries. -/
theorem C14_text_local (s s' : St) (t : Nat) (a : Ans) (v : Nat) (q : Text) (tx : Bool) (pc : Pc)
    (hs : stepUse s t a v q tx pc = some s') (m : Nat) (q' : Text) (hne : q' ≠ q) :
    s'.maps m q' = s.maps m q' := by
  have hdel : ∀ (s0 : St) (own : Nat), (delAt s0 v q own).maps m q' = s0.maps m q' := by
    intro s0 own
    unfold delAt
    split
    · rfl
    · next m0 _ =>
      split
      · rfl
      · dsimp only
        by_cases hm : m = m0
        · subst hm; simp [upd_apply, hne]
        · simp [upd_apply, hm]
  have hfin : ∀ (s0 : St) (r : Res), (finish s0 t r).maps = s0.maps := by
    intro s0 r
    unfold finish
    cases (s0.threads t).op with
    | use _ _ b => cases b <;> rfl
    | _ => rfl
  have hpub : ∀ m0, (publish s t v m0 q tx).maps m q' = s.maps m q' := by
    intro m0
    show upd s.maps m0 (upd (s.maps m0) q (some s.nE)) m q' = s.maps m q'
    by_cases hm : m = m0
    · subst hm; simp [upd_apply, hne]
    · simp [upd_apply, hm]
  cases pc with
  | init =>
    simp only [stepUse] at hs
    cases hv : s.views v with
    | none => simp [hv] at hs; subst hs; rfl
    | some m0 =>
      simp only [hv] at hs
      cases hq : s.maps m0 q with
      | none => simp [hq] at hs; subst hs; rfl
      | some e => simp only [hq] at hs; split at hs <;> (simp at hs; subst hs; rfl)
  | missed =>
    simp only [stepUse] at hs
    cases hv : s.views v with
    | none => simp [hv] at hs; subst hs; rw [hfin]
    | some m0 =>
      simp only [hv] at hs
      cases hq : s.maps m0 q with
      | none => simp [hq] at hs; subst hs; exact hpub m0
      | some e =>
        simp only [hq] at hs
        split at hs
        · simp at hs; subst hs; rfl
        · simp at hs; subst hs; exact hpub m0
  | waiting e =>
    simp only [stepUse] at hs
    split at hs
    · split at hs
      · simp at hs; subst hs; rw [hfin]
      · split at hs <;> (simp at hs; subst hs; first | rfl | rw [hfin])
    · simp at hs
  | preparing e => simp only [stepUse] at hs; cases a <;> (simp at hs; subst hs; rfl)
  | storing e h => simp [stepUse] at hs; subst hs; rfl
  | failing e =>
    simp only [stepUse, delFail] at hs
    split at hs <;> (simp at hs; subst hs)
    · rfl
    · exact hdel s e
  | closingOk e h => simp [stepUse] at hs; subst hs; rfl
  | closingErr e => simp [stepUse] at hs; subst hs; rw [hfin]
  | ready e h => simp only [stepUse] at hs; split at hs <;> (simp at hs; subst hs; first | rfl | rw [hfin])
  | «using» e h => simp only [stepUse] at hs; cases a <;> (simp at hs; subst hs; first | rfl | rw [hfin])
  | evicting e h =>
    simp only [stepUse, delEvict] at hs
    split at hs <;> (simp at hs; subst hs; rw [hfin])
    exact hdel _ e
  | fin r => simp [stepUse] at hs

/-- non-vacuity: a large text index (a "long" text) and text 0 through the same cache — each published and prepared
    once (two requests for the long one), both closed after `Close`, both `invalidDB` afterwards -/
example :
    (let big := 1025
     let s := run (init [.use 0 big false, .use 0 0 false, .use 0 big false, .close 0, .use 0 big false, .use 0 0 false])
       (stepsOf 0 7 ++ stepsOf 1 7 ++ stepsOf 2 4 ++ stepsOf 3 1 ++ [.closeE 0, .closeE 1] ++ stepsOf 4 2 ++ stepsOf 5 2)
     prepCount s 0 big = 1 ∧ prepCount s 0 0 = 1 ∧ s.nH = 2 ∧ (s.handles 0).closed = true ∧ (s.handles 1).closed = true ∧
     result s 4 = some .invalidDB ∧ result s 5 = some .invalidDB ∧ result s 2 = some .rows) := by
  decide

/-! ## Finding F14f — `Row()` drops the error of `prepare` (found by the texts suite: every text once more after Close) -/

/-- COUNTEREXAMPLE (F14f).  With the error path `return &sql.Row{}`, a `Row()` through a CLOSED cache (prepare answers
    ErrInvalidDB) or for a text whose PrepareContext fails hands the caller the empty row — `Scan` panics with a nil
    pointer dereference instead of returning "a clean error once the cache is closed" / the preparation error that
    non-prepared mode returns. -/
theorem C14_row_error_dropped_counterexample :
    queryRow true (some .invalidDB) = .emptyRow ∧ queryRow true (some .prepErr) = .emptyRow := by
  decide

/-- PARTIAL.  Outside F14f's pattern — the preparation succeeded — `Row()` is transparent whatever the error path does;
    and an error path that wraps the error answers every failed preparation with that error. -/
theorem C14_row_partial (d : Bool) :
    queryRow d none = .row ∧ ∀ r, queryRow false (some r) = .errRow r := by
  cases d <;> exact ⟨rfl, fun _ => rfl⟩

/-- WHAT HOLDS FOR THE CURRENT SOURCE TREE (regenerated `Gen.rowErrPaths`): the cache and its transaction each have one
    error path in QueryRowContext; either one of them returns the empty row literal and F14f's witnesses apply, or none
    does and every failed preparation reaches the caller's Scan. -/
theorem C14_row_current_tree :
    Gen.rowErrPaths.map (·.1) = ["PreparedStmtDB.QueryRowContext", "PreparedStmtTX.QueryRowContext"] ∧
    ((rowDropsErr = true ∧ queryRow rowDropsErr (some .invalidDB) = .emptyRow ∧ queryRow rowDropsErr (some .prepErr) = .emptyRow) ∨
     (rowDropsErr = false ∧ ∀ r, queryRow rowDropsErr (some r) = .errRow r)) := by
  refine ⟨by decide, ?_⟩
  by_cases h : rowDropsErr = true
  · exact Or.inl ⟨h, by rw [h]; decide⟩
  · have h' : rowDropsErr = false := by simpa using h
    exact Or.inr ⟨h', by rw [h']; intro r; rfl⟩

end Gorm
