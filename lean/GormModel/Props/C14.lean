/-
  C14 — the prepared-statement cache is transparent, leak-free, safe in any interleaving.
  Theorems over the LTS of Model/StmtCache.lean, for ARBITRARY schedules (lists of scheduler choices with the
  driver's answers); invariants are in Lemmas/StmtCacheInv.lean.
-/
import GormModel.Model.StmtCache
import GormModel.Lemmas.StmtCacheInv
import GormModel.Gen.LockSections
namespace Gorm
open SC

/-- thread `t` runs `n` consecutive sections with answer `a` -/
def stepsOf (t n : Nat) (a : Ans := .ok) : List Act := List.replicate n (.thr t a)

/-- DEADLOCK FREEDOM.  In every state reachable by any schedule from any program (any number of goroutines, texts,
    views, transactions, Reset/Close), if some operation has not returned then some goroutine can take a step
    (pending driver calls are steps: they return).  Waiters wait only for an entry whose preparer is running, and
    preparers never wait. -/
theorem C14_deadlock_free (ops : List Op) (nV : Nat) (cfg : Cfg) (sched : List Act) :
    let s := run (init ops nV cfg) sched
    (∃ t, t < s.nT ∧ isFin s t = false) → ∃ t a, t < s.nT ∧ (act s (.thr t a)).isSome = true := by
  intro s ⟨t, ht, hf⟩
  by_cases hen : ∃ a, (act s (.thr t a)).isSome = true
  · obtain ⟨a, ha⟩ := hen
    exact ⟨t, a, ht, ha⟩
  · have hb : ∀ a, act s (.thr t a) = none := by
      intro a
      cases hact : act s (.thr t a) with
      | none => rfl
      | some s' => exact absurd ⟨a, by simp [hact]⟩ hen
    have hinv := inv1_reachable ops nV cfg sched
    have hop := hinv.2.2.2
    obtain ⟨e, hpc, hprep⟩ := blocked_is_waiter s t ht hop hf hb
    have he : e < s.nE := ((hinv.1.1 t).1 e hpc).1
    obtain ⟨ht0, hown⟩ := hinv.1.2 e he hprep
    generalize (s.entries e).owner = t0 at ht0 hown
    refine ⟨t0, .ok, ht0, ?_⟩
    -- an owner is always enabled
    have ht0' : t0 < s.nT := ht0
    simp only [act, ht0', if_true, tstep]
    cases hop' : (s.threads t0).op with
    | reset v =>
      rcases hop t0 v (Or.inl hop') with h1 | h1
      · rw [h1] at hown; simp [owns] at hown
      · simp only [isFin] at h1; split at h1
        · rename_i hh; rw [hh] at hown; simp [owns] at hown
        · cases h1
    | close v =>
      rcases hop t0 v (Or.inr hop') with h1 | h1
      · rw [h1] at hown; simp [owns] at hown
      · simp only [isFin] at h1; split at h1
        · rename_i hh; rw [hh] at hown; simp [owns] at hown
        · cases h1
    | use v q tx =>
      simp only
      cases hpc0 : (s.threads t0).pc <;> rw [hpc0] at hown <;> simp [owns] at hown <;> simp [stepUse, hpc0]

/-- AT MOST ONCE (accounting form).  For every map object `m` (= cache generation: `NewPreparedStmtDB` and every
    `Reset` allocate a fresh one) and every text `q`, after ANY schedule: the number of `ConnPool.PrepareContext`
    calls issued for `(m, q)` equals the number of entries removed from `m[q]` (failed-prepare delete, ErrBadConn
    eviction, Transaction entry overwritten by a non-transaction request — the only steps that log a removal)
    plus one if an entry is cached now.  However many goroutines ask at the same time, a second PrepareContext
    for the same text and generation needs a removal in between. -/
theorem C14_at_most_once (ops : List Op) (nV : Nat) (cfg : Cfg) (sched : List Act) (m : Nat) (q : Text) :
    let s := run (init ops nV cfg) sched
    prepCount s m q = removedCount s m q + (if (s.maps m q).isSome then 1 else 0) ∧
    prepCount s m q ≤ removedCount s m q + 1 := by
  intro s
  have h := (inv1_reachable ops nV cfg sched).2.2.1 m q
  refine ⟨h, ?_⟩
  have h' : prepCount s m q = removedCount s m q + (if (s.maps m q).isSome then 1 else 0) := h
  split at h' <;> omega

/-- non-vacuity: three goroutines asking for the same text at the same time cause exactly one PrepareContext -/
example : prepCount (run (init [.use 0 0 false, .use 0 0 false, .use 0 0 false])
    (stepsOf 0 1 ++ stepsOf 1 1 ++ stepsOf 2 1 ++ stepsOf 0 1 ++ stepsOf 1 1 ++ stepsOf 2 1 ++ stepsOf 0 4 ++
     stepsOf 1 3 ++ stepsOf 2 3 ++ stepsOf 0 1)) 0 0 = 1 := by decide

/-- TIE of the step granularity (regenerated from prepare_stmt.go on every run): while `Mux` is held no driver /
    database-sql call and no channel operation is executed (closers are only SPAWNED with `go`), so every
    Lock..Unlock section is one atomic step of the LTS; and the sections are exactly the ones the model has:
    Close, Reset, the four of `prepare` (RLock lookup, Lock double-check+publish, Lock delete, Lock store) and the
    four ErrBadConn evictions. -/
theorem C14_lock_sections_atomic :
    (Gen.lockSections.all fun s => s.blockingCalls.isEmpty && s.chanOps == 0) = true ∧
    Gen.lockSections.map (fun s => (s.fn, s.kind)) =
      [("PreparedStmtDB.Close", "Lock"), ("PreparedStmtDB.Reset", "Lock"),
       ("PreparedStmtDB.prepare", "RLock"), ("PreparedStmtDB.prepare", "Lock"),
       ("PreparedStmtDB.prepare", "Lock"), ("PreparedStmtDB.prepare", "Lock"),
       ("PreparedStmtDB.ExecContext", "Lock"), ("PreparedStmtDB.QueryContext", "Lock"),
       ("PreparedStmtTX.ExecContext", "Lock"), ("PreparedStmtTX.QueryContext", "Lock")] := by
  decide

/-! ### findings: concrete schedules on which the full statement fails (kernel-checked) -/

/-- F14b witness 1 (late delete after a FAILED prepare): a transaction prepares text 0; a non-transaction request
    overwrites the Transaction entry and prepares too; the transaction's PrepareContext fails and its
    `delete(db.Stmts, query)` removes the OTHER goroutine's entry; that goroutine's statement is stored in an
    entry no map knows, so neither Reset nor Close ever closes it. -/
def cexLeakFail : List Op × List Act :=
  ([.use 0 0 true, .use 0 0 false, .close 0],
   stepsOf 0 2 ++ stepsOf 1 2 ++ [.thr 0 .err] ++ stepsOf 0 2 ++ stepsOf 1 5 ++ stepsOf 2 1)

/-- F14b witness 2 (late ErrBadConn eviction): goroutines 0 and 1 execute the same cached statement, both get
    ErrBadConn; 0 evicts; goroutine 2 re-prepares and caches a fresh statement; then 1's eviction deletes THAT entry. -/
def cexLeakBadConn : List Op × List Act :=
  ([.use 0 0 false, .use 0 0 false, .use 0 0 false, .close 0],
   stepsOf 0 6 ++ stepsOf 1 3 ++ [.thr 0 .bad] ++ stepsOf 0 1 ++ [.closeH 0] ++ stepsOf 2 7 ++
   [.thr 1 .bad] ++ stepsOf 1 1 ++ stepsOf 3 1)

theorem C14_closed_eventually_counterexample :
    (let s := run (init cexLeakFail.1) cexLeakFail.2
     quiescentB s = true ∧ result s 1 = some .rows ∧ leakedB s 0 = true ∧ foreignRemovals s = 1) ∧
    (let s := run (init cexLeakBadConn.1) cexLeakBadConn.2
     quiescentB s = true ∧ result s 2 = some .rows ∧ leakedB s 1 = true ∧ foreignRemovals s = 1) := by
  decide

/-- F14a witness (stale session-level struct): view 1 (a `Session(PrepareStmt)` handle) prepares text 0 and Resets;
    the closers close the statement but the struct behind view 0 still points to the OLD map, so its next
    request finds the closed statement: "sql: statement is closed" although nothing was closed on view 0. -/
def cexStale : List Op × List Act :=
  ([.use 1 0 false, .reset 1, .use 0 0 false],
   stepsOf 0 7 ++ stepsOf 1 1 ++ [.closeE 0] ++ stepsOf 2 3)

/-- F14c witness (Reset closes a statement another goroutine already holds, single struct): goroutine 0 got its
    copy of the Stmt (`ready`), Reset + closer run, then 0 executes a closed statement. -/
def cexHeld : List Op × List Act :=
  ([.use 0 0 false, .reset 0],
   stepsOf 0 5 ++ stepsOf 1 1 ++ [.closeE 0] ++ stepsOf 0 1)

theorem C14_transparent_counterexample :
    (let s := run (init cexStale.1 2) cexStale.2
     result s 0 = some .rows ∧ result s 2 = some .stmtClosed ∧ s.views 0 = some 0) ∧
    (let s := run (init cexHeld.1) cexHeld.2
     result s 0 = some .stmtClosed ∧ s.views 0 = some 1) := by
  decide

end Gorm
