/-
  C16 — Save, upsert and FirstOrCreate/FirstOrInit converge to the documented state.

  Model: GormModel/Model/Upsert.lean (transcribes finisher_api.go Save / FirstOrInit / FirstOrCreate /
  assignInterfacesToValue, callbacks/create.go ConvertToCreateValues + OnConflict.UpdateAll expansion,
  gorm.go getInstance / Session, statement.go clone, chainable_api.go Attrs / Assign).
  The copy discipline of `Statement.clone()` enters through `genCfg`, computed from the regenerated
  `Gen.cloneLiteral` / `Gen.cloneLater`; theorems about derivations quantify over every `CloneCfg`
  and are then specialised to `genCfg`, so the statement that holds is decided by the current source.
-/
import GormModel.Lemmas.Upsert
namespace Gorm
open Gorm.Upsert

/-! ## Session / WithContext invariance -/

/-- FULL STATEMENT (holds for any tree whose `clone()` copies clauses, attrs and assigns):
    inserting `Session(&Session{})` or `WithContext(ctx)` at any position of any chain changes nothing —
    table, returned record, RowsAffected and error of every finisher are the same. -/
theorem C16_session_invariant_of_full_copy (cfg : CloneCfg) (hf : cfg.full) (sch : Schema) (s : Store)
    (steps : List Step) (f : Fin) (i : Nat) (d : Step) (hd : d.isDeriv = true) :
    runChain cfg sch s (insertAt i d steps) f = runChain cfg sch s steps f := by
  unfold runChain
  have h1 := run_inv cfg (insertAt i d steps) _ base_inv
  have h2 := run_inv cfg steps _ base_inv
  rw [finish_eq_finishS sch s (cloneStmt_full hf _) h1, finish_eq_finishS sch s (cloneStmt_full hf _) h2,
    run_stmt_full hf _ _ base_inv, run_stmt_full hf _ _ base_inv, foldl_insertAt _ _ _ hd]

/-- PARTIAL (holds for the current tree; extra hypothesis = negation of finding F3's pattern):
    if no Attrs/Assign with a non-empty argument list precedes the inserted derivation, the result is
    unchanged — whatever `clone()` does with attrs/assigns. -/
theorem C16_session_invariant_partial (cfg : CloneCfg) (hc : cfg.clauses = true) (sch : Schema) (s : Store)
    (steps : List Step) (f : Fin) (i : Nat) (d : Step) (hd : d.isDeriv = true)
    (hpat : ∀ st ∈ steps.take i, st.setsInit = false) :
    runChain cfg sch s (insertAt i d steps) f = runChain cfg sch s steps f := by
  unfold runChain insertAt
  have e : steps = steps.take i ++ steps.drop i := (List.take_append_drop i steps).symm
  generalize steps.take i = pre at hpat e
  generalize steps.drop i = post at e
  subst e
  rw [run_append, run_append]
  have hp : (Handle.base.run cfg pre).stmt.plain := run_plain cfg pre _ ⟨rfl, rfl⟩ hpat
  have hi : (Handle.base.run cfg pre).Inv := run_inv cfg pre _ base_inv
  generalize Handle.base.run cfg pre = h0 at hp hi
  -- the derivation leaves the statement alone
  have hs : (h0.step cfg d).stmt = h0.stmt := by
    cases d <;> simp_all [Handle.step, Step.isDeriv, cloneStmt_plain hc hp]
  have hi' : (h0.step cfg d).Inv := step_inv cfg h0 d
  show finish cfg sch s ((h0.step cfg d).run cfg post) f = finish cfg sch s (h0.run cfg post) f
  cases post with
  | nil => exact finish_agree hc sch s hs (hs ▸ hp) hi' hi f
  | cons st rest =>
    show finish cfg sch s (((h0.step cfg d).step cfg st).run cfg rest) f = finish cfg sch s ((h0.step cfg st).run cfg rest) f
    rw [step_agree hc hs (hs ▸ hp) hi' hi st]

/-! ### finding F3: `Statement.clone` drops attrs / assigns -/

/-- the schema of the harness model `U16` -/
def c16Schema : Schema :=
  { ncols := 8,
    kind := fun c => match c with
      | 0 => .pk | 4 => .clientDefault 7 | 5 => .dbDefault 8 | 6 => .autoCreate | 7 => .autoUpdate | _ => .plain }

def c16Empty : Store := { rows := fun _ => none, next := 1 }

/-- `db.Where(U{Name:"v1"}).Attrs(U{Age:2})` -/
def c16CexChain : List Step := [.where_ [.eq 1 1], .attrs (some (.structV [(2, 2)]))]

/-- COUNTEREXAMPLE (F3), for every tree whose `clone()` does not copy `attrs`:
    `db.Where(U{Name}).Attrs(U{Age:2}).WithContext(ctx).FirstOrInit(&u)` yields Age 0, without the
    `WithContext` it yields Age 2. -/
theorem C16_session_invariant_counterexample (cfg : CloneCfg) (h : cfg.attrs = false) :
    (runChain cfg c16Schema c16Empty (insertAt 2 .withCtx c16CexChain) (.firstOrInit [])).val 2 = 0 ∧
    (runChain cfg c16Schema c16Empty c16CexChain (.firstOrInit [])).val 2 = 2 := by
  cases cfg with
  | mk cl ca cs =>
    simp only at h
    subst h
    cases cl <;> cases cs <;> decide

/-- `db.Where(U{Name:"v1"}).Assign("age", 2)` -/
def c16CexChain2 : List Step := [.where_ [.eq 1 1], .assign (some (.kv 2 2))]

def c16OneRow : Store := { rows := fun k => if k = 1 then some (fun c => if c ≤ 1 then 1 else 0) else none, next := 2 }

/-- COUNTEREXAMPLE (F3, assigns), for every tree whose `clone()` does not copy `assigns` but copies clauses:
    on a table holding (id 1, name v1) `db.Where(U{Name}).Assign("age", 2).WithContext(ctx).FirstOrCreate(&u)`
    leaves age 0 in the row, without the `WithContext` the row gets age 2. -/
theorem C16_assign_lost_counterexample (cfg : CloneCfg) (hc : cfg.clauses = true) (h : cfg.assigns = false) :
    (((runChain cfg c16Schema c16OneRow (insertAt 2 .withCtx c16CexChain2)
        (.firstOrCreate [])).store.rows 1).map (fun r => r 2)) = some 0 ∧
    (((runChain cfg c16Schema c16OneRow c16CexChain2
        (.firstOrCreate [])).store.rows 1).map (fun r => r 2)) = some 2 := by
  cases cfg with
  | mk cl ca cs =>
    simp only at h hc
    subst h; subst hc
    cases ca <;> decide

/-- regenerated fact: `clone()` copies the clause map (conditions and ON CONFLICT travel through derivations) -/
theorem C16_clone_copies_clauses : genCfg.clauses = true := by decide

/-- WHAT HOLDS FOR THE CURRENT SOURCE TREE, decided by the regenerated clone facts: either `clone()`
    copies attrs and assigns and Session/WithContext invariance holds in full, or it does not and the
    F3 witness separates the two chains (and invariance still holds outside the F3 pattern). -/
theorem C16_session_invariant_current_tree :
    (genCfg.full ∧ ∀ (sch : Schema) (s : Store) (steps : List Step) (f : Fin) (i : Nat) (d : Step), d.isDeriv = true →
        runChain genCfg sch s (insertAt i d steps) f = runChain genCfg sch s steps f)
    ∨ ((genCfg.attrs = false ∨ genCfg.assigns = false) ∧
        (∃ (sch : Schema) (s : Store) (steps : List Step) (f : Fin) (i : Nat) (d : Step), d.isDeriv = true ∧
          ((runChain genCfg sch s (insertAt i d steps) f).val 2 ≠ (runChain genCfg sch s steps f).val 2 ∨
           ((runChain genCfg sch s (insertAt i d steps) f).store.rows 1).map (fun r => r 2) ≠
             ((runChain genCfg sch s steps f).store.rows 1).map (fun r => r 2))) ∧
        (∀ (sch : Schema) (s : Store) (steps : List Step) (f : Fin) (i : Nat) (d : Step), d.isDeriv = true →
          (∀ st ∈ steps.take i, st.setsInit = false) →
          runChain genCfg sch s (insertAt i d steps) f = runChain genCfg sch s steps f)) := by
  have hc := C16_clone_copies_clauses
  cases ha : genCfg.attrs with
  | false =>
    right
    refine ⟨Or.inl rfl, ⟨c16Schema, c16Empty, c16CexChain, .firstOrInit [], 2, .withCtx, rfl, Or.inl ?_⟩, ?_⟩
    · have := C16_session_invariant_counterexample genCfg ha
      rw [this.1, this.2]; decide
    · intro sch s steps f i d hd hp
      exact C16_session_invariant_partial genCfg hc sch s steps f i d hd hp
  | true =>
    cases hs : genCfg.assigns with
    | false =>
      right
      refine ⟨Or.inr rfl, ⟨c16Schema, c16OneRow, c16CexChain2, .firstOrCreate [], 2, .withCtx, rfl, Or.inr ?_⟩, ?_⟩
      · have := C16_assign_lost_counterexample genCfg hc hs
        rw [this.1, this.2]; decide
      · intro sch s steps f i d hd hp
        exact C16_session_invariant_partial genCfg hc sch s steps f i d hd hp
    | true =>
      left
      exact ⟨⟨hc, ha, hs⟩, fun sch s steps f i d hd =>
        C16_session_invariant_of_full_copy genCfg ⟨hc, ha, hs⟩ sch s steps f i d hd⟩

/-! ## FirstOrInit / FirstOrCreate -/

/-- FirstOrInit never writes: the table after it is the table before it — any chain, any conditions,
    any attrs/assigns, any clone discipline. -/
theorem C16_init_never_writes (cfg : CloneCfg) (sch : Schema) (s : Store) (steps : List Step) (inl : List Cond) :
    (runChain cfg sch s steps (.firstOrInit inl)).store = s := by
  simp only [runChain, finish, firstOrInit]
  split <;> rfl

theorem insertRow_frame (sch : Schema) (s : Store) (rule : Option Rule) (v : Row) :
    ∃ k, ∀ j, j ≠ k → (insertRow sch s rule v).store.rows j = s.rows j := by
  refine ⟨proposed sch s.next (fillCreate sch v) 0, ?_⟩
  intro j hj
  simp only [insertRow]
  split
  · simp [hj]
  · split
    · rfl
    · split
      · rfl
      · simp [Store.put, hj]

/-- FirstOrCreate writes at most one row: all keys but one keep their row (or absence of a row). -/
theorem C16_create_at_most_one (cfg : CloneCfg) (sch : Schema) (s : Store) (steps : List Step) (inl : List Cond) :
    ∃ k, ∀ j, j ≠ k → (runChain cfg sch s steps (.firstOrCreate inl)).store.rows j = s.rows j := by
  simp only [runChain, finish, firstOrCreate]
  split
  · exact insertRow_frame sch s none _
  · rename_i r _
    refine ⟨r 0, ?_⟩
    intro j hj
    split
    · rfl
    · split
      · split
        · simp [Store.put, hj]
        · rfl
      · rfl

end Gorm
