/-
  C16 — Save, upsert and FirstOrCreate/FirstOrInit converge to the documented state.

  Model: GormModel/Model/Upsert.lean (transcribes finisher_api.go Save / FirstOrInit / FirstOrCreate /
  assignInterfacesToValue, callbacks/create.go ConvertToCreateValues + OnConflict.UpdateAll expansion,
  gorm.go getInstance / Session, statement.go clone, chainable_api.go Attrs / Assign).
  The copy discipline of `Statement.clone()` enters through `genCfg`, computed from the regenerated
  `Gen.cloneLiteral` / `Gen.cloneLater`; theorems about derivations quantify over every `CloneCfg`
  and are then specialised to `genCfg`, so the statement that holds is decided by the current source.
-/
import GormModel.Lemmas.Upsert
import GormModel.Model.UpsertClause
import GormModel.Lemmas.UpsertKeys
import GormModel.Lemmas.UpsertScan
import GormModel.Lemmas.UpsertForms
namespace Gorm
open Gorm.Upsert

/-! ## Session / WithContext invariance -/

/-- FULL STATEMENT (holds for any tree whose `clone()` copies clauses, attrs and assigns):
    inserting `Session(&Session{})` or `WithContext(ctx)` at any position of any chain changes nothing —
    table, returned record, RowsAffected and error of every finisher are the same. -/
theorem C16_session_invariant_of_full_copy (cfg : CloneCfg) (hf : cfg.full) (sch : Schema) (s : Store)
    (steps : List Step) (f : Fin) (i : Nat) (d : Step) (hd : d.isDeriv = true) :
    runChain cfg sch s (insertAt i d steps) f = runChain cfg sch s steps f := by
  unfold runChain
  have h1 := run_inv cfg (insertAt i d steps) _ base_inv
  have h2 := run_inv cfg steps _ base_inv
  rw [finish_eq_finishS sch s (cloneStmt_full hf _) h1, finish_eq_finishS sch s (cloneStmt_full hf _) h2,
    run_stmt_full hf _ _ base_inv, run_stmt_full hf _ _ base_inv, foldl_insertAt _ _ _ hd]

/-- PARTIAL (holds for the current tree; extra hypothesis = negation of finding F3's pattern):
    if no Attrs/Assign with a non-empty argument list precedes the inserted derivation, the result is
    unchanged — whatever `clone()` does with attrs/assigns. -/
theorem C16_session_invariant_partial (cfg : CloneCfg) (hc : cfg.clauses = true) (sch : Schema) (s : Store)
    (steps : List Step) (f : Fin) (i : Nat) (d : Step) (hd : d.isDeriv = true)
    (hpat : ∀ st ∈ steps.take i, st.setsInit = false) :
    runChain cfg sch s (insertAt i d steps) f = runChain cfg sch s steps f := by
  unfold runChain insertAt
  have e : steps = steps.take i ++ steps.drop i := (List.take_append_drop i steps).symm
  generalize steps.take i = pre at hpat e
  generalize steps.drop i = post at e
  subst e
  rw [run_append, run_append]
  have hp : (Handle.base.run cfg pre).stmt.plain := run_plain cfg pre _ ⟨rfl, rfl⟩ hpat
  have hi : (Handle.base.run cfg pre).Inv := run_inv cfg pre _ base_inv
  generalize Handle.base.run cfg pre = h0 at hp hi
  -- the derivation leaves the statement alone
  have hs : (h0.step cfg d).stmt = h0.stmt := by
    cases d <;> simp_all [Handle.step, Step.isDeriv, cloneStmt_plain hc hp]
  have hi' : (h0.step cfg d).Inv := step_inv cfg h0 d
  show finish cfg sch s ((h0.step cfg d).run cfg post) f = finish cfg sch s (h0.run cfg post) f
  cases post with
  | nil => exact finish_agree hc sch s hs (hs ▸ hp) hi' hi f
  | cons st rest =>
    show finish cfg sch s (((h0.step cfg d).step cfg st).run cfg rest) f = finish cfg sch s ((h0.step cfg st).run cfg rest) f
    rw [step_agree hc hs (hs ▸ hp) hi' hi st]

/-! ### finding F3: `Statement.clone` drops attrs / assigns -/

/-- the schema of the harness model `U16` -/
def c16Schema : Schema :=
  { ncols := 9,
    kind := fun c => match c with
      | 0 => .pk | 4 => .clientDefault 7 | 5 => .dbDefault 8 | 6 => .autoCreate | 7 => .autoUpdate | 8 => .dbNull | _ => .plain }

def c16Empty : Store := { rows := fun _ => none, next := 1 }

/-- `db.Where(U{Name:"v1"}).Attrs(U{Age:2})` -/
def c16CexChain : List Step := [.where_ [.eq 1 1], .attrs (some (.structV [(2, 2)]))]

/-- COUNTEREXAMPLE (F3), for every tree whose `clone()` does not copy `attrs`:
    `db.Where(U{Name}).Attrs(U{Age:2}).WithContext(ctx).FirstOrInit(&u)` yields Age 0, without the
    `WithContext` it yields Age 2. -/
theorem C16_session_invariant_counterexample (cfg : CloneCfg) (h : cfg.attrs = false) :
    (runChain cfg c16Schema c16Empty (insertAt 2 .withCtx c16CexChain) (.firstOrInit [])).val 2 = 0 ∧
    (runChain cfg c16Schema c16Empty c16CexChain (.firstOrInit [])).val 2 = 2 := by
  cases cfg with
  | mk cl ca cs =>
    simp only at h
    subst h
    cases cl <;> cases cs <;> decide

/-- `db.Where(U{Name:"v1"}).Assign("age", 2)` -/
def c16CexChain2 : List Step := [.where_ [.eq 1 1], .assign (some (.kv 2 2))]

def c16OneRow : Store := { rows := fun k => if k = 1 then some (fun c => if c ≤ 1 then 1 else 0) else none, next := 2 }

/-- COUNTEREXAMPLE (F3, assigns), for every tree whose `clone()` does not copy `assigns` but copies clauses:
    on a table holding (id 1, name v1) `db.Where(U{Name}).Assign("age", 2).WithContext(ctx).FirstOrCreate(&u)`
    leaves age 0 in the row, without the `WithContext` the row gets age 2. -/
theorem C16_assign_lost_counterexample (cfg : CloneCfg) (hc : cfg.clauses = true) (h : cfg.assigns = false) :
    (((runChain cfg c16Schema c16OneRow (insertAt 2 .withCtx c16CexChain2)
        (.firstOrCreate [])).store.rows 1).map (fun r => r 2)) = some 0 ∧
    (((runChain cfg c16Schema c16OneRow c16CexChain2
        (.firstOrCreate [])).store.rows 1).map (fun r => r 2)) = some 2 := by
  cases cfg with
  | mk cl ca cs =>
    simp only at h hc
    subst h; subst hc
    cases ca <;> decide

/-- PARTIAL, whole-chain form (extra hypothesis = exact negation of finding F3's pattern as the harness
    decides it): a chain in which no Session/WithContext follows a non-empty Attrs/Assign gives the same
    result as the chain with ALL its Session/WithContext calls removed — whatever `clone()` does with
    attrs/assigns. -/
theorem C16_session_invariant_outside_pattern (cfg : CloneCfg) (hc : cfg.clauses = true) (sch : Schema) (s : Store)
    (steps : List Step) (f : Fin) (hpat : f3Pattern false steps = false) :
    runChain cfg sch s steps f = runChain cfg sch s (steps.filter (fun st => !st.isDeriv)) f :=
  finish_run_outside_pattern hc sch s f steps _ _ rfl ⟨rfl, rfl⟩ base_inv base_inv hpat

/-- non-vacuity / sharpness: the F3 witness chain is inside the pattern, and a chain with the derivation
    BEFORE the Attrs is outside it -/
example : f3Pattern false (insertAt 2 .withCtx c16CexChain) = true := by decide
example : f3Pattern false (insertAt 1 .withCtx c16CexChain) = false := by decide

/-- what a chain means: outside the F3 pattern (and, on a tree whose `clone()` copies everything, always)
    the outcome of `chain.finisher` is the finisher applied to the chain's accumulated conditions, its last
    OnConflict, its last Attrs and its last Assign — Session/WithContext calls contribute nothing -/
theorem C16_chain_semantics (cfg : CloneCfg) (hc : cfg.clauses = true) (sch : Schema) (s : Store)
    (steps : List Step) (f : Fin) (h : cfg.full ∨ f3Pattern false steps = false) :
    runChain cfg sch s steps f = finishS sch s (steps.foldl stmtStep Stmt.empty) f := by
  rcases h with hf | hpat
  · unfold runChain
    rw [finish_eq_finishS sch s (cloneStmt_full hf _) (run_inv cfg steps _ base_inv), run_stmt_full hf _ _ base_inv]
    rfl
  · rw [C16_session_invariant_outside_pattern cfg hc sch s steps f hpat]
    unfold runChain
    have hnd : ∀ st ∈ steps.filter (fun x => !x.isDeriv), st.isDeriv = false := by
      intro st hst
      have := (List.mem_filter.mp hst).2
      simpa using this
    obtain ⟨h1, h2, h3⟩ := run_noderiv cfg _ Handle.base hnd (by decide) base_inv
    rw [finish_low hc sch s h1 h2, h3, foldl_filter_deriv]
    rfl


/-- regenerated fact: `clone()` copies the clause map (conditions and ON CONFLICT travel through derivations) -/
theorem C16_clone_copies_clauses : genCfg.clauses = true := by decide

/-- WHAT HOLDS FOR THE CURRENT SOURCE TREE, decided by the regenerated clone facts: either `clone()`
    copies attrs and assigns and Session/WithContext invariance holds in full, or it does not and the
    F3 witness separates the two chains (and invariance still holds outside the F3 pattern). -/
theorem C16_session_invariant_current_tree :
    (genCfg.full ∧ ∀ (sch : Schema) (s : Store) (steps : List Step) (f : Fin) (i : Nat) (d : Step), d.isDeriv = true →
        runChain genCfg sch s (insertAt i d steps) f = runChain genCfg sch s steps f)
    ∨ ((genCfg.attrs = false ∨ genCfg.assigns = false) ∧
        (∃ (sch : Schema) (s : Store) (steps : List Step) (f : Fin) (i : Nat) (d : Step), d.isDeriv = true ∧
          ((runChain genCfg sch s (insertAt i d steps) f).val 2 ≠ (runChain genCfg sch s steps f).val 2 ∨
           ((runChain genCfg sch s (insertAt i d steps) f).store.rows 1).map (fun r => r 2) ≠
             ((runChain genCfg sch s steps f).store.rows 1).map (fun r => r 2))) ∧
        (∀ (sch : Schema) (s : Store) (steps : List Step) (f : Fin) (i : Nat) (d : Step), d.isDeriv = true →
          (∀ st ∈ steps.take i, st.setsInit = false) →
          runChain genCfg sch s (insertAt i d steps) f = runChain genCfg sch s steps f)) := by
  have hc := C16_clone_copies_clauses
  cases ha : genCfg.attrs with
  | false =>
    right
    refine ⟨Or.inl rfl, ⟨c16Schema, c16Empty, c16CexChain, .firstOrInit [], 2, .withCtx, rfl, Or.inl ?_⟩, ?_⟩
    · have := C16_session_invariant_counterexample genCfg ha
      rw [this.1, this.2]; decide
    · intro sch s steps f i d hd hp
      exact C16_session_invariant_partial genCfg hc sch s steps f i d hd hp
  | true =>
    cases hs : genCfg.assigns with
    | false =>
      right
      refine ⟨Or.inr rfl, ⟨c16Schema, c16OneRow, c16CexChain2, .firstOrCreate [], 2, .withCtx, rfl, Or.inr ?_⟩, ?_⟩
      · have := C16_assign_lost_counterexample genCfg hc hs
        rw [this.1, this.2]; decide
      · intro sch s steps f i d hd hp
        exact C16_session_invariant_partial genCfg hc sch s steps f i d hd hp
    | true =>
      left
      exact ⟨⟨hc, ha, hs⟩, fun sch s steps f i d hd =>
        C16_session_invariant_of_full_copy genCfg ⟨hc, ha, hs⟩ sch s steps f i d hd⟩

/-! ## Create with an OnConflict rule -/

/-- what a fresh insert stores, column by column: the value itself, except that zero values become the
    client default / database default / NOW for tracked times / the next rowid -/
theorem C16_inserted_row (sch : Schema) (next : Nat) (v : Row) (c : Nat) :
    insertedRow sch next v c =
      match sch.kind c with
      | .pk => if v c = 0 then next else v c
      | .plain => v c
      | .softDelete => v c
      | .clientDefault d => if v c = 0 then d else v c
      | .dbDefault d => if v c = 0 then d else v c
      | .dbNull => v c
      | .autoCreate => if v c = 0 then NOW else v c
      | .autoUpdate => if v c = 0 then NOW else v c := by
  unfold insertedRow proposed fillCreate
  cases h : sch.kind c <;> simp
  all_goals (split <;> simp_all [NOW])

/-- key absent: every rule (and no rule) inserts the row; nothing else changes -/
theorem C16_conflict_absent_inserts (sch : Schema) (hw : sch.WF) (s : Store) (rule : Option Rule) (v : Row)
    (habs : s.rows (targetKey s v) = none) :
    (insertRow sch s rule v).store.rows (targetKey s v) = some (insertedRow sch s.next v) ∧
      (insertRow sch s rule v).err = .ok ∧ (insertRow sch s rule v).ra = 1 ∧
      ∀ j, j ≠ targetKey s v → (insertRow sch s rule v).store.rows j = s.rows j := by
  rw [insertRow_absent hw rule habs]
  refine ⟨by simp, rfl, rfl, ?_⟩
  intro j hj
  simp [hj]

/-- key present, no rule: unique violation, nothing written -/
theorem C16_no_rule_unique (sch : Schema) (hw : sch.WF) (s : Store) (v : Row) (old : Row)
    (hex : s.rows (targetKey s v) = some old) :
    (insertRow sch s none v).store = s ∧ (insertRow sch s none v).err = .unique := by
  rw [insertRow_conflict_none hw hex]
  exact ⟨rfl, rfl⟩

/-- key present, DoNothing: the table is untouched, no error -/
theorem C16_conflict_do_nothing (sch : Schema) (hw : sch.WF) (s : Store) (v : Row) (old : Row)
    (hex : s.rows (targetKey s v) = some old) :
    (insertRow sch s (some .doNothing) v).store = s ∧ (insertRow sch s (some .doNothing) v).err = .ok ∧
      (insertRow sch s (some .doNothing) v).ra = 0 := by
  rw [insertRow_conflict_rule hw _ hex]
  exact ⟨rfl, rfl, rfl⟩

/-- key present, DoUpdates: exactly the listed columns change (to the would-be-inserted value or the
    literal), every other column and every other row stays — for every existing row and column list -/
theorem C16_conflict_do_updates (sch : Schema) (hw : sch.WF) (s : Store) (v : Row) (old : Row)
    (as : List (Nat × Asg)) (hex : s.rows (targetKey s v) = some old) :
    (∃ new, (insertRow sch s (some (.doUpdates as)) v).store.rows (targetKey s v) = some new ∧ ∀ c, new c =
        match lookupAsg as c with
        | none => old c
        | some .excluded => insertedRow sch s.next v c
        | some (.lit x) => x) ∧
      (insertRow sch s (some (.doUpdates as)) v).err = .ok ∧
      ∀ j, j ≠ targetKey s v → (insertRow sch s (some (.doUpdates as)) v).store.rows j = s.rows j := by
  rw [insertRow_conflict_rule hw _ hex]
  simp only [resolve]
  refine ⟨⟨applyAsg old (insertedRow sch s.next v) (lookupAsg as), by simp [Store.put], ?_⟩, trivial, ?_⟩
  · intro c
    simp only [applyAsg]
    cases lookupAsg as c with
    | none => rfl
    | some a => cases a <;> rfl
  · intro j hj
    simp [Store.put, hj]

/-- key present, UpdateAll: every column is overwritten with the would-be-inserted value EXCEPT the
    primary key, columns whose default comes from the database and the auto-create time (kept), and
    the auto-update time (NOW); every other row stays — for every existing row -/
theorem C16_conflict_update_all (sch : Schema) (hw : sch.WF) (s : Store) (v : Row) (old : Row)
    (hex : s.rows (targetKey s v) = some old) :
    (∃ new, (insertRow sch s (some .updateAll) v).store.rows (targetKey s v) = some new ∧ ∀ c, c < sch.ncols → new c =
        match sch.kind c with
        | .pk => old c
        | .dbDefault _ => old c
        | .dbNull => if v c = 0 then old c else v c
        | .autoCreate => old c
        | .autoUpdate => NOW
        | .clientDefault d => if v c = 0 then d else v c
        | .plain => v c
        | .softDelete => v c) ∧
      (insertRow sch s (some .updateAll) v).err = .ok ∧
      ∀ j, j ≠ targetKey s v → (insertRow sch s (some .updateAll) v).store.rows j = s.rows j := by
  rw [insertRow_conflict_rule hw _ hex]
  by_cases hany : ((List.range sch.ncols).any fun c => (updateAllAsg sch (fillCreate sch v) c).isSome) = true
  · -- at least one assignable column
    simp only [resolve, hany, if_true]
    refine ⟨⟨applyAsg old (insertedRow sch s.next v) (updateAllAsg sch (fillCreate sch v)), by simp [Store.put], ?_⟩, trivial, ?_⟩
    · intro c _
      cases hkind : sch.kind c <;>
        simp [applyAsg, updateAllAsg, inInsert, insertedRow, proposed, fillCreate, hkind]
      all_goals (try split) <;> simp_all
    · intro j hj
      simp [Store.put, hj]
  · -- empty expansion degrades to DoNothing: then no column of the schema is assignable
    simp only [resolve, hany]
    refine ⟨⟨old, hex, ?_⟩, rfl, fun j _ => rfl⟩
    intro c hc
    have hnone : (updateAllAsg sch (fillCreate sch v) c).isSome = false := by
      cases hh : (updateAllAsg sch (fillCreate sch v) c).isSome with
      | false => rfl
      | true =>
        exfalso; apply hany
        simp only [List.any_eq_true]
        exact ⟨c, by simp [hc], hh⟩
    simp only [updateAllAsg, inInsert] at hnone
    cases hkind : sch.kind c <;> simp_all [fillCreate]

/-! ## upserts whose INSERT lists only some of the model's columns (map values, Select/Omit, omitted
    database-default columns) -/

/-- the key a Create through `src` targets -/
def keyFrom (sch : Schema) (s : Store) (src : Src) (v : Row) : Nat :=
  proposedIns sch s.next (src.listed sch v) (src.fill sch v) 0

/-- STRUCTURAL FACT of the UpdateAll expansion (create.go: `for _, column := range values.Columns`): a column
    that the INSERT does not list is never in DO UPDATE SET — whatever the source, the value, Select/Omit. -/
theorem C16_update_all_only_listed (sch : Schema) (src : Src) (v : Row) (c : Nat)
    (h : src.listed sch v c = false) : updateAllIns sch src (src.listed sch v) c = none := by
  simp [updateAllIns, h]

/-- the generalisation is conservative: an unrestricted struct goes through `insertFrom` exactly as through
    `insertRow`, so every `C16_conflict_*` / `C16_save_*` theorem above is about the same function -/
theorem C16_insertFrom_struct_all (sch : Schema) (s : Store) (rule : Option Rule) (v : Row) :
    insertFrom sch s rule (.struct [] []) v = insertRow sch s rule v := by
  have hl : (Src.struct [] []).listed sch v = inInsert sch (fillCreate sch v) := by
    funext c
    cases hk : sch.kind c <;> simp [Src.listed, allowed, mention, inInsert, fillCreate, hk]
  have hf : (Src.struct [] []).fill sch v = fillCreate sch v := by
    funext c
    cases hk : sch.kind c <;> simp [Src.fill, Src.listed, allowed, mention, fillCreate, hk]
  have hp : proposedIns sch s.next (inInsert sch (fillCreate sch v)) (fillCreate sch v) = proposed sch s.next (fillCreate sch v) := by
    funext c
    cases hk : sch.kind c <;> simp [proposedIns, proposed, inInsert, fillCreate, hk]
    all_goals (first | (intro h; omega) | (split <;> simp_all))
  have hu : updateAllIns sch (.struct [] []) (inInsert sch (fillCreate sch v)) = updateAllAsg sch (fillCreate sch v) := by
    funext c
    cases hk : sch.kind c <;> simp [updateAllIns, updateAllAsg, Src.updatable, allowed, mention, hk]
  have hr : ∀ r, resolveIns sch (.struct [] []) (inInsert sch (fillCreate sch v)) r = resolve sch (fillCreate sch v) r := by
    intro r
    cases r <;> simp [resolveIns, resolve, hu]
  have hb : ∀ new, (Src.struct [] []).writeBack sch (fillCreate sch v) new = backfill sch (fillCreate sch v) new := fun _ => rfl
  have hbp : backfill sch (fillCreate sch v) (proposed sch s.next (fillCreate sch v)) = proposed sch s.next (fillCreate sch v) := by
    funext c
    cases hk : sch.kind c <;> simp [backfill, proposed, hk]
  simp only [insertFrom, insertRow, hl, hf, hp, hb, hbp]
  split
  · rfl
  · cases rule with
    | none => rfl
    | some r => simp only [hr]

/-- what `insertFrom` does when the targeted key holds a row -/
theorem insertFrom_conflict (sch : Schema) (s : Store) (src : Src) (v old : Row) (r : Rule)
    (hex : s.rows (keyFrom sch s src v) = some old) :
    insertFrom sch s (some r) src v =
      match resolveIns sch src (src.listed sch v) r with
      | none => { store := s, val := src.fill sch v, ra := 0, err := .ok }
      | some asg =>
        { store := s.put (keyFrom sch s src v) (applyAsg old (proposedIns sch s.next (src.listed sch v) (src.fill sch v)) asg),
          val := src.writeBack sch (src.fill sch v) (applyAsg old (proposedIns sch s.next (src.listed sch v) (src.fill sch v)) asg),
          ra := 1, err := .ok } := by
  unfold keyFrom at hex
  simp only [insertFrom, keyFrom, hex]
  rfl

/-- key present, UpdateAll, ANY source: column by column — a column is overwritten only if the INSERT lists it
    and Select/Omit allow it and it is not the primary key / a database-default column / the auto-create time;
    every other column (in particular every column that was NOT SUPPLIED) keeps its stored value, and every
    other row stays. -/
theorem C16_partial_update_all (sch : Schema) (s : Store) (src : Src) (v old : Row)
    (hex : s.rows (keyFrom sch s src v) = some old) :
    (∃ new, (insertFrom sch s (some .updateAll) src v).store.rows (keyFrom sch s src v) = some new ∧
      ∀ c, c < sch.ncols → new c =
        if (src.listed sch v c && src.updatable c) = true then
          match sch.kind c with
          | .pk => old c
          | .dbDefault _ => old c
          | .autoCreate => old c
          | .autoUpdate => NOW
          | _ => src.fill sch v c
        else old c) ∧
    (insertFrom sch s (some .updateAll) src v).err = .ok ∧
    (∀ j, j ≠ keyFrom sch s src v → (insertFrom sch s (some .updateAll) src v).store.rows j = s.rows j) := by
  rw [insertFrom_conflict sch s src v old _ hex]
  by_cases hany : ((List.range sch.ncols).any fun c => (updateAllIns sch src (src.listed sch v) c).isSome) = true
  · simp only [resolveIns, hany, if_true]
    refine ⟨⟨applyAsg old (proposedIns sch s.next (src.listed sch v) (src.fill sch v)) (updateAllIns sch src (src.listed sch v)),
      by simp [Store.put], ?_⟩, trivial, fun j hj => by simp [Store.put, hj]⟩
    intro c _
    cases hlu : (src.listed sch v c && src.updatable c)
    · simp [applyAsg, updateAllIns, hlu]
    · have hl : src.listed sch v c = true := by simp only [Bool.and_eq_true] at hlu; exact hlu.1
      have hu : src.updatable c = true := by simp only [Bool.and_eq_true] at hlu; exact hlu.2
      cases hk : sch.kind c <;> simp [applyAsg, updateAllIns, proposedIns, hl, hu, hk]
  · simp only [resolveIns, hany]
    refine ⟨⟨old, hex, ?_⟩, rfl, fun _ _ => rfl⟩
    intro c hc
    have hnone : (updateAllIns sch src (src.listed sch v) c).isSome = false := by
      cases hh : (updateAllIns sch src (src.listed sch v) c).isSome with
      | false => rfl
      | true =>
        exfalso; apply hany
        simp only [List.any_eq_true]
        exact ⟨c, by simp [hc], hh⟩
    cases hlu : (src.listed sch v c && src.updatable c)
    · simp
    · simp only [updateAllIns, hlu, if_true] at hnone
      cases hk : sch.kind c <;> simp_all

/-- key present, DoNothing or UpdateAll, ANY source: a column the INSERT does not list keeps its stored value
    (no bound on the column index needed) -/
theorem C16_partial_keeps_unlisted (sch : Schema) (s : Store) (src : Src) (v old : Row) (r : Rule)
    (hr : r = .doNothing ∨ r = .updateAll) (hex : s.rows (keyFrom sch s src v) = some old) :
    ∃ new, (insertFrom sch s (some r) src v).store.rows (keyFrom sch s src v) = some new ∧
      ∀ c, src.listed sch v c = false → new c = old c := by
  rw [insertFrom_conflict sch s src v old _ hex]
  rcases hr with hr | hr <;> subst hr
  · exact ⟨old, hex, fun _ _ => rfl⟩
  · by_cases hany : ((List.range sch.ncols).any fun c => (updateAllIns sch src (src.listed sch v) c).isSome) = true
    · simp only [resolveIns, hany, if_true]
      refine ⟨applyAsg old (proposedIns sch s.next (src.listed sch v) (src.fill sch v)) (updateAllIns sch src (src.listed sch v)),
        by simp [Store.put], ?_⟩
      intro c hc
      simp [applyAsg, C16_update_all_only_listed sch src v c hc]
    · simp only [resolveIns, hany]
      exact ⟨old, hex, fun _ _ => rfl⟩

/-- key present, DoUpdates, ANY source: exactly the named columns change; `excluded.col` of a column the
    INSERT does not list is the column's database default (rowid / default / NULL) -/
theorem C16_partial_do_updates (sch : Schema) (s : Store) (src : Src) (v old : Row) (as : List (Nat × Asg))
    (hex : s.rows (keyFrom sch s src v) = some old) :
    ∃ new, (insertFrom sch s (some (.doUpdates as)) src v).store.rows (keyFrom sch s src v) = some new ∧
      ∀ c, new c = match lookupAsg as c with
        | none => old c
        | some .excluded => proposedIns sch s.next (src.listed sch v) (src.fill sch v) c
        | some (.lit x) => x := by
  rw [insertFrom_conflict sch s src v old _ hex]
  simp only [resolveIns]
  refine ⟨applyAsg old (proposedIns sch s.next (src.listed sch v) (src.fill sch v)) (lookupAsg as), by simp [Store.put], ?_⟩
  intro c
  simp only [applyAsg]
  cases lookupAsg as c with
  | none => rfl
  | some a => cases a <;> rfl

/-- key absent, ANY source and rule: the row is inserted; a listed column holds the supplied value, an
    unlisted one its database default; nothing else changes -/
theorem C16_partial_absent_inserts (sch : Schema) (s : Store) (rule : Option Rule) (src : Src) (v : Row)
    (habs : s.rows (keyFrom sch s src v) = none) :
    (insertFrom sch s rule src v).err = .ok ∧
    (∀ j, j ≠ keyFrom sch s src v → (insertFrom sch s rule src v).store.rows j = s.rows j) ∧
    ∃ new, (insertFrom sch s rule src v).store.rows (keyFrom sch s src v) = some new ∧
      ∀ c, new c = if src.listed sch v c then src.fill sch v c else
        match sch.kind c with
        | .pk => s.next
        | .dbDefault d => d
        | .clientDefault d => d
        | _ => 0 := by
  have e : insertFrom sch s rule src v =
      { store := { rows := fun j => if j = keyFrom sch s src v then some (proposedIns sch s.next (src.listed sch v) (src.fill sch v)) else s.rows j,
                   next := max s.next (keyFrom sch s src v + 1) },
        val := src.writeBack sch (src.fill sch v) (proposedIns sch s.next (src.listed sch v) (src.fill sch v)), ra := 1, err := .ok } := by
    unfold keyFrom at habs
    simp only [insertFrom, keyFrom, habs]
    rfl
  rw [e]
  refine ⟨rfl, fun j hj => by simp [hj], proposedIns sch s.next (src.listed sch v) (src.fill sch v), by simp, fun c => ?_⟩
  simp only [proposedIns]
  split <;> rfl

/-- non-vacuity: `Model(&U{}).Clauses(OnConflict{UpdateAll}).Create(map{id:1, age:2})` on the table holding
    (id 1, name v1): age becomes 2, the name — not supplied — stays v1 -/
example : ((insertFrom c16Schema c16OneRow (some .updateAll) (.map [0, 2]) (fun c => if c = 0 then 1 else if c = 2 then 2 else 0)).store.rows 1).map
    (fun r => (r 1, r 2)) = some (1, 2) := by decide
example : ∃ old, c16OneRow.rows (keyFrom c16Schema c16OneRow (.map [0, 2]) (fun c => if c = 0 then 1 else if c = 2 then 2 else 0)) = some old := ⟨_, rfl⟩
/-- a Select-restricted struct: `Select("id","age")`: name is not listed -/
example : (Src.struct [0, 2] []).listed c16Schema (fun _ => 1) 1 = false ∧ (Src.struct [0, 2] []).listed c16Schema (fun _ => 1) 2 = true := by decide

/-! ## reusable handles: a handle derived after Attrs/Assign is used for several finishers -/

/-- REGENERATED FACT (finisher_api.go): none of the finishers assigns a field of — or calls a mutating method
    on — the Statement of its RECEIVER: every such write goes through `db.getInstance()` / `db.Session(…)` /
    `db.Limit(…)`, i.e. through a statement derived for this call. (Any field: conditions, attrs, assigns, Dest,
    Selects …; the property's finishers and the ones they call: Find, Create, Updates.) -/
theorem C16_finishers_leave_receiver :
    ∀ w ∈ Gen.finisherStmtWrites,
      w.fn ∈ ["DB.Save", "DB.Create", "DB.FirstOrInit", "DB.FirstOrCreate", "DB.Find", "DB.Updates"] → w.recv = false := by decide

/-- regenerated fact (since `fix:` 1b48a88): `clone()` carries clauses, attrs and assigns over -/
theorem C16_gen_clone_full : genCfg.full := ⟨by decide, by decide, by decide⟩

theorem C16_gen_recv_writes_none : ∀ k f, genRecvW k f = false := by
  intro k f
  cases k <;> cases f <;> decide

theorem stmtAfter_id {w : RecvW} (hw : ∀ k f, w k f = false) (st : Stmt) (k : FinKind) : stmtAfter w st k = st := by
  simp [stmtAfter, hw]

/-- REUSE = FRESH CHAINS, for any tree whose finishers do not write their receiver's statement: using the handle
    `base.<pre>` for any number of finishers in a row (each preceded by any further chain steps) gives, use by
    use, exactly what the chains `base.<pre>.<steps>.<finisher>` written from scratch give on the evolving
    table — table, record, RowsAffected, error. Nothing is left over from a previous use and nothing is lost. -/
theorem C16_reuse_is_fresh_chain (cfg : CloneCfg) (w : RecvW) (hw : ∀ k f, w k f = false) (sch : Schema)
    (pre : List Step) (uses : List (List Step × Fin)) :
    ∀ s : Store, useSeq cfg w sch s (Handle.base.run cfg pre) uses = chainSeq cfg sch pre s uses := by
  induction uses with
  | nil => intro s; rfl
  | cons u rest ih =>
    intro s
    simp only [useSeq, chainSeq, stmtAfter_id hw, runChain, run_append, ite_self]
    rw [ih]

/-- WHAT HOLDS FOR THE CURRENT SOURCE TREE (clone facts + finisher-write facts, both regenerated): a handle
    derived by Session/WithContext anywhere — in particular AFTER Attrs/Assign — can be used k times; every use
    behaves like the fresh chain, which in turn (clone() copies everything) is the finisher applied to the
    accumulated conditions / OnConflict / last Attrs / last Assign of `pre ++ steps`. -/
theorem C16_reuse_current_tree (sch : Schema) (pre : List Step) (uses : List (List Step × Fin)) (s : Store) :
    useSeq genCfg genRecvW sch s (Handle.base.run genCfg pre) uses = chainSeq genCfg sch pre s uses ∧
    ∀ (t : Store) (u : List Step × Fin),
      runChain genCfg sch t (pre ++ u.1) u.2 = finishS sch t ((pre ++ u.1).foldl stmtStep Stmt.empty) u.2 :=
  ⟨C16_reuse_is_fresh_chain genCfg genRecvW C16_gen_recv_writes_none sch pre uses s,
   fun t u => C16_chain_semantics genCfg C16_gen_clone_full.1 sch t (pre ++ u.1) u.2 (Or.inl C16_gen_clone_full)⟩

/-- the shape of fault this excludes: FirstOrCreate "consuming" the attrs of its receiver -/
def c16ConsumeAttrs : RecvW := fun k f => k == .firstOrCreate && f == .attrs

/-- `h := db.Where(U{Name:"v1"}).Attrs(U{Age:2}).Session(&Session{})` ; `h.FirstOrCreate(&a)` ; `h.Where("name","v2").FirstOrInit(&b)` -/
def c16ReusePre : List Step := [.where_ [.eq 1 1], .attrs (some (.structV [(2, 2)])), .session]
def c16ReuseUses : List (List Step × Fin) := [([], .firstOrCreate []), ([.where_ [.eq 1 2]], .firstOrInit [])]

/-- COUNTEREXAMPLE for any tree in which FirstOrCreate clears its receiver's attrs: the second use of the
    handle loses the Attrs (Age 0) although the same chain written from scratch yields Age 2 -/
theorem C16_reuse_counterexample :
    ((useSeq ⟨true, true, true⟩ c16ConsumeAttrs c16Schema c16Empty (Handle.base.run ⟨true, true, true⟩ c16ReusePre) c16ReuseUses).map
        (fun o => o.val 2)) = [2, 0] ∧
    ((chainSeq ⟨true, true, true⟩ c16Schema c16ReusePre c16Empty c16ReuseUses).map (fun o => o.val 2)) = [2, 2] := by
  decide

/-! ## Save -/

/-- what `Save` leaves behind, stated once for the four ways the code can take (zero key / live row with
    the key / no row with the key / soft-deleted row with the key). `o.val` is the caller's value after
    the call (defaults, timestamps and the generated key are written back into it). -/
def C16SavedFull (sch : Schema) (s : Store) (v : Row) (o : Out) : Prop :=
  o.err = .ok ∧ o.val 0 ≠ 0 ∧ (v 0 ≠ 0 → o.val 0 = v 0) ∧
  ∃ r, o.store.rows (o.val 0) = some r ∧
    -- the stored row is the caller's value, tracked timestamps aside
    (∀ c, isTracked sch c = false → r c = o.val c) ∧
    -- ordinary columns hold exactly what was passed in, zero values included
    (∀ c, (sch.kind c = .plain ∨ sch.kind c = .softDelete) → r c = v c) ∧
    (∀ c d, sch.kind c = .clientDefault d → v c ≠ 0 → r c = v c) ∧
    -- no other row is touched
    (∀ j, j ≠ o.val 0 → o.store.rows j = s.rows j)

/-- Save stores the full value whether or not its key already exists (live, soft-deleted or absent),
    for every well-formed table and every value. -/
theorem C16_save_stores_all (sch : Schema) (hw : sch.WF) (s : Store) (hs : s.WF) (v : Row) :
    C16SavedFull sch s v (save sch s v) := by
  have hk0 := kind0 hw
  by_cases hz : v 0 = 0
  · -- zero key: plain insert under the next rowid
    rw [save_zero hw hs hz]
    have hkey : insertedRow sch s.next v 0 = s.next := by
      rw [insertedRow_key hw]; simp [targetKey, hz]
    refine ⟨rfl, by dsimp only; rw [hkey]; have := hs.1; omega, fun h => absurd hz h, insertedRow sch s.next v, by simp [hkey], fun _ _ => rfl, ?_, ?_, ?_⟩
    · intro c hc
      rw [C16_inserted_row]
      rcases hc with hc | hc <;> simp [hc]
    · intro c d hc hv
      rw [C16_inserted_row]; simp [hc, hv]
    · intro j hj
      simp only [hkey] at hj
      simp [hj]
  · have ht := touchUpdate_key hw v
    cases hex : s.rows (v 0) with
    | none =>
      -- no row with the key: the UPDATE affects nothing, the upsert inserts
      rw [save_absent hw hz hex]
      have hkey : insertedRow sch s.next (touchUpdate sch v) 0 = v 0 := by
        rw [insertedRow_key hw]; simp [targetKey, ht, hz]
      refine ⟨rfl, by dsimp only; rw [hkey]; exact hz, fun _ => hkey, insertedRow sch s.next (touchUpdate sch v), by simp [hkey], fun _ _ => rfl, ?_, ?_, ?_⟩
      · intro c hc
        rw [C16_inserted_row]
        rcases hc with hc | hc <;> simp [hc, touchUpdate]
      · intro c d hc hv
        rw [C16_inserted_row]; simp [hc, hv, touchUpdate]
      · intro j hj
        simp only [hkey] at hj
        simp [hj]
    | some old =>
      have hold := (hs.2 _ _ hex).1
      cases hv : visible sch old with
      | true =>
        -- live row: UPDATE of all fields
        rw [save_live hw hz hex hv]
        refine ⟨rfl, by dsimp only; rw [ht]; exact hz, fun _ => ht, mergeNonPk sch old (touchUpdate sch v), by simp [Store.put, ht], ?_, ?_, ?_, ?_⟩
        · intro c _
          by_cases hc : c = 0
          · subst hc; simp [mergeNonPk, hk0, hold, ht]
          · have : sch.kind c ≠ .pk := fun h => hc ((hw.2 c).1 h)
            cases hkc : sch.kind c <;> simp_all [mergeNonPk]
        · intro c hc
          rcases hc with hc | hc <;> simp [mergeNonPk, touchUpdate, hc]
        · intro c d hc _
          simp [mergeNonPk, touchUpdate, hc]
        · intro j hj
          simp only [ht] at hj
          simp [Store.put, hj]
      | false =>
        -- soft-deleted row with the key: the UPDATE affects nothing, the upsert overwrites it
        rw [save_dead hw hz hex hv]
        have hkey : backfill sch (fillCreate sch (touchUpdate sch v))
            (applyAsg old (insertedRow sch s.next (touchUpdate sch v))
              (updateAllAsg sch (fillCreate sch (touchUpdate sch v)))) 0 = v 0 := by
          simp [backfill, hk0, applyAsg, updateAllAsg, hold]
        refine ⟨rfl, by dsimp only; rw [hkey]; exact hz, fun _ => hkey,
          applyAsg old (insertedRow sch s.next (touchUpdate sch v)) (updateAllAsg sch (fillCreate sch (touchUpdate sch v))),
          by simp [Store.put, hkey], ?_, ?_, ?_, ?_⟩
        · intro c hc
          cases hkc : sch.kind c <;>
            simp [backfill, applyAsg, updateAllAsg, inInsert, insertedRow, proposed, fillCreate, touchUpdate, hkc, isTracked] at hc ⊢
        · intro c hc
          rcases hc with hc | hc <;>
            simp [applyAsg, updateAllAsg, inInsert, insertedRow, proposed, fillCreate, touchUpdate, hc]
        · intro c d hc hv0
          simp [applyAsg, updateAllAsg, inInsert, insertedRow, proposed, fillCreate, touchUpdate, hc, hv0]
        · intro j hj
          simp only [hkey] at hj
          simp [Store.put, hj]

/-- saving twice equals saving once, tracked timestamps aside: `db.Save(&v); db.Save(&v)` leaves the
    same table and the same value as the first `Save` alone — for every table and every live value. -/
theorem C16_save_idempotent (sch : Schema) (hw : sch.WF) (s : Store) (hs : s.WF) (v : Row)
    (hlive : visible sch v = true) :
    storeTsEq sch (save sch (save sch s v).store (save sch s v).val).store (save sch s v).store ∧
    tsEq sch (save sch (save sch s v).store (save sch s v).val).val (save sch s v).val ∧
    (save sch (save sch s v).store (save sch s v).val).err = .ok := by
  obtain ⟨_, hz, _, r, hr, htr, hplain, _, _⟩ := C16_save_stores_all sch hw s hs v
  generalize save sch s v = o1 at *
  have hk0 := kind0 hw
  have hvis : visible sch r = true := by
    apply visible_of_cols
    intro c hc hkc
    rw [hplain c (Or.inr hkc)]
    exact visible_col hlive hc hkc
  -- the second Save finds a live row under the key and takes the UPDATE path
  rw [save_live hw hz hr hvis]
  refine ⟨⟨rfl, ?_⟩, ?_, rfl⟩
  · intro k
    by_cases hk : k = o1.val 0
    · subst hk
      right
      refine ⟨mergeNonPk sch r (touchUpdate sch o1.val), r, by simp [Store.put], hr, ?_⟩
      intro c hc
      by_cases hc0 : sch.kind c = .pk
      · simp [mergeNonPk, hc0]
      · have : mergeNonPk sch r (touchUpdate sch o1.val) c = touchUpdate sch o1.val c := by
          cases hkc : sch.kind c <;> simp_all [mergeNonPk]
        rw [this, htr c hc]
        cases hkc : sch.kind c <;> simp [touchUpdate, hkc, isTracked] at hc ⊢
    · cases hrow : o1.store.rows k with
      | none => left; simp [Store.put, hk, hrow]
      | some a => right; exact ⟨a, a, by simp [Store.put, hk, hrow], rfl, fun _ _ => rfl⟩
  · intro c hc
    cases hkc : sch.kind c <;> simp [touchUpdate, hkc, isTracked] at hc ⊢

/-! ## FirstOrInit / FirstOrCreate -/

/-- FirstOrInit never writes: the table after it is the table before it — any chain, any conditions,
    any attrs/assigns, any clone discipline. -/
theorem C16_init_never_writes (cfg : CloneCfg) (sch : Schema) (s : Store) (steps : List Step) (inl : List Cond) :
    (runChain cfg sch s steps (.firstOrInit inl)).store = s := by
  simp only [runChain, finish, firstOrInit]
  split <;> rfl

theorem insertRow_frame (sch : Schema) (s : Store) (rule : Option Rule) (v : Row) :
    ∃ k, ∀ j, j ≠ k → (insertRow sch s rule v).store.rows j = s.rows j := by
  refine ⟨proposed sch s.next (fillCreate sch v) 0, ?_⟩
  intro j hj
  simp only [insertRow]
  split
  · simp [hj]
  · split
    · rfl
    · split
      · rfl
      · simp [Store.put, hj]

/-- FirstOrCreate writes at most one row: all keys but one keep their row (or absence of a row). -/
theorem C16_create_at_most_one (cfg : CloneCfg) (sch : Schema) (s : Store) (steps : List Step) (inl : List Cond) :
    ∃ k, ∀ j, j ≠ k → (runChain cfg sch s steps (.firstOrCreate inl)).store.rows j = s.rows j := by
  simp only [runChain, finish, firstOrCreate]
  split
  · exact insertRow_frame sch s none _
  · rename_i r _
    refine ⟨r 0, ?_⟩
    intro j hj
    split
    · rfl
    · split
      · split
        · simp [Store.put, hj]
        · rfl
      · rfl

/-- the row FirstOrInit/FirstOrCreate work on is THE first match: the live row with the smallest key
    satisfying every condition; `none` means no live row below `next` satisfies them -/
theorem C16_first_match_is_first (sch : Schema) (s : Store) (cs : List Cond) :
    (∀ r, firstMatch sch s cs = some r →
      ∃ k, k < s.next ∧ s.rows k = some r ∧ visible sch r = true ∧ holdsAll r cs = true ∧
        ∀ i r', i < k → s.rows i = some r' → (visible sch r' && holdsAll r' cs) = false) ∧
    (firstMatch sch s cs = none →
      ∀ i r', i < s.next → s.rows i = some r' → (visible sch r' && holdsAll r' cs) = false) := by
  constructor
  · intro r h
    obtain ⟨j, _, h2, h3, h4, h5, h6⟩ := findFrom_some s.next 0 h
    exact ⟨j, by omega, h3, h4, h5, fun i r' hi hr => h6 i r' (by omega) hi hr⟩
  · intro h i r' hi hr
    exact findFrom_none s.next 0 h i r' (by omega) (by omega) hr

/-- first match returned unchanged: on a hit FirstOrInit returns the row with only the assigns laid over
    it, FirstOrCreate without Assign returns the row itself and writes nothing -/
theorem C16_first_match_unchanged (sch : Schema) (s : Store) (cs txcs : List Cond) (attrs assigns : Option Init)
    (r : Row) (hit : firstMatch sch s cs = some r) :
    (firstOrInit sch s cs attrs assigns).val = applyInit r assigns ∧
    (firstOrInit sch s cs attrs none).val = r ∧
    (firstOrCreate sch s cs txcs attrs none).val = r ∧
    (firstOrCreate sch s cs txcs attrs none).store = s ∧
    (firstOrCreate sch s cs txcs attrs none).err = .ok := by
  simp [firstOrInit, firstOrCreate, hit, applyInit]

/-- Attrs only on a miss: on a hit neither finisher's outcome (table, record, RowsAffected, error)
    depends on the attrs; on a miss the record is conditions, then attrs, then assigns -/
theorem C16_attrs_only_on_miss (sch : Schema) (s : Store) (cs txcs : List Cond) (a1 a2 assigns : Option Init) :
    (∀ r, firstMatch sch s cs = some r →
      firstOrInit sch s cs a1 assigns = firstOrInit sch s cs a2 assigns ∧
      firstOrCreate sch s cs txcs a1 assigns = firstOrCreate sch s cs txcs a2 assigns) ∧
    (firstMatch sch s cs = none →
      (firstOrInit sch s cs a1 assigns).val = applyInit (applyInit (assignAll zeroRow cs) a1) assigns ∧
      firstOrCreate sch s cs txcs a1 assigns =
        insertRow sch s none (applyInit (applyInit (assignAll zeroRow cs) a1) assigns)) := by
  constructor
  · intro r hit
    simp [firstOrInit, firstOrCreate, hit]
  · intro miss
    simp [firstOrInit, firstOrCreate, miss, built]

/-- a record built from the conditions plus Attrs plus Assign: on a miss the record is the zero value with
    (1) every equality of the conditions (also those inside And-groups; raw SQL text contributes none),
    then (2) the attrs, then (3) the assigns laid over it — in that order, later writes win -/
theorem C16_built_from_conditions (cs : List Cond) (attrs assigns : Option Init) :
    built cs attrs assigns = applyInit (applyInit (setAll zeroRow (eqsAll cs)) attrs) assigns ∧
    ∀ c, setAll zeroRow (eqsAll cs) c = (lookupCol (eqsAll cs).reverse c).getD 0 := by
  refine ⟨by simp [built, assignAll_eq], fun c => ?_⟩
  rw [setAll_apply]; rfl

/-- Assign in both cases (FirstOrInit): whether or not a row matched, the returned record is some base
    record with the assigns laid over it, so every assigned column holds its (last) assigned value -/
theorem C16_assign_both_cases (sch : Schema) (s : Store) (cs : List Cond) (attrs : Option Init) (i : Init) :
    (∃ base, (firstOrInit sch s cs attrs (some i)).val = applyInit base (some i)) ∧
    ∀ c v, lookupCol i.cols.reverse c = some v → (firstOrInit sch s cs attrs (some i)).val c = v := by
  have key : ∀ base : Row, ∀ c v, lookupCol i.cols.reverse c = some v → applyInit base (some i) c = v := by
    intro base c v h
    simp [applyInit, setAll_apply, h]
  cases hm : firstMatch sch s cs with
  | some r =>
    simp only [firstOrInit, hm]
    exact ⟨⟨r, rfl⟩, key r⟩
  | none =>
    simp only [firstOrInit, hm, built]
    exact ⟨⟨_, rfl⟩, key _⟩

/-- Assign in both cases (FirstOrCreate): on a hit the matched row — and only it — gets exactly the assigned
    columns (plus NOW in the auto-update time) in the table and in the returned record; on a miss the created
    record carries the assigns -/
theorem C16_assign_both_cases_create (sch : Schema) (s : Store) (cs txcs : List Cond) (attrs : Option Init) (i : Init) :
    (∀ r cur, firstMatch sch s cs = some r → s.rows (r 0) = some cur →
        (visible sch cur && holdsAll cur txcs) = true →
      let o := firstOrCreate sch s cs txcs attrs (some i)
      o.store.rows (r 0) = some (mapUpdate sch i.cols cur) ∧ o.val = mapUpdate sch i.cols r ∧
      (∀ c v, lookupCol i.cols c = some v → o.val c = v ∧ mapUpdate sch i.cols cur c = v) ∧
      (∀ c, lookupCol i.cols c = none → sch.kind c ≠ .autoUpdate → mapUpdate sch i.cols cur c = cur c) ∧
      ∀ j, j ≠ r 0 → o.store.rows j = s.rows j) ∧
    (firstMatch sch s cs = none →
      firstOrCreate sch s cs txcs attrs (some i) =
        insertRow sch s none (applyInit (applyInit (assignAll zeroRow cs) attrs) (some i))) := by
  constructor
  · intro r cur hit hcur hok
    simp only [firstOrCreate, hit, hcur, hok, if_true]
    refine ⟨by simp [Store.put], trivial, ?_, ?_, ?_⟩
    · intro c v h
      simp [mapUpdate, h]
    · intro c h hk
      cases hkc : sch.kind c <;> simp_all [mapUpdate]
    · intro j hj
      simp [Store.put, hj]
  · intro miss
    simp [firstOrCreate, miss, built]

/-! ## sequences -/

/-- a program = chain + finisher; a history runs programs one after the other on the same table -/
def c16RunSeq (cfg : CloneCfg) (sch : Schema) (s : Store) : List (List Step × Fin) → Store
  | [] => s
  | p :: ps => c16RunSeq cfg sch (runChain cfg sch s p.1 p.2).store ps

/-- every history of Save / Create+OnConflict / FirstOrInit / FirstOrCreate programs (whose DoUpdates and
    Assign lists leave the primary key alone) keeps the table well-formed — so the per-operation theorems
    above (`C16_save_*`, `C16_conflict_*`, …, all stated for well-formed tables) apply at EVERY step of
    every history, of any length, from any well-formed start. -/
theorem C16_wf_invariant (cfg : CloneCfg) (sch : Schema) (hw : sch.WF) (progs : List (List Step × Fin)) :
    ∀ s : Store, s.WF → (∀ p ∈ progs, (∀ st ∈ p.1, st.ok) ∧ p.2.ok) → (c16RunSeq cfg sch s progs).WF := by
  induction progs with
  | nil => intro s hs _; exact hs
  | cons p ps ih =>
    intro s hs hall
    apply ih
    · exact finish_wf hw hs (run_ok cfg p.1 _ empty_ok (hall p (by simp)).1) p.2 (hall p (by simp)).2
    · intro q hq
      exact hall q (by simp [hq])

/-- non-vacuity: the harness schema and tables are well-formed, the F3 chains are admissible programs -/
example : c16Schema.WF := ⟨by decide, fun c => by
  constructor
  · intro h
    match c with
    | 0 => rfl
    | 1 | 2 | 3 | 4 | 5 | 6 | 7 | 8 => simp [c16Schema] at h
    | n + 9 => simp [c16Schema] at h
  · intro h; subst h; rfl⟩
example : c16Empty.WF := ⟨by decide, fun k r h => by simp [c16Empty] at h⟩
example : ∀ st ∈ c16CexChain2, st.ok := by
  intro st h
  simp [c16CexChain2] at h
  rcases h with h | h <;> subst h <;> simp [Step.ok, Init.cols, lookupCol]

/-! ### the hypotheses used above are satisfiable by non-trivial values -/

example : ({ clauses := true, attrs := true, assigns := true } : CloneCfg).full := ⟨rfl, rfl, rfl⟩
example : c16OneRow.WF := ⟨by decide, fun k r h => by
  simp only [c16OneRow] at h
  split at h
  · rename_i hk; subst hk; cases h; decide
  · cases h⟩
/-- a live value colliding with the stored key 1 -/
example : visible c16Schema (fun c => if c = 0 then 1 else 2) = true := by decide
example : ∃ old, c16OneRow.rows (targetKey c16OneRow (fun c => if c = 0 then 1 else 2)) = some old := ⟨_, rfl⟩
example : firstMatch c16Schema c16OneRow [.eq 1 1] ≠ none := by decide
example : firstMatch c16Schema c16OneRow [.eq 1 2] = none := by decide


/-! ## Round 2 — every field of `clause.OnConflict` through gorm's rewriting; Save under Select / Omit -/


/-- **The UpdateAll expansion changes ONLY `DoUpdates`** — plus the two documented defaults: an empty conflict
    target becomes the primary key, an empty SET list turns the rule into DO NOTHING. `Where` (the DO UPDATE guard),
    `TargetWhere` (partial-index predicate), `OnConstraint` and `UpdateAll` come out as they went in, the caller's own
    assignments stay in front, a non-empty target and a set `DoNothing` are kept. For every schema, source, inserted
    column set and clause. -/
theorem C16_expand_only_doUpdates (sch : Schema) (src : Src) (ins : Nat → Bool) (hasCols : Bool) (oc : OC) :
    (oc.expand sch src ins hasCols).where_ = oc.where_ ∧
    (oc.expand sch src ins hasCols).targetWhere = oc.targetWhere ∧
    (oc.expand sch src ins hasCols).onConstraint = oc.onConstraint ∧
    (oc.expand sch src ins hasCols).updateAll = oc.updateAll ∧
    (oc.columns ≠ [] → (oc.expand sch src ins hasCols).columns = oc.columns) ∧
    (oc.columns = [] → (oc.expand sch src ins hasCols).columns = [] ∨ (oc.expand sch src ins hasCols).columns = pkCols sch) ∧
    (oc.doNothing = true → (oc.expand sch src ins hasCols).doNothing = true) ∧
    (∃ extra, (oc.expand sch src ins hasCols).doUpdates = oc.doUpdates ++ extra) ∧
    ((oc.expand sch src ins hasCols).doNothing = true → oc.doNothing = true ∨ (oc.expand sch src ins hasCols).doUpdates = []) := by
  by_cases h : (oc.updateAll && hasCols) = true
  · have e : oc.expand sch src ins hasCols =
        { oc with
          doUpdates := oc.doUpdates ++ expandUpdates sch src ins,
          doNothing := if (oc.doUpdates ++ expandUpdates sch src ins).isEmpty then true else oc.doNothing,
          columns := if oc.columns.isEmpty then pkCols sch else oc.columns } := by
      simp only [OC.expand, h, if_true]
    rw [e]
    refine ⟨rfl, rfl, rfl, rfl, ?_, ?_, ?_, ⟨_, rfl⟩, ?_⟩
    · intro hc
      cases hcs : oc.columns with
      | nil => exact absurd hcs hc
      | cons a l => simp
    · intro hc; right; simp [hc]
    · intro hd
      by_cases he : (oc.doUpdates ++ expandUpdates sch src ins).isEmpty = true <;> simp [he, hd]
    · intro hd
      by_cases he : (oc.doUpdates ++ expandUpdates sch src ins).isEmpty = true
      · right; simpa using he
      · left; simpa [he] using hd
  · have e : oc.expand sch src ins hasCols = oc := by simp only [OC.expand, h]; simp
    rw [e]
    exact ⟨rfl, rfl, rfl, rfl, fun _ => rfl, fun hc => Or.inl hc, fun hd => hd, ⟨[], by simp⟩, fun hd => Or.inl hd⟩

/-- a clause that does not ask for UpdateAll is not rewritten at all -/
theorem C16_expand_noop (sch : Schema) (src : Src) (ins : Nat → Bool) (hasCols : Bool) (oc : OC)
    (h : oc.updateAll = false) : oc.expand sch src ins hasCols = oc := by
  simp [OC.expand, h]

/-- `DO UPDATE SET … WHERE guard`: when the guard is false for the conflicting row, the row stays exactly as stored -/
theorem C16_guard_false_keeps_row (oc : OC) (o p : Row) (h : guardsHold o p oc.where_ = false) :
    oc.onRow o p = o := by
  unfold OC.onRow
  by_cases hd : oc.doNothing = true <;> simp [hd, h]

theorem C16_do_nothing_keeps_row (oc : OC) (o p : Row) (h : oc.doNothing = true) : oc.onRow o p = o := by
  simp [OC.onRow, h]

/-- … and through gorm's rewriting: an UpdateAll rule that carries a guard leaves a conflicting row for which the
    guard is false untouched (the stale-write rule `excluded.version > table.version`) -/
theorem C16_expand_guard_survives (sch : Schema) (src : Src) (ins : Nat → Bool) (hasCols : Bool) (oc : OC) (o p : Row)
    (h : guardsHold o p oc.where_ = false) : upsertRow sch src ins hasCols oc o p = o := by
  unfold upsertRow
  apply C16_guard_false_keeps_row
  have := (C16_expand_only_doUpdates sch src ins hasCols oc).1
  simpa [this] using h

theorem setTerms_untouched (o p : Row) (l : List (Nat × Term)) (r : Row) (c : Nat)
    (h : ∀ a ∈ l, a.1 ≠ c) : setTerms o p l r c = r c := by
  induction l generalizing r with
  | nil => rfl
  | cons a rest ih =>
    simp only [setTerms]
    rw [ih]
    · have : a.1 ≠ c := h a (by simp)
      simp [setCol, Ne.symm this]
    · intro b hb; exact h b (by simp [hb])

theorem setTerms_last (o p : Row) (l : List (Nat × Term)) (a : Nat × Term) (r : Row) :
    setTerms o p (l ++ [a]) r a.1 = a.2.eval o p := by
  induction l generalizing r with
  | nil => simp [setTerms, setCol]
  | cons b rest ih => simp only [List.cons_append, setTerms]; exact ih _

/-- when the guard holds (and the rule is not DO NOTHING) the row left behind is what the SET list defines: a column
    no assignment names keeps its stored value; right-hand sides are evaluated against the stored row and `excluded` -/
theorem C16_guard_true_applies (oc : OC) (o p : Row) (hd : oc.doNothing = false) (h : guardsHold o p oc.where_ = true) :
    oc.onRow o p = setTerms o p oc.doUpdates o ∧
    ∀ c, (∀ a ∈ oc.doUpdates, a.1 ≠ c) → oc.onRow o p c = o c := by
  have e : oc.onRow o p = setTerms o p oc.doUpdates o := by simp [OC.onRow, hd, h]
  exact ⟨e, fun c hc => by rw [e]; exact setTerms_untouched o p _ o c hc⟩

/-- the rightmost assignment of a column wins (SQLite: "all but the rightmost occurrence is ignored") — this is what
    makes a caller's `DoUpdates` entry lose against the UpdateAll expansion of the same column -/
theorem C16_rightmost_assignment_wins (oc : OC) (o p : Row) (l : List (Nat × Term)) (a : Nat × Term)
    (hu : oc.doUpdates = l ++ [a]) (hd : oc.doNothing = false) (h : guardsHold o p oc.where_ = true) :
    oc.onRow o p a.1 = a.2.eval o p := by
  rw [(C16_guard_true_applies oc o p hd h).1, hu]; exact setTerms_last o p l a o

/-- rendering (on_conflict.go Build): the guard is the tail of the clause, whatever the other fields hold — and the
    clause gorm re-adds after the UpdateAll expansion ends with the SAME guard tokens -/
theorem C16_render_guard_tail (sch : Schema) (src : Src) (ins : Nat → Bool) (hasCols : Bool) (oc : OC) :
    ∃ front, (oc.expand sch src ins hasCols).render = front ++ renderWhere oc.where_ ∧
      (oc.where_ ≠ [] → renderWhere oc.where_ = "WHERE" :: oc.where_.map Guard.tok) := by
  refine ⟨renderTarget (oc.expand sch src ins hasCols) ++ renderAction (oc.expand sch src ins hasCols), ?_, ?_⟩
  · have := (C16_expand_only_doUpdates sch src ins hasCols oc).1
    simp only [OC.render]
    rw [show (oc.expand sch src ins hasCols).where_ = oc.where_ from this]
  · intro h
    cases hw : oc.where_ with
    | nil => exact absurd hw h
    | cons g gs => simp [renderWhere]

/-- a named constraint or a target + partial-index predicate is rendered from the fields the caller set -/
theorem C16_render_target_kept (sch : Schema) (src : Src) (ins : Nat → Bool) (hasCols : Bool) (oc : OC)
    (hc : oc.columns ≠ []) : renderTarget (oc.expand sch src ins hasCols) = renderTarget oc := by
  have h := C16_expand_only_doUpdates sch src ins hasCols oc
  simp only [renderTarget]
  rw [show (oc.expand sch src ins hasCols).onConstraint = oc.onConstraint from h.2.2.1,
      show (oc.expand sch src ins hasCols).targetWhere = oc.targetWhere from h.2.1,
      show (oc.expand sch src ins hasCols).columns = oc.columns from h.2.2.2.2.1 hc]

/-- the regenerated shape of the CURRENT tree's UpdateAll block: it assigns only Columns / DoNothing / DoUpdates and
    hands back a value that still carries every other field; and `Build` reads every field but the `UpdateAll` flag -/
theorem C16_gen_expand_keeps_fields :
    Gen.ocExpandFound = true ∧
    (∀ f ∈ Gen.ocFields, f ∉ ["Columns", "DoNothing", "DoUpdates"] → genFieldSurvives f = true) ∧
    (∀ f ∈ Gen.ocFields, f ≠ "UpdateAll" → genFieldRendered f = true) ∧
    ["Where", "TargetWhere", "OnConstraint"].all Gen.ocFields.contains = true := by
  decide

/-- what a rewriting that drops the guard would do: the stale write goes through -/
def c16StaleOC : OC :=
  { columns := [0], where_ := [⟨.exc 1, .gt, .old 1⟩], targetWhere := [], onConstraint := "", doNothing := false,
    doUpdates := [(1, .exc 1), (2, .exc 2)], updateAll := true }

theorem C16_guard_dropped_counterexample :
    let o : Row := fun c => if c = 0 then 1 else 3
    let p : Row := fun c => if c = 0 then 1 else 2
    (c16StaleOC.onRow o p) 2 = 3 ∧ ({ c16StaleOC with where_ := [] }.onRow o p) 2 = 2 := by
  decide

/-! ### Save under Select / Omit -/

/-- the CURRENT tree: `selectedUpdate` looks at Statement.Selects only; "*" is appended and the upsert fallback is
    taken exactly when it is false -/
theorem C16_gen_save_selected_by_selects_only :
    genSaveCfg = { selBySelects := true, selByOmits := false } ∧
    Gen.saveStarGuard = "!selectedUpdate" ∧
    Gen.saveFallbackGuard = "updateTx.Error == nil && updateTx.RowsAffected == 0 && !updateTx.DryRun && !selectedUpdate" := by
  decide

def Upsert.SaveCfg.selectsOnly (cfg : SaveCfg) : Prop := cfg.selBySelects = true ∧ cfg.selByOmits = false

/-- An Omit never makes a Save "selected": with no Select on the chain, every column except the omitted ones is in the
    SET list — zero values included — and the primary key never is. -/
theorem C16_save_omit_assigns_all_but_omitted (sch : Schema) (om : List Nat) (v : Row) (c : Nat) :
    updAssigned sch true [] om v c = (sch.kind c != .pk && !om.contains c) := by
  unfold updAssigned
  cases hk : sch.kind c <;> simp

/-- Save under `Omit(…)` (columns and / or `clause.Associations`), key present and live: ONE update, and the stored row
    holds the caller's value in every column that is neither omitted nor the key — zero values included —, the omitted
    columns keep what the table had, no other row changes. For every tree whose `selectedUpdate` reads Selects only. -/
theorem C16_save_omit_live_stores_unomitted (cfg : SaveCfg) (hc : cfg.selectsOnly) (sch : Schema) (s : Store)
    (om : List Nat) (other : Bool) (v old : Row) (hz : v 0 ≠ 0) (hex : s.rows (v 0) = some old)
    (hv : visible sch old = true) (hany : (List.range sch.ncols).any (updAssigned sch true [] om v) = true) :
    (saveFrom cfg sch s { star := false, sel := [], om := om, omitOther := other } v).err = .ok ∧
    (saveFrom cfg sch s { star := false, sel := [], om := om, omitOther := other } v).ra = 1 ∧
    ∃ r, (saveFrom cfg sch s { star := false, sel := [], om := om, omitOther := other } v).store.rows (v 0) = some r ∧
      (∀ c, sch.kind c ≠ .pk → sch.kind c ≠ .autoUpdate → om.contains c = false → r c = v c) ∧
      (∀ c, om.contains c = true → r c = old c) ∧
      (∀ c, sch.kind c = .pk → r c = old c) ∧
      ∀ j, j ≠ v 0 →
        (saveFrom cfg sch s { star := false, sel := [], om := om, omitOther := other } v).store.rows j = s.rows j := by
  obtain ⟨h1, h2⟩ := hc
  have e : saveFrom cfg sch s { star := false, sel := [], om := om, omitOther := other } v =
      { store := s.put (v 0) (fun c => if updAssigned sch true [] om v c
            then (if (updAssigned sch true [] om v c && sch.kind c == .autoUpdate) then NOW else v c) else old c),
        val := fun c => if (updAssigned sch true [] om v c && sch.kind c == .autoUpdate) then NOW else v c,
        ra := 1, err := .ok } := by
    simp [saveFrom, hz, saveSelected, h1, h2, hex, hv, hany]
  rw [e]
  refine ⟨rfl, rfl, (fun c => if updAssigned sch true [] om v c
            then (if (updAssigned sch true [] om v c && sch.kind c == .autoUpdate) then NOW else v c) else old c),
    by simp [Store.put], ?_, ?_, ?_, ?_⟩
  · intro c hp ha ho
    have ho' : c ∉ om := by simpa using ho
    have : updAssigned sch true [] om v c = true := by
      rw [C16_save_omit_assigns_all_but_omitted]; simp [hp, ho']
    have hau : (sch.kind c == ColKind.autoUpdate) = false := by simpa using ha
    simp [this, hau]
  · intro c ho
    have ho' : c ∈ om := by simpa using ho
    have : updAssigned sch true [] om v c = false := by
      rw [C16_save_omit_assigns_all_but_omitted]; simp [ho']
    simp [this]
  · intro c hp
    have : updAssigned sch true [] om v c = false := by
      rw [C16_save_omit_assigns_all_but_omitted]; simp [hp]
    simp [this]
  · intro j hj
    simp [Store.put, hj]

/-- … key absent: the UPDATE matches nothing and Save FALLS BACK to the upsert of everything but the omitted columns
    (`C16_partial_absent_inserts` then says which row appears) — an Omit never turns the fallback off -/
theorem C16_save_omit_absent_upserts (cfg : SaveCfg) (hc : cfg.selectsOnly) (sch : Schema) (s : Store)
    (om : List Nat) (other : Bool) (v : Row) (hz : v 0 ≠ 0) (hex : s.rows (v 0) = none) :
    saveFrom cfg sch s { star := false, sel := [], om := om, omitOther := other } v =
      insertFrom sch s (some .updateAll) (.struct [] om)
        (fun c => if (updAssigned sch true [] om v c && sch.kind c == .autoUpdate) then NOW else v c) := by
  obtain ⟨h1, h2⟩ := hc
  simp [saveFrom, hz, saveSelected, h1, h2, hex]

/-- the current tree is in that case -/
theorem C16_gen_save_cfg_selects_only : genSaveCfg.selectsOnly := by
  constructor <;> decide

/-- what a `selectedUpdate` that also looks at Omits would break: `Omit(clause.Associations).Save(&v)` with a field
    reset to zero keeps the old contents, and a value whose key is missing is not stored at all -/
def c16OmitSelCfg : SaveCfg := { selBySelects := true, selByOmits := true }
def c16SaveSchema : Schema := { ncols := 3, kind := fun c => if c = 0 then .pk else .plain }
def c16SaveStore : Store := { rows := fun k => if k = 1 then some (fun c => if c = 0 then 1 else 5) else none, next := 2 }
def c16OmitAssoc : Mods := { star := false, sel := [], om := [], omitOther := true }

theorem C16_save_omit_selected_counterexample :
    ((saveFrom c16OmitSelCfg c16SaveSchema c16SaveStore c16OmitAssoc (fun c => if c = 0 then 1 else if c = 1 then 7 else 0)).store.rows 1).map (fun r => (r 1, r 2)) = some (7, 5) ∧
    ((saveFrom genSaveCfg c16SaveSchema c16SaveStore c16OmitAssoc (fun c => if c = 0 then 1 else if c = 1 then 7 else 0)).store.rows 1).map (fun r => (r 1, r 2)) = some (7, 0) ∧
    ((saveFrom c16OmitSelCfg c16SaveSchema c16SaveStore c16OmitAssoc (fun c => if c = 0 then 2 else 7)).store.rows 2).isSome = false ∧
    ((saveFrom genSaveCfg c16SaveSchema c16SaveStore c16OmitAssoc (fun c => if c = 0 then 2 else 7)).store.rows 2).isSome = true := by
  decide

/-! ## round 3 — key shapes (composite / partly-zero keys) and the statement nested handles inherit -/

section Keys
open Gorm.UpsertK

/-- the CURRENT tree: Save sends a value to Create as soon as ONE primary field is zero (regenerated shape of the loop:
    one `range …PrimaryFields`, body = `if …isZero { return …Create().Execute(tx) }`, nothing after the loop) -/
theorem C16_gen_save_key_test :
    genKeyTest = .anyZero ∧ Gen.saveKeyLoopOver = "tx.Statement.Schema.PrimaryFields" := by
  decide

/-- "Save stores the full value whether or not its key already exists", composite keys: for a value whose key parts are
    all non-zero, the table holds exactly that value under its key afterwards — whether the key was absent, live or
    soft-deleted, with or without Unscoped. -/
theorem C16_saveK_stores_value (us : Bool) (t : Tbl) (hw : Tbl.wf t) (v : KRow) (hz : hasZero v.key = false) :
    (saveK .anyZero us t v).1.get v.key = some v ∧ (saveK .anyZero us t v).2 = false := by
  unfold saveK
  simp only [KeyTest.creates, hz, Bool.false_eq_true, if_false]
  by_cases hc : updCount us t v.key = 0
  · simp only [hc, if_true, and_true]
    unfold upsertK
    by_cases hh : t.has v.key = true
    · simp only [hh, if_true]
      rw [get_map _ (by intro r; by_cases e : (r.key == v.key) = true <;> simp_all) v.key t]
      rw [has_eq_get] at hh
      obtain ⟨r0, h0⟩ := Option.isSome_iff_exists.mp hh
      simp [h0, get_key h0]
    · have hh' : t.has v.key = false := by simpa using hh
      simp only [hh', Bool.false_eq_true, if_false]
      exact get_append_new t v hh'
  · simp only [hc, if_false, and_true]
    unfold updateAllK
    rw [get_map _ (by intro r; by_cases e : updWhere us v.key r = true <;> simp [e]) v.key t]
    -- some row satisfies the WHERE: it has the key of v (no zero part) and, keys being distinct, it is the row found
    have hne : (t.filter (updWhere us v.key)) ≠ [] := by
      intro e; apply hc; unfold updCount; rw [e]; rfl
    obtain ⟨r1, hr1⟩ := List.exists_mem_of_ne_nil _ hne
    obtain ⟨hm, hwh⟩ := List.mem_filter.mp hr1
    have hk : r1.key = v.key := by
      have := hwh
      unfold updWhere at this
      rw [pkCond_of_nonzero _ _ hz] at this
      have := (Bool.and_eq_true _ _ ▸ this).1
      exact (beq_iff_eq.mp this).symm
    have hsome : (t.get v.key).isSome = true := by
      rw [← has_eq_get]; unfold Tbl.has
      exact List.any_eq_true.mpr ⟨r1, hm, by simp [hk]⟩
    obtain ⟨r0, h0⟩ := Option.isSome_iff_exists.mp hsome
    have e10 : r1 = r0 := wf_unique hw (by rw [hk]; exact h0) hm
    subst e10
    simp only [h0, Option.map_some, hwh, if_true]
    cases v; simp_all

/-- … and NO OTHER ROW changes — for every value, partly-zero keys included (those go to Create). -/
theorem C16_saveK_frame (us : Bool) (t : Tbl) (v : KRow) (k : List Nat) (hk : k ≠ v.key) :
    (saveK .anyZero us t v).1.get k = t.get k := by
  unfold saveK
  by_cases hz : hasZero v.key = true
  · simp only [KeyTest.creates, hz, if_true]
    unfold insertK
    by_cases hh : t.has v.key = true
    · simp [hh]
    · have hh' : t.has v.key = false := by simpa using hh
      simp only [hh', Bool.false_eq_true, if_false]
      exact get_append_of_ne t v k hk
  · have hz' : hasZero v.key = false := by simpa using hz
    simp only [KeyTest.creates, hz', Bool.false_eq_true, if_false]
    by_cases hc : updCount us t v.key = 0
    · simp only [hc, if_true]
      unfold upsertK
      by_cases hh : t.has v.key = true
      · simp only [hh, if_true]
        rw [get_map _ (by intro r; by_cases e : (r.key == v.key) = true <;> simp_all) k t]
        cases h0 : t.get k with
        | none => rfl
        | some r0 =>
          have hne : r0.key ≠ v.key := by rw [get_key h0]; exact hk
          simp [hne]
      · have hh' : t.has v.key = false := by simpa using hh
        simp only [hh', Bool.false_eq_true, if_false]
        exact get_append_of_ne t v k hk
    · simp only [hc, if_false]
      unfold updateAllK
      rw [get_map _ (by intro r; by_cases e : updWhere us v.key r = true <;> simp [e]) k t]
      cases h0 : t.get k with
      | none => rfl
      | some r0 =>
        have : updWhere us v.key r0 = false := by
          unfold updWhere
          rw [pkCond_of_nonzero _ _ hz', get_key h0]
          have : (v.key == k) = false := by simpa using (fun e : v.key = k => hk e.symm)
          simp [this]
        simp [this]

/-- a value with a zero key part whose key is absent is stored as it is (it goes to Create) -/
theorem C16_saveK_zero_part_inserts (us : Bool) (t : Tbl) (v : KRow) (hz : hasZero v.key = true) (ha : t.has v.key = false) :
    (saveK .anyZero us t v).1.get v.key = some v ∧ (saveK .anyZero us t v).2 = false := by
  unfold saveK insertK
  simp only [KeyTest.creates, hz, if_true, ha, Bool.false_eq_true, if_false, and_true]
  exact get_append_new t v ha

/-- what an "every part is zero" test would break: Save of (0,'bolt') with rows (1,'bolt') and (2,'bolt') present takes the
    UPDATE path keyed by the non-zero part only — both rows are overwritten and (0,'bolt') is never written — while the
    current test stores the value and leaves both rows alone -/
def c16KeysTbl : Tbl := [{ key := [1, 7], pay := [1, 1], del := false }, { key := [2, 7], pay := [2, 2], del := false },
  { key := [1, 8], pay := [3, 3], del := false }]
def c16KeysVal : KRow := { key := [0, 7], pay := [9, 9], del := false }

theorem C16_saveK_all_zero_counterexample :
    (saveK .allZero false c16KeysTbl c16KeysVal).1.get [0, 7] = none ∧
    ((saveK .allZero false c16KeysTbl c16KeysVal).1.get [1, 7]).map (·.pay) = some [9, 9] ∧
    ((saveK .allZero false c16KeysTbl c16KeysVal).1.get [2, 7]).map (·.pay) = some [9, 9] ∧
    (saveK genKeyTest false c16KeysTbl c16KeysVal).1.get [0, 7] = some c16KeysVal ∧
    ((saveK genKeyTest false c16KeysTbl c16KeysVal).1.get [1, 7]).map (·.pay) = some [1, 1] := by
  decide

/-- the CURRENT tree: every nested finisher call of Save / FirstOrCreate runs on a handle derived from
    `tx = db.getInstance()` by statement-keeping steps only (Model / Session without NewDB / Clauses): the nested UPDATE /
    INSERT inherit the chain's conditions, Unscoped and Table -/
theorem C16_gen_nested_handles :
    genNestCfg = { foundKeeps := true, createKeeps := true, saveUpdKeeps := true, saveInsKeeps := true } ∧
    (Gen.finisherSessionLits.filter (fun l => (l.1 == "DB.Save" || l.1 == "DB.FirstOrCreate" || l.1 == "DB.FirstOrInit") &&
      l.2.2.contains "NewDB")) = [] := by
  decide

/-- "with Assign applied in both cases", FOUND branch, in the table the chain addresses — PARTIAL: the extra hypothesis
    `hasZero dest.key = false` is the negation of finding F30's pattern. When the nested handle keeps the chain's statement,
    the matched row — and only it — carries the assigned values afterwards, in the addressed table, whatever Unscoped /
    Table / conditions the chain carries; the twin table is untouched. -/
theorem C16_found_write_partial (cfg : NestCfg) (hk : cfg.foundKeeps = true) (st : MStmt) (w : World) (dest : KRow)
    (assigns : List (Nat × Nat)) (hz : hasZero dest.key = false) (hne : dest.key ≠ [])
    (hget : (w.tbl st.table).get dest.key = some dest) (hlive : live st.unscoped dest = true)
    (hconds : holds st.conds dest = true) (hpay : ∀ a ∈ assigns, dest.key.length ≤ a.1) :
    (foundWrite cfg st w dest assigns).2 = false ∧
    ((foundWrite cfg st w dest assigns).1.tbl st.table).get dest.key = some (dest.setAll assigns) ∧
    (∀ k, k ≠ dest.key → ((foundWrite cfg st w dest assigns).1.tbl st.table).get k = (w.tbl st.table).get k) ∧
    (if st.table = 0 then (foundWrite cfg st w dest assigns).1.arch = w.arch
      else (foundWrite cfg st w dest assigns).1.main = w.main) := by
  have hb : foundBinds st dest ≠ 0 := by
    unfold foundBinds
    cases hd : dest.key with
    | nil => exact absurd hd hne
    | cons a rest =>
      have ha : a ≠ 0 := by
        intro h0; rw [hd] at hz; simp [hasZero, h0] at hz
      simp [ha]
  -- the rewrite is key-preserving on every row it touches
  have hf : ∀ r : KRow, (if foundWhere st dest r then r.setAll assigns else r).key = r.key := by
    intro r
    by_cases e : foundWhere st dest r = true
    · simp only [e, if_true]
      apply setAll_key
      intro a ha
      have : r.key = dest.key := by
        unfold foundWhere at e
        rw [pkCond_of_nonzero _ _ hz] at e
        simp only [Bool.and_eq_true, beq_iff_eq] at e
        exact e.1.1.symm
      rw [this]; exact hpay a ha
    · simp [e]
  have hset : ∀ t, (w.set st.table t).tbl st.table = t := by
    intro t; unfold World.set World.tbl; by_cases h0 : st.table = 0 <;> simp [h0]
  unfold foundWrite nest
  simp only [hk, if_true, hb, if_false, hset]
  refine ⟨trivial, ?_, ?_, ?_⟩
  · rw [get_map _ hf dest.key, hget]
    have : foundWhere st dest dest = true := by
      unfold foundWhere
      rw [pkCond_of_nonzero _ _ hz]; simp [hlive, hconds]
    simp [this]
  · intro k hkk
    rw [get_map _ hf k]
    cases h0 : (w.tbl st.table).get k with
    | none => rfl
    | some r0 =>
      have : foundWhere st dest r0 = false := by
        unfold foundWhere
        rw [pkCond_of_nonzero _ _ hz, get_key h0]
        have : (dest.key == k) = false := by simpa using (fun e : dest.key = k => hkk e.symm)
        simp [this]
      simp [this]
  · unfold World.set; by_cases h0 : st.table = 0 <;> simp [h0]

/-- what a nested handle that DROPS the chain's statement (`Session{NewDB: true}` in front of `Model(dest).Updates`) would
    break: (a) Unscoped + soft-deleted first match: the UPDATE gets `deleted_at IS NULL` back, the stored row keeps its old
    value; (b) Table(twin): the UPDATE goes to the model's own table and rewrites the unrelated row with the same key there.
    With the current tree's facts both writes land on the matched row. -/
def c16NewDBCfg : NestCfg := { foundKeeps := false, createKeeps := true, saveUpdKeeps := true, saveInsKeeps := true }
def c16NestWorld : World :=
  { main := [{ key := [1, 7], pay := [1, 1], del := true }, { key := [2, 7], pay := [2, 2], del := false }],
    arch := [{ key := [2, 7], pay := [5, 5], del := false }] }

theorem C16_found_write_newdb_counterexample :
    let us : MStmt := { conds := [], unscoped := true, table := 0 }
    let ar : MStmt := { conds := [], unscoped := false, table := 1 }
    let d1 : KRow := { key := [1, 7], pay := [1, 1], del := true }
    let d2 : KRow := { key := [2, 7], pay := [5, 5], del := false }
    (((foundWrite c16NewDBCfg us c16NestWorld d1 [(3, 9)]).1.main.get [1, 7]).map (·.pay) = some [1, 1]) ∧
    (((foundWrite genNestCfg us c16NestWorld d1 [(3, 9)]).1.main.get [1, 7]).map (·.pay) = some [1, 9]) ∧
    (((foundWrite c16NewDBCfg ar c16NestWorld d2 [(3, 9)]).1.main.get [2, 7]).map (·.pay) = some [2, 9]) ∧
    (((foundWrite c16NewDBCfg ar c16NestWorld d2 [(3, 9)]).1.arch.get [2, 7]).map (·.pay) = some [5, 5]) ∧
    (((foundWrite genNestCfg ar c16NestWorld d2 [(3, 9)]).1.arch.get [2, 7]).map (·.pay) = some [5, 9]) ∧
    ((foundWrite genNestCfg ar c16NestWorld d2 [(3, 9)]).1.main = c16NestWorld.main) := by
  decide

/-- finding F30 (unchanged tree): the matched record (0,'k7') has a zero key part; the nested UPDATE is keyed by the non-zero
    part only and rewrites (1,'k7') and (2,'k7') as well — FirstOrCreate wrote three rows -/
theorem C16_found_write_counterexample :
    let st : MStmt := { conds := [(1, 7)], unscoped := false, table := 0 }
    let w : World := { main := [{ key := [0, 7], pay := [1, 1], del := false }, { key := [1, 7], pay := [2, 2], del := false },
                                { key := [2, 7], pay := [3, 3], del := false }], arch := [] }
    firstMatchK st [(1, 7)] w = some { key := [0, 7], pay := [1, 1], del := false } ∧
    ((firstOrCreateK genNestCfg 2 2 st [(1, 7)] [] [] [(3, 5)] none w).world.main.map (·.pay)) = [[1, 5], [2, 5], [3, 5]] := by
  decide

/-- FirstOrInit never writes, whatever the chain carries -/
theorem C16_firstOrInitK_never_writes (nk np : Nat) (st : MStmt) (q b at_ as_ : List (Nat × Nat)) (w : World) :
    (firstOrInitK nk np st q b at_ as_ w).world = w := by
  unfold firstOrInitK; cases firstMatchK st q w <;> rfl

/-- not-found branch: the record built from the conditions, Attrs, then Assign is inserted into the table the chain
    addresses (when the nested Create keeps the chain's statement) and the twin table is untouched -/
theorem C16_not_found_creates_in_addressed_table (cfg : NestCfg) (hk : cfg.createKeeps = true) (nk np : Nat) (st : MStmt)
    (q b at_ as_ : List (Nat × Nat)) (w : World) (hm : firstMatchK st q w = none)
    (hfree : (w.tbl st.table).has (builtK nk np b at_ as_).key = false) :
    (firstOrCreateK cfg nk np st q b at_ as_ none w).err = .ok ∧
    ((firstOrCreateK cfg nk np st q b at_ as_ none w).world.tbl st.table).get (builtK nk np b at_ as_).key
      = some (builtK nk np b at_ as_) ∧
    (firstOrCreateK cfg nk np st q b at_ as_ none w).val = builtK nk np b at_ as_ ∧
    (if st.table = 0 then (firstOrCreateK cfg nk np st q b at_ as_ none w).world.arch = w.arch
      else (firstOrCreateK cfg nk np st q b at_ as_ none w).world.main = w.main) := by
  have hset : ∀ t, (w.set st.table t).tbl st.table = t := by
    intro t; unfold World.set World.tbl; by_cases h0 : st.table = 0 <;> simp [h0]
  unfold firstOrCreateK
  simp only [hm, assignKey, nest, hk, if_true, insertK, hfree, Bool.false_eq_true, if_false, hset]
  refine ⟨trivial, get_append_new _ _ hfree, trivial, ?_⟩
  unfold World.set; by_cases h0 : st.table = 0 <;> simp [h0]

example : Tbl.wf c16KeysTbl ∧ hasZero ([1, 7] : List Nat) = false :=
  ⟨⟨by decide, by decide, by decide, trivial⟩, by decide⟩

end Keys

/-! ## Round 4 — "the first match" over a table that is not stored in key order; RETURNING rows and slice elements -/

section ScanOrder
open Gorm.UpsertK Gorm.UpsertScan

/-- REGENERATED FACT: both lookups carry `Limit(1)` and `Order(<primary key>, ascending)` -/
theorem C16_gen_lookup_ordered :
    genLookupCfg "DB.FirstOrInit" = { limit1 := true, ordered := true } ∧
    genLookupCfg "DB.FirstOrCreate" = { limit1 := true, ordered := true } := by
  decide

/-- "return the first match": with an ordered lookup the loaded row is a row of the table that passes the filter and
    NO matching row has a smaller ORDER BY column — whatever order the rows are stored in -/
theorem C16_lookup_least (cfg : LookupCfg) (ho : cfg.ordered = true) (st : MStmt) (q : List (Nat × Nat)) (t : Tbl) (r : KRow)
    (h : lookupK cfg st q t = some r) :
    r ∈ t ∧ (live st.unscoped r && holds q r) = true ∧
    ∀ x ∈ t, (live st.unscoped x && holds q x) = true → k0 r ≤ k0 x := by
  unfold lookupK at h
  rw [if_pos ho] at h
  have hm := mem_matching.mp (least_mem h)
  exact ⟨hm.1, hm.2, fun x hx hp => least_le h x (mem_matching.mpr ⟨hx, hp⟩)⟩

/-- a miss is a miss: the lookup finds nothing exactly when no row passes the filter -/
theorem C16_lookup_none_iff (cfg : LookupCfg) (st : MStmt) (q : List (Nat × Nat)) (t : Tbl) :
    lookupK cfg st q t = none ↔ ∀ x ∈ t, (live st.unscoped x && holds q x) = false := by
  have key : lookupK cfg st q t = none ↔ matching st q t = [] := by
    unfold lookupK
    by_cases ho : cfg.ordered = true
    · rw [if_pos ho]
      constructor
      · exact least_none
      · intro h; rw [h]; rfl
    · rw [if_neg ho]
      cases hm : matching st q t <;> simp
  rw [key]
  unfold matching
  rw [List.filter_eq_nil_iff]
  constructor
  · intro h x hx; cases hp : (live st.unscoped x && holds q x)
    · rfl
    · exact absurd hp (h x hx)
  · intro h x hx; rw [h x hx]; simp

/-- INSERTION ORDER IS IRRELEVANT: two tables holding the same rows in different storage order give lookups with the
    same ORDER BY column; when the first key column identifies a row (single-column keys of a well-formed table) they
    give the SAME row -/
theorem C16_lookup_insertion_order_irrelevant (cfg : LookupCfg) (ho : cfg.ordered = true) (st : MStmt)
    (q : List (Nat × Nat)) (t t' : Tbl) (hp : t.Perm t') (r : KRow) (h : lookupK cfg st q t = some r) :
    ∃ r', lookupK cfg st q t' = some r' ∧ k0 r' = k0 r ∧
      ((∀ x ∈ t, ∀ y ∈ t, k0 x = k0 y → x = y) → r' = r) := by
  obtain ⟨hr, hpass, hmin⟩ := C16_lookup_least cfg ho st q t r h
  have hr' : r ∈ matching st q t' := mem_matching.mpr ⟨hp.mem_iff.mp hr, hpass⟩
  obtain ⟨r', hl⟩ := least_isSome_of_mem hr'
  have hl' : lookupK cfg st q t' = some r' := by unfold lookupK; rw [if_pos ho]; exact hl
  obtain ⟨hr2, hpass2, hmin2⟩ := C16_lookup_least cfg ho st q t' r' hl'
  have e : k0 r' = k0 r :=
    Nat.le_antisymm (hmin2 r (hp.mem_iff.mp hr) hpass) (hmin r' (hp.mem_iff.mpr hr2) hpass2)
  exact ⟨r', hl', e, fun hinj => hinj r' (hp.mem_iff.mpr hr2) r hr e⟩

/-- the glue to Model.UpsertKeys (whose `firstMatchK` reads the table in ORDER BY order): after bringing the looked-up
    row to the front, `firstMatchK` finds exactly that row -/
theorem C16_lookup_front (cfg : LookupCfg) (ho : cfg.ordered = true) (st : MStmt) (q : List (Nat × Nat)) (w : World) (r : KRow)
    (h : lookupK cfg st q (w.tbl st.table) = some r) :
    firstMatchK st q (w.set st.table (front (some r) (w.tbl st.table))) = some r := by
  have hpass := (C16_lookup_least cfg ho st q _ r h).2.1
  have hset : ∀ t, (w.set st.table t).tbl st.table = t := by
    intro t; unfold World.set World.tbl; by_cases h0 : st.table = 0 <;> simp [h0]
  unfold firstMatchK
  rw [hset]
  unfold front
  simp only [List.find?_cons, hpass]

/-- COUNTEREXAMPLE for a tree whose lookup drops `Order(primary key)`: rows stored as k3, k1 (both match): the lookup
    returns k3 although k1 is the first match; the ordered lookup returns k1 for both storage orders -/
theorem C16_lookup_unordered_counterexample :
    let st : MStmt := { conds := [], unscoped := false, table := 0 }
    let a : KRow := { key := [3], pay := [1, 1], del := false }
    let b : KRow := { key := [1], pay := [1, 2], del := false }
    lookupK { limit1 := true, ordered := false } st [(1, 1)] [a, b] = some a ∧
    lookupK { limit1 := true, ordered := false } st [(1, 1)] [b, a] = some b ∧
    lookupK (genLookupCfg "DB.FirstOrCreate") st [(1, 1)] [a, b] = some b ∧
    lookupK (genLookupCfg "DB.FirstOrCreate") st [(1, 1)] [b, a] = some b := by
  decide

/-- REGENERATED FACT: callbacks/create.go switches `ScanOnConflictDoNothing` on at ONE site, under a condition that reads
    `OnConflict.DoNothing` and nothing else; scan.go steps over an element only inside `update` ∧ that mode, for an
    element with a non-zero RETURNING field, after `RowsAffected++` -/
theorem C16_gen_scan_mode :
    genScanCfg = { skipWhen := ["DoNothing"] } ∧
    Gen.createSkipModeConds = ["onConflict.DoNothing"] ∧
    Gen.scanSkipDef = "mode&ScanOnConflictDoNothing != 0" ∧ Gen.scanGotos = 1 ∧
    Gen.scanSkipGuards = ["for initialized || rows.Next()", "if update", "if onConflictDonothing", "range fields",
      "if _, ok := field.ValueOf(db.Statement.Context, elem); !ok"] ∧
    Gen.scanSkipBefore = "db.RowsAffected++" := by
  decide

/-- plain mode, every element returns a row: ROW i GOES TO ELEMENT i -/
theorem C16_scan_row_i_to_element_i : ∀ (es : List Elem), (∀ e ∈ es, e.ret.isSome = true) →
    assign false es (rowsOf es) = es.map (·.ret)
  | [], _ => rfl
  | e :: es, h => by
    have he := h e List.mem_cons_self
    obtain ⟨r, hr⟩ := Option.isSome_iff_exists.mp he
    have ih := C16_scan_row_i_to_element_i es (fun x hx => h x (List.mem_cons_of_mem _ hx))
    rw [rowsOf_cons_some e es r hr]
    simp [assign, ih, hr]

/-- plain mode in general (the `_partial` theorem of finding F31: its hypothesis is the negation of the pattern):
    when no rowless element is followed by an element with a row, every element receives its own row or none -/
theorem C16_scan_plain_partial : ∀ (es : List Elem), rowlessSuffix es = true →
    assign false es (rowsOf es) = es.map (·.ret)
  | [], _ => rfl
  | e :: es, h => by
    unfold rowlessSuffix at h
    cases hr : e.ret with
    | some r =>
      rw [hr] at h
      simp only [Option.isSome_some, if_true] at h
      rw [rowsOf_cons_some e es r hr]
      simp [assign, C16_scan_plain_partial es h, hr]
    | none =>
      rw [hr] at h
      simp only [Option.isSome_none, Bool.false_eq_true, if_false] at h
      rw [rowsOf_cons_none e es hr, rowsOf_rowless es h]
      simp only [List.map_cons, hr]
      rw [map_ret_rowless es h]
      simp [assign, assign_nil_rows]

/-- skip mode (DO NOTHING) is right exactly as far as its heuristic is: when "holds a non-zero RETURNING value" coincides
    with "has no row" for every element, each element receives its own row or none -/
theorem C16_scan_skip_exact : ∀ (es : List Elem), (∀ e ∈ es, e.nz = e.ret.isNone) →
    assign true es (rowsOf es) = es.map (·.ret)
  | [], _ => rfl
  | e :: es, h => by
    have he := h e List.mem_cons_self
    have ih := C16_scan_skip_exact es (fun x hx => h x (List.mem_cons_of_mem _ hx))
    cases hr : e.ret with
    | some r =>
      rw [hr] at he
      simp only [Option.isNone_some] at he
      rw [rowsOf_cons_some e es r hr]
      simp [assign, he, ih, hr]
    | none =>
      rw [hr] at he
      simp only [Option.isNone_none] at he
      rw [rowsOf_cons_none e es hr, assign_skip_cons e es _ he, ih]
      simp [hr]

/-- THE RETURNED RECORDS OF AN UPSERT: for every tree that switches the skip mode on for DoNothing only, under a rule
    that is not DO NOTHING after gorm's expansion (UpdateAll / DoUpdates, Save of a slice) and stores every element
    (no guard, or a guard that holds), element i carries row i afterwards — keyed and keyless elements in any order -/
theorem C16_upsert_rows_go_to_their_elements (cfg : ScanCfg) (hc : cfg.skipWhen = ["DoNothing"]) (f : OCFlags)
    (hf : f.doNothing = false) (es : List Elem) (hall : ∀ e ∈ es, e.ret.isSome = true) :
    scanUpsert cfg f es = es.map (·.ret) := by
  unfold scanUpsert skipMode
  rw [hc]
  simp only [List.any_cons, List.any_nil, Bool.or_false, OCFlags.get, hf]
  exact C16_scan_row_i_to_element_i es hall

/-- … and that is the current tree -/
theorem C16_upsert_rows_current_tree (f : OCFlags) (hf : f.doNothing = false) (es : List Elem)
    (hall : ∀ e ∈ es, e.ret.isSome = true) : scanUpsert genScanCfg f es = es.map (·.ret) :=
  C16_upsert_rows_go_to_their_elements genScanCfg (by rw [C16_gen_scan_mode.1]) f hf es hall

/-- COUNTEREXAMPLE for a tree that switches the skip mode on for UpdateAll as well: Save(&[]T{{ID: 1 (exists)}, {ID: 0}})
    returns rows 1 and 2; the keyed element is stepped over and the NEW element receives the existing row's key -/
theorem C16_scan_skip_under_update_all_counterexample :
    let es : List Elem := [{ nz := true, ret := some 1 }, { nz := false, ret := some 2 }]
    let f : OCFlags := { doNothing := false, updateAll := true, doUpdates := true, where_ := false }
    scanUpsert { skipWhen := ["DoNothing", "UpdateAll"] } f es = [none, some 1] ∧
    scanUpsert genScanCfg f es = [some 1, some 2] := by
  decide

/-- finding F31 (unchanged tree): a DO UPDATE guard that is false for the conflicting first element leaves it without a
    row; the row of the second (new) element is scanned into the FIRST element, the new element gets nothing -/
theorem C16_scan_guard_false_counterexample :
    let es : List Elem := [{ nz := true, ret := none }, { nz := false, ret := some 2 }]
    let f : OCFlags := { doNothing := false, updateAll := true, doUpdates := true, where_ := true }
    rowlessSuffix es = false ∧ scanUpsert genScanCfg f es = [some 2, none] ∧ es.map (·.ret) = [none, some 2] := by
  decide

/-- (C03's finding F21 seen from here) DO NOTHING with a preset key that does NOT conflict: the heuristic takes it for a
    conflicting element, its row goes to the next keyless element -/
theorem C16_scan_do_nothing_preset_counterexample :
    let es : List Elem := [{ nz := true, ret := some 7 }, { nz := false, ret := some 8 }]
    let f : OCFlags := { doNothing := true, updateAll := false, doUpdates := false, where_ := false }
    scanUpsert genScanCfg f es = [none, some 7] ∧ es.map (·.ret) = [some 7, some 8] := by
  decide

example : (∀ e ∈ ([{ nz := true, ret := some 1 }, { nz := false, ret := some 2 }] : List Elem), e.ret.isSome = true) ∧
    rowlessSuffix [{ nz := false, ret := some 2 }, { nz := true, ret := none }] = true := by
  constructor
  · intro e he; simp at he; rcases he with rfl | rfl <;> rfl
  · decide

end ScanOrder

/-! ## Round 5 — the SPELLING and FORM of conditions / Attrs / Assign, and the record of a statement that stored nothing

  `Model.UpsertForms` A: the record FirstOrInit / FirstOrCreate build when nothing matches, with names resolved the way
  `assignInterfacesToValue` resolves them (regenerated: which table each site consults).  B: the guard in front of the
  key back-fill of the branch without RETURNING. -/
section Forms
open Gorm.UpsertForms

/-- the regenerated tree: `LookUpField` tries columns first, Go names second; all three sites of
    `assignInterfacesToValue` resolve through it -/
theorem C16_gen_assign_sites : genLookUpField = full ∧ genSites.allFull :=
  ⟨by decide, by decide, by decide, by decide⟩

/-- `LookUpField` reaches a field by its column name AND by its Go name (legal schema: distinct columns, distinct Go
    names, no Go name that is another field's column) -/
theorem C16_lookup_either_spelling {fs : List FField} (hwf : WF fs) {i : Nat} {f : FField} (hi : fs[i]? = some f) :
    lookUp full fs f.db = some i ∧ lookUp full fs f.go = some i :=
  ⟨lookUp_db hwf hi, lookUp_go hwf hi⟩

/-- a name no field carries is skipped, whatever tables are consulted (unknown map keys are not an error) -/
theorem C16_unknown_key_ignored (o : Order) {fs : List FField} {n : Name} (h : ∀ f ∈ fs, f.db ≠ n ∧ f.go ≠ n)
    (r : Rec) (v : Nat) : assignEq o fs r (n, v) = r := by
  simp [assignEq, lookUp_unknown o h]

/-- the record of the not-found case depends only on the SEQUENCE of (field, value) pairs the conditions, Attrs and
    Assign contribute — not on their form (map / pair / clause.Eq with a string or a clause.Column / struct) nor on
    the spelling of any name (column or Go field name): two chains whose contributions name the same fields with the
    same values, pair by pair, build the same record. -/
theorem C16_built_record_form_and_spelling_invariant (s : Sites) (hs : s.allFull) {fs : List FField} (hwf : WF fs)
    (c a g c' a' g' : List Arg) (h : RespellL fs (allKvs (c ++ a ++ g)) (allKvs (c' ++ a' ++ g'))) :
    build s fs c a g = build s fs c' a' g' := by
  unfold build
  rw [foldl_applyArg hs, foldl_applyArg hs]
  exact foldl_respell hwf h _

/-- … and that is the current tree -/
theorem C16_built_record_current_tree {fs : List FField} (hwf : WF fs)
    (c a g c' a' g' : List Arg) (h : RespellL fs (allKvs (c ++ a ++ g)) (allKvs (c' ++ a' ++ g'))) :
    build genSites fs c a g = build genSites fs c' a' g' :=
  C16_built_record_form_and_spelling_invariant genSites C16_gen_assign_sites.2 hwf c a g c' a' g' h

/-- each contribution lands in the field it names: the last pair of the sequence decides its field -/
theorem C16_built_record_last_pair (s : Sites) (hs : s.allFull) {fs : List FField} (hwf : WF fs)
    (c a g : List Arg) (kvs : List (Name × Nat)) (n v : Nat) (hk : allKvs (c ++ a ++ g) = kvs ++ [(n, v)])
    {i : Nat} {f : FField} (hi : fs[i]? = some f) (hn : n = f.go ∨ n = f.db) :
    (build s fs c a g)[i]? = some v := by
  unfold build
  rw [foldl_applyArg hs, hk, List.foldl_append]
  simp only [List.foldl_cons, List.foldl_nil]
  rw [assignEq_either hwf hi _ n v hn]
  have hlen : ∀ (l : List (Name × Nat)) (r : Rec), (l.foldl (assignEq full fs) r).length = r.length := by
    intro l
    induction l with
    | nil => intro r; rfl
    | cons x xs ih =>
      intro r
      simp only [List.foldl_cons]
      rw [ih]
      unfold assignEq
      cases lookUp full fs x.1 <;> simp
  have hlt : i < fs.length := by
    rcases Nat.lt_or_ge i fs.length with h | h
    · exact h
    · simp [List.getElem?_eq_none h] at hi
  simp [hlen, hlt]

/-- COUNTEREXAMPLE for a tree whose Eq sites consult `FieldsByDBName` only: `Attrs(map{"Age": 20})` on a schema
    {Name→name, Age→age} builds a record WITHOUT the age; the current tree builds it with the age, under either spelling -/
theorem C16_dbname_only_counterexample :
    let fs : List FField := [{ go := 10, db := 11 }, { go := 20, db := 21 }]
    let dbOnly : Sites := { eqString := [true], eqColumn := [true], structField := full }
    build dbOnly fs [.eqs [(11, 1)]] [.eqs [(20, 5)]] [] = [1, 0] ∧
    build genSites fs [.eqs [(11, 1)]] [.eqs [(20, 5)]] [] = [1, 5] ∧
    build genSites fs [.cols [(10, 1)]] [.eqs [(21, 5)]] [] = [1, 5] := by
  decide

example : WF [{ go := 10, db := 11 }, { go := 20, db := 21 }, { go := 30, db := 30 }] := by
  intro i j f g hi hj h
  match i, j with
  | 0, 0 | 1, 1 | 2, 2 => rfl
  | 0, 1 | 0, 2 | 1, 0 | 1, 2 | 2, 0 | 2, 1 =>
    simp at hi hj; subst hi; subst hj; simp at h
  | i + 3, _ => simp at hi
  | 0, j + 3 | 1, j + 3 | 2, j + 3 => simp at hj

open Gorm.Scan

/-- with the guard, the back-fill of the branch without RETURNING is C03's `createBackfill` -/
theorem C16_backfill_guarded_is_c03 (gk rev hd ai it : Bool) (inc : Int) (ks : List Key) (r : ExecResult) :
    backfillG true gk rev hd ai it inc ks r = createBackfill gk rev hd ai it inc ks r := rfl

/-- a statement that stored nothing (`RowsAffected = 0`: DO NOTHING hit a conflict, a DO UPDATE guard was false) leaves
    every key of the caller's value as it was — whatever `LastInsertId()` reports (on SQLite: the last insert of the
    connection, in any table) -/
theorem C16_unstored_not_backfilled (gk rev hd ai it : Bool) (inc : Int) (ks : List Key) (r : ExecResult)
    (h : r.rowsAffected = 0) : backfillG true gk rev hd ai it inc ks r = ks := by
  simp [backfillG, createBackfill, createBackfillSlice, h]

/-- the regenerated tree has the guard: `if db.RowsAffected == 0 { return }` is the statement right after
    `db.RowsAffected, _ = result.RowsAffected()`, in front of the `LastInsertId()` read -/
theorem C16_gen_backfill_guarded : genGuarded = true := by
  decide

theorem C16_unstored_not_backfilled_current_tree (gk rev hd ai it : Bool) (inc : Int) (ks : List Key) (r : ExecResult)
    (h : r.rowsAffected = 0) : backfillG genGuarded gk rev hd ai it inc ks r = ks := by
  rw [C16_gen_backfill_guarded]; exact C16_unstored_not_backfilled gk rev hd ai it inc ks r h

/-- COUNTEREXAMPLE for a tree without the guard: a keyless record that conflicted under DO NOTHING (0 rows) receives
    the connection's last insert id 7 — another row's, possibly another table's, key -/
theorem C16_unguarded_backfill_counterexample :
    backfillG false true true true true true 1 [0] { rowsAffected := 0, lastInsertId := some 7 } = [7] ∧
    backfillG true true true true true true 1 [0] { rowsAffected := 0, lastInsertId := some 7 } = [0] := by
  decide

end Forms

end Gorm
