/-
  C17 — callback registration.  Model: GormModel/Model/Callbacks.lean (transcription of callbacks.go,
  tied to the code by the correspondence suite: error class per call + firing order, incl. the
  prediction "model out of fuel ⇔ real process dies of unbounded recursion").
-/
import GormModel.Model.Callbacks
import GormModel.Lemmas.Callbacks
import GormModel.Lemmas.CallbacksReach
import GormModel.Lemmas.CallbacksPost
import GormModel.Lemmas.CallbacksTable
import GormModel.Lemmas.CallbacksFuel
import GormModel.Lemmas.CallbacksPrefix
import GormModel.Lemmas.CallbacksSortBy
import GormModel.Lemmas.CallbacksRepair
import GormModel.Lemmas.CallbacksGuard
import GormModel.Gen.Pipelines
import GormModel.Gen.CallbackFacts
import GormModel.Lemmas.CallbackBuilder
import GormModel.Lemmas.CallbackExec
import GormModel.Gen.CallbackExecFacts
namespace Gorm
open Gen
open CbL
open Reent

/-- the built-in registrations of one pipeline as model operations (handler id = position) -/
def builtinOps (regs : List CbReg) : List RegOp :=
  (List.range regs.length).zip regs |>.map fun (i, r) => RegOp.register r.name r.before r.after true i

/-- Starting point of every history: for each of the six pipelines, registering the built-ins in source
    order (regenerated from callbacks/callbacks.go) compiles without error and runs them in that order. -/
theorem C17_builtin_initial_order :
    ∀ p ∈ pipelines,
      let r := Proc.run {} (builtinOps p.2)
      r.1.fns = List.range p.2.length ∧ r.2.all (· = none) = true := by
  decide

/-- `getRIndex` finds nothing exactly when the name is absent (used by every "already sorted?" test) -/
theorem C17_getRIndex_none_iff (l : List String) (s : String) :
    getRIndex l s = none ↔ s ∉ l := getRIndex_none_iff l s

/-- one call of `sortCallback` keeps `sorted` duplicate-free, whatever the callback table, index and fuel -/
theorem C17_sortCallback_nodup (names : List String) (fuel i : Nat) (st : SortSt)
    (h : st.sorted.Nodup) : (sortCallback names fuel i st).1.sorted.Nodup :=
  sortCallback_nodup names fuel i st h

/-- MAIN (exactly once): for EVERY callback table, the name order produced by `sortCallbacks` never
    contains a name twice -- so no callback can run twice, for all histories, sizes and constraints. -/
theorem C17_sorted_nodup (cs : List Cb) : (sortCallbacks cs).sorted.Nodup :=
  sortCallbacks_nodup cs

/-- `getRIndex` returns the LAST index of the name (so "the handler of a name" = that of its last record) -/
theorem C17_getRIndex_some (l : List String) (s : String) (k : Nat) (h : getRIndex l s = some k) :
    k < l.length ∧ l[k]! = s ∧ ∀ j, k < j → j < l.length → l[j]! ≠ s := getRIndex_some l s k h

/-- COMPLETENESS + SOUNDNESS of the order, for EVERY callback table (all sizes, all constraints, whatever
    `before`/`after` rewrites earlier compiles left behind): if `sortCallbacks` returns no error -- in
    particular it did not run out of fuel -- the computed order consists of exactly the names of the table.
    With `C17_sorted_nodup`: every name of the table is placed exactly once. -/
theorem C17_sorted_complete (cs : List Cb) (hok : (sortCallbacks cs).err = none) (n : String) :
    n ∈ (sortCallbacks cs).sorted ↔ n ∈ cs.map (·.name) := by
  constructor
  · exact sortCallbacks_sorted_subset cs n
  · intro hn
    obtain ⟨c, hc, rfl⟩ := List.mem_map.mp hn
    exact sortCallbacks_complete cs hok c hc

/-- even when an error is returned, nothing but names of the table is ever placed -/
theorem C17_sorted_subset (cs : List Cb) : ∀ s ∈ (sortCallbacks cs).sorted, s ∈ cs.map (·.name) :=
  sortCallbacks_sorted_subset cs

/-- `compile` never leaves a Remove marker or an unmatched record in `p.callbacks`, and after ANY history
    the names present in `p.callbacks` are exactly the live ones (`liveName`: registered with a matching
    `Match`, or `Replace`d, after the last `Remove` of that name) -- `removeCallbacks` drops exactly the
    removed names, the `before`/`after` rewrites of `sortCallback` never touch names. -/
theorem C17_table_is_live_names (h : List RegOp) :
    Clean (Proc.run {} h).1.callbacks ∧
    ∀ n, n ∈ (Proc.run {} h).1.callbacks.map (·.name) ↔ liveName h n :=
  ⟨run_clean h, run_names h⟩

/-- MAIN (every registered, non-removed callback runs exactly once), for ALL histories `h` and any further
    call `op`: if that call returns no error, then the execution order `order` (ghost: the names of `p.fns`)
    is duplicate-free, consists of exactly the live names of `h ++ [op]`, and `p.fns` holds exactly one
    handler per placed name -- that of the LAST record with the name (the rule of `processor.Get`). -/
theorem C17_exactly_once (h : List RegOp) (op : RegOp) :
    let r := (Proc.run {} h).1.apply op
    r.2 = none →
      r.1.order.Nodup ∧ (∀ n, n ∈ r.1.order ↔ liveName (h ++ [op]) n) ∧
      r.1.fns = r.1.order.filterMap (handlerOf r.1.callbacks) ∧ r.1.fns.length = r.1.order.length := by
  intro r hok
  have hclean := run_clean h
  have hord : ∀ n, n ∈ r.1.order ↔ liveName (h ++ [op]) n := by
    intro n
    rw [liveName_snoc]
    rw [apply_order _ hclean op hok n]
    exact liveStep_congr (run_names h) op n
  have hfns : r.1.fns = r.1.order.filterMap (handlerOf r.1.callbacks) :=
    sortCallbacks_fns _ hok
  refine ⟨sortCallbacks_nodup _, hord, hfns, ?_⟩
  rw [hfns]
  apply length_filterMap_of_isSome
  intro n hn
  apply handlerOf_isSome _ (compile_clean _)
  have h1 := (apply_order _ hclean op hok n).mp hn
  exact (apply_names _ hclean op n).mpr h1

/-- non-vacuity of `C17_exactly_once`: a history with Before/After/Replace/Remove whose last call succeeds -/
example : ((Proc.run {} [.register "a" "" "" true 0, .register "b" "" "" true 1, .register "x" "b" "" true 2,
    .remove "a", .replace "b" "" "" 7]).1.apply (.register "y" "" "x" true 3)).2 = none ∧
    ((Proc.run {} [.register "a" "" "" true 0, .register "b" "" "" true 1, .register "x" "b" "" true 2,
    .remove "a", .replace "b" "" "" 7]).1.apply (.register "y" "" "x" true 3)).1.fns = [2, 7, 3] := by
  decide

/-- PLACED CALLBACKS NEVER MOVE: whatever one `sortCallback` call does (recursion, rewrites, error or not),
    the old order is a subsequence of the new one -- names are only ever inserted, never moved or dropped.
    (`WF`: `names` is the name column of the table, as set up by `sortCallbacks`.) -/
theorem C17_placed_never_move (names : List String) (fuel i : Nat) (st : SortSt)
    (hw : WF names st) (hi : i < st.cs.size) :
    st.sorted.Sublist (sortCallback names fuel i st).1.sorted :=
  reach_sub (sortCallback_reach names fuel i st hw hi)

/-- a successful `sortCallback` call places the visited callback, and every `after` field it rewrote
    (the back-links `cs[idx].after = c.name`) names a callback that is placed when it returns -/
theorem C17_visit_places (names : List String) (fuel i : Nat) (st : SortSt)
    (hw : WF names st) (hi : i < st.cs.size) (hok : (sortCallback names fuel i st).2 = none) :
    (st.cs[i]!).name ∈ (sortCallback names fuel i st).1.sorted ∧
    ∀ j : Nat, ((sortCallback names fuel i st).1.cs[j]!).after = (st.cs[j]!).after ∨
         ((sortCallback names fuel i st).1.cs[j]!).after ∈ (sortCallback names fuel i st).1.sorted :=
  sortCallback_post names fuel i st hw hi hok

/-- BUILT-IN ORDER, table form (all sizes): if the table handed to the main loop (= after the
    `sort.SliceStable` pre-pass) starts with `k` records that carry no request and have pairwise distinct
    names -- the situation of the built-in callbacks as long as nobody is registered Before("*") or under a
    built-in name -- then these `k` names occur in the computed order in exactly their table order, whatever
    the remaining records request and whether or not an error is returned. (The step from histories to this
    table shape is NOT proved; the e2e oracle judges the built-in order for histories.) -/
theorem C17_unconstrained_prefix_keeps_order (cs0 : List Cb) (k : Nat) (hk : k ≤ (stableSortCbs cs0).length)
    (hp : ∀ j, j < k → ((stableSortCbs cs0)[j]!).before = "" ∧ ((stableSortCbs cs0)[j]!).after = "")
    (hnd : (((stableSortCbs cs0).take k).map (·.name)).Nodup) :
    (((stableSortCbs cs0).take k).map (·.name)).Sublist (sortCallbacks cs0).sorted := by
  have h := sortLoop_prefix_order (stableSortCbs cs0) k hk (sortFuel (stableSortCbs cs0).length)
    (by simp [sortFuel]) hp hnd
  unfold sortCallbacks
  simp only
  split
  · rename_i st e heq
    rw [heq] at h; exact h
  · rename_i st heq
    rw [heq] at h; exact h

/-- non-vacuity: the seven built-ins of the create pipeline followed by two user callbacks with requests -/
example : ((stableSortCbs [{name := "a"}, {name := "b"}, {name := "x", before := "b"}, {name := "y", after := "*"}]).take 2).map (·.name)
    = ["a", "b"] := by decide

/-- The negation of F12's pattern, as a predicate over the history: the requested precedences
    ("`After(a).Register(n)`: a before n", "`Before(b).Register(n)`: n before b") among names that are
    registered somewhere in the history are ACYCLIC -- witnessed by a rank function. (A self reference or
    an After/Before cycle admits no such rank.) -/
def AcyclicRequests (h : List RegOp) : Prop :=
  ∃ rank : String → Nat, ∀ op ∈ h,
    (op.toCb.after ≠ "" → (∃ o ∈ h, o.toCb.name = op.toCb.after) → rank op.toCb.after < rank op.toCb.name) ∧
    (op.toCb.before ≠ "" → (∃ o ∈ h, o.toCb.name = op.toCb.before) → rank op.toCb.name < rank op.toCb.before)

/-- FUEL ADEQUACY, table level, with the explicit bound: for EVERY table whose stored requests are respected
    by some rank function, the main loop with any fuel >= n + 2 (n = number of records) never reports
    "out of fuel" -- the recursion depth of `sortCallback` is at most n + 1. (`sortFuel n = 4n + 8`.) -/
theorem C17_fuel_bound (cs : List Cb) (rank : String → Nat) (fuel : Nat) (hf : cs.length + 2 ≤ fuel)
    (hr : RKlist (· ∈ cs.map (·.name)) rank cs) :
    (sortLoop (cs.map (·.name)) fuel cs.length 0 { cs := cs.toArray, sorted := [] }).2 ≠ some .fuel :=
  sortLoop_nofuel (cs.map (·.name)) (· ∈ cs.map (·.name)) rank (fun _ h => h) fuel cs.length 0 _
    (by simpa using hf) (wf_init cs) (rk_init _ rank cs hr) (by simp)

/-- FUEL ADEQUACY / TERMINATION for ALL histories outside F12's pattern: if the requests of a history are
    acyclic, NO call of the history runs out of fuel (so the model's verdict "out of fuel", which the
    differential suite equates with "the Go process dies of unbounded recursion", can only arise from a
    self/cyclic reference). -/
theorem C17_fuel_adequate (h : List RegOp) (hac : AcyclicRequests h) :
    ∀ e ∈ (Proc.run {} h).2, e ≠ some SortErr.fuel := by
  obtain ⟨rank, hr⟩ := hac
  apply run_nofuel (fun s => ∃ o ∈ h, o.toCb.name = s) rank h
  · intro op hop
    refine ⟨⟨op, hop, rfl⟩, ?_⟩
    intro c hc
    simp at hc; subst hc
    exact hr op hop
  · exact ⟨fun c hc => (nomatch hc), fun c hc => (nomatch hc)⟩
  · intro e he; cases he

/-- non-vacuity: a history with Before and After requests (incl. a forward reference) is acyclic -/
example : AcyclicRequests [.register "a" "" "" true 0, .register "x" "a" "y" true 1, .register "y" "" "" true 2] := by
  refine ⟨fun s => if s = "y" then 0 else if s = "x" then 1 else 2, ?_⟩
  decide

/-- FINDING F12 (counterexample, kernel-checked): a callback that names itself never finishes sorting:
    the model runs out of fuel (the Go code overflows the stack instead of returning an error). -/
theorem C17_selfref_counterexample :
    (Proc.run {} [.register "a" "" "" true 0, .register "u" "u" "" true 1]).2 = [none, some .fuel] := by
  decide

/-- FINDING F12, second shape: two callbacks each registered After the other -/
theorem C17_after_cycle_counterexample :
    (Proc.run {} [.register "a" "" "b" true 0, .register "b" "" "a" true 1]).2 = [none, some .fuel] := by
  decide

/-- FINDING F14 (counterexample): Replace of a callback registered After("*") is ignored:
    handler 1 keeps running, handler 2 never does -/
theorem C17_replace_star_ignored_counterexample :
    (Proc.run {} [.register "a" "" "" true 0, .register "u" "" "*" true 1, .replace "u" "" "" 2]).1.fns = [0, 1] := by
  decide

/-- FINDING F16 (counterexample): Before(x) overwrites x's own After request: u1 was registered
    After("u3") but runs before u3 although {u2<u1, u3<u1} is satisfiable -/
theorem C17_before_overwrites_after_counterexample :
    (Proc.run {} [.register "u2" "u1" "" true 0, .register "u1" "" "u3" true 1, .register "u3" "" "" true 2]).1.fns
      = [0, 1, 2] := by
  decide

/-- FINDING F17 (counterexample; found while proving, replayed on the real API): a SECOND `Before(b)`
    overwrites the back-link the first one left on `b` (`cs[idx].after = c.name`), so only the last requester
    is checked when `b` is placed: `c` was registered Before("b") but runs after it, no error, although
    {cl < x, c < b, cl < b, b < z} is satisfiable. -/
theorem C17_second_before_overwrites_backlink_counterexample :
    let r := Proc.run {} [.register "x" "" "cl" true 0, .register "z" "" "" true 1, .register "c" "b" "" true 2,
      .register "cl" "b" "" true 3, .register "b" "z" "" true 4]
    r.2 = [none, none, none, none, none] ∧ r.1.order = ["cl", "x", "b", "z", "c"] := by
  decide

/-- FINDING F18 (counterexample; found by the widened generator, reproduced on the real API): an After("*")
    callback that another callback names in After(...) is placed when the requester is visited, in front of a
    later plain registration: `s` asked for After("*") but runs before the unconstrained `p`. -/
theorem C17_star_pulled_forward_counterexample :
    let r := Proc.run {} [.register "a" "" "" true 0, .register "s" "" "*" true 1, .register "q" "" "s" true 2,
      .register "p" "" "" true 3]
    r.2 = [none, none, none, none] ∧ r.1.order = ["a", "s", "q", "p"] := by
  decide

/-- FINDING F19 (counterexample; found by the thorough tier with the widened generator, reproduced on the real
    API): a name registered twice, once Before("*") and once After("*"): an unrelated plain Replace of `a`
    moves `u` from the tail to the head (and switches its handler) -- the Replace does not leave the other
    callbacks at their positions. -/
theorem C17_duplicate_star_reshuffled_counterexample :
    let h : List RegOp := [.register "a" "" "" true 0, .register "b" "" "" true 1, .register "u" "*" "" true 2,
      .register "u" "" "*" true 3]
    (Proc.run {} h).1.order = ["a", "b", "u"] ∧
    (Proc.run {} (h ++ [.replace "a" "" "" 9])).1.order = ["u", "a", "b"] ∧
    (Proc.run {} (h ++ [.replace "a" "" "" 9])).2 = [none, none, none, none, none] := by
  decide

/-- FINDING F20 (counterexample; found by the thorough tier, reproduced on the real API): the back-link a removed
    callback left behind survives its Remove: `c` Before("x") rewrites `x.after := "c"`; after Remove("c") a new
    `c` registered After("*") is pulled in front of the unconstrained `x` (and of `p`). -/
theorem C17_stale_backlink_counterexample :
    let r := Proc.run {} [.register "a" "" "" true 0, .register "c" "x" "" true 1, .register "x" "" "" true 2,
      .remove "c", .register "c" "" "*" true 4]
    r.2 = [none, none, none, none, none] ∧ r.1.order = ["a", "c", "x"] := by
  decide

/-- positive instance (non-vacuity of the model): Before/After requests that gorm does honour -/
example : (Proc.run {} [.register "a" "" "" true 0, .register "b" "" "" true 1,
    .register "x" "b" "" true 2, .register "y" "" "a" true 3]).1.fns = [0, 2, 1, 3] := by
  decide

/-! ## The tree under check: `Proc.runR treeRepairs` (repair flags regenerated from callbacks.go)

  Every theorem above is about the ORIGINAL code (`sortCallbacks`, `Proc.run`).  What the differential suite runs
  against the real code is `Proc.runR treeRepairs`; with no repair present that is `Proc.run`
  (`C17_unrepaired_tree_is_original`).  The theorems below hold for EVERY combination `r` of repairs, or for
  every `r` that contains the repair in question; the `_current_tree` theorems say, for the flags regenerated
  from the tree, "repair present and the full statement" or "repair absent and the listed witness fails". -/

/-- with no repair in the tree, the model the differential suite runs is the original model -/
theorem C17_unrepaired_tree_is_original (p : Proc) (ops : List RegOp) :
    Proc.runR {} p ops = Proc.run p ops ∧ ∀ cs, sortCallbacksR {} cs = sortCallbacks cs :=
  ⟨runR_none p ops, sortCallbacksR_none⟩

/-- `C17_sorted_nodup` / `C17_sorted_complete` for every combination of repairs -/
theorem C17_sorted_exact_any_tree (r : CbRepairs) (cs : List Cb) :
    (sortCallbacksR r cs).sorted.Nodup ∧
    ((sortCallbacksR r cs).err = none → ∀ n, n ∈ (sortCallbacksR r cs).sorted ↔ n ∈ cs.map (·.name)) := by
  refine ⟨sortCallbacksR_nodup r cs, fun hok n => ⟨sortCallbacksR_sorted_subset r cs n, ?_⟩⟩
  intro hn
  obtain ⟨c, hc, rfl⟩ := List.mem_map.mp hn
  exact sortCallbacksR_complete r cs hok c hc

/-- `C17_table_is_live_names` for every combination of repairs -/
theorem C17_table_is_live_names_any_tree (r : CbRepairs) (h : List RegOp) :
    Clean (Proc.runR r {} h).1.callbacks ∧
    ∀ n, n ∈ (Proc.runR r {} h).1.callbacks.map (·.name) ↔ liveName h n :=
  ⟨runR_clean r h, runR_names r h⟩

/-- MAIN (every registered, non-removed callback runs exactly once) for every combination of repairs:
    `C17_exactly_once`, word for word, about the tree under check -/
theorem C17_exactly_once_any_tree (r : CbRepairs) (h : List RegOp) (op : RegOp) :
    let res := (Proc.runR r {} h).1.applyR r op
    res.2 = none →
      res.1.order.Nodup ∧ (∀ n, n ∈ res.1.order ↔ liveName (h ++ [op]) n) ∧
      res.1.fns = res.1.order.filterMap (handlerOf res.1.callbacks) ∧ res.1.fns.length = res.1.order.length := by
  intro res hok
  have hclean := runR_clean r h
  have hord : ∀ n, n ∈ res.1.order ↔ liveName (h ++ [op]) n := by
    intro n
    rw [liveName_snoc]
    rw [applyR_order r _ hclean op hok n]
    exact liveStep_congr (runR_names r h) op n
  have hfns : res.1.fns = res.1.order.filterMap (handlerOf res.1.callbacks) :=
    sortCallbacksR_fns_handlerOf r _ hok
  refine ⟨sortCallbacksR_nodup r _, hord, hfns, ?_⟩
  rw [hfns]
  apply length_filterMap_of_isSome
  intro n hn
  apply handlerOf_isSome _ (compileR_clean r _)
  have h1 := (applyR_order r _ hclean op hok n).mp hn
  exact (applyR_names r _ hclean op n).mpr h1

/-! ### F12 repaired: the depth guard `if depth++; depth > 2*len(cs)+2 { return error }` -/

/-- FULL STRENGTH (the hypothesis `AcyclicRequests` of `C17_fuel_adequate` is gone): with the depth guard NO call
    of ANY history recurses without bound -- every registration call returns, with an error or without -/
theorem C17_guard_never_diverges (r : CbRepairs) (hg : r.depthGuard = true) (h : List RegOp) :
    ∀ e ∈ (Proc.runR r {} h).2, e ≠ some SortErr.fuel := by
  have hr : r = withGuard r true := by
    cases r with
    | mk g c s => simp only at hg; subst hg; rfl
  apply runR_errs r (fun e => e ≠ some SortErr.fuel) _ h {} []
  · intro e he; cases he
  · intro p op
    unfold Proc.applyR
    rw [compileR_eq, hr]
    exact guard_total r _

/-- SAFETY, part 1 (same result): on EVERY table on which the unguarded recursion terminates (on a stack that
    allows depth `f`) without going deeper than `2n+2`, the guarded `sortCallbacks` returns exactly what the
    unguarded one returns: the same error (same names) or the same order and handlers, and the same records are
    written back to `p.callbacks`.  (`sortCallbacksF r cs f` = the code of tree `r` WITHOUT the guard, run on a
    stack of depth `f`; fuel monotonicity `sortLoop_mono` makes its result independent of `f`.) -/
theorem C17_guard_conservative (r : CbRepairs) (cs : List Cb) (f : Nat)
    (hterm : (loopF r cs f).2 ≠ some .fuel) (hb : WithinBound r cs) :
    sortCallbacksR (withGuard r true) cs = sortCallbacksF r cs f :=
  guard_conservative r cs f hterm hb

/-- SAFETY, part 2 (error exactly beyond the bound): the guard's error is returned if and only if the unguarded
    recursion goes deeper than `2n+2`; in particular it IS returned on every table on which the unguarded
    recursion does not terminate (`Diverges`: out of stack for every stack depth) -/
theorem C17_guard_error_iff_beyond_bound (r : CbRepairs) (cs : List Cb) :
    ((sortCallbacksR (withGuard r true) cs).err = some .cycle ↔ ¬ WithinBound r cs) ∧
    (Diverges r cs → (sortCallbacksR (withGuard r true) cs).err = some .cycle) :=
  ⟨guard_cycle_iff r cs, guard_on_divergence r cs⟩

/-- SAFETY, part 3 (which tables can be affected): every table whose requests are respected by some rank
    function is within the bound (its recursion is at most n+1 deep), so the guard's error is only ever returned
    on tables with CYCLIC requests -- tables on which "an error is returned" is what the property asks for -/
theorem C17_guard_rejects_only_cyclic (r : CbRepairs) (cs : List Cb)
    (he : (sortCallbacksR (withGuard r true) cs).err = some .cycle) :
    ¬ ∃ rank : String → Nat, RKlist (· ∈ cs.map (·.name)) rank cs := by
  rintro ⟨rank, hr⟩
  exact (guard_cycle_iff r cs).mp he
    (within_of_rank r cs (· ∈ cs.map (·.name)) rank (fun c hc => List.mem_map.mpr ⟨c, hc, rfl⟩) hr)

/-- SAFETY, history level: on every history whose requests are acyclic (= outside F12's pattern) the tree with
    the guard and the tree without it go through exactly the same processor states and return the same errors,
    call by call -- whatever other repairs are present -/
theorem C17_guard_same_on_acyclic (r : CbRepairs) (h : List RegOp) (hac : AcyclicRequests h) :
    Proc.runR (withGuard r true) {} h = Proc.runR (withGuard r false) {} h := by
  obtain ⟨rank, hr⟩ := hac
  apply runR_guard_eq_fold r (fun s => ∃ o ∈ h, o.toCb.name = s) rank h
  · intro op hop
    refine ⟨⟨op, hop, rfl⟩, ?_⟩
    intro c hc
    simp at hc; subst hc
    exact hr op hop
  · exact ⟨fun c hc => (nomatch hc), fun c hc => (nomatch hc)⟩

/-- non-vacuity of `C17_guard_conservative`: a table with a cyclic request pair on which the unguarded recursion
    terminates (with a conflict error) within the bound -/
example : WithinBound {} [{name := "a"}, {name := "p", after := "r"}, {name := "r", before := "a", after := "p"}] ∧
    (sortCallbacksR (withGuard {} true)
      [{name := "a"}, {name := "p", after := "r"}, {name := "r", before := "a", after := "p"}]).err
      = some (.conflict "p" "r") := by
  unfold WithinBound loopF
  decide

/-- the tree as it is now: either the guard is present and no history makes a registration call diverge, or it
    is absent and the listed witness (a callback naming itself) diverges -/
theorem C17_unbounded_recursion_current_tree :
    Gen.sortCallbacksFound = true ∧
    ((Gen.sortDepthGuard = true ∧ ∀ h : List RegOp, ∀ e ∈ (Proc.runR treeRepairs {} h).2, e ≠ some SortErr.fuel) ∨
     (Gen.sortDepthGuard = false ∧
        (Proc.runR treeRepairs {} [.register "a" "" "" true 0, .register "u" "u" "" true 1]).2 = [none, some .fuel])) := by
  refine ⟨by decide, ?_⟩
  by_cases hg : Gen.sortDepthGuard = true
  · left
    exact ⟨hg, C17_guard_never_diverges treeRepairs hg⟩
  · right
    have hg' : Gen.sortDepthGuard = false := by simpa using hg
    refine ⟨hg', ?_⟩
    have : treeRepairs = { depthGuard := false, sortCopies := Gen.sortWorksOnCopies, starOrder := Gen.sortStarOrder } := by
      unfold treeRepairs; rw [hg']
    rw [this]
    decide

/-! ### F19 repaired: the pre-pass comparator `!star(cs[i]) && star(cs[j])` -/

/-- FULL STRENGTH: with the repaired comparator the pre-pass is the stable partition "records without a '*'
    request, then the '*' records" (so its result does not depend on the sorting algorithm or on the table size),
    and it is idempotent -- a later compile never reorders `p.callbacks` again -/
theorem C17_prepass_stable_partition (l : List Cb) :
    stableSortBy starLess l = l.filter (fun c => !c.star) ++ l.filter (·.star) ∧
    stableSortBy starLess (stableSortBy starLess l) = stableSortBy starLess l :=
  ⟨stableSortBy_starLess l, stableSortBy_starLess_idem l⟩

/-- SAFETY: on every table that does not hold both an After("*") record and a Before("*") record the repaired
    pre-pass returns exactly what the original pre-pass returns -/
theorem C17_prepass_same_without_both_kinds (l : List Cb)
    (h : (∀ c ∈ l, c.after ≠ "*") ∨ (∀ c ∈ l, c.before ≠ "*")) :
    stableSortCbs l = stableSortBy starLess l :=
  stableSortCbs_eq_starLess l h

/-- the tree as it is now: either the comparator is the repaired one and the pre-pass is idempotent on every
    table, or it is the original one and the listed witness (one name with a Before("*") and an After("*")
    record) is reordered by every compile -/
theorem C17_prepass_current_tree :
    (Gen.sortStarOrder = true ∧ ∀ l, prepass treeRepairs (prepass treeRepairs l) = prepass treeRepairs l) ∨
    (Gen.sortStarOrder = false ∧
      prepass treeRepairs (prepass treeRepairs [{name := "u", before := "*"}, {name := "u", after := "*"}])
        ≠ prepass treeRepairs [{name := "u", before := "*"}, {name := "u", after := "*"}]) := by
  by_cases hs : Gen.sortStarOrder = true
  · left
    refine ⟨hs, fun l => ?_⟩
    have : treeRepairs.starOrder = true := hs
    unfold prepass
    simp only [this, if_true]
    exact stableSortBy_starLess_idem l
  · right
    have hs' : Gen.sortStarOrder = false := by simpa using hs
    refine ⟨hs', ?_⟩
    have : treeRepairs.starOrder = false := hs'
    unfold prepass
    simp only [this]
    decide

/-! ### F20 repaired: `sortCallbacks` works on copies of the records -/

/-- FULL STRENGTH: with copies, `compile` writes nothing into the records -- `p.callbacks` afterwards is the
    filtered, pre-sorted input -- so after ANY history every record of `p.callbacks` is literally one of the
    registrations of the history (its own name, handler, Before and After): no back-link exists between two
    compiles, in particular none can outlive a Remove -/
theorem C17_copies_records_are_registrations (r : CbRepairs) (hc : r.sortCopies = true) :
    (∀ p : Proc, (p.compileR r).1.callbacks = prepass r (compileTable p)) ∧
    ∀ h : List RegOp, ∀ c ∈ (Proc.runR r {} h).1.callbacks, ∃ op ∈ h, c = op.toCb :=
  ⟨compileR_copies r hc, runR_copies_records r hc⟩

/-- the tree as it is now: either the sort works on copies and every stored record is a registration, or it does
    not and in the listed witness the record of `x` (registered without a request) carries `after = "c"` after
    `c` has been removed, which places the new `c` in front of `x` -/
theorem C17_stale_backlink_current_tree :
    (Gen.sortWorksOnCopies = true ∧
      ∀ h : List RegOp, ∀ c ∈ (Proc.runR treeRepairs {} h).1.callbacks, ∃ op ∈ h, c = op.toCb) ∨
    (Gen.sortWorksOnCopies = false ∧
      let res := Proc.runR treeRepairs {} [.register "a" "" "" true 0, .register "c" "x" "" true 1,
        .register "x" "" "" true 2, .remove "c", .register "c" "" "*" true 4]
      res.1.order = ["a", "c", "x"] ∧ res.1.callbacks.map (fun c => (c.name, c.after)) = [("a", ""), ("x", "c"), ("c", "*")]) := by
  by_cases hc : Gen.sortWorksOnCopies = true
  · left
    exact ⟨hc, (C17_copies_records_are_registrations treeRepairs hc).2⟩
  · right
    have hc' : Gen.sortWorksOnCopies = false := by simpa using hc
    refine ⟨hc', ?_⟩
    have : treeRepairs = { depthGuard := Gen.sortDepthGuard, sortCopies := false, starOrder := Gen.sortStarOrder } := by
      unfold treeRepairs; rw [hc']
    rw [this]
    decide

/-! ## The registration BUILDER: how a request reaches `compile` (round 3)

  `p.Before(x).After(y).Register(n, f)`, `p.After(y).Before(x).Register(n, f)`, `p.Match(fc).After(y).Before(z).Before(x)…`:
  every spelling of a request is a `Chain`; the bodies of the builder methods are regenerated tables
  (`treeBuilder`, extract/gen_c17_builder.go) interpreted by `Chain.record`. -/

open BldL CbB

/-- the builder API of the tree under check (regenerated): every starter zeroes all fields but its own, every chain
    method and finisher keeps every field it does not set, finishers append their receiver once and return
    `compile()`, `p.Register/Replace/Remove` delegate to a builder that carries nothing, no further chain method
    exists -/
theorem C17_builder_bodies_current_tree : Canon treeBuilder := by decide

/-- LAST WINS, whatever the order and the length of the chain: for every tree whose builder methods keep what they
    do not set, the record a chain registers carries the argument of the LAST `Before` of the chain, of the LAST
    `After`, the predicate of the `Match` that started it, and the finisher's name / handler / kind -/
theorem C17_chain_last_wins (T : BuilderFacts) (hT : Canon T) (ch : Chain) :
    ch.record T = ch.request ∧
    (ch.record T).before = ch.lastBefore ∧ (ch.record T).after = ch.lastAfter ∧ (ch.record T).mtch = ch.pred := by
  have h := record_eq T hT ch
  refine ⟨h, ?_, ?_, ?_⟩ <;> rw [h] <;> unfold Chain.request <;> cases ch.fin <;> rfl

/-- … in particular the ORDER of the calls is irrelevant: `After(x).Before(y)` registers what `Before(y).After(x)`
    registers, and calls that are overridden later in the chain leave no trace -/
theorem C17_chain_order_irrelevant (T : BuilderFacts) (hT : Canon T) (c1 c2 : Chain)
    (hb : c1.lastBefore = c2.lastBefore) (ha : c1.lastAfter = c2.lastAfter) (hp : c1.pred = c2.pred)
    (hf : c1.fin = c2.fin) : c1.record T = c2.record T := by
  rw [record_eq T hT, record_eq T hT]
  unfold Chain.request
  rw [hb, ha, hp, hf]

example : (Chain.mk (.after "x") [.before "y"] (.register "n" 1)).record treeBuilder =
          (Chain.mk (.before "y") [.after "x"] (.register "n" 1)).record treeBuilder ∧
          (Chain.mk (.mtch (some true)) [.before "q", .after "x", .after "", .before "y", .after "x"] (.register "n" 1)).lastBefore = "y" := by
  decide

/-- `b := p.Before(x); b.After(y); b.Register(n, f)` -- the values returned by the chain methods thrown away: as long
    as the chain methods mutate their receiver (the pinned tree) that registers what the chained spelling registers -/
theorem C17_dropped_results_same_when_mutating (T : BuilderFacts) (hT : Canon T)
    (hb : T.beforeFresh = false) (ha : T.afterFresh = false) (ch : Chain) :
    ch.recordDropped T = ch.request := by
  rw [recordDropped_eq T hT hb ha, record_eq T hT]

/-- a tree whose `Before` returns a fresh builder that forgets `after` (the other fields kept) is NOT canonical and
    the order of the calls matters there: `After(x).Before(y)` loses `After(x)` -/
theorem C17_forgetful_chain_method_counterexample :
    let T : BuilderFacts := { BuilderFacts.canonical with cbBefore := { before := .param0, after := .zero }, beforeFresh := true }
    ¬ Canon T ∧
    ((Chain.mk (.after "x") [.before "y"] (.register "n" 1)).record T).after = "" ∧
    ((Chain.mk (.before "y") [.after "x"] (.register "n" 1)).record T).after = "x" := by
  decide

/-- histories of chains ARE histories of `RegOp`s (so every history theorem above speaks about every spelling):
    on a canonical tree, running chains that are expressible as `RegOp`s (every Register chain; Replace chains whose
    Match is nil/true; Remove chains without request) equals running their `RegOp`s -/
theorem C17_chains_are_regops (T : BuilderFacts) (hT : Canon T) (r : CbRepairs) (p : Proc) (chs : List Chain)
    (he : ∀ ch ∈ chs, Expressible ch) :
    Proc.runChains T r p chs = Proc.runR r p (chs.map toRegOp) := by
  unfold Proc.runChains Proc.runCbsR Proc.runR
  have : chs.map (fun ch => (ch.record T).toCb) = (chs.map toRegOp).map RegOp.toCb := by
    rw [List.map_map]
    apply List.map_congr_left
    intro ch hch
    simp only [Function.comp]
    rw [record_eq T hT, request_toCb ch (he ch hch)]
  rw [this]
  exact runCbsR_map_toCb r _ p []

/-- a Remove issued through a builder that carries a request or a Match (`p.Before(x).Remove(n)`,
    `p.Match(fc).Remove(n)`) acts exactly as `p.Remove(n)`: the record is dropped by the compile it triggers -/
theorem C17_remove_ignores_builder (T : BuilderFacts) (hT : Canon T) (r : CbRepairs) (p : Proc) (ch : Chain) (n : String)
    (hf : ch.fin = .remove n) :
    p.applyCbR r (ch.record T).toCb = p.applyR r (.remove n) := by
  rw [record_eq T hT]
  have hrem : ch.request.toCb.remove = true := by unfold Chain.request; rw [hf]; rfl
  have hname : ch.request.toCb.name = n := by unfold Chain.request; rw [hf]; rfl
  rw [applyCbR_remove_record r p _ hrem, hname]
  rfl

/-- `processor.Get` on the model: after a successful call, `Get n` is the handler that runs for `n`
    (`handlerOf`, the handler `C17_exactly_once` speaks about) whenever the last record of `n` is not a Remove record -/
theorem C17_get_is_last_live_record (p : Proc) (n : String) (h : Nat) (hg : p.get n = some h) :
    ∃ c ∈ p.callbacks, c.name = n ∧ c.remove = false ∧ c.hid = h := by
  unfold Proc.get at hg
  obtain ⟨c, hc, rfl⟩ := Option.map_eq_some_iff.mp hg
  have hmem := List.mem_of_find?_eq_some hc
  have hp := List.find?_some hc
  simp at hp
  exact ⟨c, List.mem_reverse.mp hmem, hp.1, hp.2, rfl⟩

/-- VALUE SEMANTICS of the table: `p.callbacks` holds POINTERS and a finisher mutates and appends its receiver;
    as long as the builder value is not in the table yet (every chain used for ONE finisher), the finisher appends
    one record and leaves all others alone -- which is what `Proc.applyCbR` models -/
theorem C17_builder_used_once_appends (T : BuilderFacts) (t : PtrTable) (i : Nat) (f : Finish) (b : Bld)
    (hcell : t.cells[i]? = some b) (hfresh : i ∉ t.table) :
    (t.finish T i f).view = t.view ++ [f.run T b] :=
  view_finish_fresh T t i f b hcell hfresh

/-- F21 (finding): a builder value used for TWO finishers (`b := p.Before("x"); b.Register("a", f); b.Register("b", g)`)
    -- the second call renames the record the first one stored: the table holds the same record twice, the
    name "a" is gone, and no compile can run it (the order only contains names of the table) -/
theorem C17_builder_reuse_counterexample :
    let t0 : PtrTable := { cells := [Start.run treeBuilder (.before "x")], table := [] }
    let t := (t0.finish treeBuilder 0 (.register "a" 1)).finish treeBuilder 0 (.register "b" 2)
    t.view.map (·.name) = ["b", "b"] ∧
    "a" ∉ (sortCallbacksR treeRepairs (t.view.map Bld.toCb)).sorted ∧
    (sortCallbacksR treeRepairs (t.view.map Bld.toCb)).fns = [2] := by
  decide

/-- … and the partial statement: finishers through pairwise DISTINCT builder values that are not in the table yet
    append exactly their records, in call order, and leave the rest of the table alone (no reuse = value semantics) -/
theorem C17_builder_reuse_partial (T : BuilderFacts) (fs : List (Nat × Finish)) :
    ∀ (t : PtrTable), (fs.map (·.1)).Nodup → (∀ x ∈ fs, x.1 ∉ t.table ∧ (t.cells[x.1]?).isSome) →
    (fs.foldl (fun (t : PtrTable) x => t.finish T x.1 x.2) t).view =
      t.view ++ fs.filterMap (fun x => (t.cells[x.1]?).map (x.2.run T)) := by
  induction fs with
  | nil => intro t _ _; simp
  | cons x rest ih =>
    intro t hnd hok
    have hx := hok x (List.mem_cons_self ..)
    obtain ⟨b, hb⟩ := Option.isSome_iff_exists.mp hx.2
    rw [List.foldl_cons]
    rw [List.map_cons] at hnd
    have hnd' : (rest.map (·.1)).Nodup := (List.nodup_cons.mp hnd).2
    have hnotin : ∀ y ∈ rest, y.1 ≠ x.1 := by
      intro y hy h
      have := (List.nodup_cons.mp hnd).1
      exact this (h ▸ List.mem_map_of_mem (f := (·.1)) hy)
    have hcells : ∀ y ∈ rest, (t.finish T x.1 x.2).cells[y.1]? = t.cells[y.1]? := by
      intro y hy
      have := hnotin y hy
      simp [PtrTable.finish, List.getElem?_modify, Ne.symm this]
    rw [ih (t.finish T x.1 x.2) hnd' ?_]
    · rw [view_finish_fresh T t x.1 x.2 b hb hx.1, List.filterMap_cons, hb]
      simp only [Option.map_some, List.append_assoc, List.singleton_append]
      congr 2
      apply BldL.filterMap_congr'
      intro y hy
      rw [hcells y hy]
    · intro y hy
      have hy' := hok y (List.mem_cons_of_mem _ hy)
      rw [hcells y hy]
      refine ⟨?_, hy'.2⟩
      simp [PtrTable.finish, hy'.1, hnotin y hy]

/-! ## ROUND 5 — RE-ENTRANCE: registration calls made from INSIDE a running callback

  `processor.Execute` walks the compiled chain with `for _, f := range p.fns { f(db) }`.  Go evaluates the range
  expression once, and `compile` never writes through the old slice (it installs the fresh slice `sortCallbacks`
  built from nil): the run in flight walks a SNAPSHOT.  Model: `Model/CallbackExec.lean` (`execute` = fold over the
  snapshot; the callbacks' registration calls are a `Script`: handler id -> records handed to compile, on the
  running pipeline or on another pipeline of the same DB).  Tie: the regenerated facts below + the differential
  suite `reentrant` (harness/c17_reentrant.go: trace of every run, chain after every run, error of every inner call). -/

/-- REGENERATED FACTS (extract/gen_c17_exec.go): Execute mentions `p.fns` exactly once, as the range expression of
    `for _, f := range p.fns { f(db) }`; the field is written by `compile` only, by ONE whole-slice assignment of the
    result of `sortCallbacks`, which builds that result from nil (`fns = append(fns, h)` only) -/
theorem C17_execute_walks_snapshot_current_tree :
    executeLoop = "range-snapshot" ∧ executeFnsReads = 1 ∧
    fnsMentions = ["processor.Execute", "processor.compile"] ∧
    fnsWriters = ["processor.compile"] ∧
    fnsWriteStmts = ["processor.compile: p.fns, err = sortCallbacks(p.callbacks)"] ∧
    sortFnsFresh = true := by
  decide

/-- THE RUN IN FLIGHT: whatever the callbacks register, replace or remove while the pipeline executes -- on this
    pipeline or on another one, with or without error --, the run fires exactly the chain that was compiled when it
    STARTED: the same handlers, each once, in that order -/
theorem C17_run_in_flight_fires_snapshot (r : CbRepairs) (script : Script) (w : World) :
    (w.execute r script).trace = w.run.fns := by
  unfold World.execute
  rw [ExecL.execute_eq]
  simp

/-- ... and it is not lost either: the registration calls made during the run act on each pipeline exactly as the
    plain HISTORY of those calls (in firing order) made outside a run -- so the NEXT run is the run of that history,
    and every history theorem above speaks about it; a call addressed to one pipeline never touches the other -/
theorem C17_reentrant_calls_are_a_history (r : CbRepairs) (script : Script) (w : World) :
    (w.execute r script).w.run = (w.run.runCbsR r (Eff.onRun (effectsOf script w.run.fns))).1 ∧
    (w.execute r script).w.oth = (w.oth.runCbsR r (Eff.onOther (effectsOf script w.run.fns))).1 ∧
    (w.execute r script).errs.length = (effectsOf script w.run.fns).length := by
  unfold World.execute
  rw [ExecL.execute_eq]
  have h := ExecL.performAll_run r (effectsOf script w.run.fns) w
  exact ⟨h.1, h.2, by simp [ExecL.performAll_errs_length]⟩

/-- two runs: the first fires the chain compiled before it started, the second the chain of the history extended by
    the first run's calls -/
theorem C17_next_run_fires_new_chain (r : CbRepairs) (s1 s2 : Script) (w : World) :
    (w.executeMany r [s1, s2]).2 =
      [w.run.fns, (w.run.runCbsR r (Eff.onRun (effectsOf s1 w.run.fns))).1.fns] := by
  simp only [World.executeMany]
  rw [C17_run_in_flight_fires_snapshot, C17_run_in_flight_fires_snapshot, (C17_reentrant_calls_are_a_history r s1 w).1]

/-- the state after a re-entrant run, in terms of `RegOp` histories: if the calls addressed to the running pipeline
    are the requests `ops`, the pipeline is in the state of the history `h ++ ops` -/
theorem C17_after_reentrant_run_is_history (r : CbRepairs) (h ops : List RegOp) (script : Script) (oth : Proc)
    (hops : Eff.onRun (effectsOf script (Proc.runR r {} h).1.fns) = ops.map RegOp.toCb) :
    (World.execute r script { run := (Proc.runR r {} h).1, oth := oth }).w.run = (Proc.runR r {} (h ++ ops)).1 := by
  rw [(C17_reentrant_calls_are_a_history r script _).1]
  simp only []
  rw [hops]
  unfold Proc.runCbsR Proc.runR
  rw [List.foldl_append, runCbsR_map_toCb]
  rw [← runCbsR_map_toCb, ← runCbsR_map_toCb r ops]
  exact ExecL.foldl_fst_indep r _ _ _ _

/-- EXACTLY ONCE for the run in flight (the property's sentence, for a pipeline whose callbacks re-enter the
    registration API): after a history whose last call returned no error, a run fires one handler per live name --
    the handler `handlerOf` selects --, in the compiled order, whatever its callbacks register meanwhile -/
theorem C17_run_in_flight_exactly_once (r : CbRepairs) (h : List RegOp) (op : RegOp) (script : Script) (oth : Proc) :
    let res := (Proc.runR r {} h).1.applyR r op
    res.2 = none →
      (World.execute r script { run := res.1, oth := oth }).trace = res.1.order.filterMap (handlerOf res.1.callbacks) ∧
      (World.execute r script { run := res.1, oth := oth }).trace.length = res.1.order.length ∧
      res.1.order.Nodup ∧ (∀ n, n ∈ res.1.order ↔ liveName (h ++ [op]) n) := by
  intro res hok
  have hx := C17_exactly_once_any_tree r h op hok
  rw [C17_run_in_flight_fires_snapshot]
  exact ⟨hx.2.2.1, hx.2.2.2, hx.1, hx.2.1⟩

/-- non-vacuity: a run whose second callback removes itself and registers a helper in front of itself -/
example :
    let p := (Proc.run {} [.register "a" "" "" true 0, .register "once" "" "" true 1, .register "b" "" "" true 2]).1
    let script : Script := fun h =>
      if h = 1 then [{ cb := (RegOp.remove "once").toCb }, { cb := (RegOp.register "helper" "b" "" true 7).toCb }] else []
    (World.executeMany {} { run := p } [script, fun _ => []]).2 = [[0, 1, 2], [0, 7, 2]] := by
  decide

/-- WHAT AN INDEX LOOP WOULD DO (counterexample, kernel-checked; `executeIndexed` is the loop
    `for i := 0; i < len(p.fns); i++ { p.fns[i](db) }`, not the code of the pinned tree): a run-once callback that
    removes itself makes the run skip the callback behind it (`b` is registered, never removed, and does not run);
    a callback that registers a helper Before itself fires twice in one run.  The snapshot loop fires `a once b c` /
    `first lazy last`. -/
theorem C17_indexed_loop_counterexample :
    let p := (Proc.run {} [.register "a" "" "" true 0, .register "once" "" "" true 1, .register "b" "" "" true 2,
      .register "c" "" "" true 3]).1
    let once : Script := fun h => if h = 1 then [{ cb := (RegOp.remove "once").toCb }] else []
    let q := (Proc.run {} [.register "first" "" "" true 0, .register "lazy" "" "" true 1, .register "last" "" "" true 2]).1
    let lazy_ : Script := fun h => if h = 1 then [{ cb := (RegOp.register "helper" "lazy" "" true 7).toCb }] else []
    (World.executeIndexed {} once 10 { run := p }).trace = [0, 1, 3] ∧
    (World.execute {} once { run := p }).trace = [0, 1, 2, 3] ∧
    (World.executeIndexed {} lazy_ 10 { run := q }).trace = [0, 1, 1, 2] ∧
    (World.execute {} lazy_ { run := q }).trace = [0, 1, 2] ∧
    (World.execute {} lazy_ { run := q }).w.run.fns = [0, 7, 1, 2] := by
  decide

/-- ... and the two loops are the same loop as long as no callback of the run touches the pipeline that is running
    (calls addressed to ANOTHER pipeline of the DB are fine): the difference is re-entrance and nothing else -/
theorem C17_indexed_loop_same_without_reentrance (r : CbRepairs) (script : Script)
    (hs : ∀ h, ∀ e ∈ script h, e.other = true) (w : World) (fuel : Nat) (hf : w.run.fns.length ≤ fuel) :
    w.executeIndexed r script fuel = w.execute r script := by
  unfold World.executeIndexed World.execute
  rw [ExecL.executeIndexed_eq_snapshot r script hs fuel 0 { w := w } (by simpa using hf)]
  simp

end Gorm
