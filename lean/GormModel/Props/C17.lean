/-
  C17 — callback registration.  Model: GormModel/Model/Callbacks.lean (transcription of callbacks.go,
  tied to the code by the correspondence suite: error class per call + firing order, incl. the
  prediction "model out of fuel ⇔ real process dies of unbounded recursion").
-/
import GormModel.Model.Callbacks
import GormModel.Lemmas.Callbacks
import GormModel.Gen.Pipelines
namespace Gorm
open Gen

/-- the built-in registrations of one pipeline as model operations (handler id = position) -/
def builtinOps (regs : List CbReg) : List RegOp :=
  (List.range regs.length).zip regs |>.map fun (i, r) => RegOp.register r.name r.before r.after true i

/-- Starting point of every history: for each of the six pipelines, registering the built-ins in source
    order (regenerated from callbacks/callbacks.go) compiles without error and runs them in that order. -/
theorem C17_builtin_initial_order :
    ∀ p ∈ pipelines,
      let r := Proc.run {} (builtinOps p.2)
      r.1.fns = List.range p.2.length ∧ r.2.all (· = none) = true := by
  decide

/-- `getRIndex` finds nothing exactly when the name is absent (used by every "already sorted?" test) -/
theorem C17_getRIndex_none_iff (l : List String) (s : String) :
    getRIndex l s = none ↔ s ∉ l := getRIndex_none_iff l s

/-- one call of `sortCallback` keeps `sorted` duplicate-free, whatever the callback table, index and fuel -/
theorem C17_sortCallback_nodup (names : List String) (fuel i : Nat) (st : SortSt)
    (h : st.sorted.Nodup) : (sortCallback names fuel i st).1.sorted.Nodup :=
  sortCallback_nodup names fuel i st h

/-- MAIN (exactly once): for EVERY callback table, the name order produced by `sortCallbacks` never
    contains a name twice -- so no callback can run twice, for all histories, sizes and constraints. -/
theorem C17_sorted_nodup (cs : List Cb) : (sortCallbacks cs).sorted.Nodup :=
  sortCallbacks_nodup cs

/-- FINDING F12 (counterexample, kernel-checked): a callback that names itself never finishes sorting:
    the model runs out of fuel (the Go code overflows the stack instead of returning an error). -/
theorem C17_selfref_counterexample :
    (Proc.run {} [.register "a" "" "" true 0, .register "u" "u" "" true 1]).2 = [none, some .fuel] := by
  decide

/-- FINDING F12, second shape: two callbacks each registered After the other -/
theorem C17_after_cycle_counterexample :
    (Proc.run {} [.register "a" "" "b" true 0, .register "b" "" "a" true 1]).2 = [none, some .fuel] := by
  decide

/-- FINDING F14 (counterexample): Replace of a callback registered After("*") is ignored:
    handler 1 keeps running, handler 2 never does -/
theorem C17_replace_star_ignored_counterexample :
    (Proc.run {} [.register "a" "" "" true 0, .register "u" "" "*" true 1, .replace "u" "" "" 2]).1.fns = [0, 1] := by
  decide

/-- FINDING F16 (counterexample): Before(x) overwrites x's own After request: u1 was registered
    After("u3") but runs before u3 although {u2<u1, u3<u1} is satisfiable -/
theorem C17_before_overwrites_after_counterexample :
    (Proc.run {} [.register "u2" "u1" "" true 0, .register "u1" "" "u3" true 1, .register "u3" "" "" true 2]).1.fns
      = [0, 1, 2] := by
  decide

/-- positive instance (non-vacuity of the model): Before/After requests that gorm does honour -/
example : (Proc.run {} [.register "a" "" "" true 0, .register "b" "" "" true 1,
    .register "x" "b" "" true 2, .register "y" "" "a" true 3]).1.fns = [0, 2, 1, 3] := by
  decide

end Gorm
