/-
  C06 — reusable handles are never changed by the chains and queries derived from them.

  Model: GormModel/Model/Heap.lean — Go slices over explicit backing arrays (append in place iff
  len+n ≤ cap), gorm.Statement's slice fields in that heap, `getInstance` (clone 0/1/2) / `Session` /
  `Statement.clone` with the per-field copy discipline READ from the regenerated `Gen.cloneLiteral` /
  `Gen.cloneLater`, every `MergeClause` with make+copy vs `append(old,…)` READ from the regenerated
  `Gen.mergeFacts`, `Where.Build`'s in-place swap, `BuildCondition`'s rewrite of a group argument.
  A ghost counter `Heap.writes` counts the writes that hit a slot some slice may already expose.

  What is proved (all histories, all heaps, all capacities — induction over the op list):
  * FROZEN: while the counter does not move, nothing any existing slice exposes changes — for every
    history over every copy/merge discipline (`C06_frozen`, `C06_frozen_history`).
  * one lemma per step kind saying the step never moves the counter: derivations (any discipline),
    `Statement.clone` (any discipline), every merge that copies, every chain method of the copying
    class (`C06_step_never_writes`), keyed on the regenerated merge facts.
  * the step kinds for which that is FALSE on the unchanged tree are kernel-checked counterexamples in
    which a chain renders differently inside the history than replayed alone (F4, F5, F23, F22).
  The equality "rendering in the history = rendering of the same chain alone" itself is checked on
  every run by the tie and the e2e oracle (harness/c06.go), not proved in Lean — see manifest note.
-/
import GormModel.Lemmas.Heap
import GormModel.Lemmas.HeapQuiet
import GormModel.Lemmas.HeapSim
import GormModel.Lemmas.ClauseMap
import GormModel.Lemmas.ArgUse
import GormModel.Lemmas.PreloadConds
import GormModel.Gen.C06Round6
namespace Gorm
open Gorm.Heap

/-! ## FROZEN: nothing exposed changes while no exposed slot is written -/

/-- For EVERY copy/merge discipline, every state and every continuation of the history: if the run
    performs no write to an exposed slot, every slice that was valid before reads the same afterwards
    (appends that fit the capacity only ever extend an array beyond everything exposed). -/
theorem C06_frozen (c : Cfg) (slices : List (List Nat × Nat)) (fuel : Nat) (S : State) (ops : List Op)
    (hw : (runFrom c slices fuel S ops).heap.writes = S.heap.writes) (s : Slice) (v : s.validIn S.heap) :
    readS (runFrom c slices fuel S ops).heap s = readS S.heap s :=
  readS_of_grows ((runFrom_ext c slices fuel ops S).2 hw) s v

/-- the same over a history split at any point: whatever is built, executed or abandoned AFTER `pre`
    does not change what the slices existing after `pre` expose -/
theorem C06_frozen_history (c : Cfg) (fuel : Nat) (sl : List (List Nat × Nat)) (pre post : List Op)
    (hw : (run c fuel ⟨sl, pre ++ post⟩).heap.writes = (run c fuel ⟨sl, pre⟩).heap.writes)
    (s : Slice) (v : s.validIn (run c fuel ⟨sl, pre⟩).heap) :
    readS (run c fuel ⟨sl, pre ++ post⟩).heap s = readS (run c fuel ⟨sl, pre⟩).heap s := by
  unfold run at *
  simp only at *
  rw [runFrom_append] at hw ⊢
  exact C06_frozen c sl fuel _ post hw s v

/-- the counter never decreases: an exposed-slot write anywhere in a history stays visible at its end -/
theorem C06_writes_monotone (c : Cfg) (slices : List (List Nat × Nat)) (fuel : Nat) (S : State) (ops : List Op) :
    S.heap.writes ≤ (runFrom c slices fuel S ops).heap.writes := (runFrom_ext c slices fuel ops S).1

/-- the copy / merge discipline of the UNCHANGED tree, spelled out -/
def cfg0 : Cfg :=
  { cl := { clauses := .freshMapShallow, selects := .shared, omits := .shared, joins := .makeCopy, scopes := .makeCopy,
            clone2UsesClone := true },
    mg := { wher := .makeCopy, order := .makeCopy, group := .makeCopy, ret := .appendOld },
    fx := { groupCopies := false, groupInstance := false, buildCopies := false, selectCopies := false } }

/-- the discipline of a tree that carries the five small repairs (fixes/F4, F5, F23, F22, F24): copies everywhere -/
def cfgFixed : Cfg :=
  { cfg0 with mg := { cfg0.mg with ret := .makeCopy },
              fx := { groupCopies := true, groupInstance := true, buildCopies := true, selectCopies := true } }

/-- non-vacuity: a history with shared ancestors, siblings, a group argument and renderings that writes
    no exposed slot, and whose renderings all equal their replays alone -/
example : (run cfg0 8 ⟨[], [.cond 0 0 1, .cond 0 1 2, .session 2, .cond 1 3 3, .order 3 4, .condG 0 0 3,
      .render 4 0, .render 5 1, .render 6 0]⟩).heap.writes = 0 := by decide +kernel

/-! ## one lemma per step kind -/

/-- derivations (Session / Session{NewDB} / WithContext / Begin) never write an exposed slot — for ANY
    copy discipline of `Statement.clone` -/
theorem C06_derive_never_writes (c : Cfg) (slices : List (List Nat × Nat)) (fuel : Nat) (S : State) (src : Nat) :
    (step c slices fuel S (.session src)).heap.writes = S.heap.writes ∧
    (step c slices fuel S (.newdb src)).heap.writes = S.heap.writes ∧
    (step c slices fuel S (.ctx src)).heap.writes = S.heap.writes ∧
    (step c slices fuel S (.begin src)).heap.writes = S.heap.writes := by
  refine ⟨rfl, rfl, ?_, ?_⟩
  · simp only [step, push, cloneStmt_writes]
  · simp only [step, push, cloneStmt_writes, getInstance_writes]

/-- FROZEN per step kind, keyed on the merge discipline: if Where/OrderBy/GroupBy/Returning.MergeClause
    copy (none of them appends onto the OLD clause's slice), then Where/Or/Not(cond), Order,
    Clauses(OrderBy{caller slice}), Group, Having, Clauses(Returning), Limit, Offset, Omit, Distinct,
    Table, Unscoped, Clauses(Locking) never write an exposed slot — in any state, from any handle. -/
theorem C06_step_never_writes (c : Cfg) (hw : c.mg.wher ≠ .appendOld) (ho : c.mg.order ≠ .appendOld)
    (hg : c.mg.group ≠ .appendOld) (hr : c.mg.ret ≠ .appendOld)
    (slices : List (List Nat × Nat)) (fuel : Nat) (S : State) (op : Op) (hop : op.copying = true) :
    (step c slices fuel S op).heap.writes = S.heap.writes := by
  cases op <;> (try (simp [Op.copying] at hop)) <;> simp only [step, push, Op.src] <;>
    first
      | rfl
      | (rw [chainOn_writes c hw ho hg _ _ _ _ _ rfl (Or.inl hr), getInstance_writes])

/-! ## what the regenerated facts say about the current tree -/

/-- REGENERATED FACTS: `Statement.clone()` builds a fresh Clauses map with the old entries, copies Joins
    and scopes with make+copy, shares Selects/Omits by reference; `getInstance` with clone == 2 goes through
    `Statement.clone()`; Where/OrderBy/GroupBy.MergeClause copy.  The five places the listed findings live in
    (Returning.MergeClause, BuildCondition's `*DB` arm twice, Where.Build, Select) are left open here: the
    theorems below are keyed on what the regenerated facts say about each of them, so this statement is the
    same on the unchanged tree and on a tree carrying the repairs.  Any OTHER change of the copy or merge
    discipline breaks it. -/
theorem C06_current_tree : genAll = { cfg0 with mg := { cfg0.mg with ret := genAll.mg.ret }, fx := genAll.fx } := by decide

/-- … and each of the five open places is one of the two disciplines the model knows (in place / copy) -/
theorem C06_current_tree_ret : genAll.mg.ret = .appendOld ∨ genAll.mg.ret = .makeCopy := by decide

/-- every field of `type Statement struct` is classified by the clone facts (a field added without a
    `clone` entry shows up as `dropped` and must be added here consciously) -/
theorem C06_clone_fields_classified :
    Gen.statementFields.map (fun f => (f, fieldKind f)) =
      [("DB", .dropped), ("TableExpr", .shared), ("Table", .shared), ("Model", .shared), ("Unscoped", .shared),
       ("Dest", .shared), ("ReflectValue", .shared), ("Clauses", .freshMapShallow), ("BuildClauses", .dropped),
       ("Distinct", .shared), ("Selects", .shared), ("Omits", .shared), ("ColumnMapping", .shared), ("Joins", .makeCopy),
       ("Preloads", .freshMapShallow), ("Settings", .shared), ("ConnPool", .shared), ("Schema", .shared),
       ("Context", .shared), ("RaiseErrorOnNotFound", .shared), ("SkipHooks", .shared), ("SQL", .dropped),
       ("Vars", .makeCopy), ("CurDestIndex", .dropped), ("attrs", .shared), ("assigns", .shared), ("scopes", .makeCopy)] := by
  decide

/-- on the current tree the copying step kinds never write an exposed slot — unless the step is a
    Returning merge: the only hypothesis of `C06_step_never_writes` the regenerated facts refute -/
theorem C06_current_tree_merges : genAll.mg.wher ≠ .appendOld ∧ genAll.mg.order ≠ .appendOld ∧ genAll.mg.group ≠ .appendOld := by
  decide

/-! ## counterexamples: the step kinds that DO write exposed slots on the unchanged tree -/

/-- F4: three merged Returning clauses leave len 3 / cap 4; two siblings derived from the shared handle
    both append into slot 3 — the first sibling renders the second's column. -/
def f4History : History := ⟨[], [.ret 0 [1], .ret 1 [2], .ret 2 [3], .session 3, .ret 4 [4], .ret 4 [5], .render 5 3, .render 6 3]⟩

theorem C06_returning_alias_counterexample :
    (run cfg0 8 f4History).out 0 = [.fin 3, .retKw, .rcol 1, .rcol 2, .rcol 3, .rcol 5] ∧
    (run cfg0 8 (sliceFor f4History 6)).out 0 = [.fin 3, .retKw, .rcol 1, .rcol 2, .rcol 3, .rcol 4] ∧
    (run cfg0 8 f4History).heap.writes = 1 := by decide +kernel

/-- with a Returning.MergeClause that copies, the same history is interference-free -/
theorem C06_returning_alias_repaired :
    (run { cfg0 with mg := { cfg0.mg with ret := .makeCopy } } 8 f4History).out 0 = [.fin 3, .retKw, .rcol 1, .rcol 2, .rcol 3, .rcol 4] ∧
    (run { cfg0 with mg := { cfg0.mg with ret := .makeCopy } } 8 f4History).heap.writes = 0 := by decide +kernel

/-- F5: `db.Where(sub)` rewrites sub's single Or into an And in sub's own array: `sub.Where(b)` renders
    `b OR a` before and `a AND b` after sub was used as an argument. -/
def f5History : History := ⟨[], [.cond 1 0 1, .session 1, .cond 0 2 2, .render 3 0, .condG 0 0 2, .cond 0 2 2, .render 6 0]⟩

theorem C06_group_arg_mutation_counterexample :
    (run cfg0 8 f5History).out 0 = [.fin 0, .whereKw, .cond 2, .or, .cond 1] ∧
    (run cfg0 8 f5History).out 1 = [.fin 0, .whereKw, .cond 1, .and, .cond 2] ∧
    (run cfg0 8 (sliceFor f5History 6)).out 0 = [.fin 0, .whereKw, .cond 2, .or, .cond 1] := by decide +kernel

/-- F23: `Where.Build`'s swap is NOT benign: once `h = db.Or(a).Where(b)` has been rendered its array
    holds `[b, Or a]`; used as a group condition (built by AndConditions.Build, which does not swap) it
    renders `(b OR a)` instead of `(a AND b)`. -/
def f23History : History := ⟨[], [.cond 1 0 1, .cond 0 1 2, .session 2, .render 3 0, .cond 0 0 3, .condG 0 5 3, .render 6 0]⟩

theorem C06_swap_counterexample :
    (run cfg0 8 f23History).out 1 = [.fin 0, .whereKw, .cond 3, .and, .lp, .cond 2, .or, .cond 1, .rp] ∧
    (run cfg0 8 (sliceFor f23History 6)).out 0 = [.fin 0, .whereKw, .cond 3, .and, .lp, .cond 1, .and, .cond 2, .rp] := by
  decide +kernel

/-- F22: `Select(cols[:2], x)` appends onto the CALLER's array when it has spare capacity: two chains built
    from the same prefix share slot 2. -/
def f22History : History := ⟨[([1, 2], 4)], [.selectS 0 0 2 [3], .selectS 0 0 2 [4], .render 1 0, .render 2 0]⟩

theorem C06_select_caller_slice_counterexample :
    (run cfg0 8 f22History).out 0 = [.fin 0, .sel 1, .sel 2, .sel 4] ∧
    (run cfg0 8 (sliceFor f22History 2)).out 0 = [.fin 0, .sel 1, .sel 2, .sel 3] := by decide +kernel

/-- F24: a reusable handle with pending Scopes used as a group condition: `v.executeScopes()` on the argument
    itself sets `scopes = nil` in the handle's statement, the scopes' conditions go to a discarded instance —
    the group lacks them and `h.Find()` has lost its WHERE afterwards. -/
def f24History : History := ⟨[], [.scopes 0 1, .session 1, .render 2 0, .cond 0 0 2, .condG 0 4 2, .render 5 0, .render 2 0]⟩

theorem C06_group_arg_scopes_counterexample :
    (run cfg0 8 f24History).out 0 = [.fin 0, .whereKw, .cond 1] ∧
    (run cfg0 8 f24History).out 1 = [.fin 0, .whereKw, .cond 2] ∧
    (run cfg0 8 f24History).out 2 = [.fin 0] ∧
    (run cfg0 8 (sliceFor f24History 6)).out 0 = [.fin 0, .whereKw, .cond 1] := by decide +kernel

/-! ## the same witnesses on a tree that carries the repairs -/

/-- does rendering number `n` (made by op `k`) differ from the same chain replayed alone? -/
def interferes (c : Cfg) (h : History) (k n : Nat) : Bool :=
  (run c 8 h).out n != (run c 8 (sliceFor h k)).outs.getLast?.getD []

/-- with all five repairs the five witnesses are interference-free, no exposed slot is written, and the
    group built from the scoped handle contains the scope's condition -/
theorem C06_witnesses_repaired :
    interferes cfgFixed f4History 6 0 = false ∧ interferes cfgFixed f5History 6 1 = false ∧
    interferes cfgFixed f23History 6 1 = false ∧ interferes cfgFixed f22History 2 0 = false ∧
    interferes cfgFixed f24History 6 2 = false ∧
    (run cfgFixed 8 f4History).heap.writes = 0 ∧ (run cfgFixed 8 f5History).heap.writes = 0 ∧
    (run cfgFixed 8 f23History).heap.writes = 0 ∧ (run cfgFixed 8 f22History).heap.writes = 0 ∧
    (run cfgFixed 8 f24History).heap.writes = 0 ∧
    (run cfgFixed 8 f24History).out 1 = [.fin 0, .whereKw, .cond 2, .and, .cond 1] := by decide +kernel

/-- WHAT HOLDS FOR THE CURRENT SOURCE TREE: each witness interferes exactly when the regenerated fact about
    its place says "in place" — the same statement on the unchanged tree (all five interfere: the findings)
    and on a tree carrying any subset of the repairs (those witnesses no longer interfere). -/
theorem C06_findings_current_tree :
    interferes genAll f4History 6 0 = (genAll.mg.ret == .appendOld) ∧
    interferes genAll f5History 6 1 = (!genAll.fx.groupCopies) ∧
    interferes genAll f23History 6 1 = (!genAll.fx.buildCopies) ∧
    interferes genAll f22History 2 0 = (!genAll.fx.selectCopies) ∧
    interferes genAll f24History 6 2 = (!genAll.fx.groupInstance) := by decide +kernel

/-- … for EVERY combination of repaired / unrepaired places (not only the one the tree is in) -/
theorem C06_findings_all_trees (r : Bool) (gc gi bc sc : Bool) :
    let c : Cfg := { cfg0 with mg := { cfg0.mg with ret := if r then .makeCopy else .appendOld },
                               fx := { groupCopies := gc, groupInstance := gi, buildCopies := bc, selectCopies := sc } }
    interferes c f4History 6 0 = (!r) ∧ interferes c f5History 6 1 = (!gc) ∧ interferes c f23History 6 1 = (!bc) ∧
    interferes c f22History 2 0 = (!sc) ∧ interferes c f24History 6 2 = (!gi) := by
  cases r <;> cases gc <;> cases gi <;> cases bc <;> cases sc <;> decide +kernel

/-! ## the swap of `Where.Build` -/

/-- BENIGNITY of the repaired `Where.Build` (swap on a copy), for every heap, every list and every nesting
    depth: it writes nothing at all — the heap after the call IS the heap before it.  Hence rendering is
    idempotent (any number of renderings of any handle give the same tokens) and invisible to every other
    chain, group conditions included. -/
theorem C06_swap_on_copy_benign (fuel : Nat) (H : Heap) (w : Slice) :
    (whereBuild true fuel H w).1 = H ∧
    (whereBuild true fuel (whereBuild true fuel H w).1 w).2 = (whereBuild true fuel H w).2 := by
  have h := whereBuild_copies_heap fuel H w
  exact ⟨h, by rw [h]⟩

/-- … whereas the in-place swap is idempotent only for DIRECT rendering of the same list (checked on the F23
    list; `C06_swap_counterexample` shows it is not benign for a group built from that list). -/
theorem C06_swap_idempotent_instance :
    (run cfg0 8 ⟨[], [.cond 1 0 1, .cond 0 1 2, .session 2, .render 3 0, .render 3 0]⟩).outs =
      [[.fin 0, .whereKw, .cond 2, .or, .cond 1], [.fin 0, .whereKw, .cond 2, .or, .cond 1]] := by decide +kernel

/-- PARTIAL statement for the current tree: every history made of derivations and copying chain
    methods other than a Returning merge writes no exposed slot, hence (C06_frozen) changes nothing any
    handle exposes.  The excluded step kinds are exactly the listed findings' shapes: Returning merged
    onto Returning (F4), a handle used as group condition (F5, F23: condG / havingG and the renderings
    that swap), Select/Joins/Scopes appends (F22 and the own-array appends the model does not classify). -/
theorem C06_noninterference_partial (slices : List (List Nat × Nat)) (fuel : Nat) (S : State) (ops : List Op)
    (hops : ∀ op ∈ ops, (op.copying = true ∧ (∀ s cols, op ≠ .ret s cols)) ∨ (∃ s, op = .session s ∨ op = .newdb s ∨ op = .ctx s ∨ op = .begin s))
    (s : Slice) (v : s.validIn S.heap) :
    readS (runFrom genAll slices fuel S ops).heap s = readS S.heap s := by
  have hwr : ∀ S : State, (runFrom genAll slices fuel S ops).heap.writes = S.heap.writes := by
    induction ops with
    | nil => intro S; rfl
    | cons op ops ih =>
      intro S
      have hstep : (step genAll slices fuel S op).heap.writes = S.heap.writes := by
        rcases hops op (List.mem_cons_self ..) with ⟨hc, hnr⟩ | ⟨src, h | h | h | h⟩
        · obtain ⟨h1, h2, h3⟩ := C06_current_tree_merges
          cases op <;> (try (simp [Op.copying] at hc)) <;> simp only [step, push, Op.src] <;>
            first
              | rfl
              | (rw [chainOn_writes genAll h1 h2 h3 _ _ _ _ _ rfl (Or.inr hnr), getInstance_writes])
        · subst h; exact (C06_derive_never_writes genAll slices fuel S src).1
        · subst h; exact (C06_derive_never_writes genAll slices fuel S src).2.1
        · subst h; exact (C06_derive_never_writes genAll slices fuel S src).2.2.1
        · subst h; exact (C06_derive_never_writes genAll slices fuel S src).2.2.2
      show (runFrom genAll slices fuel (step genAll slices fuel S op) ops).heap.writes = S.heap.writes
      rw [ih (fun o ho => hops o (List.mem_cons_of_mem _ ho)), hstep]
  exact C06_frozen genAll slices fuel S ops (hwr S) s v

/-! ## the tree with copies everywhere: linear histories are quiet, hence frozen -/

theorem C06_cfgFixed_eq : cfgFixed = cfgSafe := rfl

/-- QUIET: with copies everywhere (regenerated facts = `cfgFixed`), in EVERY history in which a chain instance
    is used at most once more (`Linear`: handle 0 and the results of Session / Session{NewDB} / WithContext /
    Begin any number of times; no forward references) — derivations, all 24 chain methods, handles with or
    without pending scopes as group conditions, Select/Joins/Scopes appends, Find/First/Count/Delete renderings —
    no step ever writes a slot that any slice already exposes.  (The remaining in-place appends of Joins / Scopes /
    Select hit the frontier of an array only the appending chain owns: ownership invariant in Lemmas/HeapQuiet.) -/
theorem C06_linear_history_quiet (fuel : Nat) (sl : List (List Nat × Nat)) (ops : List Op) (hl : Linear ops) (n : Nat) :
    (run cfgFixed fuel ⟨sl, ops.take n⟩).heap.writes = 0 :=
  quiet_of_linear sl fuel ops hl n

/-- FROZEN for linear histories: whatever is built, executed or abandoned after any point of the history, every
    slice that existed at that point — everything reachable from every handle that existed — reads the same
    at the end. -/
theorem C06_linear_history_frozen (fuel : Nat) (sl : List (List Nat × Nat)) (pre post : List Op) (hl : Linear (pre ++ post))
    (s : Slice) (v : s.validIn (run cfgFixed fuel ⟨sl, pre⟩).heap) :
    readS (run cfgFixed fuel ⟨sl, pre ++ post⟩).heap s = readS (run cfgFixed fuel ⟨sl, pre⟩).heap s := by
  apply C06_frozen_history cfgFixed fuel sl pre post _ s v
  have h1 := quiet_of_linear sl fuel (pre ++ post) hl (pre ++ post).length
  have h2 := quiet_of_linear sl fuel (pre ++ post) hl pre.length
  rw [List.take_length] at h1
  rw [List.take_left'  rfl] at h2
  show (runFrom cfgFixed sl fuel (initState sl) (pre ++ post)).heap.writes = (runFrom cfgFixed sl fuel (initState sl) pre).heap.writes
  rw [C06_cfgFixed_eq, h1, h2]

/-! ## NON-INTERFERENCE -/

/-- THE PROPERTY, on a tree whose regenerated facts say "copies everywhere" (`cfgFixed`): for EVERY history in
    which chain instances are used at most once more (`Linear`) — any tree of Session / Session{NewDB} /
    WithContext / Begin derivations, all chain methods incl. handles (with or without pending scopes) as group
    conditions, Select / Joins / Scopes appends, renderings (Where.Build's swap), First / Count / Delete shaping,
    any capacities, any nesting depth (`fuel`) — the rendering made by op `k` inside the history is exactly the
    rendering of the same chain replayed alone (`sliceFor`: every op the chain does not depend on replaced by
    nothing).  Proof: linear histories are quiet (ownership invariant, Lemmas/HeapQuiet), quiet runs are frozen,
    and rendering reads only slices reachable from the chain's own handle, whose deep values (array identities
    quotiented away) agree in the two runs by a lockstep simulation (Lemmas/HeapSim). -/
theorem C06_noninterference (fuel : Nat) (sl : List (List Nat × Nat)) (ops : List Op) (hl : Linear ops)
    (k src fin : Nat) (hk : ops[k]? = some (.render src fin)) :
    (run cfgFixed fuel ⟨sl, ops.take (k + 1)⟩).outs.getLast? = (run cfgFixed fuel (sliceFor ⟨sl, ops⟩ k)).outs.getLast? :=
  sim_slice sl fuel ops k src fin hk (quiet_of_linear sl fuel ops hl) (quiet_sliceFor fuel ⟨sl, ops⟩ hl k)

/-- … and in the stronger "whatever else happens" form: two linear histories that contain the same chain (agree
    on a set `R` of handles closed under source and arguments of the ops that created them) and ANYTHING else
    at the other positions render that chain identically. -/
theorem C06_noninterference_any_context (fuel : Nat) (sl : List (List Nat × Nat)) (ops1 ops2 : List Op) (R : Nat → Bool)
    (ha : Agree ops1 ops2 R) (h1 : Linear ops1) (h2 : Linear ops2)
    (k src fin : Nat) (hk : ops1[k]? = some (.render src fin)) (hR : R (k + 1) = true) :
    (run cfgFixed fuel ⟨sl, ops1.take (k + 1)⟩).outs.getLast? = (run cfgFixed fuel ⟨sl, ops2.take (k + 1)⟩).outs.getLast? :=
  sim_render sl fuel ops1 ops2 R ha (quiet_of_linear sl fuel ops1 h1) (quiet_of_linear sl fuel ops2 h2) k src fin hk hR

/-- WHAT HOLDS FOR THE CURRENT SOURCE TREE, decided by the regenerated facts — the same statement on every tree:
    either the facts say "copies everywhere" and non-interference holds in full for the tree's own discipline
    `genAll`; or some place is still "in place", then a listed witness interferes under `genAll` (the finding)
    and the partial theorem `C06_noninterference_partial` is what remains. -/
theorem C06_noninterference_current_tree :
    (genAll = cfgFixed ∧
      ∀ (fuel : Nat) (sl : List (List Nat × Nat)) (ops : List Op), Linear ops → ∀ (k src fin : Nat),
        ops[k]? = some (.render src fin) →
        (run genAll fuel ⟨sl, ops.take (k + 1)⟩).outs.getLast? = (run genAll fuel (sliceFor ⟨sl, ops⟩ k)).outs.getLast?) ∨
    (genAll ≠ cfgFixed ∧
      (interferes genAll f4History 6 0 = true ∨ interferes genAll f5History 6 1 = true ∨ interferes genAll f23History 6 1 = true ∨
       interferes genAll f22History 2 0 = true ∨ interferes genAll f24History 6 2 = true)) := by
  by_cases h : genAll = cfgFixed
  · left
    refine ⟨h, fun fuel sl ops hl k src fin hk => ?_⟩
    rw [h]; exact C06_noninterference fuel sl ops hl k src fin hk
  · right
    refine ⟨h, ?_⟩
    obtain ⟨h4, h5, h23, h22, h24⟩ := C06_findings_current_tree
    rw [h4, h5, h23, h22, h24]
    by_cases c1 : genAll.mg.ret = .appendOld
    · left; simp [c1]
    · by_cases c2 : genAll.fx.groupCopies = false
      · right; left; simp [c2]
      · by_cases c3 : genAll.fx.buildCopies = false
        · right; right; left; simp [c3]
        · by_cases c4 : genAll.fx.selectCopies = false
          · right; right; right; left; simp [c4]
          · by_cases c5 : genAll.fx.groupInstance = false
            · right; right; right; right; simp [c5]
            · exfalso; apply h
              have ht := C06_current_tree
              have hr : genAll.mg.ret = .makeCopy := by
                rcases C06_current_tree_ret with e | e
                · exact absurd e c1
                · exact e
              rw [ht, hr]
              have e2 : genAll.fx.groupCopies = true := by simpa using c2
              have e3 : genAll.fx.buildCopies = true := by simpa using c3
              have e4 : genAll.fx.selectCopies = true := by simpa using c4
              have e5 : genAll.fx.groupInstance = true := by simpa using c5
              generalize genAll.fx = fx at *
              cases fx
              simp only at e2 e3 e4 e5
              subst e2 e3 e4 e5
              rfl

/-- `Linear` is decidable (the harness generator obeys it) and not vacuous -/
example : Linear f5History.ops := (linear_iff_linearB _).2 (by decide)


/-! ## round 2 — Session() never writes its receiver, for every combination of flags -/

/-- the guards of the statement-relevant part of the REGENERATED `Session()` body test only these five flags (a new
    guard on another flag means the flag model has to be revisited) -/
theorem C06_session_guards_tested : ∀ f ∈ wFlags sessWProg, f ∈ wTested := by decide

/-- `tx.Config` is a private copy of the receiver's config (`txConfig = *db.Config`, `Config: &txConfig`), so the
    `tx.Config.… = …` / `txConfig.… = …` writes of `Session()` never reach the receiver -/
theorem C06_session_config_private : sessConfigPrivate = true := by decide

/-- what `Session()` must do for one valuation of the flags: follow only statements the model knows, write NO field
    through the shared statement pointer and nothing of `db`, return; the result has clone mode 0 (Initialized) /
    1 (NewDB) / 2, and a private statement iff Initialized ∨ Context ∨ PrepareStmt ∨ SkipHooks -/
def SessionQuiet (S : List SessFlag) : Prop :=
  (runW sessWProg (SessFlags.ofList S)).bad = [] ∧
  (runW sessWProg (SessFlags.ofList S)).sharedWrites = [] ∧
  (runW sessWProg (SessFlags.ofList S)).returned = true ∧
  (runW sessWProg (SessFlags.ofList S)).cfgPrivate = true ∧
  (runW sessWProg (SessFlags.ofList S)).clone = (if S.contains .initialized then 0 else if S.contains .newDB then 1 else 2) ∧
  (runW sessWProg (SessFlags.ofList S)).shared =
    !(S.contains .initialized || S.contains .hasContext || S.contains .prepareStmt || S.contains .skipHooks)

instance (S : List SessFlag) : Decidable (SessionQuiet S) := by unfold SessionQuiet; exact inferInstance

theorem C06_session_all_subsets : ∀ S ∈ flagSubsets wTested, SessionQuiet S := by
  set_option maxRecDepth 20000 in decide

/-- MAIN (Session): for EVERY combination of the fifteen Session flags, `db.Session(&Session{…})` — read from the
    regenerated body — writes no field of the receiver's statement (`tx.Statement.Context / SkipHooks / ConnPool / DB`
    are only assigned after `tx.Statement = tx.Statement.clone()` has made the statement private), writes nothing of
    `db` directly, and its config writes go to a private copy.  Building a session, used or not, cannot change what
    the parent's later chains do. -/
theorem C06_session_never_writes_receiver (fl : SessFlags) :
    (sessW fl).bad = [] ∧ (sessW fl).sharedWrites = [] ∧ (sessW fl).returned = true ∧ (sessW fl).cfgPrivate = true := by
  have h := C06_session_all_subsets (wTested.filter fl) (filter_mem_subsets fl wTested)
  unfold SessionQuiet at h
  rw [← runW_restrict sessWProg wTested C06_session_guards_tested fl] at h
  exact ⟨h.1, h.2.1, h.2.2.1, h.2.2.2.1⟩

/-- … and what it returns: clone mode 0 / 1 / 2 and whether the new handle still shares the receiver's statement -/
theorem C06_session_result (fl : SessFlags) :
    (sessW fl).clone = (if fl .initialized then 0 else if fl .newDB then 1 else 2) ∧
    (sessW fl).shared = !(fl .initialized || fl .hasContext || fl .prepareStmt || fl .skipHooks) := by
  have h := C06_session_all_subsets (wTested.filter fl) (filter_mem_subsets fl wTested)
  unfold SessionQuiet at h
  rw [← runW_restrict sessWProg wTested C06_session_guards_tested fl] at h
  have e : ∀ f ∈ wTested, (wTested.filter fl).contains f = fl f := fun f hf =>
    (ofList_filter_agree wTested fl f hf).symm
  rw [e .initialized (by decide), e .newDB (by decide), e .hasContext (by decide), e .prepareStmt (by decide),
    e .skipHooks (by decide)] at h
  exact ⟨h.2.2.2.2.1, h.2.2.2.2.2⟩

/-- `getInstance()` (regenerated body) assigns only to the NEW handle `tx` and its fields -/
theorem C06_getInstance_never_writes_receiver : getInstanceWritesOnlyTx = true := by decide

/-- non-vacuity: `Session{NewDB, SkipHooks, Context}` clones before it writes; plain `Session{NewDB}` shares and writes nothing -/
example : (sessW (SessFlags.ofList [.newDB, .skipHooks, .hasContext])).shared = false ∧
    (sessW (SessFlags.ofList [.newDB])).shared = true ∧ sessWProg.length ≥ 9 := by decide

/-! ## round 2 — Statement.clone keeps every clause entry, whatever its shape -/
open ClauseMap

/-- the regenerated copy loops of `Statement.clone`: `for k, c := range stmt.Clauses { newStmt.Clauses[k] = c }` and the
    Preloads loop are single unconditional assignments (no if / continue / switch in the body), the Settings callback
    stores every pair, and there are no further range loops -/
theorem C06_clone_loop_unconditional :
    copiesAll "stmt.Clauses" "newStmt.Clauses[k] = c" = true ∧
    copiesAll "stmt.Preloads" "newStmt.Preloads[k] = p" = true ∧
    Gen.cloneSettingsRange = ["newStmt.Settings.Store(k, v)", "return true"] ∧ Gen.cloneSettingsGuards = 0 ∧
    Gen.cloneRangeLoops.length = 2 := by decide

/-- MAIN (clone): the clone's clause map is the receiver's, entry for entry -/
theorem C06_clone_keeps_every_clause (m : CMap) : cloneMap m = some m := by
  simp [cloneMap, cloneMapWith, C06_clone_loop_unconditional.1]

/-- … in the form that names the shapes: every entry of the receiver — `expr = none` with only a Before / AfterName /
    After expression or a Builder (hints), or completely empty (`soft_delete_enabled`) — is in the clone with identical
    fields, and the clone has no other entries -/
theorem C06_clone_keeps_every_shape (m : CMap) (e : CEntry) (he : e ∈ m) :
    ∃ c, cloneMap m = some c ∧ e ∈ c ∧ ∀ x ∈ c, x ∈ m :=
  ⟨m, C06_clone_keeps_every_clause m, he, fun _ h => h⟩

/-- every chain started from a reusable handle starts from exactly the handle's map (clone ≥ 2), from the empty map
    (clone 1), or continues its own (clone 0) -/
theorem C06_chain_start (m : CMap) (n : Nat) :
    start 0 m = some m ∧ start 1 m = some [] ∧ start (n + 2) m = some m :=
  ⟨rfl, rfl, C06_clone_keeps_every_clause m⟩

theorem apply_keeps_before (m : CMap) (k : String) (o : ClauseMap.Op)
    (ho : o.key = k → (∃ x, o = .add k x) ∨ (∃ p x, o = .modify k (p + 1) x) ∨ o = .setBuilder k) :
    (lookup (apply m o) k).before = (lookup m k).before := by
  cases o with
  | add k' x =>
    by_cases hk : k' = k
    · subst hk; simp [apply, lookup_store]
    · simp [apply, lookup_store, hk]
  | modify k' p x =>
    by_cases hk : k' = k
    · subst hk
      rcases ho rfl with ⟨_, h⟩ | ⟨p', x', h⟩ | h
      · cases h
      · cases h
        cases p' with
        | zero => simp [apply, lookup_store]
        | succ q => simp [apply, lookup_store]
      · cases h
    · cases p with
      | zero => simp [apply, lookup_store, hk]
      | succ q =>
        cases q with
        | zero => simp [apply, lookup_store, hk]
        | succ q' => simp [apply, lookup_store, hk]
  | setBuilder k' =>
    by_cases hk : k' = k
    · subst hk; simp [apply, lookup_store]
    · simp [apply, lookup_store, hk]
  | mark k' =>
    by_cases hk : k' = k
    · subst hk
      rcases ho rfl with ⟨_, h⟩ | ⟨_, _, h⟩ | h <;> cases h
    · simp [apply, lookup_store, hk]
  | del k' =>
    by_cases hk : k' = k
    · subst hk
      rcases ho rfl with ⟨_, h⟩ | ⟨_, _, h⟩ | h <;> cases h
    · simp [apply, lookup_remove_ne _ _ _ hk]

/-- a hint survives derivation: a `BeforeExpression` put on key `k` of a reusable handle's statement (entry possibly
    without any Expression yet) is still there on every chain started from the handle, after any number of chain methods
    that merge clauses under any key (also `k` itself), decorate other positions, install builders or mark / delete
    OTHER keys -/
theorem C06_hint_survives_derivation (m : CMap) (k : String) (b : Nat) (ops : List ClauseMap.Op) (n : Nat)
    (hb : (lookup m k).before = some b)
    (hops : ∀ o ∈ ops, o.key = k → (∃ x, o = .add k x) ∨ (∃ p x, o = .modify k (p + 1) x) ∨ o = .setBuilder k) :
    ∃ s, start (n + 2) m = some s ∧ (lookup (ops.foldl apply s) k).before = some b := by
  refine ⟨m, C06_clone_keeps_every_clause m, ?_⟩
  induction ops generalizing m with
  | nil => simpa using hb
  | cons o r ih =>
    simp only [List.foldl_cons]
    apply ih
    · rw [apply_keeps_before m k o (hops o (by simp))]; exact hb
    · exact fun o' ho' => hops o' (by simp [ho'])

example : (lookup [({ key := "SELECT", before := some 7 } : CEntry)] "SELECT").before = some 7 := by decide

/-! ## round 2 — a query leaves the caller's FROM joins exactly as they were -/

/-- the regenerated restore of `AfterQuery` and the regenerated construction in `BuildQuerySQL` are what the model
    assumes: FROM is restored as `clause.From{Tables: v.Tables, Joins: utils.RTrimSlice(v.Joins, len(db.Statement.Joins))}`
    whenever the FROM entry holds a `clause.From`, `fromClause` starts as the statement's own FROM, every other write to
    `fromClause.Joins` is an append inside the loop over `db.Statement.Joins`, and RTrimSlice cuts a suffix -/
theorem C06_after_query_facts :
    fromRestore = .rtrimJoins ∧ Gen.afterQueryFromLiteral.length = 2 ∧
    Gen.afterQueryFromLiteral.contains ("Tables", "v.Tables") = true ∧
    Gen.afterQueryFromGuard = "v, ok := db.Statement.Clauses[\"FROM\"].Expression.(clause.From) ; ok" ∧
    Gen.afterQueryFromStore.length = 3 ∧
    Gen.afterQueryFromStore.getLast? = some "db.Statement.Clauses[\"FROM\"] = fromClause" ∧
    Gen.buildFromInit = ["fromClause := clause.From{}", "fromClause = v"] ∧ Gen.buildFromJoinOther = 0 ∧
    Gen.buildFromJoinAppendLoops.all (· == "db.Statement.Joins") = true ∧
    Gen.buildFromJoinAppendLoops.length = Gen.buildFromJoinAppends ∧
    Gen.rtrimSliceSrc = "{ if trimLen >= len(v) { return v[:0] } if trimLen < 0 { return v[:] } return v[:len(v)-trimLen] }" := by
  decide

/-- MAIN (query): whatever joins the CALLER put into the FROM clause (`Clauses(clause.From{Joins: …})`) and whatever
    `Statement.Joins` holds, after an executed query the FROM clause holds exactly the caller's joins again — provided
    every element of `Statement.Joins` generates one join clause (raw joins, single relations) -/
theorem C06_after_query_restores_from (caller : List Nat) (gens : List (List Nat)) (h : ∀ g ∈ gens, g.length = 1) :
    queryRound fromRestore caller gens = some caller := by
  rw [C06_after_query_facts.1]
  simp only [queryRound, afterQueryWith, buildFrom]
  rw [← length_flatten_of_singletons gens h, rtrim_append]

/-- … any number of executed queries -/
theorem C06_query_rounds_idempotent (caller : List Nat) (gens : List (List Nat)) (h : ∀ g ∈ gens, g.length = 1) (k : Nat) :
    queryRounds fromRestore gens k caller = some caller := by
  induction k with
  | zero => rfl
  | succ k ih => simp [queryRounds, C06_after_query_restores_from caller gens h, ih]

/-- the hypothesis matters: a nested join (`Joins("Manager.Company")`) generates TWO clauses for one element of
    `Statement.Joins`; the restore trims one — the instance keeps a generated join (outside the property: a chain
    instance used again) -/
example : queryRound .rtrimJoins [7] [[1, 2]] = some [7, 1] := by decide
example : queryRound .rtrimJoins [7, 8] [[1], [2]] = some [7, 8] := by decide

/-- `Count` restores what it changes: each of its immediate writes to the clause map (SELECT, ORDER BY) and to
    `Model` has a deferred write to the same target (regenerated list of its statement writes) -/
theorem C06_count_restores : countRestoresAll = true := by decide


/-! ## round 3 — a handle handed to ANOTHER chain as an ARGUMENT is never written

`Joins("Rel", h)`, `Where("x IN (?)", h)` (and Or / Not / Having / Select / Table / Order / Update / Updates / Create /
Raw / Exec / gorm.Expr / clause.Expr{Vars} / named arguments / slices holding h — everything that ends in
`Statement.AddVar`), `Where(h)` / Or / Not / Having / inline conditions of finishers, Preload and Association
(`Statement.BuildCondition`).  The list of sites is REGENERATED (`Gen.argSites`: every `case *DB:` arm and `.(*DB)`
assertion of gorm), each with the syntactic events of its body about the argument. -/

open ArgUse

/-- the sites that recognise a `*gorm.DB` among arguments / bound values: exactly these four.  A new site makes
    this theorem fail until it is modelled. -/
theorem C06_arg_sites_known :
    Gen.argSites.map (fun s => (s.file, s.fn, s.form)) =
      [("callbacks/update.go", "ConvertToAssignments", "assert-if"), ("chainable_api.go", "joins", "assert-if"),
       ("statement.go", "Statement.AddVar", "switch"), ("statement.go", "Statement.BuildCondition", "switch")] := by decide

/-- regenerated, per site: NO event that can write into the argument's own statement or into an array it shares —
    no element assignment through an alias (`where.Exprs[i] = …`), no field assignment through the argument, no
    append onto an aliased slice, no hand-on of the argument to another function, and every method that is not a
    pure read / derivation (`executeScopes`, `AddClause`, `Build`, chain methods, callbacks) reaches the argument
    only behind `getInstance()` -/
theorem C06_arg_sites_never_write : ∀ s ∈ Gen.argSites, siteWrites s = [] := by decide

/-- … hence the three modelled sites run with the safe discipline -/
theorem C06_arg_site_cfgs : joinsCfg = siteSafe ∧ addVarCfg = siteSafe ∧ groupCfg = siteSafe := by decide

/-- the fields of the join record that ALIAS the argument (`join.On` = the argument's WHERE slice, `Selects`,
    `Omits`, `Conds`) are only read / ranged over / handed to `onStmt.AddClause` (Where.MergeClause copies) when
    the consumer is built -/
theorem C06_join_record_fields_only_read : ∀ u ∈ Gen.joinFieldUses, joinUseOK u = true := by decide

/-- the run of a quiet history is well-formed at every point (heap and every handle) -/
theorem sok_of_quiet (sl : List (List Nat × Nat)) (fuel : Nat) (ops : List Heap.Op) (q : Quiet sl fuel ops) :
    ∀ n, SOK (runFrom cfgSafe sl fuel (initState sl) (ops.take n)) ∧
         Grows (initHeap sl) (runFrom cfgSafe sl fuel (initState sl) (ops.take n)).heap
  | 0 => by
    simp only [List.take_zero, runFrom, List.foldl_nil]
    exact ⟨SOK_init sl, Grows.refl _⟩
  | n + 1 => by
    have ih := sok_of_quiet sl fuel ops q n
    by_cases h : n < ops.length
    · have hop : ops[n]? = some ops[n] := List.getElem?_eq_getElem h
      have hq : (step cfgSafe sl fuel (runFrom cfgSafe sl fuel (initState sl) (ops.take n)) ops[n]).heap.writes =
          (runFrom cfgSafe sl fuel (initState sl) (ops.take n)).heap.writes := by
        rw [← runFrom_take_succ sl fuel (initState sl) ops n ops[n] hop, q (n + 1), q n]
      have s := step_ok sl fuel _ ops[n] ih.1 ih.2 hq
      rw [runFrom_take_succ sl fuel (initState sl) ops n ops[n] hop]
      exact ⟨s.1, Grows.trans ih.2 s.2.1.g⟩
    · have e : ops.take (n + 1) = ops.take n := by
        rw [List.take_of_length_le (by omega), List.take_of_length_le (by omega)]
      rw [e]; exact ih

/-- what an argument use must guarantee about the ARGUMENT handle `arg` in heap `H`: the handle keeps its value,
    no exposed slot is written and every array that existed is untouched (`Same`), the whole statement keeps its
    deep value (`StEq`: every slice reachable from it, array identities quotiented away) — hence every later
    rendering of it, by any finisher at any nesting depth, spells the same tokens -/
def Transparent (H : Heap) (arg : Heap.Handle) (u : UseOut) : Prop :=
  u.arg = arg ∧ Same H u.heap ∧ StEq u.heap arg.st H arg.st ∧
  ∀ fuel fin, (renderStmt cfgSafe.mg true fuel u.heap arg.st fin).2 = (renderStmt cfgSafe.mg true fuel H arg.st fin).2

theorem transparent_of {H : Heap} {arg : Heap.Handle} {u : UseOut} (ha : u.arg = arg) (hs : Same H u.heap) (t : Tr H u.heap)
    (wf : StEq H arg.st H arg.st) : Transparent H arg u :=
  ⟨ha, hs, wf.mono t (Tr.refl t.ok), fun fuel fin => render_after_tr t arg.st wf fuel fin⟩

/-- AN ARGUMENT USE NEVER WRITES THE ARGUMENT'S STATEMENT.  For every well-formed heap, every handle in ANY state
    (any WHERE shape incl. a lone Or / leading Or / Not, pending scopes, joins, selects, limits …, clone 0/1/2),
    at every site whose regenerated discipline is the safe one and with the "copies everywhere" clone/merge
    discipline: `Joins("Rel", h)` followed by the build of the consumer's ON clause (with or without the joined
    model's soft-delete condition `qc`), `h` bound as a sub-query VALUE, `h` as a GROUP condition — each is
    `Transparent`. -/
theorem C06_argument_use_transparent (fuel : Nat) (H : Heap) (ok : HeapOK H) (arg : Heap.Handle) (wf : StEq H arg.st H arg.st)
    (qc : Option Nat) :
    Transparent H arg (joinsUseBuilt siteSafe cfgSafe fuel H arg qc) ∧
    Transparent H arg (subqueryUse siteSafe cfgSafe fuel H arg) ∧
    Transparent H arg (groupUse siteSafe cfgSafe fuel H arg) := by
  refine ⟨transparent_of ?_ ?_ ?_ wf, transparent_of (subqueryUse_arg _ _ _ _) (subqueryUse_same _ _ _) (subqueryUse_tr fuel ok arg wf) wf,
    transparent_of (groupUse_arg _ _ _ _) (groupUse_same _ _ _) (groupUse_tr fuel ok arg wf) wf⟩
  · simp [joinsUseBuilt, joinsUse_safe]
  · simp only [joinsUseBuilt, joinsUse_safe]; exact joinOnBuild_same fuel H _ qc
  · simp only [joinsUseBuilt, joinsUse_safe]; exact joinOnBuild_tr fuel ok _ wf.wher qc

/-- … in particular at ANY point of ANY history in which chain instances are used at most once more (`Linear`),
    for ANY handle `i` of it as the argument (the hypotheses of `C06_argument_use_transparent` are what such a run
    provides — non-vacuity) -/
theorem C06_argument_use_in_history (fuel : Nat) (sl : List (List Nat × Nat)) (ops : List Heap.Op) (hl : Linear ops) (i : Nat)
    (qc : Option Nat) :
    let S := run cfgFixed fuel ⟨sl, ops⟩
    Transparent S.heap (S.handle i) (joinsUseBuilt siteSafe cfgSafe fuel S.heap (S.handle i) qc) ∧
    Transparent S.heap (S.handle i) (subqueryUse siteSafe cfgSafe fuel S.heap (S.handle i)) ∧
    Transparent S.heap (S.handle i) (groupUse siteSafe cfgSafe fuel S.heap (S.handle i)) := by
  intro S
  have k := (sok_of_quiet sl fuel ops (quiet_of_linear sl fuel ops hl) ops.length).1
  rw [List.take_length] at k
  exact C06_argument_use_transparent fuel S.heap k.heap (S.handle i) (k.env i).2 qc

/-- WHAT HOLDS FOR THE CURRENT SOURCE TREE: its own regenerated site disciplines and its own clone / merge
    discipline, whenever the latter is "copies everywhere" -/
theorem C06_argument_use_current_tree (hg : genAll = cfgFixed) (fuel : Nat) (H : Heap) (ok : HeapOK H) (arg : Heap.Handle)
    (wf : StEq H arg.st H arg.st) (qc : Option Nat) :
    Transparent H arg (joinsUseBuilt joinsCfg genAll fuel H arg qc) ∧
    Transparent H arg (subqueryUse addVarCfg genAll fuel H arg) ∧
    Transparent H arg (groupUse groupCfg genAll fuel H arg) := by
  rw [C06_arg_site_cfgs.1, C06_arg_site_cfgs.2.1, C06_arg_site_cfgs.2.2, hg, C06_cfgFixed_eq]
  exact C06_argument_use_transparent fuel H ok arg wf qc

/-- a later chain of the argument handle: `arg.Where(c9).Find` -/
def laterChain (H : Heap) (arg : Heap.Handle) : List Tok :=
  let p := condAtom H 9
  let q := addWhere cfgSafe.mg p.1 arg.st p.2
  (renderStmt cfgSafe.mg true 16 q.1 q.2 0).2

/-- a site that DOES assign `where.Exprs[0]` through its alias (the shape of F5, at `Joins("Rel", h)`): the
    argument `h = Or(c1)` renders `c9 OR c1` before and `c1 AND c9` after another chain merely BUILT a join with it -/
theorem C06_joins_rewrite_counterexample :
    let a := mkArg [1] 0
    let u := joinsUse ⟨false, 1, 0⟩ a.1 a.2
    laterChain a.1 a.2 ≠ laterChain u.1 u.2.1 ∧ argChanged a.1 u.1 a.2 u.2.1 = ["where"] := by decide +kernel

/-- a site that reaches `executeScopes` on the argument itself (the shape of F24, at a VALUE position): the
    argument's pending scope is gone afterwards -/
theorem C06_subquery_scopes_counterexample :
    let a := mkArg [0] 1
    let u := subqueryUse ⟨true, 0, 0⟩ cfgSafe 16 a.1 a.2
    laterChain a.1 a.2 ≠ laterChain u.heap u.arg ∧ argChanged a.1 u.heap a.2 u.arg = ["scopes"] := by decide +kernel

/-- the same two arguments at sites with the safe discipline: unchanged -/
example : (let a := mkArg [1] 0; let u := joinsUseBuilt siteSafe cfgSafe 16 a.1 a.2 (some 7)
           laterChain a.1 a.2 = laterChain u.heap u.arg ∧ argChanged a.1 u.heap a.2 u.arg = []) := by decide +kernel
example : (let a := mkArg [0] 1; let u := subqueryUse siteSafe cfgSafe 16 a.1 a.2
           laterChain a.1 a.2 = laterChain u.heap u.arg ∧ argChanged a.1 u.heap a.2 u.arg = [] ∧ u.toks.length > 2) := by decide +kernel

/-! ## round 5 — what every *DB-returning method returns; alias writes of the callbacks; Preload arguments

  Regenerated by extract/gen_c06z.go → Gen/C06Round5.lean: `dbReturns` (for every method of *DB with a *DB result and
  every `return`: where the returned *DB comes from) and `aliasWrites` (every write-like event in callbacks/*.go,
  finisher_api.go, association.go, scan.go, callbacks.go through a name that can denote storage the executing chain's
  statement shares with the handle it was derived from). -/

/-- Commit / Rollback / SavePoint / RollbackTo finish a transaction handle and hand it back: no chain is derived -/
def txControl : List String := ["Commit", "Rollback", "SavePoint", "RollbackTo"]

/-- the five ways of obtaining a reusable handle besides Open -/
def derivations : List String := ["Session", "WithContext", "Debug", "Begin"]

/-- NO exported method of *DB returns its receiver, on any `return`: what comes back is the `tx` of getInstance() /
    Session() (or of another method called on it).  A shortcut `return db` — harmless when `db` is a handle — hands
    back a chain in progress (clone 0) when called mid-chain: chains started from it would pile up on it. -/
theorem C06_methods_never_return_receiver :
    ∀ f ∈ Gen.dbReturns, f.2.1 = true → f.1 ∉ txControl → ∀ r ∈ f.2.2, ["recv"] ∉ r := by decide +kernel

/-- Session / WithContext / Debug / Begin: on EVERY return path the result is the `&DB{…}` Session() allocates — the
    literal itself or a call chain that passes through Session — never anything else -/
theorem C06_derivations_through_session :
    (∀ d ∈ derivations, ∃ f ∈ Gen.dbReturns, f.1 = d ∧ f.2.2 ≠ []) ∧
    ∀ f ∈ Gen.dbReturns, f.1 ∈ derivations → ∀ r ∈ f.2.2, r ≠ [] ∧ ∀ p ∈ r, p = ["fresh"] ∨ ("Session" ∈ p ∧ p.head? = some "recv") := by
  decide +kernel

/-- getInstance() is the ONLY method that may return its receiver (clone 0: the chain goes on in place) or a fresh
    `&DB{…}`; nothing else -/
theorem C06_getInstance_returns :
    ∀ f ∈ Gen.dbReturns, f.1 = "getInstance" → f.2.2 = [[["fresh"]], [["recv"]]] := by decide +kernel

/-- every write-like event through shared statement storage in the callbacks / finishers is of one of the two kinds
    that cannot change what a holder of the shared slice sees: replacing a FIELD of the executing chain's own
    statement, or `append` onto the shared slice (writes only beyond its length; never an exposed slot when the slice
    has no spare capacity — `appendS_full_writes`).  No element / field assignment, no append onto a re-sliced prefix,
    no delete / copy / sort / clear. -/
theorem C06_callbacks_alias_write_kinds :
    ∀ e ∈ Gen.aliasWrites, e.2.2.1 = "storeField" ∨ e.2.2.1 = "appendOntoShared" := by decide +kernel

/-- … and the analysis does see the Preload arguments inside preload() / preloadEntryPoint (non-vacuity) -/
theorem C06_alias_analysis_reaches_preload :
    (∃ e ∈ Gen.aliasWrites, e.2.1 = "preloadEntryPoint" ∧ e.2.2.2.1 = "preloads[name]") ∧
    (∃ n ∈ Gen.aliasNames, n.take 2 = ["callbacks/preload.go", "preload"] ∧ "conds:0" ∈ n) := by decide +kernel

open Gorm.PreConds in
/-- consuming the arguments of `Preload(name, args…)` (preloadEntryPoint + preload) with a nil-initialised
    `inlineConds`, in EVERY heap, for every argument slice without spare capacity and every list of
    clause.Associations conditions: no exposed slot is written, so every slice that existed before — in particular the
    handle's `Preloads[name]` — reads the same afterwards. -/
theorem C06_preload_args_frozen (H : Heap) (args : Slice) (assoc : List Cell) (full : args.cap ≤ args.len)
    (s : Slice) (v : s.validIn H) :
    (consume false H args assoc).1.writes = H.writes ∧ readS (consume false H args assoc).1 s = readS H s :=
  ⟨consume_fresh_writes H args assoc full,
   readS_of_grows ((consume_ext false H args assoc).2 (consume_fresh_writes H args assoc full)) s v⟩

open Gorm.PreConds in
/-- with spare capacity behind the arguments the append of the Associations conditions may write there — and only there:
    any write to an exposed slot is counted, for both disciplines -/
theorem C06_preload_args_ext (p : Bool) (H : Heap) (args : Slice) (assoc : List Cell) : Ext H (consume p H args assoc).1 :=
  consume_ext p H args assoc

open Gorm.PreConds in
/-- the shape of seed m13: `inlineConds = conds[:0]` filters IN PLACE — `Preload(rel, scopeFn, cond, arg)` on a handle
    reads `[cond, arg, arg]` after ONE chain has run its preload: the scope function is lost for every later chain -/
theorem C06_preload_args_inplace_counterexample :
    argsAfter true [.atom 0, .atom 3, .atom 5] 0 [] = ([.atom 3, .atom 5, .atom 5], 2) ∧
    argsAfter false [.atom 0, .atom 3, .atom 5] 0 [] = ([.atom 0, .atom 3, .atom 5], 0) := by decide +kernel

open Gorm.PreConds in
/-- WHAT HOLDS FOR THE CURRENT SOURCE TREE: preload() has no append onto a re-sliced prefix of shared storage, so it
    consumes the arguments with the nil-initialised discipline -/
theorem C06_preload_args_current_tree : prefixInitOf Gen.aliasWrites = false := by decide +kernel

open Gorm.PreConds in
example : (argsAfter false [.atom 0, .atom 3, .atom 0, .atom 7] 2 [.atom 9]).1 = [.atom 0, .atom 3, .atom 0, .atom 7] := by decide +kernel

/-! ## round 6 — where a transaction is stored: Begin must own its statement for EVERY clone value of its receiver

  Regenerated by extract/gen_c06y.go → Gen/C06Round6.lean.  `Session` copies the statement only when its literal sets one
  of the fields of `sessionCloneGuard`; otherwise the result SHARES the receiver's statement (safe for a handle — clone 2
  copies on the next chain call — but not for a method that then WRITES into that statement).  Begin is called on handles
  (getInstance() hands out a fresh statement) and on clone-0 values — a chain in progress, the handle Connection passes to
  its block, a finisher's result — where getInstance() returns the receiver itself (`C06_getInstance_returns`): there only
  the clone forced by the Session literal keeps the `*sql.Tx` out of the originating chain (seed m17). -/

/-- methods whose ConnPool store is not a derivation: they finish / mark a transaction handle in place (txControl), pin
    the connection of the block's own handle (Connection) or run behind Session's own clone guard (Session) -/
def poolStoreInPlace : List String := txControl ++ ["Connection", "Session"]

/-- Session has exactly one `tx.Statement = tx.Statement.clone()`, guarded by Context / PrepareStmt / SkipHooks -/
theorem C06_session_clone_guard :
    Gen.sessionCloneStores = 1 ∧ Gen.sessionCloneGuard = ["Context", "PrepareStmt", "SkipHooks"] := by decide +kernel

/-- every Session literal written in Begin sets a field that forces the statement clone (and Begin has one) -/
theorem C06_begin_forces_statement_clone :
    (∃ c ∈ Gen.sessionCalls, c.1 = "Begin") ∧
    ∀ c ∈ Gen.sessionCalls, c.1 = "Begin" → ∃ f ∈ c.2.2, f ∈ Gen.sessionCloneGuard := by decide +kernel

/-- every method of *DB that stores into `X.Statement.ConnPool` — besides the in-place ones — stores into a local X that
    is never the receiver and whose every origin is a Session call forcing the clone: the pool / transaction is written
    into a statement no other chain can hold, whatever the receiver's clone value.  Non-vacuous: Begin stores. -/
theorem C06_connpool_stores_into_private_statement :
    (∃ s ∈ Gen.connPoolStores, s.1 = "Begin") ∧
    ∀ s ∈ Gen.connPoolStores, s.1 ∉ poolStoreInPlace →
      s.2.1 = false ∧ s.2.2 ≠ [] ∧ ∀ o ∈ s.2.2, ∃ f ∈ o, f ∈ Gen.sessionCloneGuard := by decide +kernel

/-- Connection pins the connection into the statement getInstance() hands out — private whenever the receiver is a
    handle (`C06_getInstance_returns`: fresh for clone 1 / 2) — never into the receiver's own statement and never into
    the result of a bare Session (which shares the handle's statement) -/
theorem C06_connection_pins_private_statement :
    (∃ s ∈ Gen.connPoolStores, s.1 = "Connection") ∧
    ∀ s ∈ Gen.connPoolStores, s.1 = "Connection" → s.2.1 = false ∧ s.2.2 = [["?db.getInstance()"]] := by decide +kernel

/-- the shape of seed m17 — Begin's literal reduced to `{NewDB: …}` — fails the obligation -/
theorem C06_begin_shared_statement_counterexample :
    ¬ (∀ s ∈ [("Begin", false, [["NewDB"]])], s.1 ∉ poolStoreInPlace →
        s.2.1 = false ∧ s.2.2 ≠ [] ∧ ∀ o ∈ s.2.2, ∃ f ∈ o, f ∈ Gen.sessionCloneGuard) := by decide +kernel

end Gorm
