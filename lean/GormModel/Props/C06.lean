/-
  C06 — property theorems (stub; to be filled in).
-/
namespace Gorm

end Gorm
