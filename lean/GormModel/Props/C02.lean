/-
  C02 — chained conditions select exactly the rows of their logical combination.

  `sqlEval env f` is what SQL computes for the text gorm wrote (Model/SqlBool.lean: Kleene logic, OR of
  AND-runs, NOT binds to the next item, unparenthesised raw text is inlined);  `unitVal env e` is the
  meaning of ONE condition's own rendering;  `listSpec` combines members left to right with AND / OR
  under standard precedence, every member indivisible — the property's reading.
-/
import GormModel.Lemmas.Where
namespace Gorm

/-- MAIN (units are indivisible): whatever list of conditions `Where.Build` ends up with — any number of
    members, any nesting, raw strings with any inner AND/OR structure, groups, maps, Not/Or members —
    the WHERE text means the left-to-right AND/OR combination of the members' own meanings, provided
    every member that gorm leaves unparenthesised next to other members has no top-level OR
    (`whereSound`, the decidable predicate the check also evaluates on every generated chain; its
    failure is finding F1). -/
theorem listSpec_single (env : Nat → V3) (jc : Joiner) (e : Ex) : listSpec env jc [e] = unitVal env e := by
  simp [listSpec, listSpecRuns]

theorem soundList_memberSafe (l : List Ex) (hs : soundList true l = true) : ∀ x ∈ l, memberSafe x := by
  induction l with
  | nil => intro x hx; cases hx
  | cons y ys ih =>
    intro x hx
    simp only [soundList, Bool.not_true, Bool.false_or, Bool.and_eq_true, Bool.not_eq_true',
      Bool.or_eq_true] at hs
    obtain ⟨⟨_, hne, hw⟩, hrest⟩ := hs
    rcases List.mem_cons.mp hx with rfl | hx'
    · refine ⟨?_, hw⟩
      intro hnil; rw [hnil] at hne; simp at hne
    · exact ih hrest x hx'

theorem C02_where_units (env : Nat → V3) (es : List Ex) (h : whereSound es = true) :
    sqlEval env (whereBuild es) = listSpec env .and (whereExprs es) := by
  have hs : soundList (decide ((whereExprs es).length > 1)) (whereExprs es) = true := h
  show sqlEval env (buildList (decide ((whereExprs es).length > 1)) true .and (whereExprs es)) = _
  generalize whereExprs es = l at hs ⊢
  cases l with
  | nil => simp [sqlEval, buildList, expandFlat, expandItem, List.cons_append, List.nil_append, evalFlat, listSpec]
  | cons e1 r1 =>
    cases r1 with
    | nil =>
      have hl : decide (([e1] : List Ex).length > 1) = false := by simp
      rw [hl, listSpec_single]
      exact buildList_single env .and e1
    | cons e2 r =>
      have hl : decide ((e1 :: e2 :: r).length > 1) = true := by simp
      rw [hl] at hs ⊢
      exact buildList_spec env .and _ (soundList_memberSafe _ hs)

/-- `Or(u)` contributes `u` itself (OR-joined): a single-member Or has the meaning of its member -/
theorem C02_or_unit (env : Nat → V3) (e : Ex) : unitVal env (.or [e]) = unitVal env e := by
  simp only [unitVal, Ex.build, List.length_singleton, gt_iff_lt, Nat.lt_irrefl, decide_false,
    Bool.false_eq_true, if_false]
  exact buildList_single env .or e

/-- a single-member And (the group rewrite of a lone Or) has the meaning of its member -/
theorem C02_and_unit (env : Nat → V3) (e : Ex) : unitVal env (.and [e]) = unitVal env e := by
  simp only [unitVal, Ex.build, List.length_singleton, gt_iff_lt, Nat.lt_irrefl, decide_false,
    Bool.false_eq_true, if_false]
  exact buildList_single env .and e

/-- a multi-member And/Or is ONE parenthesised operand whose content is again a unit combination -/
theorem C02_and_group (env : Nat → V3) (e1 e2 : Ex) (r : List Ex)
    (h : ∀ e ∈ e1 :: e2 :: r, memberSafe e) :
    unitVal env (.and (e1 :: e2 :: r)) = listSpec env .and (e1 :: e2 :: r) := by
  have hlen : (e1 :: e2 :: r).length > 1 := by simp
  have hd : decide ((e1 :: e2 :: r).length > 1) = true := by simp
  simp only [unitVal, Ex.build, if_pos hlen, hd, sqlEval, expandFlat_paren, evalFlat, evalCore, applyNegs_zero]
  have := buildList_spec env .and (e1 :: e2 :: r) h
  simp only [sqlEval] at this
  rw [this]; simp [evalRuns]

theorem C02_or_group (env : Nat → V3) (e1 e2 : Ex) (r : List Ex)
    (h : ∀ e ∈ e1 :: e2 :: r, memberSafe e) :
    unitVal env (.or (e1 :: e2 :: r)) = listSpec env .or (e1 :: e2 :: r) := by
  have hlen : (e1 :: e2 :: r).length > 1 := by simp
  have hd : decide ((e1 :: e2 :: r).length > 1) = true := by simp
  simp only [unitVal, Ex.build, if_pos hlen, hd, sqlEval, expandFlat_paren, evalFlat, evalCore, applyNegs_zero]
  have := buildList_spec env .or (e1 :: e2 :: r) h
  simp only [sqlEval] at this
  rw [this]; simp [evalRuns]

/-! ### Not -/

theorem AtomKind.pol_negate (k : AtomKind) : k.negate.pol = !k.pol := by cases k <;> rfl

def cmpVal (env : Nat → V3) (a : Atom) : V3 := if a.kind.pol then env a.id else (env a.id).not

theorem unitVal_cmp (env : Nat → V3) (a : Atom) : unitVal env (.atom a) = cmpVal env a := by
  simp [unitVal, sqlEval, Ex.build, expandFlat, expandItem, List.cons_append, List.nil_append, Atom.core, evalFlat, evalCore, applyNegs_zero, evalRuns, cmpVal]

theorem cmpVal_negate (env : Nat → V3) (a : Atom) : cmpVal env a.negate = (cmpVal env a).not := by
  unfold cmpVal
  show (if a.kind.negate.pol = true then env a.id else (env a.id).not) = _
  rw [AtomKind.pol_negate]
  cases a.kind.pol <;> simp

/-- `Not` of one generated comparison is its negation (`NegationBuild`: Eq↔Neq, Gt→Lte, …) -/
theorem C02_not_atom (env : Nat → V3) (a : Atom) :
    unitVal env (.not [.atom a]) = (unitVal env (.atom a)).not := by
  rw [unitVal_cmp, ← cmpVal_negate, ← unitVal_cmp]
  simp [unitVal, Ex.build, Ex.negatable, notListA]

/-- AND of the negations of the member comparisons -/
def allFalse (env : Nat → V3) (cur : V3) : List Atom → V3
  | [] => cur
  | a :: r => allFalse env (cur.and (cmpVal env a).not) r

theorem notListA_atoms (env : Nat → V3) (as : List Atom) (acc cur : V3) :
    evalRuns env acc cur (expandFlat (notListA (as.map Ex.atom))) = acc.or (allFalse env cur as) := by
  induction as generalizing cur with
  | nil => simp [notListA, expandFlat, expandItem, List.cons_append, List.nil_append, evalRuns, allFalse]
  | cons a r ih =>
    simp only [List.map_cons, notListA, expandFlat, expandItem, List.cons_append, List.nil_append, evalRuns, evalCore, Atom.core, applyNegs_zero, allFalse]
    rw [ih]
    have : (if a.negate.kind.pol = true then env a.negate.id else (env a.negate.id).not) = (cmpVal env a).not := by
      rw [← cmpVal_negate]; rfl
    rw [this]

theorem evalFlat_notListA_atoms (env : Nat → V3) (a : Atom) (as : List Atom) :
    evalFlat env (expandFlat (notListA ((a :: as).map Ex.atom))) = allFalse env .t (a :: as) := by
  simp only [List.map_cons, notListA, expandFlat, expandItem, List.cons_append, List.nil_append, evalFlat, evalCore, Atom.core, applyNegs_zero]
  rw [notListA_atoms]
  have e1 : (if a.negate.kind.pol = true then env a.negate.id else (env a.negate.id).not) = (cmpVal env a).not := by
    rw [← cmpVal_negate]; rfl
  rw [e1]
  simp [allFalse]

/-- `Not` of a multi-field map / struct (members are generated comparisons) requires EVERY member to be
    false — the documented `name <> ? AND age <> ?` reading, for any number of fields -/
theorem C02_not_fields (env : Nat → V3) (a1 a2 : Atom) (r : List Atom) :
    unitVal env (.not ((a1 :: a2 :: r).map Ex.atom)) = allFalse env .t (a1 :: a2 :: r) := by
  have hany : ((a1 :: a2 :: r).map Ex.atom).any Ex.negatable = true := by simp [Ex.negatable]
  have hlen : ((a1 :: a2 :: r).map Ex.atom).length > 1 := by simp
  simp only [unitVal, Ex.build, hany, if_pos hlen, if_true, sqlEval, expandFlat_paren, evalFlat, evalCore, applyNegs_zero]
  rw [evalFlat_notListA_atoms]
  simp [evalRuns]

/-- `Not` of one raw / And / Or / Not member negates that member AS A WHOLE, provided gorm parenthesises
    it (`notWrap`) or its rendering is a single item -/
theorem C02_not_single (env : Nat → V3) (e : Ex) (hn : e.negatable = false)
    (h : notWrap e = true ∨ singleItem (expandFlat e.build) = true) (hne : e.build ≠ []) :
    unitVal env (.not [e]) = (unitVal env e).not := by
  have hany : ([e] : List Ex).any Ex.negatable = false := by simp [hn]
  simp only [unitVal, Ex.build, hany, Bool.false_eq_true, if_false, List.length_singleton, gt_iff_lt,
    Nat.lt_irrefl, decide_false, notListB, if_true, List.append_nil, sqlEval]
  by_cases hw : notWrap e = true
  · simp [hw, addNeg, expandFlat, expandItem, List.cons_append, List.nil_append, expandItem, evalFlat, evalCore, applyNegs, evalRuns]
  · have hs : singleItem (expandFlat e.build) = true := by
      rcases h with h1 | h1
      · exact absurd h1 hw
      · exact h1
    simp only [hw, Bool.false_eq_true, if_false]
    -- the rendering is exactly one item; NOT lands on it
    rw [expandFlat_addNeg, expandFlat_setJoin]
    have hne' := expandFlat_ne_nil _ hne
    cases hx : expandFlat e.build with
    | nil => exact absurd hx hne'
    | cons y ys =>
      obtain ⟨a1, b1, c1⟩ := y
      rw [hx] at hs
      have : ys = [] := by
        cases ys with
        | nil => rfl
        | cons z zs => simp [singleItem] at hs
      subst this
      simp [setJoin, addNeg, evalFlat, evalRuns, applyNegs_succ]

/-! ### empty forms add no condition; nil ⇒ IS NULL; slice ⇒ IN -/

theorem C02_empty_forms (es : List Ex) (op : ChainOp) :
    chainStep es op .empty = es ∧ chainStep es op (.fields []) = es ∧ chainStep es op (.group []) = es := by
  refine ⟨?_, ?_, ?_⟩ <;> simp [chainStep, Form.cond, mkAnd]

theorem C02_nil_is_null (col : String) (id : Nat) :
    (Atom.text { col := col, kind := .eq, val := .nil, id := id }) = col ++ " IS NULL" := rfl

theorem C02_slice_is_in (col : String) (id : Nat) :
    (Atom.text { col := col, kind := .inK, val := .list 3, id := id }) = col ++ " IN (?,?,?)" := by
  simp [Atom.text, qmarks]

/-- a chain whose first condition is not an `Or` and is not a lone And-group is rendered in call order -/
theorem C02_no_swap (e : Ex) (r : List Ex) (h1 : e.isSingleOr = false) (h2 : r ≠ [] ∨ ∀ inner, e ≠ .and inner) :
    whereExprs (e :: r) = e :: r := by
  have hu : unwrapSingleAnd (e :: r) = e :: r := by
    cases r with
    | nil =>
      cases e with
      | and inner => rcases h2 with h | h; exact absurd rfl h; exact absurd rfl (h inner)
      | raw a b c d => rfl
      | atom a => rfl
      | or a => rfl
      | not a => rfl
    | cons x xs => cases e <;> rfl
  simp [whereExprs, hu, swapFirst, firstNonSingleOr, h1]

/-! ### findings, kernel-checked -/

def envOf (l : List V3) : Nat → V3 := fun i => l.getD i .u

/-- F1: any raw string `a OR b` whose keywords escape gorm's detector, followed by another condition `c`:
    the text reads `a OR (b AND c)`, the units say `(a OR b) AND c`; they differ on a row where a holds and c fails -/
theorem C02_detector_counterexample (text : List Char) (out : String) (h : detector text = false) :
    let raw := Ex.raw text false out [(.and, 0, .atom 0 true "a"), (.or, 0, .atom 1 true "b")]
    let c := Ex.atom { col := "c", kind := .eq, val := .scalar, id := 2 }
    whereSound [raw, c] = false ∧
    sqlEval (envOf [.t, .f, .f]) (whereBuild [raw, c]) = .t ∧
    listSpec (envOf [.t, .f, .f]) .and (whereExprs [raw, c]) = .f := by
  intro raw c
  have hw : wrapTest raw = false := by simp [raw, wrapTest, h]
  refine ⟨?_, ?_, ?_⟩
  · simp [whereSound, whereExprs, unwrapSingleAnd, swapFirst, firstNonSingleOr, raw, c, Ex.isSingleOr, soundList, hw, wrapTest, h,
      Ex.build, expandFlat, expandItem, List.cons_append, List.nil_append, setFirst, noTopOr, Ex.sound]
  · simp [whereBuild, whereExprs, unwrapSingleAnd, swapFirst, firstNonSingleOr, raw, c, Ex.isSingleOr, buildList, hw, wrapTest, h, Ex.build,
      setJoin, sqlEval, expandFlat, expandItem, List.cons_append, List.nil_append, setFirst, Atom.core, evalFlat, evalRuns, evalCore, applyNegs, envOf,
      AtomKind.pol, V3.and, V3.or]
  · simp [whereExprs, unwrapSingleAnd, swapFirst, firstNonSingleOr, raw, c, Ex.isSingleOr, listSpec, listSpecRuns, memberJoin, unitVal,
      sqlEval, Ex.build, expandFlat, expandItem, List.cons_append, List.nil_append, setFirst, Atom.core, evalFlat, evalRuns, evalCore, applyNegs, envOf,
      AtomKind.pol, V3.and, V3.or]

/-- the tab-delimited `or` of the listed witness does escape the detector, the plain one does not -/
example : detector ['1', ' ', 'o', 'r', '\t', 'b'] = false ∧ detector ['1', ' ', 'o', 'r', ' ', 'b'] = true := by decide

/-- F8: `Not` over a list mixing a generated comparison with an Or member is negated member-wise although
    the list is an OR unit: for the unit `a AND b OR c` on a row where a holds, b fails and c fails the unit is
    FALSE, so its negation as a whole is TRUE — but gorm's member-wise rendering `(a' AND NOT b AND NOT c)` is FALSE -/
theorem C02_not_mixed_counterexample :
    let a := Ex.atom { col := "a", kind := .eq, val := .scalar, id := 0 }
    let b := Ex.raw ['b'] false "b" [(.and, 0, .atom 1 true "b")]
    let c := Ex.or [Ex.raw ['c'] false "c" [(.and, 0, .atom 2 true "c")]]
    let env := envOf [.t, .f, .f]
    notMixedList [a, b, c] = true ∧ unitVal env (.and [a, b, c]) = .f ∧ unitVal env (.not [a, b, c]) = .f := by
  decide

/-- non-vacuity of `C02_where_units`: a chain with a map, an OR-joined raw string containing OR, and a
    Not — three members, nested structure — satisfies `whereSound` -/
example :
    whereSound (chainExprs [
      (.where_, .fields [{ col := "a", kind := .eq, val := .scalar, id := 0 }, { col := "b", kind := .eq, val := .nil, id := 1 }]),
      (.or_, .raw ['x', ' ', 'O', 'R', ' ', 'y'] false "x OR y" [(.and, 0, .atom 2 true "x"), (.or, 0, .atom 3 true "y")]),
      (.not_, .col { col := "c", kind := .gt, val := .scalar, id := 4 })]) = true := by decide

end Gorm
