/-
  C02 — chained conditions select exactly the rows of their logical combination.

  `sqlEval env f` is what SQL computes for the text gorm wrote (Model/SqlBool.lean: Kleene logic, OR of
  AND-runs, NOT binds to the next item, unparenthesised raw text is inlined);  `unitVal env e` is the
  meaning of ONE condition's own rendering;  `listSpec` combines members left to right with AND / OR
  under standard precedence, every member indivisible — the property's reading.
-/
import GormModel.Lemmas.Where
import GormModel.Lemmas.WhereSlices
import GormModel.Lemmas.WhereRec
import GormModel.Lemmas.CondValue
import GormModel.Lemmas.UpdateKeys
import GormModel.Lemmas.SliceKeys
namespace Gorm

/-- MAIN (units are indivisible): whatever list of conditions `Where.Build` ends up with — any number of
    members, any nesting, raw strings with any inner AND/OR structure, groups, maps, Not/Or members —
    the WHERE text means the left-to-right AND/OR combination of the members' own meanings, provided
    every member that gorm leaves unparenthesised next to other members has no top-level OR
    (`whereSound`, the decidable predicate the check also evaluates on every generated chain; its
    failure is finding F1). -/
theorem listSpec_single (env : Nat → V3) (jc : Joiner) (e : Ex) : listSpec env jc [e] = unitVal env e := by
  simp [listSpec, listSpecRuns]

theorem soundList_memberSafe (l : List Ex) (hs : soundList true l = true) : ∀ x ∈ l, memberSafe x := by
  induction l with
  | nil => intro x hx; cases hx
  | cons y ys ih =>
    intro x hx
    simp only [soundList, Bool.not_true, Bool.false_or, Bool.and_eq_true, Bool.not_eq_true',
      Bool.or_eq_true] at hs
    obtain ⟨⟨_, hne, hw⟩, hrest⟩ := hs
    rcases List.mem_cons.mp hx with rfl | hx'
    · refine ⟨?_, hw⟩
      intro hnil; rw [hnil] at hne; simp at hne
    · exact ih hrest x hx'

theorem C02_where_units (env : Nat → V3) (es : List Ex) (h : whereSound es = true) :
    sqlEval env (whereBuild es) = listSpec env .and (whereExprs es) := by
  have hs : soundList (decide ((whereExprs es).length > 1)) (whereExprs es) = true := h
  show sqlEval env (buildList (decide ((whereExprs es).length > 1)) true .and (whereExprs es)) = _
  generalize whereExprs es = l at hs ⊢
  cases l with
  | nil => simp [sqlEval, buildList, expandFlat, expandItem, List.cons_append, List.nil_append, evalFlat, listSpec]
  | cons e1 r1 =>
    cases r1 with
    | nil =>
      have hl : decide (([e1] : List Ex).length > 1) = false := by simp
      rw [hl, listSpec_single]
      exact buildList_single env .and e1
    | cons e2 r =>
      have hl : decide ((e1 :: e2 :: r).length > 1) = true := by simp
      rw [hl] at hs ⊢
      exact buildList_spec env .and _ (soundList_memberSafe _ hs)

/-- `Or(u)` contributes `u` itself (OR-joined): a single-member Or has the meaning of its member -/
theorem C02_or_unit (env : Nat → V3) (e : Ex) : unitVal env (.or [e]) = unitVal env e := by
  simp only [unitVal, Ex.build, List.length_singleton, gt_iff_lt, Nat.lt_irrefl, decide_false,
    Bool.false_eq_true, if_false]
  exact buildList_single env .or e

/-- a single-member And (the group rewrite of a lone Or) has the meaning of its member -/
theorem C02_and_unit (env : Nat → V3) (e : Ex) : unitVal env (.and [e]) = unitVal env e := by
  simp only [unitVal, Ex.build, List.length_singleton, gt_iff_lt, Nat.lt_irrefl, decide_false,
    Bool.false_eq_true, if_false]
  exact buildList_single env .and e

/-- a multi-member And/Or is ONE parenthesised operand whose content is again a unit combination -/
theorem C02_and_group (env : Nat → V3) (e1 e2 : Ex) (r : List Ex)
    (h : ∀ e ∈ e1 :: e2 :: r, memberSafe e) :
    unitVal env (.and (e1 :: e2 :: r)) = listSpec env .and (e1 :: e2 :: r) := by
  have hlen : (e1 :: e2 :: r).length > 1 := by simp
  have hd : decide ((e1 :: e2 :: r).length > 1) = true := by simp
  simp only [unitVal, Ex.build, if_pos hlen, hd, sqlEval, expandFlat_paren, evalFlat, evalCore, applyNegs_zero]
  have := buildList_spec env .and (e1 :: e2 :: r) h
  simp only [sqlEval] at this
  rw [this]; simp [evalRuns]

theorem C02_or_group (env : Nat → V3) (e1 e2 : Ex) (r : List Ex)
    (h : ∀ e ∈ e1 :: e2 :: r, memberSafe e) :
    unitVal env (.or (e1 :: e2 :: r)) = listSpec env .or (e1 :: e2 :: r) := by
  have hlen : (e1 :: e2 :: r).length > 1 := by simp
  have hd : decide ((e1 :: e2 :: r).length > 1) = true := by simp
  simp only [unitVal, Ex.build, if_pos hlen, hd, sqlEval, expandFlat_paren, evalFlat, evalCore, applyNegs_zero]
  have := buildList_spec env .or (e1 :: e2 :: r) h
  simp only [sqlEval] at this
  rw [this]; simp [evalRuns]

/-! ### Not -/

/-- `Not` of one generated comparison is its negation (`NegationBuild`: Eq↔Neq, Gt→Lte, …) -/
theorem C02_not_atom (env : Nat → V3) (a : Atom) :
    unitVal env (.not [.atom a]) = (unitVal env (.atom a)).not := by
  rw [unitVal_cmp, ← cmpVal_negate, ← unitVal_cmp]
  simp [unitVal, Ex.build, Ex.negatable, notListA]

/-- AND of the negations of the member comparisons -/
def allFalse (env : Nat → V3) (cur : V3) : List Atom → V3
  | [] => cur
  | a :: r => allFalse env (cur.and (cmpVal env a).not) r

theorem notListA_atoms (env : Nat → V3) (as : List Atom) (acc cur : V3) :
    evalRuns env acc cur (expandFlat (notListA (as.map Ex.atom))) = acc.or (allFalse env cur as) := by
  induction as generalizing cur with
  | nil => simp [notListA, expandFlat, expandItem, List.cons_append, List.nil_append, evalRuns, allFalse]
  | cons a r ih =>
    simp only [List.map_cons, notListA, expandFlat, expandItem, List.cons_append, List.nil_append, evalRuns, evalCore, Atom.core, applyNegs_zero, allFalse]
    rw [ih]
    have : (if a.negate.kind.pol = true then env a.negate.id else (env a.negate.id).not) = (cmpVal env a).not := by
      rw [← cmpVal_negate]; rfl
    rw [this]

theorem evalFlat_notListA_atoms (env : Nat → V3) (a : Atom) (as : List Atom) :
    evalFlat env (expandFlat (notListA ((a :: as).map Ex.atom))) = allFalse env .t (a :: as) := by
  simp only [List.map_cons, notListA, expandFlat, expandItem, List.cons_append, List.nil_append, evalFlat, evalCore, Atom.core, applyNegs_zero]
  rw [notListA_atoms]
  have e1 : (if a.negate.kind.pol = true then env a.negate.id else (env a.negate.id).not) = (cmpVal env a).not := by
    rw [← cmpVal_negate]; rfl
  rw [e1]
  simp [allFalse]

/-- `Not` of a multi-field map / struct (members are generated comparisons) requires EVERY member to be
    false — the documented `name <> ? AND age <> ?` reading, for any number of fields -/
theorem C02_not_fields (env : Nat → V3) (a1 a2 : Atom) (r : List Atom) :
    unitVal env (.not ((a1 :: a2 :: r).map Ex.atom)) = allFalse env .t (a1 :: a2 :: r) := by
  have hany : ((a1 :: a2 :: r).map Ex.atom).any Ex.negatable = true := by simp [Ex.negatable]
  have hlen : ((a1 :: a2 :: r).map Ex.atom).length > 1 := by simp
  simp only [unitVal, Ex.build, hany, if_pos hlen, if_true, sqlEval, expandFlat_paren, evalFlat, evalCore, applyNegs_zero]
  rw [evalFlat_notListA_atoms]
  simp [evalRuns]

/-- `Not` of one raw / And / Or / Not member negates that member AS A WHOLE, provided gorm parenthesises
    it (`notWrap`) or its rendering is a single item -/
theorem C02_not_single (env : Nat → V3) (e : Ex) (hn : e.negatable = false)
    (h : notWrap e = true ∨ singleItem (expandFlat e.build) = true) (hne : e.build ≠ []) :
    unitVal env (.not [e]) = (unitVal env e).not := by
  have hany : ([e] : List Ex).any Ex.negatable = false := by simp [hn]
  simp only [unitVal, Ex.build, hany, Bool.false_eq_true, if_false, List.length_singleton, gt_iff_lt,
    Nat.lt_irrefl, decide_false, notListB, if_true, List.append_nil, sqlEval]
  by_cases hw : notWrap e = true
  · simp [hw, addNeg, expandFlat, expandItem, List.cons_append, List.nil_append, expandItem, evalFlat, evalCore, applyNegs, evalRuns]
  · have hs : singleItem (expandFlat e.build) = true := by
      rcases h with h1 | h1
      · exact absurd h1 hw
      · exact h1
    simp only [hw, Bool.false_eq_true, if_false]
    -- the rendering is exactly one item; NOT lands on it
    rw [expandFlat_addNeg, expandFlat_setJoin]
    have hne' := expandFlat_ne_nil _ hne
    cases hx : expandFlat e.build with
    | nil => exact absurd hx hne'
    | cons y ys =>
      obtain ⟨a1, b1, c1⟩ := y
      rw [hx] at hs
      have : ys = [] := by
        cases ys with
        | nil => rfl
        | cons z zs => simp [singleItem] at hs
      subst this
      simp [setJoin, addNeg, evalFlat, evalRuns, applyNegs_succ]

/-! ### all depths: every nested member of a sound tree is an indivisible operand -/

theorem evalFlat_head_and (env : Nat → V3) (n : Nat) (c : Core) (r : Flat) :
    evalFlat env ((.and, n, c) :: r) = evalRuns env .f .t ((.and, n, c) :: r) := by
  simp [evalFlat, evalRuns]

theorem notListA_head_and (es : List Ex) (hs : soundNotA es = true) (hne : es ≠ []) :
    ∃ n c r, expandFlat (notListA es) = (.and, n, c) :: r := by
  cases es with
  | nil => exact absurd rfl hne
  | cons e r =>
    have hmem := soundNotA_members (e :: r) hs e List.mem_cons_self
    have aux : ∀ (x : Ex), x.negatable = false → x.build ≠ [] →
        ∃ n c t, expandFlat ((if notWrap x then [(Joiner.and, 1, Core.paren x.build)] else setJoin .and (addNeg x.build)) ++ notListA r)
          = (.and, n, c) :: t := by
      intro x _ hb
      by_cases hw : notWrap x = true
      · exact ⟨1, Core.paren (expandFlat x.build), expandFlat (notListA r), by simp [hw, expandFlat, expandItem]⟩
      · simp only [hw, Bool.false_eq_true, if_false]
        rw [expandFlat_append, expandFlat_setJoin, expandFlat_addNeg]
        have := expandFlat_ne_nil _ hb
        cases hx : expandFlat x.build with
        | nil => exact absurd hx this
        | cons y ys => obtain ⟨a1, b1, c1⟩ := y; exact ⟨b1 + 1, c1, ys ++ expandFlat (notListA r), by simp [addNeg, setJoin]⟩
    cases e with
    | atom a => exact ⟨0, a.negate.core, expandFlat (notListA r), by simp [notListA, expandFlat, expandItem, Atom.core]⟩
    | raw t n o f =>
      rcases hmem with h | ⟨_, h2, _⟩
      · simp [Ex.negatable] at h
      · simpa [notListA] using aux _ rfl h2
    | and l =>
      rcases hmem with h | ⟨_, h2, _⟩
      · simp [Ex.negatable] at h
      · simpa [notListA] using aux _ rfl h2
    | or l =>
      rcases hmem with h | ⟨_, h2, _⟩
      · simp [Ex.negatable] at h
      · simpa [notListA] using aux _ rfl h2
    | not l =>
      rcases hmem with h | ⟨_, h2, _⟩
      · simp [Ex.negatable] at h
      · simpa [notListA] using aux _ rfl h2

theorem list_case (env : Nat → V3) (jc : Joiner) (es : List Ex) (h : soundList (decide (es.length > 1)) es = true)
    (hm : ∀ e ∈ es, e.sound = true → unitVal env e = e.sem env) :
    sqlEval env (buildList (decide (es.length > 1)) true jc es) = semList env jc es := by
  have hsnd := soundList_members _ es h
  have hag : MembersAgree env es := fun e he => hm e he (hsnd e he)
  cases es with
  | nil => simp [sqlEval, buildList, expandFlat, evalFlat, semList]
  | cons e1 r1 =>
    cases r1 with
    | nil =>
      have hl : decide (([e1] : List Ex).length > 1) = false := by simp
      rw [hl, buildList_single, hag e1 List.mem_cons_self]
      simp [semList, semRuns]
    | cons e2 r =>
      have hl : decide ((e1 :: e2 :: r).length > 1) = true := by simp
      rw [hl] at h ⊢
      rw [buildList_spec env jc _ (soundList_memberSafe _ h)]
      exact listSpec_eq_semList env jc _ hag

theorem and_or_unit (env : Nat → V3) (jc : Joiner) (es : List Ex) :
    sqlEval env (if es.length > 1 then [(Joiner.and, 0, Core.paren (buildList (decide (es.length > 1)) true jc es))]
      else buildList (decide (es.length > 1)) true jc es) = sqlEval env (buildList (decide (es.length > 1)) true jc es) := by
  by_cases hl : es.length > 1
  · simp [hl, sqlEval, expandFlat, expandItem, evalFlat, evalCore, applyNegs_zero, evalRuns]
  · simp [hl]

theorem not_case (env : Nat → V3) (es : List Ex) (h : (Ex.not es).sound = true)
    (hm : ∀ e ∈ es, e.sound = true → unitVal env e = e.sem env) :
    unitVal env (.not es) = (Ex.not es).sem env := by
  simp only [Ex.sound, Bool.and_eq_true, Bool.not_eq_true'] at h
  obtain ⟨hne, hb⟩ := h
  have hne' : es ≠ [] := by intro hn; rw [hn] at hne; simp at hne
  by_cases hany : es.any Ex.negatable = true
  · -- member-wise branch
    rw [if_pos hany] at hb
    obtain ⟨n, c, r, hhead⟩ := notListA_head_and es hb hne'
    have hval : evalFlat env (expandFlat (notListA es)) = semNotA env .t es := by
      rw [hhead, evalFlat_head_and, ← hhead, notListA_runs env es .f .t hb hm]; simp
    simp only [unitVal, Ex.build, Ex.sem, hany, if_true, sqlEval]
    by_cases hl : es.length > 1
    · simp only [hl, if_true, expandFlat_paren, evalFlat, evalCore, applyNegs_zero, evalRuns]
      rw [hval]; simp
    · simp only [hl, if_false]; exact hval
  · have hany' : es.any Ex.negatable = false := by simpa using hany
    rw [hany'] at hb
    simp only [Bool.false_eq_true, if_false] at hb
    cases es with
    | nil => exact absurd rfl hne'
    | cons e r =>
      cases r with
      | nil =>
        have hl : decide (([e] : List Ex).length > 1) = false := by simp
        rw [hl] at hb
        obtain ⟨h1, h2, h3⟩ := soundNotB_members false [e] hb e List.mem_cons_self
        have hneg : e.negatable = false := by simpa using hany'
        rw [C02_not_single env e hneg (by simpa using h3) h2, hm e List.mem_cons_self h1]
        simp [Ex.sem, hneg, semNotB, semRunsB]
      | cons e2 r2 =>
        have hl : decide ((e :: e2 :: r2).length > 1) = true := by simp
        rw [hl] at hb
        have hmem := soundNotB_members true (e :: e2 :: r2) hb
        have hag : MembersAgree env (e :: e2 :: r2) := fun x hx => hm x hx (hmem x hx).1
        have htail : ∀ x ∈ e2 :: r2, x.build ≠ [] ∧ (notWrap x = true ∨ noTopOr (expandFlat x.build) = true) := by
          intro x hx
          have := hmem x (List.mem_cons_of_mem _ hx)
          exact ⟨this.2.1, by simpa using this.2.2⟩
        obtain ⟨_, hne1, hs1⟩ := hmem e List.mem_cons_self
        have hs1' : notWrap e = true ∨ noTopOr (expandFlat e.build) = true := by simpa using hs1
        have hbody : evalFlat env (expandFlat (notListB true (e :: e2 :: r2))) = semNotB env (e :: e2 :: r2) := by
          rw [show notListB true (e :: e2 :: r2)
                = (if notWrap e then [(Joiner.and, 0, Core.paren e.build)] else setJoin .and e.build) ++ notListB false (e2 :: r2)
              by simp [notListB]]
          simp only [semNotB]
          rw [expandFlat_append]
          have hfirst : ∀ post, evalFlat env (expandFlat (if notWrap e then [(Joiner.and, 0, Core.paren e.build)] else setJoin .and e.build) ++ post)
              = evalRuns env .f (unitVal env e) post := by
            intro post
            by_cases hw : notWrap e = true
            · simp [hw, expandFlat, expandItem, evalFlat, evalCore, applyNegs_zero, unitVal, sqlEval]
            · have hs : noTopOr (expandFlat e.build) = true := by
                rcases hs1' with h' | h'
                · exact absurd h' hw
                · exact h'
              simp only [hw, Bool.false_eq_true, if_false]
              rw [expandFlat_setJoin, evalFlat_splice env .and _ _ (expandFlat_ne_nil _ hne1) hs]
              simp [evalFlat, evalCore, applyNegs_zero, unitVal, sqlEval]
          rw [hfirst, notListB_runs env (e2 :: r2) _ _ htail,
            semRunsB_fold env (e2 :: r2) _ _ (fun x hx => hag x (List.mem_cons_of_mem _ hx)), hag e List.mem_cons_self]
        have hlen : (e :: e2 :: r2).length > 1 := by simp
        simp only [unitVal, Ex.build, hany', Bool.false_eq_true, if_false, if_pos hlen, sqlEval, expandFlat_paren, evalFlat,
          evalCore, evalRuns, Ex.sem]
        rw [hbody]; simp [applyNegs]

mutual
/-- MAIN, ALL DEPTHS: for every expression tree satisfying `Ex.sound` (every raw string that gorm leaves
    unparenthesised next to other operands, at any nesting level, has no top-level OR; under NOT a single item),
    the meaning SQL gives to gorm's rendering is the recursive unit reading `Ex.sem`: at every level the members of
    an And / Or / Not list are indivisible operands. -/
theorem C02_tree_units (env : Nat → V3) : (e : Ex) → e.sound = true → unitVal env e = e.sem env
  | .raw t n o f, _ => unitVal_raw env t n o f
  | .atom a, _ => unitVal_cmp env a
  | .and es, h => by
    have hs : soundList (decide (es.length > 1)) es = true := by simpa [Ex.sound] using h
    have := list_case env .and es hs (C02_members_units env es)
    simp only [unitVal, Ex.build, Ex.sem]
    rw [and_or_unit]; exact this
  | .or es, h => by
    have hs : soundList (decide (es.length > 1)) es = true := by simpa [Ex.sound] using h
    have := list_case env .or es hs (C02_members_units env es)
    simp only [unitVal, Ex.build, Ex.sem]
    rw [and_or_unit]; exact this
  | .not es, h => not_case env es h (C02_members_units env es)
theorem C02_members_units (env : Nat → V3) : (es : List Ex) → ∀ e ∈ es, e.sound = true → unitVal env e = e.sem env
  | [], _, he, _ => nomatch he
  | x :: r, e, he, hs =>
    match List.mem_cons.mp he with
    | .inl heq => heq ▸ C02_tree_units env x (heq ▸ hs)
    | .inr h' => C02_members_units env r e h' hs
end

/-- … and the whole WHERE clause: combination of the members' recursive unit readings -/
theorem C02_where_tree (env : Nat → V3) (es : List Ex) (h : whereSound es = true) :
    sqlEval env (whereBuild es) = semList env .and (whereExprs es) := by
  have hs : soundList (decide ((whereExprs es).length > 1)) (whereExprs es) = true := h
  exact list_case env .and (whereExprs es) hs (C02_members_units env _)

/-! ### empty forms add no condition; nil ⇒ IS NULL; slice ⇒ IN -/

theorem C02_empty_forms (es : List Ex) (op : ChainOp) :
    chainStep es op .empty = es ∧ chainStep es op (.fields []) = es ∧ chainStep es op (.group []) = es := by
  refine ⟨?_, ?_, ?_⟩ <;> simp [chainStep, Form.cond, mkAnd]

theorem C02_nil_is_null (col : String) (id : Nat) :
    (Atom.text { col := col, kind := .eq, val := .nil, id := id }) = col ++ " IS NULL" := rfl

theorem C02_slice_is_in (col : String) (id : Nat) :
    (Atom.text { col := col, kind := .inK, val := .list 3, id := id }) = col ++ " IN (?,?,?)" := by
  simp [Atom.text, qmarks]

/-- a chain whose first condition is not an `Or` and is not a lone And-group is rendered in call order -/
theorem C02_no_swap (e : Ex) (r : List Ex) (h1 : e.isSingleOr = false) (h2 : r ≠ [] ∨ ∀ inner, e ≠ .and inner) :
    whereExprs (e :: r) = e :: r := by
  have hu : unwrapSingleAnd (e :: r) = e :: r := by
    cases r with
    | nil =>
      cases e with
      | and inner => rcases h2 with h | h; exact absurd rfl h; exact absurd rfl (h inner)
      | raw a b c d => rfl
      | atom a => rfl
      | or a => rfl
      | not a => rfl
    | cons x xs => cases e <;> rfl
  simp [whereExprs, hu, swapFirst, firstNonSingleOr, h1]

/-! ### findings, kernel-checked -/

def envOf (l : List V3) : Nat → V3 := fun i => l.getD i .u

/-- F1: any raw string `a OR b` whose keywords escape gorm's detector, followed by another condition `c`:
    the text reads `a OR (b AND c)`, the units say `(a OR b) AND c`; they differ on a row where a holds and c fails -/
theorem C02_detector_counterexample (text : List Char) (out : String) (h : detector text = false) :
    let raw := Ex.raw text false out [(.and, 0, .atom 0 true "a"), (.or, 0, .atom 1 true "b")]
    let c := Ex.atom { col := "c", kind := .eq, val := .scalar, id := 2 }
    whereSound [raw, c] = false ∧
    sqlEval (envOf [.t, .f, .f]) (whereBuild [raw, c]) = .t ∧
    listSpec (envOf [.t, .f, .f]) .and (whereExprs [raw, c]) = .f := by
  intro raw c
  have hw : wrapTest raw = false := by simp [raw, wrapTest, h]
  refine ⟨?_, ?_, ?_⟩
  · simp [whereSound, whereExprs, unwrapSingleAnd, swapFirst, firstNonSingleOr, raw, c, Ex.isSingleOr, soundList, hw, wrapTest, h,
      Ex.build, expandFlat, expandItem, List.cons_append, List.nil_append, setFirst, noTopOr, Ex.sound]
  · simp [whereBuild, whereExprs, unwrapSingleAnd, swapFirst, firstNonSingleOr, raw, c, Ex.isSingleOr, buildList, memberJoin, hw, wrapTest, h, Ex.build,
      setJoin, sqlEval, expandFlat, expandItem, List.cons_append, List.nil_append, setFirst, Atom.core, evalFlat, evalRuns, evalCore, applyNegs, envOf,
      AtomKind.pol, V3.and, V3.or]
  · simp [whereExprs, unwrapSingleAnd, swapFirst, firstNonSingleOr, raw, c, Ex.isSingleOr, listSpec, listSpecRuns, memberJoin, unitVal,
      sqlEval, Ex.build, expandFlat, expandItem, List.cons_append, List.nil_append, setFirst, Atom.core, evalFlat, evalRuns, evalCore, applyNegs, envOf,
      AtomKind.pol, V3.and, V3.or]

/-- the tab-delimited `or` of the listed witness does escape the detector, the plain one does not -/
example : detector ['1', ' ', 'o', 'r', '\t', 'b'] = false ∧ detector ['1', ' ', 'o', 'r', ' ', 'b'] = true := by decide

/-- F8: `Not` over a list mixing a generated comparison with an Or member is negated member-wise although
    the list is an OR unit: for the unit `a AND b OR c` on a row where a holds, b fails and c fails the unit is
    FALSE, so its negation as a whole is TRUE — but gorm's member-wise rendering `(a' AND NOT b AND NOT c)` is FALSE -/
theorem C02_not_mixed_counterexample :
    let a := Ex.atom { col := "a", kind := .eq, val := .scalar, id := 0 }
    let b := Ex.raw ['b'] false "b" [(.and, 0, .atom 1 true "b")]
    let c := Ex.or [Ex.raw ['c'] false "c" [(.and, 0, .atom 2 true "c")]]
    let env := envOf [.t, .f, .f]
    notMixedList [a, b, c] = true ∧ unitVal env (.and [a, b, c]) = .f ∧ unitVal env (.not [a, b, c]) = .f := by
  decide

/-- non-vacuity of `C02_where_units`: a chain with a map, an OR-joined raw string containing OR, and a
    Not — three members, nested structure — satisfies `whereSound` -/
example :
    whereSound (chainExprs [
      (.where_, .fields [{ col := "a", kind := .eq, val := .scalar, id := 0 }, { col := "b", kind := .eq, val := .nil, id := 1 }]),
      (.or_, .raw ['x', ' ', 'O', 'R', ' ', 'y'] false "x OR y" [(.and, 0, .atom 2 true "x"), (.or, 0, .atom 3 true "y")]),
      (.not_, .col { col := "c", kind := .gt, val := .scalar, id := 4 })]) = true := by decide

end Gorm
