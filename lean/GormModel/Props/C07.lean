/-
  C07 — "One shared handle can be used from many goroutines at once, including first use".

  What is proved here is the *logic* part: the schema-cache protocol (Model.SchemaCache, an LTS over
  goroutines × model types with an arbitrary relation graph) for ARBITRARY schedules, and (Lemmas.SharedWrites,
  over regenerated facts) which shared locations are assigned outside constructors at all.
  Data-race freedom itself is a Go-memory-model matter: judged by the race detector on sampled schedules (partial).
-/
import GormModel.Model.SchemaCache
import GormModel.Lemmas.SchemaCache
import GormModel.Lemmas.SharedWrites
namespace Gorm
open Gorm.SchemaCache

/-- state reached from the cold cache by threads with top-level programs `progs` under schedule `sched` -/
def scReach (c : Cfg) (progs : List (List Nat)) (sched : List Nat) : State := run c (init progs) sched

/-- Every caller of `Parse` (top level or nested via getOrParse→Parse) returns only after the returned schema's
  `initialized` channel is closed — and it stays closed. -/
theorem C07_parse_waits (c : Cfg) (progs : List (List Nat)) (sched : List Nat) :
    ∀ r ∈ (scReach c progs sched).rets,
      r.closedAtRet = true ∧ ((scReach c progs sched).objs r.obj).closed = true :=
  fun r hr => SchemaCache.rets_closed c progs sched r hr

/-- Single winner: all error-free returns of `Parse` for one model type deliver the same schema object,
  whatever the schedule, the number of goroutines and the relation graph. -/
theorem C07_cache_single_winner (c : Cfg) (progs : List (List Nat)) (sched : List Nat) :
    ∀ r1 ∈ (scReach c progs sched).rets, ∀ r2 ∈ (scReach c progs sched).rets,
      r1.ty = r2.ty → r1.err = false → r2.err = false → r1.obj = r2.obj :=
  fun r1 h1 r2 h2 => SchemaCache.single_winner c progs sched r1 h1 r2 h2

/-- What `Parse` returns without error is a schema of the requested type with ALL its own relations set. -/
theorem C07_returned_complete (c : Cfg) (progs : List (List Nat)) (sched : List Nat) :
    ∀ r ∈ (scReach c progs sched).rets, r.err = false →
      ((scReach c progs sched).objs r.obj).ty = r.ty ∧ r.nrelAtRet = (relsOf c r.ty).length :=
  fun r hr => SchemaCache.returned_complete c progs sched r hr

/-- Deadlock freedom: in every reachable state in which some goroutine has not finished, some goroutine can step
  (the wait-for graph over `initialized` channels is acyclic: publication stamps strictly increase along it). -/
theorem C07_cache_deadlock_free (c : Cfg) (progs : List (List Nat)) (sched : List Nat) :
    (∃ t, doneT (scReach c progs sched) t = false) → ∃ t, (step c (scReach c progs sched) t).isSome = true :=
  SchemaCache.deadlock_free c progs sched

/-! ### negative results (kernel-checked concrete schedules) -/

/-- two mutually related models: type 0 has-many type 1, type 1 belongs-to type 0 -/
def scCfgAB : Cfg := [[⟨1, true, false⟩], [⟨0, false, false⟩]]

/-- thread 0 parses type 0 and publishes it; thread 1 parses type 1, and its parseRelation obtains type 0's schema
  through getOrParse before thread 0 has set any relation (steps: t0 call,load1,tableName,load2,los ; t1 call,load1,
  tableName,load2,los,rel 0). -/
def scSchedPartial : List Nat := [0, 0, 0, 0, 0, 1, 1, 1, 1, 1, 1]

/-- F10 at model level: getOrParse hands out a schema whose `initialized` is not closed and whose relations are
  incomplete (the real parser of that schema is concurrently writing `Relationships.Relations`). -/
theorem C07_getOrParse_sees_partial_example :
    ∃ g ∈ (scReach scCfgAB [[0], [1]] scSchedPartial).gets,
      g.closedAtGet = false ∧ g.nrelAtGet < (relsOf scCfgAB ((scReach scCfgAB [[0], [1]] scSchedPartial).objs g.obj).ty).length := by
  refine ⟨⟨1, 1, 0, 0, false, 0⟩, ?_, ?_⟩ <;> decide

/-- a model whose only relation field is invalid -/
def scCfgBad : Cfg := [[⟨0, false, true⟩]]

/-- Why `single_winner` speaks about error-free returns only: after a failed parse the entry is deleted and the next
  caller builds a second schema object for the same type (both are returned, each with an error). -/
theorem C07_error_reparse_example :
    ∃ r1 ∈ (scReach scCfgBad [[0, 0]] (List.replicate 24 0)).rets,
    ∃ r2 ∈ (scReach scCfgBad [[0, 0]] (List.replicate 24 0)).rets,
      r1.ty = r2.ty ∧ r1.obj ≠ r2.obj ∧ r1.err = true ∧ r2.err = true := by
  refine ⟨⟨0, 0, 1, true, false, true, 0⟩, ?_, ⟨0, 0, 0, true, false, true, 0⟩, ?_, ?_⟩ <;> decide +kernel

/-- non-vacuity: a schedule on the cyclic graph in which both goroutines finish, returning the single winners -/
example : (scReach scCfgAB [[0, 1], [1, 0]] (List.replicate 40 0 ++ List.replicate 40 1)).rets.length = 5 := by decide +kernel

end Gorm
