/-
  C07 — "One shared handle can be used from many goroutines at once, including first use".

  What is proved here is the *logic* part: the schema-cache protocol (Model.SchemaCache, an LTS over
  goroutines × model types with an arbitrary relation graph) for ARBITRARY schedules, and (Lemmas.SharedWrites,
  over regenerated facts) which shared locations are assigned outside constructors at all.
  Data-race freedom itself is a Go-memory-model matter: judged by the race detector on sampled schedules (partial).
-/
import GormModel.Model.SchemaCache
import GormModel.Lemmas.SchemaCache
import GormModel.Lemmas.SharedWrites
import GormModel.Lemmas.WhereSwap
import GormModel.Lemmas.SharedCell
import GormModel.Lemmas.SharedConfig
import GormModel.Lemmas.StmtWait
import GormModel.Lemmas.SharedStmt
import GormModel.Lemmas.SharedState
import GormModel.Lemmas.SharedAppend
namespace Gorm
open Gorm.SchemaCache

/-- state reached from the cold cache by threads with top-level programs `progs` under schedule `sched` -/
def scReach (c : Cfg) (progs : List (List Nat)) (sched : List Nat) : State := run c (init progs) sched

/-- Every caller of `Parse` (top level or nested via getOrParse→Parse) returns only after the returned schema's
  `initialized` channel is closed — and it stays closed. -/
theorem C07_parse_waits (c : Cfg) (progs : List (List Nat)) (sched : List Nat) :
    ∀ r ∈ (scReach c progs sched).rets,
      r.closedAtRet = true ∧ ((scReach c progs sched).objs r.obj).closed = true :=
  fun r hr => SchemaCache.rets_closed c progs sched r hr

/-- Single winner: all error-free returns of `Parse` for one model type deliver the same schema object,
  whatever the schedule, the number of goroutines and the relation graph. -/
theorem C07_cache_single_winner (c : Cfg) (progs : List (List Nat)) (sched : List Nat) :
    ∀ r1 ∈ (scReach c progs sched).rets, ∀ r2 ∈ (scReach c progs sched).rets,
      r1.ty = r2.ty → r1.err = false → r2.err = false → r1.obj = r2.obj :=
  fun r1 h1 r2 h2 => SchemaCache.single_winner c progs sched r1 h1 r2 h2

/-- What `Parse` returns without error is a schema of the requested type with ALL its own relations set. -/
theorem C07_returned_complete (c : Cfg) (progs : List (List Nat)) (sched : List Nat) :
    ∀ r ∈ (scReach c progs sched).rets, r.err = false →
      ((scReach c progs sched).objs r.obj).ty = r.ty ∧ r.nrelAtRet = (relsOf c r.ty).length :=
  fun r hr => SchemaCache.returned_complete c progs sched r hr

/-- Deadlock freedom: in every reachable state in which some goroutine has not finished, some goroutine can step
  (the wait-for graph over `initialized` channels is acyclic: publication stamps strictly increase along it). -/
theorem C07_cache_deadlock_free (c : Cfg) (progs : List (List Nat)) (sched : List Nat) :
    (∃ t, doneT (scReach c progs sched) t = false) → ∃ t, (step c (scReach c progs sched) t).isSome = true :=
  SchemaCache.deadlock_free c progs sched


/-! ### partial results: hypothesis = negation of the F10/F12 pattern (no relation between DIFFERENT model types) -/

/-- Without relations between different model types, getOrParse only ever hands a parser a schema allocated by its own
  goroutine (the self reference): no goroutine receives another goroutine's unfinished schema. -/
theorem C07_getOrParse_own_partial (c : Cfg) (h : OnlySelfRels c) (progs : List (List Nat)) (sched : List Nat) :
    ∀ g ∈ (scReach c progs sched).gets, ((scReach c progs sched).objs g.obj).ownT = g.tid :=
  SchemaCache.gets_own_partial c h progs sched

/-- … and no back reference is ever written into any schema object (so nothing is written into a schema after it was returned). -/
theorem C07_backref_none_partial (c : Cfg) (h : OnlySelfRels c) (progs : List (List Nat)) (sched : List Nat) :
    ∀ o, ((scReach c progs sched).objs o).backs = [] :=
  SchemaCache.backs_nil_partial c h progs sched

/-- In general (any relation graph): what getOrParse hands out has at least been published by LoadOrStore and is a schema
  of the relation's target type — its fields are complete, its relations possibly not. -/
theorem C07_getOrParse_published (c : Cfg) (progs : List (List Nat)) (sched : List Nat) :
    ∀ g ∈ (scReach c progs sched).gets,
      ((scReach c progs sched).objs g.obj).stamp ≠ 0 ∧
      ∃ r, (relsOf c g.ty)[g.k]? = some r ∧ ((scReach c progs sched).objs g.obj).ty = r.target :=
  SchemaCache.gets_published c progs sched

/-- non-vacuity of the hypothesis: a self-referential model (manager / team) -/
example : OnlySelfRels [[⟨0, false, false⟩, ⟨0, true, false⟩]] := by
  intro ty r hr
  match ty with
  | 0 => simp [relsOf] at hr; rcases hr with h | h <;> simp [h]
  | n + 1 => simp [relsOf] at hr

/-! ### negative results (kernel-checked concrete schedules) -/

/-- two mutually related models: type 0 has-many type 1, type 1 belongs-to type 0 -/
def scCfgAB : Cfg := [[⟨1, true, false⟩], [⟨0, false, false⟩]]

/-- thread 0 parses type 0 and publishes it; thread 1 parses type 1, and its parseRelation obtains type 0's schema
  through getOrParse before thread 0 has set any relation (steps: t0 call,load1,tableName,load2,los ; t1 call,load1,
  tableName,load2,los,rel 0). -/
def scSchedPartial : List Nat := [0, 0, 0, 0, 0, 1, 1, 1, 1, 1, 1]

/-- F10 at model level: getOrParse hands out a schema whose `initialized` is not closed and whose relations are
  incomplete (the real parser of that schema is concurrently writing `Relationships.Relations`). -/
theorem C07_getOrParse_sees_partial_example :
    ∃ g ∈ (scReach scCfgAB [[0], [1]] scSchedPartial).gets,
      g.closedAtGet = false ∧ g.nrelAtGet < (relsOf scCfgAB ((scReach scCfgAB [[0], [1]] scSchedPartial).objs g.obj).ty).length := by
  refine ⟨⟨1, 1, 0, 0, false, 0⟩, ?_, ?_⟩ <;> decide


/-- the schedule of `C07_getOrParse_sees_partial_example` continued: thread 1 finishes its parse of type 1 (fin1, fin2:
  the schema is closed and RETURNED to the goroutine), then thread 0 continues with its first relation field -/
def scSchedLateBack1 : List Nat := scSchedPartial ++ [1, 1, 1, 1]
def scSchedLateBack2 : List Nat := scSchedLateBack1 ++ [0, 0]

/-- F12 at model level: a back reference is written (under Mux) into a schema object that is already closed and has been
  returned to a caller — who reads `Relationships.Relations` without taking Mux. -/
theorem C07_backref_after_return_example :
    (∃ r ∈ (scReach scCfgAB [[0], [1]] scSchedLateBack1).rets, r.obj = 1 ∧ r.err = false ∧ r.closedAtRet = true) ∧
    ((scReach scCfgAB [[0], [1]] scSchedLateBack1).objs 1).backs = [] ∧
    ((scReach scCfgAB [[0], [1]] scSchedLateBack2).objs 1).backs = [(0, 0)] := by
  refine ⟨⟨⟨1, 1, 1, false, false, true, 1⟩, ?_, ?_⟩, ?_, ?_⟩ <;> decide +kernel

/-! ### clause.Where.Build on a shared handle (finding F11)

  `WhereSwap.writes` = the cells of the handle's SHARED `Exprs` array that `Build` assigns, for the code that exists in the
  tree: the regenerated `Gen.whereBuildElemAssigns` says whether Build assigns `where.Exprs[i]` at all (unchanged tree) or
  swaps on a copy (tree carrying fixes/F23.patch).  The statements below are the same on both trees. -/

open Gorm.WhereSwap in
/-- A statement built from a shared handle assigns NO cell of the handle's `Exprs` array unless the WHERE list starts with a
  single Or (extra hypothesis = negation of the F11 pattern) — on either tree. -/
theorem C07_where_build_readonly_partial (es : List EK) (h : es.head? ≠ some .singleOr) : writes es = [] :=
  writesOf_nil_of_head _ es h

open Gorm.WhereSwap in
/-- exact characterisation of when a `Where.Build` that swaps IN PLACE writes to the shared array -/
theorem C07_where_build_writes_iff (es : List EK) :
    writesOf true es ≠ [] ↔ (es.head? = some .singleOr ∧ EK.other ∈ es) := by
  simpa [writesOf] using writes_ne_nil_iff es

open Gorm.WhereSwap in
/-- F11: `db.Or(a).Where(b)` — an in-place Build swaps cells 0 and 1 of the shared array -/
theorem C07_where_swap_write_counterexample : writesOf true [EK.singleOr, EK.other] = [0, 1] := by decide

open Gorm.WhereSwap in
/-- FULL statement for a `Where.Build` that swaps on a copy: no cell of the shared array is ever assigned (Build only READS
  the handle's array), for every WHERE list -/
theorem C07_where_build_copy_readonly (es : List EK) : writesOf false es = [] := writesOf_copy es

open Gorm.WhereSwap in
/-- WHAT HOLDS FOR THE CURRENT SOURCE TREE, decided by the regenerated fact: either Build assigns no `where.Exprs[i]` and is
  read-only on the shared array for every list, or it swaps in place, the F11 witness writes cells 0 and 1, and it is
  read-only outside the F11 pattern. -/
theorem C07_where_build_current_tree :
    (swapsInPlace = false ∧ ∀ es : List EK, writes es = []) ∨
    (swapsInPlace = true ∧ writes [EK.singleOr, EK.other] = [0, 1] ∧
      ∀ es : List EK, es.head? ≠ some .singleOr → writes es = []) := by
  cases h : swapsInPlace with
  | false => exact Or.inl ⟨rfl, fun es => by simp [writes, writesOf, h]⟩
  | true =>
    refine Or.inr ⟨rfl, ?_, fun es he => writesOf_nil_of_head _ es he⟩
    simp only [writes, h]; decide


/-! ### handle-wide shared state (round 2): the Config behind every handle, locks and the maps they guard

  Regenerated tables (Lemmas.SharedConfig, `decide`d): `C07_config_written_only_privately`, `C07_scan_logger_swap_private`,
  `C07_lock_guards_its_map`, `C07_pool_new_shares_only_field_descriptor`.  The two transition systems below say what those
  structural facts buy under ARBITRARY schedules, and what is lost without them. -/

open Gorm.SharedCell in
/-- A save / replace / restore protocol that runs on a PRIVATE copy never writes the shared cell: whatever the number of
  goroutines and the schedule, the handle keeps its logger (and no other goroutine ever observes a recorder). -/
theorem C07_swap_on_copy_keeps_shared_cell (s : St) (sched : List Nat) : (run false s sched).cell = s.cell :=
  run_private_cell s sched

open Gorm.SharedCell in
/-- The same protocol IN PLACE is only correct without overlap: after any schedule in which every goroutine's two steps are
  adjacent, the cell holds the handle's own value again … -/
theorem C07_swap_in_place_serial_restores (ts : List Nat) : (run true init (serialSched ts)).cell = 0 :=
  (quiet_serial init ts quiet_init).1

open Gorm.SharedCell in
/-- … but two overlapping executions (goroutine 0 enters first and leaves first) leave goroutine 0's throw-away recorder
  installed for good, and in between goroutine 0 sees goroutine 1's recorder. -/
theorem C07_swap_in_place_overlap_counterexample :
    (run true init [0, 1, 0, 1]).cell = 1 ∧ (run true init [0, 1]).cell = 2 := by decide

open Gorm.SharedCell in
/-- WHAT HOLDS FOR THE CURRENT SOURCE TREE (decided by the regenerated fact): DB.Scan swaps on a private Config and the
  shared logger is constant under every schedule — or it swaps in place and the overlap counterexample applies. -/
theorem C07_scan_logger_current_tree :
    (scanSwapsInPlace = false ∧ ∀ (s : St) (sched : List Nat), (run scanSwapsInPlace s sched).cell = s.cell) ∨
    (scanSwapsInPlace = true ∧ (run scanSwapsInPlace init [0, 1, 0, 1]).cell = 1) := by
  cases h : scanSwapsInPlace with
  | false => exact Or.inl ⟨rfl, fun s sched => run_private_cell s sched⟩
  | true => exact Or.inr ⟨rfl, by decide⟩

open Gorm.LockMap in
/-- Mutual exclusion per map: if values that share a map share the lock (`Guarded`, what `C07_lock_guards_its_map` establishes
  at every construction site), then under every schedule no two goroutines are inside their critical sections on the same
  map at the same time. -/
theorem C07_guarded_map_exclusive (acc : Nat → Acc) (hg : Guarded acc) (sched : List Nat) (t1 t2 : Nat) (hne : t1 ≠ t2)
    (h1 : (run acc init sched).inCS t1 = true) (h2 : (run acc init sched).inCS t2 = true) : (acc t1).map ≠ (acc t2).map := by
  intro hm
  have hi := inv_run acc init sched (inv_init acc)
  have e1 := hi t1 h1
  have e2 := hi t2 h2
  rw [hg t1 t2 hm, e2] at e1
  exact hne (Option.some.inj e1).symm

open Gorm.LockMap in
/-- Without the discipline (same map, a fresh lock per value) two goroutines are in the map at once after two steps. -/
theorem C07_unguarded_map_counterexample :
    let acc : Nat → Acc := fun t => ⟨t, 7⟩
    (run acc init [0, 1]).inCS 0 = true ∧ (run acc init [0, 1]).inCS 1 = true ∧ (acc 0).map = (acc 1).map := by decide

open Gorm.LockMap in
/-- non-vacuity of `Guarded`: three goroutines, two maps, one lock per map; goroutines 0 and 2 (different maps) do overlap -/
example : Guarded (fun t => ⟨t % 2, t % 2⟩) ∧
    (run (fun t => ⟨t % 2, t % 2⟩) init [0, 1, 2]).inCS 0 = true ∧ (run (fun t => ⟨t % 2, t % 2⟩) init [0, 1, 2]).inCS 1 = true ∧
    (run (fun t => ⟨t % 2, t % 2⟩) init [0, 1, 2]).inCS 2 = false := by
  refine ⟨fun t1 t2 h => h, ?_, ?_, ?_⟩ <;> decide

/-- a model whose only relation field is invalid -/
def scCfgBad : Cfg := [[⟨0, false, true⟩]]

/-- Why `single_winner` speaks about error-free returns only: after a failed parse the entry is deleted and the next
  caller builds a second schema object for the same type (both are returned, each with an error). -/
theorem C07_error_reparse_example :
    ∃ r1 ∈ (scReach scCfgBad [[0, 0]] (List.replicate 24 0)).rets,
    ∃ r2 ∈ (scReach scCfgBad [[0, 0]] (List.replicate 24 0)).rets,
      r1.ty = r2.ty ∧ r1.obj ≠ r2.obj ∧ r1.err = true ∧ r2.err = true := by
  refine ⟨⟨0, 0, 1, true, false, true, 0⟩, ?_, ⟨0, 0, 0, true, false, true, 0⟩, ?_, ?_⟩ <;> decide +kernel

/-- non-vacuity: a schedule on the cyclic graph in which both goroutines finish, returning the single winners -/
example : (scReach scCfgAB [[0, 1], [1, 0]] (List.replicate 40 0 ++ List.replicate 40 1)).rets.length = 5 := by decide +kernel

/-! ### operations that FAIL concurrently (round 3): waiters on a failed `PrepareContext`, waiters on a failed schema parse

  C14's LTS of the statement cache (`Model.StmtCache`: lookup / publish / wait / prepare fails / delete / close channel) is
  imported, not duplicated.  `Model.StmtWait` puts the one thing C14's `.waiting` step hard-wires — the test of
  `stmt.prepareErr` after `<-stmt.prepared` — under the regenerated `Gen.waitSites`, separately for the entry found under
  `RLock` (fast path) and under `Lock` (double check). -/

open Gorm.SW Gorm.SC in
/-- WAIT SITES (regenerated from prepare_stmt.go on every run).  `prepare` waits on `<-stmt.prepared` at exactly two places,
    the first after the `RLock` lookup, the second after the `Lock` lookup; each is followed by
    `if stmt.prepareErr != nil { return Stmt{}, stmt.prepareErr }` for the very variable it waited on and returns `*stmt`
    otherwise; the only other waits on `prepared` are the closer goroutines of `Close`/`Reset`, which test `s.Stmt != nil`
    before they close; and all six callers of `prepare` touch the statement only under `if err == nil`.  Hence the
    configuration of the current tree is the checked one. -/
theorem C07_prepare_wait_sites_checked :
    ((Gen.waitSites.filter fun w => w.chan == "prepared" && !w.inGo).map fun w => (w.fn, w.branch, siteChecked w)) =
      [("PreparedStmtDB.prepare", "RLock", true), ("PreparedStmtDB.prepare", "Lock", true)] ∧
    ((Gen.waitSites.filter fun w => w.chan == "prepared" && w.inGo).all fun w =>
      w.after == "if-nil-guard" && w.errField == "Stmt" && w.errOf == w.recv) = true ∧
    (Gen.prepareCallSites.map (·.fn) =
      ["PreparedStmtDB.ExecContext", "PreparedStmtDB.QueryContext", "PreparedStmtDB.QueryRowContext",
       "PreparedStmtTX.ExecContext", "PreparedStmtTX.QueryContext", "PreparedStmtTX.QueryRowContext"] ∧
     (Gen.prepareCallSites.all fun c => c.guard == "if-err-nil") = true) ∧
    genWCfg = allChecked := by
  decide

/-- WAIT SITES of the schema cache (regenerated from schema/schema.go): `ParseWithSpecialTableName` waits on
    `<-s.initialized` at exactly three places (first lookup, second lookup, `LoadOrStore` loser) and each is followed by
    `return s, s.err` — the schema it WAITED for (not its own private copy) together with THAT schema's error. -/
theorem C07_schema_wait_sites_return_waited_schema_and_error :
    (Gen.waitSites.filter fun w => w.chan == "initialized").map (fun w => (w.file, w.fn, w.inGo)) =
      [("schema/schema.go", "ParseWithSpecialTableName", false), ("schema/schema.go", "ParseWithSpecialTableName", false),
       ("schema/schema.go", "ParseWithSpecialTableName", false)] ∧
    ((Gen.waitSites.filter fun w => w.chan == "initialized").all fun w =>
      w.after == "return-with-err" && w.errField == "err" && w.errOf == w.recv && w.retVal == w.recv) = true := by
  decide

/-- COMPLETION SITES (regenerated): the builder of a cache entry tells its waiters that it is done on EVERY return path — the only
    `close(cacheStmt.prepared)` and the only `close(schema.initialized)` are unconditional `defer` statements — and the
    preparation error is published (`cacheStmt.prepareErr = err`, under `if err != nil`) in the function whose deferred close
    releases the waiters.  Without the first, waiters on a failed build block forever; without the second they see "no error". -/
theorem C07_completion_published_on_every_path :
    (Gen.completionSites.filter fun d => d.kind == "close").map (fun d => (d.fn, d.target, d.deferred, d.guard)) =
      [("PreparedStmtDB.prepare", "cacheStmt.prepared", true, ""), ("ParseWithSpecialTableName", "schema.initialized", true, "")] ∧
    (Gen.completionSites.filter fun d => d.kind == "seterr").map (fun d => (d.fn, d.target, d.guard)) =
      [("PreparedStmtDB.prepare", "cacheStmt.prepareErr = err", "err!=nil")] := by
  decide

open Gorm.SW Gorm.SC in
/-- LOCAL STEP, both lookup branches.  A goroutine whose wait on entry `e` is over (`prepared` closed) and whose preparer
    FAILED: if the wait site it went through tests `prepareErr`, its next step returns the preparation error; if not, it
    returns `*stmt, nil` with a nil `*sql.Stmt` and the caller's `stmt.ExecContext` / `QueryContext` dereferences it. -/
theorem C07_failed_wait_step (w : WSt) (t e v : Nat) (q : Text) (tx : Bool) (a : Ans) (ht : t < w.base.nT)
    (hop : (w.base.threads t).op = .use v q tx) (hpc : (w.base.threads t).pc = .waiting e)
    (hp : (w.base.entries e).prepared = true) (herr : (w.base.entries e).err = true) :
    (checked w.wcfg (w.via t) = true → wact w (.thr t a) = some { w with base := finish w.base t .prepErr }) ∧
    (checked w.wcfg (w.via t) = false → wact w (.thr t a) = some { w with base := finish w.base t .nilStmt }) := by
  constructor <;> intro hc <;> simp [wact, ht, wtstep, hop, hpc, unchecked, hp, herr, hc, tstep, stepUse]

open Gorm.SW Gorm.SC in
/-- FAILED PREPARE, ALL INTERLEAVINGS, BOTH BRANCHES.  With both wait sites checked: after ANY schedule of any program (any
    number of goroutines, texts, `PreparedStmtDB` structs, transactions, Reset/Close), for every entry whose
    `PrepareContext` failed, every operation that resolved to it — found under `RLock` or in the double check under `Lock`,
    or published it — and has returned, returned the PREPARATION ERROR: none returned rows, none left with a nil statement.
    (Refinement `wrun_base` onto C14's LTS + C14's failure-broadcast invariant `FB`.) -/
theorem C07_failed_prepare_every_waiter_gets_error (ops : List Op) (nV : Nat) (cfg : SC.Cfg) (sched : List Act)
    (hw : wfOps ops nV) (e : Nat) :
    let w := wrun (winit ops nV cfg allChecked) sched
    e < w.base.nE → (w.base.entries e).err = true →
      ∀ t r, (w.base.threads t).ent = some e → result w.base t = some r →
        r = .prepErr ∧ r ≠ .rows ∧ r ≠ .nilStmt := by
  intro w he herr t r hent hres
  have hb : w.base = run (init ops nV cfg) sched := wrun_base (winit ops nV cfg allChecked) rfl sched
  rw [hb] at he herr hent hres
  have := SW.failure_broadcast ops nV cfg sched hw e he herr t r hent hres
  subst this
  exact ⟨rfl, by decide, by decide⟩

open Gorm.SW Gorm.SC in
/-- non-vacuity: the double-check interleaving (G0 and G1 both miss under RLock, G0 publishes, G1 finds the entry under Lock,
    G0's prepare fails) and the fast-path interleaving (G1 arrives after G0 published); the waiter went through the
    respective branch and returns the preparation error -/
example :
    (let w := wrun (winit [.use 0 0 false, .use 0 0 false] 1 {} allChecked)
       [.thr 0 .ok, .thr 1 .ok, .thr 0 .ok, .thr 1 .ok, .thr 0 .err, .thr 0 .ok, .thr 0 .ok, .thr 1 .ok]
     w.via 1 = .double ∧ (w.base.entries 0).err = true ∧ (w.base.threads 1).ent = some 0 ∧
     result w.base 0 = some .prepErr ∧ result w.base 1 = some .prepErr) ∧
    (let w := wrun (winit [.use 0 0 false, .use 0 0 false] 1 {} allChecked)
       [.thr 0 .ok, .thr 0 .ok, .thr 1 .ok, .thr 0 .err, .thr 0 .ok, .thr 0 .ok, .thr 1 .ok]
     w.via 1 = .fast ∧ (w.base.threads 1).ent = some 0 ∧ result w.base 1 = some .prepErr) := by decide

open Gorm.SW Gorm.SC in
/-- F31 at model level (kernel-checked): goroutine 1 receives ONLY `ok` answers from its driver — alone its statement is
    prepared and executed — but it found goroutine 0's in-progress entry, goroutine 0's `PrepareContext` failed (its context
    was cancelled), and goroutine 1 returns THAT preparation error.  The full statement "each returns the same result as when it
    runs alone" fails on this schedule. -/
theorem C07_prepare_error_broadcast_counterexample :
    let sched : List Act := [.thr 0 .ok, .thr 0 .ok, .thr 1 .ok, .thr 0 .err, .thr 0 .ok, .thr 0 .ok, .thr 1 .ok]
    let w := wrun (winit [.use 0 0 false, .use 0 0 false] 1 {} allChecked) sched
    (sched.all fun a => match a with | .thr 1 x => x == .ok | _ => true) = true ∧
    result w.base 1 = some .prepErr ∧ (w.base.threads 1).ent = some 0 ∧ (w.base.entries 0).owner = 0 ∧
    result (wrun (winit [.use 0 0 false] 1 {} allChecked) (List.replicate 8 (.thr 0 .ok))).base 0 = some .rows := by
  decide

open Gorm.SW Gorm.SC in
/-- OUTSIDE THE F31 PATTERN (extra hypothesis = its negation: the operation is the preparer of the entry it resolved to, or that
    entry's preparation did not fail): after ANY schedule an operation reports a preparation error only if it is the goroutine
    whose OWN `PrepareContext` failed — exactly what it reports when it runs alone with that driver answer. -/
theorem C07_prepare_error_own_partial (ops : List Op) (nV : Nat) (cfg : SC.Cfg) (sched : List Act) (t e : Nat) (r : Res) :
    let w := wrun (winit ops nV cfg allChecked) sched
    (w.base.threads t).ent = some e → result w.base t = some r →
    ((w.base.entries e).owner = t ∨ (w.base.entries e).err = false) →
    r = .prepErr → (w.base.entries e).owner = t ∧ (w.base.entries e).err = true := by
  intro w hent hres hpat hr
  have hb : w.base = run (init ops nV cfg) sched := wrun_base (winit ops nV cfg allChecked) rfl sched
  rw [hb] at hent hres hpat ⊢
  have hT := (inv1_reachable ops nV cfg sched).1.1 t
  unfold result at hres
  split at hres
  next r' hpc =>
    have hrr : r' = r := by simpa using hres
    have herr : ((run (init ops nV cfg) sched).entries e).err = true :=
      ((hT.2.2.2.2.2.2.2.2 r' hpc e hent).2.2).mpr (by rw [hrr]; exact hr)
    rcases hpat with h | h
    · exact ⟨h, herr⟩
    · rw [h] at herr; cases herr
  next => cases hres

open Gorm.SC in
/-- F32 at model level (kernel-checked): goroutines 0 and 1 both hold their copy of the cached statement; the driver answers
    goroutine 0's execution with `driver.ErrBadConn`; 0 evicts the entry and its `go stmt.Close()` runs; goroutine 1 then
    executes a CLOSED statement and returns "sql: statement is closed" — alone, with the same broken connection, it returns
    `driver.ErrBadConn` like goroutine 0. -/
theorem C07_badconn_eviction_closes_held_counterexample :
    let cfg : SC.Cfg := { guardFail := true, guardEvict := true }
    let s := SC.run (SC.init [.use 0 0 false, .use 0 0 false] 1 cfg)
      (List.replicate 5 (.thr 0 .ok) ++ List.replicate 2 (.thr 1 .ok) ++ [.thr 0 .ok, .thr 0 .bad, .thr 0 .ok, .closeH 0, .thr 1 .ok])
    SC.result s 0 = some .badConn ∧ SC.result s 1 = some .stmtClosed ∧
    SC.result (SC.run (SC.init [.use 0 0 false] 1 cfg) (List.replicate 6 (.thr 0 .ok) ++ [.thr 0 .bad, .thr 0 .ok])) 0 = some .badConn := by
  decide

open Gorm.SW Gorm.SC in
/-- OUTSIDE THE F32 PATTERN (extra hypothesis = its negation: no operation has returned `ErrBadConn`, and no Reset/Close ran —
    the F14a/F14c patterns of C14): in every state reachable by any schedule a goroutine that holds a statement of the pool
    executes it, whatever the driver then answers — it never sees "sql: statement is closed".  (C14's invariants `Inv3`.) -/
theorem C07_held_statement_executes_partial (ops : List Op) (nV : Nat) (cfg : SC.Cfg) (sched : List Act) (hw : wfOps ops nV) :
    let s := (wrun (winit ops nV cfg allChecked) sched).base
    ∀ t v q e h a, t < s.nT → (s.threads t).op = .use v q false → (s.threads t).pc = .ready e h →
      ¬ rcDone s → ¬ badDone s → act s (.thr t a) = some (setPc s t (.using e h)) := by
  intro s
  have hb : s = run (init ops nV cfg) sched := wrun_base (winit ops nV cfg allChecked) rfl sched
  rw [hb]
  obtain ⟨h2, h3⟩ := inv3_reachable ops nV cfg hw sched
  obtain ⟨_, hRC, hBC, hCL, hUT⟩ := h3
  intro t v q e h a ht hop hpc hnr hnb
  have h7 := (h2.1.1.1 t).2.2.2.2.2.2.1 e h (Or.inl hpc)
  have htx : ((run (init ops nV cfg) sched).entries e).tx = false := (hUT t e h7.2.2.2.2).2 v q hop
  have hh := h2.2.2.2.1.2 e h h7.1 h7.2.2.2.1
  have hh1 := h2.2.2.2.1.1 h hh.1
  rw [hh.2] at hh1
  have hhtx : ((run (init ops nV cfg) sched).handles h).tx = false := by rw [← hh1.2.2.1]; exact htx
  have hcl : ((run (init ops nV cfg) sched).handles h).closed = false := by
    cases hc : ((run (init ops nV cfg) sched).handles h).closed with
    | false => rfl
    | true =>
      rcases hCL h hh.1 hhtx hc with c | c
      · exact absurd (hBC h hh.1 c) hnb
      · rw [hh.2] at c; exact absurd (hRC e h7.1 c) hnr
  simp [act, ht, tstep, hop, hpc, stepUse, hcl]

/-- the double-check schedule: both goroutines miss under RLock, 0 publishes, 1 finds the entry under Lock, 0's prepare fails -/
def swSchedDouble : List SC.Act :=
  [.thr 0 .ok, .thr 1 .ok, .thr 0 .ok, .thr 1 .ok, .thr 0 .err, .thr 0 .ok, .thr 0 .ok, .thr 1 .ok]

/-- the fast-path schedule: 0 publishes, 1 finds the entry under RLock, 0's prepare fails -/
def swSchedFast : List SC.Act :=
  [.thr 0 .ok, .thr 0 .ok, .thr 1 .ok, .thr 0 .err, .thr 0 .ok, .thr 0 .ok, .thr 1 .ok]

open Gorm.SW Gorm.SC in
/-- WHAT EACH TEST IS NEEDED FOR (kernel-checked schedules): without the test after the double-check wait, the goroutine that
    found the failing entry under `Lock` leaves with a nil statement while the preparer and a later fast-path goroutine get
    the error — every serial caller still sees the driver's error; symmetrically for the fast path. -/
theorem C07_unchecked_wait_counterexample :
    (∀ b : Bool, let w := wrun (winit [.use 0 0 false, .use 0 0 false] 1 {} { errFast := b, errDouble := false }) swSchedDouble
       result w.base 0 = some .prepErr ∧ result w.base 1 = some .nilStmt) ∧
    (∀ b : Bool, let w := wrun (winit [.use 0 0 false, .use 0 0 false] 1 {} { errFast := false, errDouble := b }) swSchedFast
       result w.base 0 = some .prepErr ∧ result w.base 1 = some .nilStmt) ∧
    (let w := wrun (winit [.use 0 0 false] 1 {} { errFast := false, errDouble := false }) (List.replicate 6 (.thr 0 .err));
     result w.base 0 = some .prepErr) := by
  refine ⟨?_, ?_, ?_⟩
  · intro b; cases b <;> decide
  · intro b; cases b <;> decide
  · decide

open Gorm.SW Gorm.SC in
/-- WHAT HOLDS FOR THE CURRENT SOURCE TREE, decided by the regenerated wait-site facts (`genWCfg`): either both wait sites
    test `prepareErr` and every waiter on a failed prepare returns the error under every schedule, or one does not and on
    this very configuration a two-goroutine schedule ends with a nil-statement dereference. -/
theorem C07_failed_prepare_current_tree :
    (genWCfg = allChecked ∧
      ∀ (ops : List Op) (nV : Nat) (cfg : SC.Cfg) (sched : List Act), wfOps ops nV → ∀ e,
        e < (wrun (winit ops nV cfg genWCfg) sched).base.nE → ((wrun (winit ops nV cfg genWCfg) sched).base.entries e).err = true →
        ∀ t r, ((wrun (winit ops nV cfg genWCfg) sched).base.threads t).ent = some e →
          result (wrun (winit ops nV cfg genWCfg) sched).base t = some r → r = .prepErr)
    ∨ ((genWCfg.errFast = false ∨ genWCfg.errDouble = false) ∧
       ∃ (sched : List Act), result (wrun (winit [.use 0 0 false, .use 0 0 false] 1 {} genWCfg) sched).base 1 = some .nilStmt) := by
  cases hcfg : genWCfg with
  | mk a b =>
    cases a with
    | false =>
      right
      exact ⟨Or.inl rfl, swSchedFast, (C07_unchecked_wait_counterexample.2.1 b).2⟩
    | true =>
      cases b with
      | false =>
        right
        exact ⟨Or.inr rfl, swSchedDouble, (C07_unchecked_wait_counterexample.1 true).2⟩
      | true =>
        left
        refine ⟨rfl, fun ops nV cfg sched hw e he herr t r hent hres => ?_⟩
        exact (C07_failed_prepare_every_waiter_gets_error ops nV cfg sched hw e he herr t r hent hres).1


/-! ## Round 4 — the shared handle's own Statement, package-level state, the cached schema after its parse

  `Model.SharedStmt`: goroutines start operations through ONE handle that carries clauses (Order, Where, …).  Each clones the
  handle's Statement (getInstance) and builds its query from the clone; `Count` temporarily strips ORDER BY.  Regenerated
  facts (Gen.SharedState, go/types over gorm's packages) say whether any *DB method writes through its RECEIVER
  (`C07_receiver_statement_never_written`), whether any package keeps mutable state at package level
  (`C07_package_state_immutable_or_synchronised`) and whether anything outside the parse phase writes into a cached schema
  (`C07_cached_schema_written_only_while_parsing`, …) — all three in `Lemmas/SharedState.lean`. -/

open Gorm.SharedStmt in
/-- STRIP ON THE INSTANCE.  When Count strips / restores ORDER BY on its own instance, then under EVERY schedule of any number of
  goroutines (any mix of Count and other finishers) the shared handle's clause map is never written … -/
theorem C07_count_on_instance_keeps_handle (isCount : Nat → Bool) (s : St) (sched : List Nat) :
    (run false isCount s sched).base = s.base :=
  run_instance_base isCount s sched

open Gorm.SharedStmt in
/-- … and every other operation builds its statement from exactly the clauses the handle carries — the ones it would use when
  it runs alone (same ORDER BY, hence the same rows in the same order). -/
theorem C07_count_on_instance_others_unaffected (isCount : Nat → Bool) (b : List Nat) (sched : List Nat) (t : Nat)
    (ht : isCount t = false) (l : List Nat) (hl : ((run false isCount (init b) sched).ths t).built = some l) : l = b :=
  ((inv_run isCount b (init b) sched (inv_init isCount b)).2 t ht).2 l hl

open Gorm.SharedStmt in
/-- STRIP ON THE RECEIVER.  Goroutine 0 runs Count, goroutine 1 a Find through the same ordered handle (clauses ORDER BY = 0 and
  WHERE = 1): if Count works on the receiver, the Find that clones between strip and restore is built WITHOUT ORDER BY, and
  while Count is in flight the handle itself has lost the clause; run one after the other both are as alone (which is why a
  sequential test suite cannot see it). -/
theorem C07_count_on_receiver_counterexample :
    let k : Nat → Bool := fun t => t == 0
    ((run true k (init [0, 1]) [0, 0, 1, 1]).ths 1).built = some [1] ∧
    (run true k (init [0, 1]) [0, 0]).base = [1] ∧
    ((run true k (init [0, 1]) [0, 0, 0, 0, 1, 1]).ths 1).built = some [0, 1] ∧
    (run true k (init [0, 1]) [0, 0, 0, 0, 1, 1]).base = [0, 1] := by decide

open Gorm.SharedStmt in
/-- WHAT HOLDS FOR THE CURRENT SOURCE TREE (decided by the regenerated fact Gen.recvWrites): Count strips on its instance and the
  handle is constant under every schedule — or it strips on the receiver and the counterexample schedule applies. -/
theorem C07_count_strip_current_tree :
    (countStripsOnReceiver = false ∧ ∀ (k : Nat → Bool) (s : St) (sched : List Nat), (run countStripsOnReceiver k s sched).base = s.base) ∨
    (countStripsOnReceiver = true ∧ ((run countStripsOnReceiver (fun t => t == 0) (init [0, 1]) [0, 0, 1, 1]).ths 1).built = some [1]) := by
  cases h : countStripsOnReceiver with
  | false => exact Or.inl ⟨rfl, fun k s sched => run_instance_base k s sched⟩
  | true => exact Or.inr ⟨rfl, by decide⟩

/-- non-vacuity: a reader that ran to completion did build from the handle's clauses -/
example : ((Gorm.SharedStmt.run false (fun t => t == 0) (Gorm.SharedStmt.init [0, 1]) [0, 0, 1, 1, 0, 0]).ths 1).built = some [0, 1] := by decide



/-! ### Round 5 — lists carried by the shared handle (append aliasing), gorm's own logger

  A chain method called on a shared Session handle runs on the per-call instance `Statement.clone` made and APPENDS to the lists
  that instance carries (`joins`, `Scopes`; the clause lists go through MergeClause).  Whether that append writes memory the
  shared handle and every sibling instance read is decided by (1) the Go rule for append (Model.SliceAlias) and (2) whether
  clone hands out a private exactly-sized copy (regenerated Gen.CloneFacts) or the chain method allocates itself
  (regenerated Gen.SharedAppend). -/

open Gorm.SliceAlias in
/-- A chain that starts from clone's private exactly-sized copy leaves every slice that existed before — the shared handle's
  list, every sibling instance's list — as it was: for every heap, list length / capacity, number of appended values and
  growth policy. -/
theorem C07_derived_append_leaves_shared (grow : Nat → Nat) (h : Heap) (s : Sl) (vs : List Nat) (t : Sl) (ht : t.arr < h.length) :
    view (derive true grow h s vs).1 t = view h t := by
  unfold view
  rw [derive_copied_keeps_heap grow h s vs t.arr ht]

open Gorm.SliceAlias in
/-- Without the copy (`Joins: stmt.Joins`) and with spare capacity (len 3, cap 4 — three successive Joins calls): goroutine A
  appends 7, goroutine B appends 9 through the same handle, and A's own list now ends in B's value. -/
theorem C07_shared_append_counterexample :
    let h0 : Heap := [[1, 2, 3, 0]]
    let s : Sl := ⟨0, 3, 4⟩
    let a := derive false (fun _ => 0) h0 s [7]
    let b := derive false (fun _ => 0) a.1 s [9]
    view a.1 a.2 = [1, 2, 3, 7] ∧ view b.1 a.2 = [1, 2, 3, 9] ∧ view b.1 b.2 = [1, 2, 3, 9] := by decide

open Gorm.SliceAlias in
/-- … and with an exactly-sized shared list (len = cap) even the shared variant is harmless: the reason handles with 0, 1, 2, 4, 8
  one-by-one entries hide the fault (non-vacuity of the capacity dimension). -/
example : let h0 : Heap := [[1, 2, 3, 4]]
    let s : Sl := ⟨0, 4, 4⟩
    let a := derive false (fun _ => 0) h0 s [7]
    let b := derive false (fun _ => 0) a.1 s [9]
    view b.1 a.2 = [1, 2, 3, 4, 7] := by decide

open Gorm.Gen in
/-- OBLIGATION (current tree): every `X = append(X, …)` of a chain method (chainable_api.go) on a slice field of Statement either
  extends a list the same call allocated, or a field Statement.clone copies with make+copy. -/
theorem C07_chain_appends_private :
    ∀ s ∈ stmtAppendSites, s.file = "chainable_api.go" → c07AppendSafe s = true := by decide

open Gorm.Gen in
/-- the fields the chain methods append to in place are exactly Joins and scopes, and clone copies both (and Vars) -/
theorem C07_clone_copies_appended_lists :
    ((stmtAppendSites.filter (fun s => s.file == "chainable_api.go" && !s.fresh)).map (·.field)).eraseDups = ["Joins", "scopes"]
      ∧ c07CloneCopies "Joins" = true ∧ c07CloneCopies "scopes" = true ∧ c07CloneCopies "Vars" = true
      ∧ ¬ ("Joins" ∈ cloneLiteral.map (·.1)) ∧ ¬ ("scopes" ∈ cloneLiteral.map (·.1)) := by decide

open Gorm.Gen in
/-- outside the chain methods the only append to a list clone does NOT copy is Save's `Selects = append(Selects, "*")`, under the
  guard `!selectedUpdate` (= the list is empty) -/
theorem C07_unsafe_append_sites_pinned :
    (stmtAppendSites.filter (fun s => !c07AppendSafe s)).map (fun s => (s.fn, s.field, s.conds))
      = [("DB.Save", "Selects", ["!selectedUpdate"])] := by decide

open Gorm.Gen in
theorem C07_appended_fields_are_statement_slices : ∀ s ∈ stmtAppendSites, s.field ∈ stmtSliceFields := by decide

open Gorm.Gen in
/-- package clause: every append inside a MergeClause extends a local the method made with make(…) (a private copy of the
  handle's clause list), and the clause lists that grow by merging have a MergeClause -/
theorem C07_merge_appends_on_private_copy :
    (∀ m ∈ mergeAppendSites, m.2.2 = true) ∧ (∀ t ∈ ["Where", "OrderBy", "GroupBy", "Returning", "Set"], t ∈ mergeClauseTypes) := by decide

open Gorm.Gen in
/-- the mode the tree is in (what suite `extfork` ties at run time: cap == len and a private array on every clone) -/
theorem C07_shared_append_current_tree : c07ChainAppendsCopied = true := by decide

open Gorm.Gen in
/-- package logger: no method of `*logger` writes a field of its receiver (the receiver is the logger every goroutine of the handle —
  for logger.Default: of the process — reads in Trace); the only receiver writes are traceRecorder.Trace's, on the private
  recorder `traceRecorder.New` returns -/
theorem C07_logger_methods_keep_receiver :
    (∀ w ∈ loggerRecvWrites, w.1 = "traceRecorder" ∧ w.2.1 = "Trace") ∧ "logger.LogMode" ∈ loggerPtrMethods ∧ "logger.Trace" ∈ loggerPtrMethods := by decide

open Gorm.Gen in
example : (stmtAppendSites.filter (fun s => s.file == "chainable_api.go")).length ≥ 3 ∧ mergeAppendSites.length ≥ 3 := by decide

end Gorm
