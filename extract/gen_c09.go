package main

// C09 fact generator: where, in the handler closures of callbacks/update.go `Update` and callbacks/delete.go `Delete`,
// do the call of checkMissingWhereConditions, the statement build and every driver call sit — as PATHS through the
// statement tree of the closure body, so that Lean can decide domination ("the guard is an unconditional statement of
// a block; the driver call lies in a LATER statement of that very block, inside the THEN branch of an `if` one of
// whose conjuncts is `db.Error == nil`") for EVERY branch, including the RETURNING / QueryContext one.

import (
	"fmt"
	"go/ast"
	"strings"
)

func init() {
	extraGens = append(extraGens, func(o *out, pkgs map[string]map[string]*ast.File, all []funcInfo, repo string) {
		genGuardFacts(o, all)
	})
}

type c09Step struct {
	idx    int
	branch string
	conds  []string
}

type c09Call struct {
	kind, what string
	path       []c09Step
}

var c09DriverMethods = map[string]bool{"ExecContext": true, "QueryContext": true, "QueryRowContext": true, "PrepareContext": true,
	"Exec": true, "Query": true, "QueryRow": true, "Prepare": true}

func c09Conj(e ast.Expr) []string {
	var out []string
	for _, c := range andConjuncts(e) {
		out = append(out, src(c))
	}
	return out
}

type c09Walker struct {
	calls []c09Call
}

func (w *c09Walker) expr(n ast.Node, path []c09Step) {
	if n == nil {
		return
	}
	ast.Inspect(n, func(x ast.Node) bool {
		switch v := x.(type) {
		case *ast.FuncLit:
			p := append(append([]c09Step{}, path...), c09Step{0, "func", nil})
			w.block(v.Body.List, p)
			return false
		case *ast.CallExpr:
			kind, what := "", ""
			switch f := v.Fun.(type) {
			case *ast.SelectorExpr:
				if c09DriverMethods[f.Sel.Name] && strings.Contains(src(f.X), "ConnPool") {
					kind, what = "driver", f.Sel.Name
				} else if f.Sel.Name == "Build" && strings.HasSuffix(src(f.X), "Statement") {
					kind, what = "build", "Statement.Build"
				}
			case *ast.Ident:
				if f.Name == "checkMissingWhereConditions" {
					kind, what = "guard", f.Name
				}
			}
			if kind != "" {
				w.calls = append(w.calls, c09Call{kind, what, append([]c09Step{}, path...)})
			}
		}
		return true
	})
}

func (w *c09Walker) block(list []ast.Stmt, path []c09Step) {
	for i, s := range list {
		w.stmt(s, i, path)
	}
}

func (w *c09Walker) stmt(s ast.Stmt, i int, path []c09Step) {
	at := func(branch string, conds []string) []c09Step {
		return append(append([]c09Step{}, path...), c09Step{i, branch, conds})
	}
	switch v := s.(type) {
	case *ast.IfStmt:
		w.expr(v.Init, at("stmt", nil))
		w.expr(v.Cond, at("stmt", nil))
		conds := c09Conj(v.Cond)
		w.block(v.Body.List, at("then", conds))
		switch e := v.Else.(type) {
		case *ast.BlockStmt:
			w.block(e.List, at("else", conds))
		case *ast.IfStmt:
			w.stmt(e, 0, at("else", conds))
		}
	case *ast.BlockStmt:
		w.block(v.List, at("block", nil))
	case *ast.ForStmt:
		w.expr(v.Init, at("stmt", nil))
		w.expr(v.Cond, at("stmt", nil))
		w.expr(v.Post, at("for", nil))
		w.block(v.Body.List, at("for", nil))
	case *ast.RangeStmt:
		w.expr(v.X, at("stmt", nil))
		w.block(v.Body.List, at("for", nil))
	case *ast.SwitchStmt:
		w.expr(v.Init, at("stmt", nil))
		w.expr(v.Tag, at("stmt", nil))
		for _, c := range v.Body.List {
			if cc, ok := c.(*ast.CaseClause); ok {
				w.block(cc.Body, at("case", nil))
			}
		}
	case *ast.TypeSwitchStmt:
		for _, c := range v.Body.List {
			if cc, ok := c.(*ast.CaseClause); ok {
				w.block(cc.Body, at("case", nil))
			}
		}
	case *ast.SelectStmt:
		for _, c := range v.Body.List {
			if cc, ok := c.(*ast.CommClause); ok {
				w.block(cc.Body, at("case", nil))
			}
		}
	case *ast.LabeledStmt:
		w.stmt(v.Stmt, i, path)
	case *ast.DeferStmt:
		w.expr(v.Call, at("defer", nil))
	case *ast.GoStmt:
		w.expr(v.Call, at("go", nil))
	default:
		w.expr(s, at("stmt", nil))
	}
}

func genGuardFacts(o *out, all []funcInfo) {
	var b strings.Builder
	b.WriteString(`/-- one step of the path from the handler closure's body to a call: statement index in its block, which part of that
    statement ("stmt" = the statement itself incl. an if's init/condition, "then"/"else" + the conjuncts of the if
    condition, "for", "case", "block", "func" = body of a nested function literal, "defer", "go") -/
structure GuardStep where
  idx : Nat
  branch : String
  conds : List String
deriving DecidableEq, Repr

structure GuardCall where
  kind : String      -- "guard" (checkMissingWhereConditions) | "build" (Statement.Build) | "driver"
  what : String
  path : List GuardStep
deriving Repr

structure GuardHandler where
  name : String
  file : String
  /-- the closure body starts with ` + "`if db.Error != nil { return }`" + ` -/
  earlyReturn : Bool
  calls : List GuardCall
deriving Repr

`)
	var hs []string
	for _, want := range [][2]string{{"callbacks/update.go", "Update"}, {"callbacks/delete.go", "Delete"}} {
		for _, fi := range all {
			if fi.file != want[0] || fi.name != want[1] || fi.decl.Body == nil {
				continue
			}
			// the returned handler closure
			var lit *ast.FuncLit
			for _, s := range fi.decl.Body.List {
				if rs, ok := s.(*ast.ReturnStmt); ok && len(rs.Results) == 1 {
					if fl, ok := rs.Results[0].(*ast.FuncLit); ok {
						lit = fl
					}
				}
			}
			if lit == nil {
				continue
			}
			early := false
			if len(lit.Body.List) > 0 {
				if is, ok := lit.Body.List[0].(*ast.IfStmt); ok && is.Init == nil && is.Else == nil && len(is.Body.List) == 1 {
					if _, ok := is.Body.List[0].(*ast.ReturnStmt); ok && src(is.Cond) == "db.Error != nil" {
						early = true
					}
				}
			}
			w := &c09Walker{}
			w.block(lit.Body.List, nil)
			var cs []string
			for _, c := range w.calls {
				var ps []string
				for _, p := range c.path {
					ps = append(ps, fmt.Sprintf("{ idx := %d, branch := %s, conds := %s }", p.idx, lstr(p.branch), lstrs(p.conds)))
				}
				cs = append(cs, fmt.Sprintf("{ kind := %s, what := %s, path := [%s] }", lstr(c.kind), lstr(c.what), strings.Join(ps, ", ")))
			}
			hs = append(hs, fmt.Sprintf("  { name := %s, file := %s, earlyReturn := %s, calls := [\n      %s ] }", lstr(fi.name), lstr(fi.file), lbool(early), strings.Join(cs, ",\n      ")))
		}
	}
	b.WriteString("/-- callbacks/update.go Update and callbacks/delete.go Delete: the handler closures' guard, build and driver calls -/\ndef guardHandlers : List GuardHandler := [\n" + strings.Join(hs, ",\n") + "\n]\n")
	o.write("GuardFacts", b.String())
}
