package main

// C19 fact generator (repair of F25-C19-tosql-explicit-transaction) -> Gen/DryRunRepair.lean
//
//	beginSkipsDryRun : finisher_api.go `DB.Begin` has at least one `BeginTx` call site and EVERY one of them is dominated
//	                   (same dominance rule as Gen.txSites: enclosing ifs, early returns, boolean aliases) by a negated
//	                   test of DryRun on a handle: an atom `!<x>.DryRun` or `!<x>.Config.DryRun`
//	beginTxSites     : number of `BeginTx` call sites found in DB.Begin
//
// The fact only selects which transcription of DB.Begin the Lean model uses (Model/DryRun.lean `txReaches`); whether the
// code behaves like the selected transcription is judged by the tie suite (recorded begin/commit events vs the model,
// per pipeline x flag valuation, and the ToSQL{Transaction{Create}} probe) on every run.

import (
	"fmt"
	"go/ast"
	"regexp"
)

func init() {
	extraGens = append(extraGens, func(o *out, pkgs map[string]map[string]*ast.File, all []funcInfo, repo string) {
		genC19Repair(o, all)
	})
}

var c19NotDryAtom = regexp.MustCompile(`^!\(?[A-Za-z_][A-Za-z0-9_]*(\.Config)?\.DryRun\)?$`)

func genC19Repair(o *out, all []funcInfo) {
	sites, guarded := 0, 0
	for _, fi := range all {
		if fi.file != "finisher_api.go" || fi.name != "DB.Begin" {
			continue
		}
		walkFunc(fi, func(c *ast.CallExpr, known []string, inLit int) {
			sel, ok := c.Fun.(*ast.SelectorExpr)
			if !ok || sel.Sel.Name != "BeginTx" {
				return
			}
			sites++
			for _, g := range known {
				if c19NotDryAtom.MatchString(g) {
					guarded++
					return
				}
			}
		})
	}
	flag := sites > 0 && guarded == sites
	body := fmt.Sprintf("/-- finisher_api.go `DB.Begin`: every `BeginTx` call site is dominated by a negated DryRun test on the handle\n    (repair of F25-C19-tosql-explicit-transaction present) -/\ndef beginSkipsDryRun : Bool := %s\n\n/-- number of `BeginTx` call sites found in `DB.Begin` -/\ndef beginTxSites : Nat := %d\n", lbool(flag), sites)
	o.facts["c19BeginSkipsDryRun"] = flag
	o.write("DryRunRepair", body)
}
