package main

// C05 fact generator (moved out of main.go so that parallel work on other properties does not collide).

import (
	"fmt"
	"go/ast"
	"go/token"
	"regexp"
	"sort"
	"strings"
)

var _ = fmt.Sprintf
var _ = sort.Strings

func init() {
	extraGens = append(extraGens, func(o *out, pkgs map[string]map[string]*ast.File, all []funcInfo, repo string) {
		genTxFacts(o, all)
	})
}

// ---- C05: error sinks of the implicit transaction ---------------------------------------------------

var sentinelRe = regexp.MustCompile(`(^|\.)(Err[A-Z]\w*|EOF)$`)

// genTxFacts writes Gen/TxFacts.lean:
//
//	errorWrites    every assignment to an `.Error` field in the root and callbacks packages (association.go's
//	               Association.Error excluded): (file, func, lhs, rhs)
//	errValueTests  every place where code looks at WHICH error it has: errors.Is / errors.As calls and ==/!=
//	               comparisons against a sentinel (Err… / EOF): (file, func, expression)
//	txFuncs        DB.Begin / DB.Commit / DB.Rollback: what is handed to AddError, under which conditions
//	beginTransactionSrc, commitOrRollbackSrc   the bodies of the two transaction callbacks
func genTxFacts(o *out, all []funcInfo) {
	var b strings.Builder
	inScope := func(fi funcInfo) bool {
		if strings.Contains(fi.file, "/") && !strings.HasPrefix(fi.file, "callbacks/") {
			return false
		}
		return fi.file != "association.go"
	}
	var writes, tests []string
	for _, fi := range all {
		if !inScope(fi) {
			continue
		}
		fi := fi
		ast.Inspect(fi.decl.Body, func(n ast.Node) bool {
			switch x := n.(type) {
			case *ast.AssignStmt:
				for i, l := range x.Lhs {
					if sel, ok := l.(*ast.SelectorExpr); ok && sel.Sel.Name == "Error" {
						rhs := ""
						if len(x.Rhs) == len(x.Lhs) {
							rhs = src(x.Rhs[i])
						} else if len(x.Rhs) == 1 {
							rhs = src(x.Rhs[0])
						}
						writes = append(writes, fmt.Sprintf("(%s, %s, %s, %s)", lstr(fi.file), lstr(fi.name), lstr(src(l)), lstr(rhs)))
					}
				}
			case *ast.CallExpr:
				if sel, ok := x.Fun.(*ast.SelectorExpr); ok && src(sel.X) == "errors" && (sel.Sel.Name == "Is" || sel.Sel.Name == "As") {
					tests = append(tests, fmt.Sprintf("(%s, %s, %s)", lstr(fi.file), lstr(fi.name), lstr(src(x))))
				}
			case *ast.BinaryExpr:
				if x.Op == token.EQL || x.Op == token.NEQ {
					if sentinelRe.MatchString(src(x.X)) || sentinelRe.MatchString(src(x.Y)) {
						tests = append(tests, fmt.Sprintf("(%s, %s, %s)", lstr(fi.file), lstr(fi.name), lstr(src(x))))
					}
				}
			}
			return true
		})
	}
	b.WriteString("/-- every assignment to an `.Error` field (root + callbacks packages, association.go excluded): file, func, lhs, rhs -/\ndef errorWrites : List (String × String × String × String) := [\n  " + strings.Join(writes, ",\n  ") + "\n]\n\n")
	b.WriteString("/-- every inspection of an error VALUE (errors.Is / errors.As / comparison with a sentinel): file, func, expression -/\ndef errValueTests : List (String × String × String) := [\n  " + strings.Join(tests, ",\n  ") + "\n]\n\n")

	// DB.Begin / DB.Commit / DB.Rollback
	var hf []string
	for _, name := range []string{"DB.Begin", "DB.Commit", "DB.Rollback"} {
		for _, fi := range all {
			if fi.file != "finisher_api.go" || fi.name != name {
				continue
			}
			var calls []string
			walkFunc(fi, func(c *ast.CallExpr, known []string, inLit int) {
				kind, what := "", ""
				if f, ok := c.Fun.(*ast.SelectorExpr); ok {
					switch {
					case f.Sel.Name == "AddError" && len(c.Args) == 1:
						kind, what = "adderror", src(c.Args[0])
					case f.Sel.Name == "BeginTx":
						kind, what = "driver", "BeginTx"
					case (f.Sel.Name == "Commit" || f.Sel.Name == "Rollback") && len(c.Args) == 0:
						kind, what = "tx", f.Sel.Name
					}
				}
				if kind == "" {
					return
				}
				calls = append(calls, fmt.Sprintf("{ kind := %s, what := %s, guards := %s, inClosure := %s }", lstr(kind), lstr(what), lstrs(known), lbool(inLit > 0)))
			})
			hf = append(hf, fmt.Sprintf("  { name := %s, file := %s, calls := [\n      %s ] }", lstr(name), lstr(fi.file), strings.Join(calls, ",\n      ")))
		}
	}
	b.WriteString("/-- finisher_api.go DB.Begin / DB.Commit / DB.Rollback: pool calls and what goes to AddError, with dominating conditions -/\ndef txFuncs : List HandlerFact := [\n" + strings.Join(hf, ",\n") + "\n]\n\n")
	for _, fi := range all {
		if fi.file == "callbacks/transaction.go" && fi.name == "BeginTransaction" {
			fmt.Fprintf(&b, "def beginTransactionSrc : String := %s\n\n", lstr(src(fi.decl.Body)))
		}
		if fi.file == "callbacks/transaction.go" && fi.name == "CommitOrRollbackTransaction" {
			fmt.Fprintf(&b, "def commitOrRollbackSrc : String := %s\n\n", lstr(src(fi.decl.Body)))
		}
	}
	o.write("TxFacts", b.String())
}
