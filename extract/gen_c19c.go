package main

// C19 fact generator (round 4) -> Gen/DryRunRecv.lean
//
//	toSQLSession     gorm.go `DB.ToSQL`: the fields of EVERY `Session{…}` literal in the body (field, value), in order
//	toSQLStmts       the simple statements of the body, white space normalised, Session literals abstracted to `Session{…}` (the callback gets `db.Session(<literal>)`,
//	                 the result is `Explain` of the returned handle's Statement.SQL / Vars)
//	prepFns          prepare_stmt.go: for `prepare` and the ExecContext/QueryContext/QueryRowContext wrappers of PreparedStmtDB /
//	                 PreparedStmtTX: parameters, every write to a parameter, every call that hands the statement text or the
//	                 bound values on (prepare / PrepareContext / ExecContext / QueryContext / QueryRowContext) with its argument
//	                 expressions, and every index expression of the statement cache (`Stmts[…]`)
//	sendSites        package callbacks: the argument expressions of every ExecContext/QueryContext/QueryRowContext call
//
// These are the facts behind "the text / values a real run hands to the driver are Statement.SQL / Statement.Vars as the dry
// run exposes them, also through the prepared-statement pool" and "ToSQL's callback handle carries the receiver's statement".

import (
	"fmt"
	"go/ast"
	"go/token"
	"strings"
)

func init() {
	extraGens = append(extraGens, func(o *out, pkgs map[string]map[string]*ast.File, all []funcInfo, repo string) {
		genC19Recv(o, pkgs, all)
	})
}

func c19cNorm(s string) string { return strings.Join(strings.Fields(s), " ") }

// c19cAbstractSessionLit replaces the body of every `Session{…}` literal by `…` (its fields are reported separately)
func c19cAbstractSessionLit(s string) string {
	for from := 0; ; {
		i := strings.Index(s[from:], "Session{")
		if i < 0 {
			return s
		}
		i += from + len("Session{")
		depth, j := 1, i
		for ; j < len(s) && depth > 0; j++ {
			switch s[j] {
			case '{':
				depth++
			case '}':
				depth--
			}
		}
		if depth != 0 {
			return s
		}
		s = s[:i] + "…" + s[j-1:]
		from = i
	}
}

func c19cArgs(c *ast.CallExpr) []string {
	out := make([]string, len(c.Args))
	for i, a := range c.Args {
		out[i] = c19cNorm(src(a))
		if i == len(c.Args)-1 && c.Ellipsis != token.NoPos {
			out[i] += "..."
		}
	}
	return out
}

func c19cParams(fd *ast.FuncDecl) []string {
	var ps []string
	if fd.Type.Params != nil {
		for _, f := range fd.Type.Params.List {
			for _, n := range f.Names {
				ps = append(ps, n.Name)
			}
		}
	}
	return ps
}

func genC19Recv(o *out, pkgs map[string]map[string]*ast.File, all []funcInfo) {
	var b strings.Builder
	b.WriteString(`structure PrepCall where
  callee : String
  recv : String
  args : List String
deriving Repr, DecidableEq

structure PrepFn where
  name : String
  params : List String
  paramWrites : List String   -- parameters assigned / re-declared / address-taken inside the body
  calls : List PrepCall       -- calls handing the statement text or the bound values on
  keys : List String          -- index expressions of the statement cache
deriving Repr, DecidableEq

structure SendSite where
  fn : String
  method : String
  args : List String
deriving Repr, DecidableEq

`)
	// ---- ToSQL
	var lits [][][2]string
	var stmts []string
	if fd := findFunc(pkgs["."], "DB.ToSQL"); fd != nil {
		for _, s := range fd.Body.List {
			stmts = append(stmts, c19cAbstractSessionLit(c19cNorm(src(s))))
		}
		ast.Inspect(fd.Body, func(n ast.Node) bool {
			if cl, ok := n.(*ast.CompositeLit); ok {
				if id, ok := cl.Type.(*ast.Ident); ok && id.Name == "Session" {
					var fs [][2]string
					for _, e := range cl.Elts {
						if kv, ok := e.(*ast.KeyValueExpr); ok {
							fs = append(fs, [2]string{src(kv.Key), c19cNorm(src(kv.Value))})
						} else {
							fs = append(fs, [2]string{"?positional", c19cNorm(src(e))})
						}
					}
					lits = append(lits, fs)
				}
			}
			return true
		})
	}
	var ls []string
	for _, l := range lits {
		ls = append(ls, pairs(l))
	}
	fmt.Fprintf(&b, "/-- gorm.go `DB.ToSQL`: fields of every `Session{…}` literal of the body -/\ndef toSQLSession : List (List (String × String)) := [%s]\n\n", strings.Join(ls, ", "))
	fmt.Fprintf(&b, "/-- gorm.go `DB.ToSQL`: the statements of the body -/\ndef toSQLStmts : List String := %s\n\n", lstrs(stmts))

	// ---- prepare_stmt.go
	want := map[string]bool{"PreparedStmtDB.prepare": true,
		"PreparedStmtDB.ExecContext": true, "PreparedStmtDB.QueryContext": true, "PreparedStmtDB.QueryRowContext": true,
		"PreparedStmtTX.ExecContext": true, "PreparedStmtTX.QueryContext": true, "PreparedStmtTX.QueryRowContext": true}
	pass := map[string]bool{"prepare": true, "PrepareContext": true, "ExecContext": true, "QueryContext": true, "QueryRowContext": true}
	var rows []string
	for _, fi := range all {
		if fi.file != "prepare_stmt.go" || !want[fi.name] {
			continue
		}
		params := c19cParams(fi.decl)
		isParam := map[string]bool{}
		for _, p := range params {
			isParam[p] = true
		}
		var writes, keys, calls []string
		noteWrite := func(e ast.Expr) {
			if id, ok := e.(*ast.Ident); ok && isParam[id.Name] {
				writes = append(writes, id.Name)
			}
		}
		ast.Inspect(fi.decl.Body, func(n ast.Node) bool {
			switch x := n.(type) {
			case *ast.AssignStmt:
				for _, l := range x.Lhs {
					noteWrite(l)
				}
			case *ast.IncDecStmt:
				noteWrite(x.X)
			case *ast.RangeStmt:
				if x.Key != nil {
					noteWrite(x.Key)
				}
				if x.Value != nil {
					noteWrite(x.Value)
				}
			case *ast.ValueSpec:
				for _, nm := range x.Names {
					if isParam[nm.Name] {
						writes = append(writes, nm.Name)
					}
				}
			case *ast.UnaryExpr:
				if x.Op == token.AND {
					noteWrite(x.X)
				}
			case *ast.IndexExpr:
				if strings.HasSuffix(c19cNorm(src(x.X)), "Stmts") {
					keys = append(keys, c19cNorm(src(x.Index)))
				}
			case *ast.CallExpr:
				name, recv := c19CalleeName(x)
				if name == "delete" && len(x.Args) == 2 && strings.HasSuffix(c19cNorm(src(x.Args[0])), "Stmts") {
					keys = append(keys, c19cNorm(src(x.Args[1])))
				}
				if pass[name] {
					calls = append(calls, fmt.Sprintf("{ callee := %s, recv := %s, args := %s }", lstr(name), lstr(c19cNorm(recv)), lstrs(c19cArgs(x))))
				}
			}
			return true
		})
		rows = append(rows, fmt.Sprintf("  { name := %s, params := %s, paramWrites := %s, calls := [%s], keys := %s }",
			lstr(fi.name), lstrs(params), lstrs(writes), strings.Join(calls, ", "), lstrs(keys)))
	}
	fmt.Fprintf(&b, "/-- prepare_stmt.go: how the prepared-statement pool hands text and values on -/\ndef prepFns : List PrepFn := [\n%s\n]\n\n", strings.Join(rows, ",\n"))

	// ---- executor call sites
	var sites []string
	for _, fi := range all {
		if pkgOf(fi.file) != "callbacks" {
			continue
		}
		fi := fi
		ast.Inspect(fi.decl.Body, func(n ast.Node) bool {
			if c, ok := n.(*ast.CallExpr); ok {
				name, _ := c19CalleeName(c)
				if name == "ExecContext" || name == "QueryContext" || name == "QueryRowContext" || name == "PrepareContext" {
					sites = append(sites, fmt.Sprintf("  { fn := %s, method := %s, args := %s }", lstr(fi.name), lstr(name), lstrs(c19cArgs(c))))
				}
			}
			return true
		})
	}
	fmt.Fprintf(&b, "/-- package callbacks: what every statement-sending call hands to the pool -/\ndef sendSites : List SendSite := [\n%s\n]\n", strings.Join(sites, ",\n"))
	o.write("DryRunRecv", b.String())
}
