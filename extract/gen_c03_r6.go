package main

// C03 (round 6) fact generator: the shape of the DESTINATION-KEY block of callbacks/query.go `BuildQuerySQL` — the `if`
// that fires when the destination is a struct of the model's type and turns the key values the destination carries into
// `WHERE key = ?` conditions.  The model `Gorm.destKeyConds` (Props/C03.lean) transcribes it as "one equality per member of
// Schema.PrimaryFields whose value is non-zero, all of them ANDed"; the facts make a change of that block (another field
// list, an early exit from the loop, a different guard, a different clause) a broken proof obligation
// (C03_dest_key_block_facts); the `keyed` e2e suite judges the behaviour.
//
//	destKeyRanges     : the expressions ranged over inside the block, in source order
//	destKeyLoopExits  : some `break` / `continue` / `return` / `goto` sits inside such a loop
//	destKeyPartGuards : the conditions of the `if`s inside the loops (which parts become conditions)
//	destKeyAppends    : the expressions appended to `conds` inside the loops
//	destKeyGuards     : the conditions of the `if`s (outside the loops) under which a clause is added
//	destKeyClauses    : the arguments of the `AddClause` calls of the block

import (
	"go/ast"
	"strconv"
	"strings"
)

func init() {
	extraGens = append(extraGens, func(o *out, pkgs map[string]map[string]*ast.File, all []funcInfo, repo string) {
		genC03DestKeyFacts(o, pkgs["callbacks"])
	})
}

func genC03DestKeyFacts(o *out, cp map[string]*ast.File) {
	strip := func(n ast.Node) string { return strings.ReplaceAll(src(n), " ", "") }
	var ranges, partGuards, appends, guards, clauses []string
	exits := false
	blocks := 0
	var inLoop func(n ast.Node)
	inLoop = func(body ast.Node) {
		ast.Inspect(body, func(m ast.Node) bool {
			switch x := m.(type) {
			case *ast.BranchStmt, *ast.ReturnStmt:
				exits = true
			case *ast.IfStmt:
				partGuards = append(partGuards, strip(x.Cond))
			case *ast.CallExpr:
				if id, ok := x.Fun.(*ast.Ident); ok && id.Name == "append" && len(x.Args) >= 2 && strip(x.Args[0]) == "conds" {
					for _, a := range x.Args[1:] {
						appends = append(appends, strip(a))
					}
				}
			}
			return true
		})
	}
	var walk func(n ast.Node, guard string)
	walk = func(n ast.Node, guard string) {
		ast.Inspect(n, func(m ast.Node) bool {
			switch x := m.(type) {
			case *ast.RangeStmt:
				ranges = append(ranges, strip(x.X))
				inLoop(x.Body)
				return false
			case *ast.ForStmt:
				ranges = append(ranges, "for "+strip(x.Cond))
				inLoop(x.Body)
				return false
			case *ast.IfStmt:
				if m != n {
					adds := false
					ast.Inspect(x.Body, func(k ast.Node) bool {
						if c, ok := k.(*ast.CallExpr); ok {
							if s, ok := c.Fun.(*ast.SelectorExpr); ok && s.Sel.Name == "AddClause" {
								adds = true
							}
						}
						return true
					})
					if adds {
						guards = append(guards, strip(x.Cond))
					}
				}
			case *ast.CallExpr:
				if s, ok := x.Fun.(*ast.SelectorExpr); ok && s.Sel.Name == "AddClause" {
					for _, a := range x.Args {
						clauses = append(clauses, strip(a))
					}
				}
			}
			return true
		})
	}
	for _, f := range cp {
		for _, d := range f.Decls {
			fd, ok := d.(*ast.FuncDecl)
			if !ok || fd.Name.Name != "BuildQuerySQL" || fd.Body == nil {
				continue
			}
			ast.Inspect(fd.Body, func(n ast.Node) bool {
				is, ok := n.(*ast.IfStmt)
				if !ok {
					return true
				}
				c := strip(is.Cond)
				if strings.Contains(c, "reflect.Struct") && strings.Contains(c, "Schema.ModelType") && strings.Contains(c, "ReflectValue") {
					blocks++
					walk(is.Body, c)
					return false
				}
				return true
			})
		}
	}
	lstr := func(l []string) string {
		var qs []string
		for _, s := range l {
			qs = append(qs, "\""+strings.ReplaceAll(strings.ReplaceAll(s, "\\", "\\\\"), "\"", "\\\"")+"\"")
		}
		return "[" + strings.Join(qs, ", ") + "]"
	}
	var b strings.Builder
	b.WriteString("/-- callbacks/query.go BuildQuerySQL: number of `if`s whose condition demands a struct destination of the model's type -/\n")
	b.WriteString("def destKeyBlocks : Nat := " + strconv.Itoa(blocks) + "\n\n")
	b.WriteString("/-- the expressions ranged over inside that block, in source order -/\n")
	b.WriteString("def destKeyRanges : List String := " + lstr(ranges) + "\n\n")
	b.WriteString("/-- a `break` / `continue` / `return` / `goto` sits inside such a loop -/\n")
	b.WriteString("def destKeyLoopExits : Bool := " + lbool(exits) + "\n\n")
	b.WriteString("/-- the conditions of the `if`s inside the loops -/\n")
	b.WriteString("def destKeyPartGuards : List String := " + lstr(partGuards) + "\n\n")
	b.WriteString("/-- the expressions appended to `conds` inside the loops -/\n")
	b.WriteString("def destKeyAppends : List String := " + lstr(appends) + "\n\n")
	b.WriteString("/-- the conditions of the `if`s outside the loops under which a clause is added -/\n")
	b.WriteString("def destKeyGuards : List String := " + lstr(guards) + "\n\n")
	b.WriteString("/-- the arguments of the AddClause calls of the block -/\n")
	b.WriteString("def destKeyClauses : List String := " + lstr(clauses) + "\n")
	o.write("QueryDestKeyFacts", b.String())
	o.facts["destKeyRanges"] = ranges
	o.facts["destKeyLoopExits"] = exits
	o.facts["destKeyGuards"] = guards
	o.facts["destKeyClauses"] = clauses
}
