package main

// C20 fact generator -> Gen/MigrateOptFacts.lean
//
//   migOptSites   every `if` statement in non-test code of package migrator whose condition mentions one of the relation
//                 switches of gorm.Config (DisableForeignKeyConstraintWhenMigrating, IgnoreRelationshipsWhenMigrating):
//                 enclosing top-level function, the condition text, which switches it reads, and the names of all calls
//                 inside the guarded body (sorted, distinct)
//   migOptOther   every other syntactic occurrence of the two selectors (assignment, argument, alias, return …): the
//                 theorems require this list to be empty, because such a read escapes the condition analysis

import (
	"go/ast"
	"sort"
	"strings"
)

const (
	c20OptFK  = "DisableForeignKeyConstraintWhenMigrating"
	c20OptRel = "IgnoreRelationshipsWhenMigrating"
)

func init() {
	extraGens = append(extraGens, func(o *out, pkgs map[string]map[string]*ast.File, all []funcInfo, repo string) {
		genC20(o, pkgs["migrator"])
	})
}

func genC20(o *out, files map[string]*ast.File) {
	type site struct {
		file, fn, cond string
		fk, rel        bool
		calls          []string
	}
	var sites []site
	var other [][2]string
	var names []string
	for n := range files {
		names = append(names, n)
	}
	sort.Strings(names)
	for _, fname := range names {
		for _, d := range files[fname].Decls {
			fd, ok := d.(*ast.FuncDecl)
			if !ok || fd.Body == nil {
				continue
			}
			inCond := map[*ast.SelectorExpr]bool{}
			ast.Inspect(fd.Body, func(n ast.Node) bool {
				is, ok := n.(*ast.IfStmt)
				if !ok {
					return true
				}
				c := src(is.Cond)
				if !strings.Contains(c, c20OptFK) && !strings.Contains(c, c20OptRel) {
					return true
				}
				ast.Inspect(is.Cond, func(m ast.Node) bool {
					if se, ok := m.(*ast.SelectorExpr); ok {
						inCond[se] = true
					}
					return true
				})
				seen := map[string]bool{}
				var calls []string
				ast.Inspect(is.Body, func(m ast.Node) bool {
					if ce, ok := m.(*ast.CallExpr); ok {
						nm := ""
						switch f := ce.Fun.(type) {
						case *ast.SelectorExpr:
							nm = f.Sel.Name
						case *ast.Ident:
							nm = f.Name
						default:
							nm = "func-value"
						}
						if !seen[nm] {
							seen[nm] = true
							calls = append(calls, nm)
						}
					}
					return true
				})
				sort.Strings(calls)
				sites = append(sites, site{fname, fd.Name.Name, c, strings.Contains(c, c20OptFK), strings.Contains(c, c20OptRel), calls})
				return true
			})
			ast.Inspect(fd.Body, func(n ast.Node) bool {
				if se, ok := n.(*ast.SelectorExpr); ok && (se.Sel.Name == c20OptFK || se.Sel.Name == c20OptRel) && !inCond[se] {
					other = append(other, [2]string{fd.Name.Name, src(se)})
				}
				return true
			})
		}
	}
	var b strings.Builder
	b.WriteString(`structure OptSite where
  file : String
  fn : String          -- enclosing top-level function
  cond : String        -- the if condition
  readsFK : Bool       -- mentions DisableForeignKeyConstraintWhenMigrating
  readsRel : Bool      -- mentions IgnoreRelationshipsWhenMigrating
  calls : List String  -- names of all calls inside the guarded body (sorted, distinct)
deriving Repr, DecidableEq

def migOptSites : List OptSite := [
`)
	for i, s := range sites {
		sep := ","
		if i == len(sites)-1 {
			sep = ""
		}
		b.WriteString("  { file := " + lstr(s.file) + ", fn := " + lstr(s.fn) + ", cond := " + lstr(s.cond) + ", readsFK := " + lbool(s.fk) +
			", readsRel := " + lbool(s.rel) + ", calls := " + lstrs(s.calls) + " }" + sep + "\n")
	}
	b.WriteString("]\n\n/-- reads of the two switches outside an if condition: (function, expression) -/\ndef migOptOther : List (String × String) := [")
	for i, x := range other {
		if i > 0 {
			b.WriteString(", ")
		}
		b.WriteString("(" + lstr(x[0]) + ", " + lstr(x[1]) + ")")
	}
	b.WriteString("]\n")
	o.write("MigrateOptFacts", b.String())
}
