package main

// C15 fact generator: two syntactic facts about finisher_api.go that tell whether the repairs of the findings
// F7c-C15-limit-zero and F7e-C15-scan-keeps-dest are present in the tree that is being verified.
//
//	findInBatchesZeroLimitReturn : DB.FindInBatches contains, BEFORE its `for` loop, an `if` whose condition has
//	                               the conjunct `totalSize == 0` (the copied limit is zero; either operand order)
//	                               and whose body calls `.Find(` and returns
//	scanNoRowResetsSlice         : DB.Scan's `if rows.Next() { … } else { … }` has an else-branch that calls
//	                               `SetLen` (the slice destination is emptied when no row was read)
//
// The facts only select which transcription of the two functions the Lean model uses (Model/Batches.lean
// `findInBatchesQ`, Model/ScanLoop.lean `dbScan`); whether the code behaves like the selected transcription is
// judged by the correspondence suites on every run.

import (
	"go/ast"
	"go/token"
	"strings"
)

func init() {
	extraGens = append(extraGens, func(o *out, pkgs map[string]map[string]*ast.File, all []funcInfo, repo string) {
		genReadPathFacts(o, pkgs["."])
	})
}

func c15FindMethod(files map[string]*ast.File, name string) *ast.FuncDecl {
	for _, f := range files {
		for _, d := range f.Decls {
			fd, ok := d.(*ast.FuncDecl)
			if !ok || fd.Body == nil || fd.Name.Name != name || fd.Recv == nil || len(fd.Recv.List) != 1 {
				continue
			}
			if strings.TrimPrefix(src(fd.Recv.List[0].Type), "*") == "DB" {
				return fd
			}
		}
	}
	return nil
}

func c15HasCall(n ast.Node, sel string) bool {
	found := false
	ast.Inspect(n, func(m ast.Node) bool {
		if call, ok := m.(*ast.CallExpr); ok {
			if s, ok := call.Fun.(*ast.SelectorExpr); ok && s.Sel.Name == sel {
				found = true
			}
		}
		return true
	})
	return found
}

func c15HasReturn(n ast.Node) bool {
	found := false
	ast.Inspect(n, func(m ast.Node) bool {
		if _, ok := m.(*ast.FuncLit); ok {
			return false
		}
		if _, ok := m.(*ast.ReturnStmt); ok {
			found = true
		}
		return true
	})
	return found
}

func genReadPathFacts(o *out, root map[string]*ast.File) {
	fibFound, zeroRet := false, false
	if fd := c15FindMethod(root, "FindInBatches"); fd != nil {
		fibFound = true
		// statements that precede the first `for` of the body
		for _, st := range fd.Body.List {
			if _, ok := st.(*ast.ForStmt); ok {
				break
			}
			ast.Inspect(st, func(n ast.Node) bool {
				is, ok := n.(*ast.IfStmt)
				if !ok {
					return true
				}
				for _, c := range andConjuncts(is.Cond) {
					if be, ok := c.(*ast.BinaryExpr); ok && be.Op == token.EQL {
						x, y := src(be.X), src(be.Y)
						if (x == "totalSize" && y == "0") || (x == "0" && y == "totalSize") {
							if c15HasReturn(is.Body) && c15HasCall(is.Body, "Find") {
								zeroRet = true
							}
						}
					}
				}
				return true
			})
		}
	}
	scanFound, resets := false, false
	if fd := c15FindMethod(root, "Scan"); fd != nil {
		ast.Inspect(fd.Body, func(n ast.Node) bool {
			is, ok := n.(*ast.IfStmt)
			if !ok || src(is.Cond) != "rows.Next()" || is.Else == nil {
				return true
			}
			scanFound = true
			if c15HasCall(is.Else, "SetLen") {
				resets = true
			}
			return true
		})
	}
	var b strings.Builder
	b.WriteString("/-- finisher_api.go has a method DB.FindInBatches -/\n")
	b.WriteString("def findInBatchesFound : Bool := " + lbool(fibFound) + "\n\n")
	b.WriteString("/-- … whose preamble (before the `for` loop) contains `if … && totalSize == 0 { … .Find(…) … return … }`:\n    a stored LIMIT of exactly 0 runs one query and returns (repair of F7c-C15-limit-zero) -/\n")
	b.WriteString("def findInBatchesZeroLimitReturn : Bool := " + lbool(zeroRet) + "\n\n")
	b.WriteString("/-- finisher_api.go DB.Scan has the shape `if rows.Next() { … } else { … }` -/\n")
	b.WriteString("def scanElseBranchFound : Bool := " + lbool(scanFound) + "\n\n")
	b.WriteString("/-- … and the else-branch (no row was read) calls SetLen on the destination (repair of F7e-C15-scan-keeps-dest) -/\n")
	b.WriteString("def scanNoRowResetsSlice : Bool := " + lbool(resets) + "\n")
	o.write("ReadPathFacts", b.String())
	o.facts["findInBatchesZeroLimitReturn"] = zeroRet
	o.facts["scanNoRowResetsSlice"] = resets
}
