package main

// C17 fact generator (round 5): HOW processor.Execute walks the compiled chain, and who writes `processor.fns`.
//
//   executeLoop        "range-snapshot"  Execute contains exactly one statement that calls the compiled handlers and
//                                        it is `for _, f := range p.fns { f(db) }` (p = the receiver): Go evaluates the
//                                        range expression ONCE, the loop walks the slice VALUE the field held when the
//                                        loop started
//                      "index-live"      a 3-clause `for` whose condition or body reads `p.fns` again (`len(p.fns)`,
//                                        `p.fns[i](db)`): the run follows every compile made while it is in flight
//                      "other"           anything else (a local copy, a helper, two loops ...): not understood
//                      "missing"         no method processor.Execute
//   executeFnsReads    how many times Execute mentions the field `.fns` (1 in the pinned tree: the range expression)
//   fnsMentions        the functions of package gorm that mention a field `.fns` at all
//   fnsWriters         those that write it (assignment / op-assignment / ++ / element assignment / append target /
//                      address taken), with the statements in fnsWriteStmts
//   sortFnsFresh       sortCallbacks returns a slice built from nil: its named result `fns` is only ever the target of
//                      `fns = append(fns, <one element>)` and is mentioned nowhere else (never seeded from an input,
//                      never stored) -- every compile installs a NEW backing array, so a snapshot taken by a run in
//                      flight is never written through
//
// Model/CallbackExec.lean folds Execute over the snapshot; Props/C17.lean demands these facts
// (C17_execute_walks_snapshot_current_tree).

import (
	"go/ast"
	"go/token"
	"sort"
	"strings"
)

func init() {
	extraGens = append(extraGens, func(o *out, pkgs map[string]map[string]*ast.File, all []funcInfo, repo string) {
		genCallbackExecFacts(o, pkgs["."])
	})
}

func c17IsFnsSel(e ast.Expr) bool {
	se, ok := e.(*ast.SelectorExpr)
	return ok && se.Sel.Name == "fns"
}

// c17FnsBase: e is x.fns, x.fns[i], x.fns[i:j], (x.fns) ...
func c17FnsBase(e ast.Expr) bool {
	for {
		switch x := e.(type) {
		case *ast.ParenExpr:
			e = x.X
		case *ast.IndexExpr:
			e = x.X
		case *ast.SliceExpr:
			e = x.X
		case *ast.StarExpr:
			e = x.X
		default:
			return c17IsFnsSel(e)
		}
	}
}

func genCallbackExecFacts(o *out, root map[string]*ast.File) {
	loop, reads := "missing", 0
	var mentions, writers, writeStmts []string
	for _, fi := range funcsOf(root) {
		n := 0
		ast.Inspect(fi.decl.Body, func(x ast.Node) bool {
			if e, ok := x.(ast.Expr); ok && c17IsFnsSel(e) {
				n++
			}
			return true
		})
		if n == 0 {
			continue
		}
		mentions = append(mentions, fi.name)
		wrote := false
		ast.Inspect(fi.decl.Body, func(x ast.Node) bool {
			switch st := x.(type) {
			case *ast.AssignStmt:
				hit := false
				for _, l := range st.Lhs {
					if c17FnsBase(l) {
						hit = true
					}
				}
				for _, r := range st.Rhs { // `y = append(p.fns[:0], …)` writes through the old backing array
					ast.Inspect(r, func(y ast.Node) bool {
						if c, ok := y.(*ast.CallExpr); ok && src(c.Fun) == "append" && len(c.Args) > 0 && c17FnsBase(c.Args[0]) {
							hit = true
						}
						if c, ok := y.(*ast.CallExpr); ok && src(c.Fun) == "copy" && len(c.Args) > 0 && c17FnsBase(c.Args[0]) {
							hit = true
						}
						return true
					})
				}
				if hit {
					wrote = true
					writeStmts = append(writeStmts, fi.name+": "+src(st))
				}
			case *ast.IncDecStmt:
				if c17FnsBase(st.X) {
					wrote = true
					writeStmts = append(writeStmts, fi.name+": "+src(st))
				}
			case *ast.UnaryExpr:
				if st.Op == token.AND && c17FnsBase(st.X) {
					wrote = true
					writeStmts = append(writeStmts, fi.name+": "+src(st))
				}
			case *ast.ExprStmt:
				if c, ok := st.X.(*ast.CallExpr); ok && src(c.Fun) == "copy" && len(c.Args) > 0 && c17FnsBase(c.Args[0]) {
					wrote = true
					writeStmts = append(writeStmts, fi.name+": "+src(st))
				}
			}
			return true
		})
		if wrote {
			writers = append(writers, fi.name)
		}
		if fi.name != "processor.Execute" {
			continue
		}
		reads = n
		recv := c17Recv(fi.decl)
		// the statements of Execute (any depth) that mention .fns
		var loops []ast.Stmt
		var visit func(list []ast.Stmt)
		mentionsFns := func(nd ast.Node) bool {
			hit := false
			ast.Inspect(nd, func(y ast.Node) bool {
				if e, ok := y.(ast.Expr); ok && c17IsFnsSel(e) {
					hit = true
				}
				return true
			})
			return hit
		}
		visit = func(list []ast.Stmt) {
			for _, st := range list {
				if mentionsFns(st) {
					loops = append(loops, st)
				}
			}
		}
		visit(fi.decl.Body.List)
		loop = "other"
		if len(loops) == 1 {
			switch st := loops[0].(type) {
			case *ast.RangeStmt:
				if st.Tok == token.DEFINE && st.Key != nil && src(st.Key) == "_" && st.Value != nil && src(st.X) == recv+".fns" &&
					len(st.Body.List) == 1 && src(st.Body.List[0]) == src(st.Value)+"(db)" && n == 1 {
					loop = "range-snapshot"
				}
			case *ast.ForStmt:
				if (st.Cond != nil && mentionsFns(st.Cond)) || mentionsFns(st.Body) {
					loop = "index-live"
				}
			}
		}
	}
	sort.Strings(mentions)
	sort.Strings(writers)
	sort.Strings(writeStmts)

	fresh := false
	if fd := findFunc(root, "sortCallbacks"); fd != nil && fd.Type.Results != nil {
		named := false
		for _, f := range fd.Type.Results.List {
			for _, nm := range f.Names {
				if nm.Name == "fns" {
					named = true
				}
			}
		}
		if named {
			total, good := 0, 0
			ast.Inspect(fd.Body, func(x ast.Node) bool {
				if id, ok := x.(*ast.Ident); ok && id.Name == "fns" {
					total++
				}
				if as, ok := x.(*ast.AssignStmt); ok && as.Tok == token.ASSIGN && len(as.Lhs) == 1 && len(as.Rhs) == 1 && src(as.Lhs[0]) == "fns" {
					if c, ok := as.Rhs[0].(*ast.CallExpr); ok && src(c.Fun) == "append" && len(c.Args) == 2 && src(c.Args[0]) == "fns" && !c.Ellipsis.IsValid() {
						good++
					}
				}
				return true
			})
			// every appending statement mentions `fns` exactly twice; bare `return`s do not mention it
			fresh = good >= 1 && total == 2*good
		}
	}

	var b strings.Builder
	b.WriteString("/-- how `processor.Execute` walks the compiled chain: \"range-snapshot\" = `for _, f := range p.fns { f(db) }`\n    (range expression evaluated once), \"index-live\" = a loop that re-reads `p.fns`, \"other\", \"missing\" -/\n")
	b.WriteString("def executeLoop : String := " + lstr(loop) + "\n\n")
	b.WriteString("/-- how often `processor.Execute` mentions the field `.fns` -/\n")
	b.WriteString("def executeFnsReads : Nat := " + c17Itoa(reads) + "\n\n")
	b.WriteString("/-- functions of package gorm that mention a field `.fns` -/\n")
	b.WriteString("def fnsMentions : List String := " + lstrs(mentions) + "\n\n")
	b.WriteString("/-- functions of package gorm that WRITE a field `.fns` (assignment, element assignment, append/copy target, address taken) -/\n")
	b.WriteString("def fnsWriters : List String := " + lstrs(writers) + "\n\n")
	b.WriteString("/-- the writing statements -/\n")
	b.WriteString("def fnsWriteStmts : List String := " + lstrs(writeStmts) + "\n\n")
	b.WriteString("/-- `sortCallbacks` builds its named result `fns` from nil by `fns = append(fns, x)` only -/\n")
	b.WriteString("def sortFnsFresh : Bool := " + lbool(fresh) + "\n")
	o.write("CallbackExecFacts", b.String())
	o.facts["executeLoop"] = loop
}

func c17Itoa(n int) string {
	if n == 0 {
		return "0"
	}
	s := ""
	for n > 0 {
		s = string(rune('0'+n%10)) + s
		n /= 10
	}
	return s
}
