package main

// C06 round 6 fact generator → Gen/C06Round6.lean.  Dumb syntactic facts about WHERE a transaction / connection is stored.
//
//   sessionCloneGuard   gorm.go `Session`: the `config.X` fields read by the condition of the `if` statement(s) whose body
//                       assigns `….Statement = ….Statement.clone()`  — a Session literal that sets none of them SHARES the
//                       receiver's statement (harmless behind a handle: clone 2 copies on the next chain call; fatal when
//                       something is then written into that statement)
//   sessionCloneStores  number of such `X.Statement = X.Statement.clone()` assignments in Session
//   sessionCalls        every `<recv>.Session(&Session{…})` call in the methods of *DB (root package):
//                       (method, source of the receiver expression, fields of the literal)
//   connPoolStores      every assignment in a method of *DB (root package) that has `X.Statement.ConnPool` on its left side:
//                       (method, X is the method's receiver, for every value the local X is ever assigned in the method:
//                        the fields of the Session literal when the value is `….Session(&Session{…})`, else ["?<source>"])

import (
	"fmt"
	"go/ast"
	"strings"
)

func init() {
	extraGens = append(extraGens, func(o *out, pkgs map[string]map[string]*ast.File, all []funcInfo, repo string) {
		genC06Round6(o, pkgs)
	})
}

// fields of the literal when e is `X.Session(&Session{…})`
func c06ySessionCall(e ast.Expr) (recv string, fields []string, ok bool) {
	c, isCall := e.(*ast.CallExpr)
	if !isCall || len(c.Args) != 1 {
		return "", nil, false
	}
	sel, isSel := c.Fun.(*ast.SelectorExpr)
	if !isSel || sel.Sel.Name != "Session" {
		return "", nil, false
	}
	u, isAddr := c.Args[0].(*ast.UnaryExpr)
	if !isAddr {
		return src(sel.X), []string{"?" + src(c.Args[0])}, true
	}
	cl, isLit := u.X.(*ast.CompositeLit)
	if !isLit {
		return src(sel.X), []string{"?" + src(c.Args[0])}, true
	}
	fields = []string{}
	for _, el := range cl.Elts {
		if kv, isKV := el.(*ast.KeyValueExpr); isKV {
			fields = append(fields, src(kv.Key))
		} else {
			fields = append(fields, "?positional")
		}
	}
	return src(sel.X), fields, true
}

func genC06Round6(o *out, pkgs map[string]map[string]*ast.File) {
	var b strings.Builder
	// ---- Session: the guard of the statement clone
	guard := []string{}
	guardSrc := ""
	stores := 0
	if fd := findFunc(pkgs["."], "DB.Session"); fd != nil {
		ast.Inspect(fd.Body, func(n ast.Node) bool {
			ifs, ok := n.(*ast.IfStmt)
			if !ok {
				return true
			}
			direct := 0
			for _, st := range ifs.Body.List {
				if as, ok := st.(*ast.AssignStmt); ok && len(as.Lhs) == 1 && len(as.Rhs) == 1 &&
					strings.HasSuffix(src(as.Lhs[0]), ".Statement") && strings.HasSuffix(src(as.Rhs[0]), ".Statement.clone()") {
					direct++
				}
			}
			if direct > 0 {
				stores += direct
				guardSrc += src(ifs.Cond) + " ; "
				ast.Inspect(ifs.Cond, func(x ast.Node) bool {
					if s, ok := x.(*ast.SelectorExpr); ok && src(s.X) == "config" {
						guard = append(guard, s.Sel.Name)
					}
					return true
				})
			}
			return true
		})
	}
	fmt.Fprintf(&b, "/-- gorm.go `Session`: `config.X` fields read by the condition guarding `tx.Statement = tx.Statement.clone()` -/\ndef sessionCloneGuard : List String := %s\n\n", lstrs(guard))
	fmt.Fprintf(&b, "def sessionCloneGuardSrc : String := %s\n\n", lstr(guardSrc))
	fmt.Fprintf(&b, "/-- … number of `X.Statement = X.Statement.clone()` assignments in Session -/\ndef sessionCloneStores : Nat := %d\n\n", stores)

	// ---- Session calls and ConnPool stores of the methods of *DB
	var calls, pools []string
	for _, fi := range funcsOf(pkgs["."]) {
		if !strings.HasPrefix(fi.name, "DB.") || fi.decl.Recv == nil || len(fi.decl.Recv.List) == 0 || len(fi.decl.Recv.List[0].Names) == 0 {
			continue
		}
		name := strings.TrimPrefix(fi.name, "DB.")
		recv := fi.decl.Recv.List[0].Names[0].Name
		assigns := map[string][]ast.Expr{}
		ast.Inspect(fi.decl.Body, func(n ast.Node) bool {
			switch x := n.(type) {
			case *ast.AssignStmt:
				if len(x.Lhs) == len(x.Rhs) {
					for i, l := range x.Lhs {
						if id, ok := l.(*ast.Ident); ok {
							assigns[id.Name] = append(assigns[id.Name], x.Rhs[i])
						}
					}
				} else {
					for _, l := range x.Lhs {
						if id, ok := l.(*ast.Ident); ok && len(x.Rhs) == 1 {
							assigns[id.Name] = append(assigns[id.Name], x.Rhs[0])
						}
					}
				}
			case *ast.ValueSpec:
				if len(x.Names) == len(x.Values) {
					for i, id := range x.Names {
						assigns[id.Name] = append(assigns[id.Name], x.Values[i])
					}
				}
			case *ast.CallExpr:
				if r, fields, ok := c06ySessionCall(x); ok {
					calls = append(calls, "("+lstr(name)+", "+lstr(r)+", "+lstrs(fields)+")")
				}
			}
			return true
		})
		ast.Inspect(fi.decl.Body, func(n ast.Node) bool {
			as, ok := n.(*ast.AssignStmt)
			if !ok {
				return true
			}
			for _, l := range as.Lhs {
				ls := src(l)
				if !strings.HasSuffix(ls, ".Statement.ConnPool") {
					continue
				}
				x := strings.TrimSuffix(ls, ".Statement.ConnPool")
				var origins []string
				for _, v := range assigns[x] {
					if _, fields, ok := c06ySessionCall(v); ok {
						origins = append(origins, lstrs(fields))
					} else {
						origins = append(origins, lstrs([]string{"?" + src(v)}))
					}
				}
				pools = append(pools, "("+lstr(name)+", "+lbool(x == recv)+", ["+strings.Join(origins, ", ")+"])")
			}
			return true
		})
	}
	fmt.Fprintf(&b, "/-- every `<recv>.Session(&Session{…})` call in the methods of *DB: (method, receiver expression, fields of the literal) -/\ndef sessionCalls : List (String × String × List String) := [\n  %s]\n\n", strings.Join(calls, ",\n  "))
	fmt.Fprintf(&b, "/-- every assignment `X.Statement.ConnPool … = …` in the methods of *DB: (method, X is the receiver, per value assigned to X: the fields of its Session literal or [\"?source\"]) -/\ndef connPoolStores : List (String × Bool × List (List String)) := [\n  %s]\n", strings.Join(pools, ",\n  "))
	o.write("C06Round6", b.String())
}
