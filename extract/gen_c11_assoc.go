package main

// C11 fact generator (repair of F35): Gen/AssocCondsFacts.lean -- how do the conditions of
// `Preload(clause.Associations, conds…)` travel to callbacks.preload? Purely syntactic, over callbacks/preload.go:
//
//	assocLeafAppends     preloadEntryPoint's not-joined leaf calls `preload(tx, rel, append(preloads[name],
//	                     associationsConds...), …)` (associationsConds = its last parameter): every relation reached
//	                     through clause.Associations receives the conditions there
//	assocEmbPassesConds  the recursion into `relationships.EmbeddedRelations[name]` hands the same associationsConds on
//	assocEmbStoresArgs   parsePreloadMap's loop over `s.Relationships.EmbeddedRelations` (inside the clause.Associations
//	                     branch) calls `setPreloadMap(embedded, value, <args>)` with the range variable that holds the
//	                     conditions (the unrepaired tree: the leaf then receives them a second time as preloads[name]);
//	                     false = it stores nil / nothing
//	assocCondsOnce       = assocLeafAppends && assocEmbPassesConds && !assocEmbStoresArgs

import (
	"go/ast"
	"strings"
)

func init() {
	extraGens = append(extraGens, func(o *out, pkgs map[string]map[string]*ast.File, all []funcInfo, repo string) {
		genAssocCondsFacts(o, all)
	})
}

func genAssocCondsFacts(o *out, all []funcInfo) {
	leaf, passes, stores := false, false, false

	if fi := c13Func(all, "callbacks/preload.go", "parsePreloadMap"); fi != nil && fi.decl.Body != nil {
		// for name, ARGS := range preloads { … for … := range s.Relationships.EmbeddedRelations { … setPreloadMap(_, _, X) … } }
		ast.Inspect(fi.decl.Body, func(n ast.Node) bool {
			outer, ok := n.(*ast.RangeStmt)
			if !ok || outer.Value == nil || src(outer.X) != "preloads" {
				return true
			}
			argsVar := src(outer.Value)
			ast.Inspect(outer.Body, func(m ast.Node) bool {
				emb, ok := m.(*ast.RangeStmt)
				if !ok || !strings.HasSuffix(src(emb.X), ".Relationships.EmbeddedRelations") {
					return true
				}
				ast.Inspect(emb.Body, func(x ast.Node) bool {
					if c, ok := x.(*ast.CallExpr); ok && src(c.Fun) == "setPreloadMap" && len(c.Args) == 3 && src(c.Args[2]) == argsVar {
						stores = true
					}
					return true
				})
				return false
			})
			return false
		})
	}

	if fi := c13Func(all, "callbacks/preload.go", "preloadEntryPoint"); fi != nil && fi.decl.Body != nil {
		condsParam := ""
		if ps := fi.decl.Type.Params.List; len(ps) > 0 {
			if last := ps[len(ps)-1]; len(last.Names) == 1 {
				condsParam = last.Names[0].Name
			}
		}
		ast.Inspect(fi.decl.Body, func(n ast.Node) bool {
			switch s := n.(type) {
			case *ast.IfStmt:
				// if relations := relationships.EmbeddedRelations[name]; relations != nil { … preloadEntryPoint(…, CONDS) … }
				if s.Init != nil && strings.Contains(src(s.Init), ".EmbeddedRelations[") {
					ast.Inspect(s.Body, func(x ast.Node) bool {
						if c, ok := x.(*ast.CallExpr); ok && src(c.Fun) == "preloadEntryPoint" && len(c.Args) > 0 &&
							condsParam != "" && src(c.Args[len(c.Args)-1]) == condsParam {
							passes = true
						}
						return true
					})
				}
			case *ast.CallExpr:
				// preload(tx, rel, append(preloads[name], CONDS...), …)
				if src(s.Fun) == "preload" && len(s.Args) >= 3 {
					if ap, ok := s.Args[2].(*ast.CallExpr); ok && src(ap.Fun) == "append" && len(ap.Args) == 2 && ap.Ellipsis.IsValid() &&
						src(ap.Args[0]) == "preloads[name]" && condsParam != "" && src(ap.Args[1]) == condsParam {
						leaf = true
					}
				}
			}
			return true
		})
	}
	once := leaf && passes && !stores

	var b strings.Builder
	b.WriteString("/-- callbacks/preload.go preloadEntryPoint: the not-joined leaf calls `preload(tx, rel, append(preloads[name], associationsConds...), …)` -/\n")
	b.WriteString("def assocLeafAppends : Bool := " + lbool(leaf) + "\n\n")
	b.WriteString("/-- … and the recursion into `relationships.EmbeddedRelations[name]` hands associationsConds on -/\n")
	b.WriteString("def assocEmbPassesConds : Bool := " + lbool(passes) + "\n\n")
	b.WriteString("/-- parsePreloadMap, clause.Associations branch, loop over `s.Relationships.EmbeddedRelations`: `setPreloadMap(embedded, value, args)`\n")
	b.WriteString("    stores the conditions under the embedded path (they then reach the leaf a second time as `preloads[name]`) -/\n")
	b.WriteString("def assocEmbStoresArgs : Bool := " + lbool(stores) + "\n\n")
	b.WriteString("/-- the conditions of `Preload(clause.Associations, conds…)` take exactly one road to every relation (repair of F35 present) -/\n")
	b.WriteString("def assocCondsOnce : Bool := " + lbool(once) + "\n")
	o.write("AssocCondsFacts", b.String())
	o.facts["assocCondsOnce"] = once
}
