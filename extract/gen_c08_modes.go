package main

// C08 fact generator (soft-delete MODE): does every path that filters "live rows" of a soft-delete model — the query
// clause, the update clause and the delete clause of gorm.DeletedAt (soft_delete.go) — filter with the model's OWN
// ZeroValue (`deleted_at IS NULL` by default, `deleted_at = '<zeroValue tag>'` for a model declared with a valid
// `zeroValue:` tag), and does the DELETE→UPDATE rewrite run whenever the statement is scoped?  Output
// Gen/SoftDeleteModeFacts.lean.
//
//	softClauseCtors    DeletedAt.QueryClauses/UpdateClauses/DeleteClauses: the clause value they return
//	                   (type, number of elements, where its Field / ZeroValue come from)
//	softStructFields   the fields of the three clause struct types (a Go conversion between them needs identical fields)
//	softDelegations    every `<X>.ModifyStatement(…)` call inside SoftDeleteUpdateClause.ModifyStatement and
//	                   SoftDeleteDeleteClause.ModifyStatement: how X is built (conversion of the receiver / composite
//	                   literal / other), where its Field / ZeroValue come from, and EVERY condition that can keep the call
//	                   from being reached once the function is entered
//	softDeleteRewrite  SoftDeleteDeleteClause.ModifyStatement: the `stmt.AddClause(clause.Set{…})` + AddClauseIfNotExists(
//	                   clause.Update{}) + stmt.Build(…Update().Clauses...) rewrite and its guards
//	softQueryBody      SoftDeleteQueryClause.ModifyStatement: guard, the marker test, the Eq filter and its value
//	softZeroTag        parseZeroValueTag
//
// Guard notation: "<cond>" = condition of an enclosing `if` ("!(<cond>)" for its else branch), "case:…" / "loop:…" /
// "funclit" for other enclosing constructs, "skip:<conds>" = an EARLIER statement on the path holds a
// return/goto/break/continue that leaves the path (<conds> = the conditions around that jump).
// Everything is found structurally (no line numbers); a shape the generator does not recognise yields found=false /
// how="other" / an extra guard / an empty string, each of which makes the theorems of Lemmas/SoftDeleteMode.lean fail.
// The helpers are private copies (prefix c08m) of the path technique of gen_c08.go.

import (
	"go/ast"
	"go/token"
	"strconv"
	"strings"
)

func init() {
	extraGens = append(extraGens, func(o *out, pkgs map[string]map[string]*ast.File, all []funcInfo, repo string) {
		genC08ModeFacts(o, pkgs["."])
	})
}

// ---- path helpers ------------------------------------------------------------------------------------------------

// c08mPath: the chain of nodes from `root` down to `target` (inclusive), nil when target is not below root.
func c08mPath(root, target ast.Node) []ast.Node {
	var stack, found []ast.Node
	ast.Inspect(root, func(n ast.Node) bool {
		if found != nil {
			return false
		}
		if n == nil {
			stack = stack[:len(stack)-1]
			return true
		}
		stack = append(stack, n)
		if n == target {
			found = append([]ast.Node(nil), stack...)
			return false
		}
		return true
	})
	return found
}

func c08mStmtList(n ast.Node) ([]ast.Stmt, bool) {
	switch x := n.(type) {
	case *ast.BlockStmt:
		return x.List, true
	case *ast.CaseClause:
		return x.Body, true
	case *ast.CommClause:
		return x.Body, true
	}
	return nil, false
}

// c08mEarlier: the statements executed before the target once path[0] is entered: in every statement list on the path, the
// statements preceding the path element below it.
func c08mEarlier(path []ast.Node) []ast.Stmt {
	var res []ast.Stmt
	for i := 0; i+1 < len(path); i++ {
		list, ok := c08mStmtList(path[i])
		if !ok {
			continue
		}
		for _, s := range list {
			if ast.Node(s) == path[i+1] {
				break
			}
			res = append(res, s)
		}
	}
	return res
}

func c08mExprs(es []ast.Expr) string {
	if len(es) == 0 {
		return "default"
	}
	ss := make([]string, len(es))
	for i, e := range es {
		ss[i] = src(e)
	}
	return strings.Join(ss, ", ")
}

// c08mJumps: for every return / goto / break / continue inside `s` that leaves `s` (break/continue bound to a loop or switch
// nested in `s` do not; labelled ones do; function literals are skipped): the conditions around it, outermost first.
func c08mJumps(s ast.Stmt) [][]string {
	var res [][]string
	var walk func(n ast.Node, conds []string, inLoop, inSwitch bool)
	with := func(conds []string, c string) []string { return append(append([]string(nil), conds...), c) }
	walkList := func(list []ast.Stmt, conds []string, inLoop, inSwitch bool) {
		for _, x := range list {
			walk(x, conds, inLoop, inSwitch)
		}
	}
	walk = func(n ast.Node, conds []string, inLoop, inSwitch bool) {
		switch x := n.(type) {
		case nil:
		case *ast.ReturnStmt:
			res = append(res, conds)
		case *ast.BranchStmt:
			switch x.Tok {
			case token.GOTO:
				res = append(res, conds)
			case token.CONTINUE:
				if x.Label != nil || !inLoop {
					res = append(res, conds)
				}
			case token.BREAK:
				if x.Label != nil || (!inLoop && !inSwitch) {
					res = append(res, conds)
				}
			}
		case *ast.ExprStmt:
			// a call of panic(...) leaves the path as well
			if c, ok := x.X.(*ast.CallExpr); ok && src(c.Fun) == "panic" {
				res = append(res, with(conds, "panic"))
			}
		case *ast.BlockStmt:
			walkList(x.List, conds, inLoop, inSwitch)
		case *ast.IfStmt:
			c := src(x.Cond)
			walk(x.Body, with(conds, c), inLoop, inSwitch)
			if x.Else != nil {
				walk(x.Else, with(conds, "!("+c+")"), inLoop, inSwitch)
			}
		case *ast.ForStmt:
			walk(x.Body, with(conds, "loop:"+src(x.Cond)), true, inSwitch)
		case *ast.RangeStmt:
			walk(x.Body, with(conds, "loop:range "+src(x.X)), true, inSwitch)
		case *ast.SwitchStmt:
			for _, cc := range x.Body.List {
				c := cc.(*ast.CaseClause)
				walkList(c.Body, with(conds, "case:"+src(x.Tag)+" "+c08mExprs(c.List)), inLoop, true)
			}
		case *ast.TypeSwitchStmt:
			for _, cc := range x.Body.List {
				c := cc.(*ast.CaseClause)
				walkList(c.Body, with(conds, "case:"+src(x.Assign)+" "+c08mExprs(c.List)), inLoop, true)
			}
		case *ast.SelectStmt:
			for _, cc := range x.Body.List {
				c := cc.(*ast.CommClause)
				walkList(c.Body, with(conds, "case:select "+src(c.Comm)), inLoop, true)
			}
		case *ast.LabeledStmt:
			walk(x.Stmt, conds, inLoop, inSwitch)
		}
	}
	walk(s, nil, false, false)
	return res
}

func c08mJoinConds(cs []string) string {
	if len(cs) == 0 {
		return "true"
	}
	if len(cs) == 1 {
		return cs[0]
	}
	ps := make([]string, len(cs))
	for i, c := range cs {
		ps[i] = "(" + c + ")"
	}
	return strings.Join(ps, " && ")
}

// c08mEnclosing: conditions of the if / case / loop / function-literal constructs on the path that enclose the target
func c08mEnclosing(path []ast.Node) []string {
	var res []string
	for i := 0; i+1 < len(path); i++ {
		switch x := path[i].(type) {
		case *ast.IfStmt:
			switch path[i+1] {
			case ast.Node(x.Body):
				res = append(res, src(x.Cond))
			case x.Else:
				res = append(res, "!("+src(x.Cond)+")")
			}
		case *ast.CaseClause:
			tag := ""
			if i >= 2 {
				switch sw := path[i-2].(type) {
				case *ast.SwitchStmt:
					tag = src(sw.Tag)
				case *ast.TypeSwitchStmt:
					tag = src(sw.Assign)
				}
			}
			res = append(res, "case:"+tag+" "+c08mExprs(x.List))
		case *ast.CommClause:
			res = append(res, "case:select "+src(x.Comm))
		case *ast.ForStmt:
			res = append(res, "loop:"+src(x.Cond))
		case *ast.RangeStmt:
			res = append(res, "loop:range "+src(x.X))
		case *ast.FuncLit:
			res = append(res, "funclit")
		case *ast.DeferStmt:
			res = append(res, "defer")
		case *ast.GoStmt:
			res = append(res, "go")
		}
	}
	return res
}

// c08mGuards: every condition that can keep `target` from being reached once `body` is entered
func c08mGuards(body *ast.BlockStmt, target ast.Node) []string {
	path := c08mPath(body, target)
	if path == nil {
		return []string{"unreachable:not-in-body"}
	}
	res := c08mEnclosing(path)
	for _, s := range c08mEarlier(path) {
		for _, conds := range c08mJumps(s) {
			res = append(res, "skip:"+c08mJoinConds(conds))
		}
	}
	return res
}

func c08mSameGuards(a, b []string) bool {
	if len(a) != len(b) {
		return false
	}
	for i := range a {
		if a[i] != b[i] {
			return false
		}
	}
	return true
}

// ---- small AST helpers -------------------------------------------------------------------------------------------

func c08mUnparen(e ast.Expr) ast.Expr {
	for {
		p, ok := e.(*ast.ParenExpr)
		if !ok {
			return e
		}
		e = p.X
	}
}

// c08mKey: the value of key `k` in a keyed composite literal (nil, false when absent or the literal is not keyed)
func c08mKey(cl *ast.CompositeLit, k string) (ast.Expr, bool) {
	for _, e := range cl.Elts {
		kv, ok := e.(*ast.KeyValueExpr)
		if !ok {
			continue
		}
		if id, ok := kv.Key.(*ast.Ident); ok && id.Name == k {
			return kv.Value, true
		}
	}
	return nil, false
}

func c08mKeySrc(cl *ast.CompositeLit, k string) string {
	v, ok := c08mKey(cl, k)
	if !ok {
		return ""
	}
	return src(v)
}

// c08mMethod: the method `name` of receiver type `recvType` (value or pointer receiver); also the receiver's name
func c08mMethod(files map[string]*ast.File, recvType, name string) (*ast.FuncDecl, string) {
	for _, f := range files {
		for _, d := range f.Decls {
			fd, ok := d.(*ast.FuncDecl)
			if !ok || fd.Body == nil || fd.Name.Name != name || fd.Recv == nil || len(fd.Recv.List) != 1 {
				continue
			}
			t := fd.Recv.List[0].Type
			if st, ok := t.(*ast.StarExpr); ok {
				t = st.X
			}
			if src(t) != recvType {
				continue
			}
			recv := ""
			if len(fd.Recv.List[0].Names) == 1 {
				recv = fd.Recv.List[0].Names[0].Name
			}
			return fd, recv
		}
	}
	return nil, ""
}

func c08mFunc(files map[string]*ast.File, name string) *ast.FuncDecl {
	for _, f := range files {
		for _, d := range f.Decls {
			if fd, ok := d.(*ast.FuncDecl); ok && fd.Body != nil && fd.Recv == nil && fd.Name.Name == name {
				return fd
			}
		}
	}
	return nil
}

// c08mParamOfType: name of the first parameter whose type prints as `typ`
func c08mParamOfType(fd *ast.FuncDecl, typ string) string {
	if fd.Type.Params == nil {
		return ""
	}
	for _, p := range fd.Type.Params.List {
		if src(p.Type) == typ && len(p.Names) > 0 {
			return p.Names[0].Name
		}
	}
	return ""
}

// c08mReturns: the return statements of a body (function literals skipped)
func c08mReturns(body *ast.BlockStmt) []*ast.ReturnStmt {
	var rets []*ast.ReturnStmt
	ast.Inspect(body, func(n ast.Node) bool {
		if _, ok := n.(*ast.FuncLit); ok {
			return false
		}
		if r, ok := n.(*ast.ReturnStmt); ok {
			rets = append(rets, r)
		}
		return true
	})
	return rets
}

// c08mLastAssign: right-hand side of the last `name := e` / `name = e` / `var name = e` in `body` that starts before `before`
func c08mLastAssign(body ast.Node, name string, before token.Pos) ast.Expr {
	var rhs ast.Expr
	ast.Inspect(body, func(n ast.Node) bool {
		switch x := n.(type) {
		case *ast.AssignStmt:
			if x.Pos() >= before || len(x.Lhs) != len(x.Rhs) {
				return true
			}
			for i, l := range x.Lhs {
				if id, ok := l.(*ast.Ident); ok && id.Name == name {
					rhs = x.Rhs[i]
				}
			}
		case *ast.ValueSpec:
			if x.Pos() >= before || len(x.Names) != len(x.Values) {
				return true
			}
			for i, l := range x.Names {
				if l.Name == name {
					rhs = x.Values[i]
				}
			}
		}
		return true
	})
	return rhs
}

// ---- the facts ---------------------------------------------------------------------------------------------------

type c08mCtor struct {
	method, clauseType, fieldFrom, zeroFrom, param string
	nElems, nStmts                                 int
}

type c08mDeleg struct {
	inType, how, field, zero, recv string
	guards                         []string
	pos                            token.Pos
}

var c08mClauseTypes = []string{"SoftDeleteQueryClause", "SoftDeleteUpdateClause", "SoftDeleteDeleteClause"}

func genC08ModeFacts(o *out, files map[string]*ast.File) {
	// ---- softClauseCtors ------------------------------------------------------------------------------------------
	var ctors []c08mCtor
	for _, m := range []string{"QueryClauses", "UpdateClauses", "DeleteClauses"} {
		c := c08mCtor{method: m}
		if fd, _ := c08mMethod(files, "DeletedAt", m); fd != nil {
			c.param = c08mParamOfType(fd, "*schema.Field")
			c.nStmts = len(fd.Body.List)
			rets := c08mReturns(fd.Body)
			if len(rets) == 1 && len(rets[0].Results) == 1 {
				if cl, ok := c08mUnparen(rets[0].Results[0]).(*ast.CompositeLit); ok && src(cl.Type) == "[]clause.Interface" {
					c.nElems = len(cl.Elts)
					if len(cl.Elts) > 0 {
						if el, ok := c08mUnparen(cl.Elts[0]).(*ast.CompositeLit); ok {
							c.clauseType = src(el.Type)
							c.fieldFrom = c08mKeySrc(el, "Field")
							c.zeroFrom = c08mKeySrc(el, "ZeroValue")
						}
					}
				}
			}
		}
		ctors = append(ctors, c)
	}

	// ---- softStructFields -----------------------------------------------------------------------------------------
	structFields := map[string][]string{}
	for _, f := range files {
		for _, d := range f.Decls {
			gd, ok := d.(*ast.GenDecl)
			if !ok || gd.Tok != token.TYPE {
				continue
			}
			for _, sp := range gd.Specs {
				ts, ok := sp.(*ast.TypeSpec)
				if !ok {
					continue
				}
				st, ok := ts.Type.(*ast.StructType)
				if !ok || st.Fields == nil {
					continue
				}
				var fs []string
				for _, fl := range st.Fields.List {
					if len(fl.Names) == 0 {
						fs = append(fs, src(fl.Type))
					}
					for _, n := range fl.Names {
						fs = append(fs, n.Name+" "+src(fl.Type))
					}
				}
				structFields[ts.Name.Name] = fs
			}
		}
	}

	// ---- softDelegations ------------------------------------------------------------------------------------------
	var delegs []c08mDeleg
	delegOf := func(inType string) (fd *ast.FuncDecl, recv string, mine []c08mDeleg) {
		fd, recv = c08mMethod(files, inType, "ModifyStatement")
		if fd == nil {
			return
		}
		stmtParam := c08mParamOfType(fd, "*Statement")
		ast.Inspect(fd.Body, func(n ast.Node) bool {
			call, ok := n.(*ast.CallExpr)
			if !ok {
				return true
			}
			sel, ok := call.Fun.(*ast.SelectorExpr)
			if !ok || sel.Sel.Name != "ModifyStatement" {
				return true
			}
			d := c08mDeleg{inType: inType, how: "other", recv: recv, pos: call.Pos()}
			argOK := len(call.Args) == 1 && stmtParam != "" && src(call.Args[0]) == stmtParam
			switch x := c08mUnparen(sel.X).(type) {
			case *ast.CallExpr: // conversion SoftDeleteQueryClause(sd)
				if src(x.Fun) == "SoftDeleteQueryClause" && len(x.Args) == 1 && argOK {
					if id, ok := c08mUnparen(x.Args[0]).(*ast.Ident); ok && recv != "" && id.Name == recv {
						d.how = "conversion"
						d.field = recv + ".Field"
						d.zero = recv + ".ZeroValue"
					}
				}
			case *ast.CompositeLit: // SoftDeleteQueryClause{Field: …, ZeroValue: …}
				if src(x.Type) == "SoftDeleteQueryClause" && argOK {
					keyed := true
					for _, e := range x.Elts {
						if _, ok := e.(*ast.KeyValueExpr); !ok {
							keyed = false
						}
					}
					if keyed {
						d.how = "literal"
						d.field = c08mKeySrc(x, "Field")
						d.zero = c08mKeySrc(x, "ZeroValue")
					}
				}
			}
			d.guards = c08mGuards(fd.Body, call)
			mine = append(mine, d)
			return true
		})
		return
	}
	_, _, upd := delegOf("SoftDeleteUpdateClause")
	delFd, _, del := delegOf("SoftDeleteDeleteClause")
	delegs = append(append(delegs, upd...), del...)

	// ---- softDeleteRewrite ----------------------------------------------------------------------------------------
	var rw struct {
		found, addsUpdate, buildsUpdate, delegAfterSet bool
		guards                                         []string
		setColumn, setValue, curTimeFrom               string
	}
	if delFd != nil {
		stmtParam := c08mParamOfType(delFd, "*Statement")
		var setCall *ast.CallExpr
		ast.Inspect(delFd.Body, func(n ast.Node) bool {
			call, ok := n.(*ast.CallExpr)
			if !ok || setCall != nil || stmtParam == "" || src(call.Fun) != stmtParam+".AddClause" || len(call.Args) != 1 {
				return true
			}
			if cl, ok := c08mUnparen(call.Args[0]).(*ast.CompositeLit); ok && src(cl.Type) == "clause.Set" {
				setCall = call
			}
			return true
		})
		if setCall != nil {
			rw.guards = c08mGuards(delFd.Body, setCall)
			set := c08mUnparen(setCall.Args[0]).(*ast.CompositeLit)
			if len(set.Elts) == 1 {
				if as, ok := c08mUnparen(set.Elts[0]).(*ast.CompositeLit); ok {
					rw.found = true
					if col, ok := c08mKey(as, "Column"); ok {
						if ccl, ok := c08mUnparen(col).(*ast.CompositeLit); ok {
							rw.setColumn = c08mKeySrc(ccl, "Name")
						}
					}
					if v, ok := c08mKey(as, "Value"); ok {
						rw.setValue = src(v)
						if id, ok := c08mUnparen(v).(*ast.Ident); ok {
							rw.curTimeFrom = src(c08mLastAssign(delFd.Body, id.Name, setCall.Pos()))
						}
					}
				}
			}
			// the later calls must be reached under exactly the guards of the Set (no jump in between, no extra condition)
			var buildPos token.Pos
			ast.Inspect(delFd.Body, func(n ast.Node) bool {
				call, ok := n.(*ast.CallExpr)
				if !ok || call.Pos() <= setCall.Pos() {
					return true
				}
				switch src(call) {
				case stmtParam + ".AddClauseIfNotExists(clause.Update{})":
					if c08mSameGuards(c08mGuards(delFd.Body, call), rw.guards) {
						rw.addsUpdate = true
					}
				case stmtParam + ".Build(" + stmtParam + ".DB.Callback().Update().Clauses...)":
					if c08mSameGuards(c08mGuards(delFd.Body, call), rw.guards) && buildPos == token.NoPos {
						rw.buildsUpdate = true
						buildPos = call.Pos()
					}
				}
				return true
			})
			if buildPos != token.NoPos && len(del) > 0 {
				rw.delegAfterSet = true
				for _, d := range del {
					if !(d.pos > setCall.Pos() && d.pos < buildPos) {
						rw.delegAfterSet = false
					}
				}
			}
		}
	}

	// ---- softQueryBody --------------------------------------------------------------------------------------------
	var qb struct {
		found, setsMarker                             bool
		guard, okFrom, filterValue, filterColumn, okV string
		guards                                        []string
	}
	if fd, _ := c08mMethod(files, "SoftDeleteQueryClause", "ModifyStatement"); fd != nil {
		stmtParam := c08mParamOfType(fd, "*Statement")
		// the `stmt.AddClause(clause.Where{… clause.Eq{…} …})`
		var whereCall *ast.CallExpr
		var eq *ast.CompositeLit
		ast.Inspect(fd.Body, func(n ast.Node) bool {
			call, ok := n.(*ast.CallExpr)
			if !ok || whereCall != nil || stmtParam == "" || src(call.Fun) != stmtParam+".AddClause" || len(call.Args) != 1 {
				return true
			}
			cl, ok := c08mUnparen(call.Args[0]).(*ast.CompositeLit)
			if !ok || src(cl.Type) != "clause.Where" {
				return true
			}
			var eqs []*ast.CompositeLit
			ast.Inspect(cl, func(m ast.Node) bool {
				if c, ok := m.(*ast.CompositeLit); ok && src(c.Type) == "clause.Eq" {
					eqs = append(eqs, c)
				}
				return true
			})
			if len(eqs) == 1 {
				whereCall, eq = call, eqs[0]
			}
			return true
		})
		if whereCall != nil {
			qb.found = true
			qb.guards = c08mGuards(fd.Body, whereCall)
			qb.filterValue = c08mKeySrc(eq, "Value")
			qb.filterColumn = c08mKeySrc(eq, "Column")
			// the outermost if around it
			for _, n := range c08mPath(fd.Body, whereCall) {
				if is, ok := n.(*ast.IfStmt); ok {
					qb.guard = src(is.Cond)
					if as, ok := is.Init.(*ast.AssignStmt); ok && len(as.Rhs) == 1 {
						qb.okFrom = src(as.Rhs[0])
					}
					break
				}
			}
			// `stmt.Clauses["soft_delete_enabled"] = …` reached under exactly the same guards
			ast.Inspect(fd.Body, func(n ast.Node) bool {
				as, ok := n.(*ast.AssignStmt)
				if !ok || as.Tok != token.ASSIGN || len(as.Lhs) != 1 {
					return true
				}
				if src(as.Lhs[0]) == stmtParam+".Clauses[\"soft_delete_enabled\"]" && as.Pos() > whereCall.Pos() &&
					c08mSameGuards(c08mGuards(fd.Body, as), qb.guards) {
					qb.setsMarker = true
				}
				return true
			})
		}
	}

	// ---- softZeroTag ----------------------------------------------------------------------------------------------
	var zt struct {
		found                                                           bool
		key, validWhen, validInit, validReturn, fallbackReturn, valueOf string
		validGuards                                                     []string
	}
	if fd := c08mFunc(files, "parseZeroValueTag"); fd != nil {
		param := c08mParamOfType(fd, "*schema.Field")
		nIdx := 0
		ast.Inspect(fd.Body, func(n ast.Node) bool {
			ix, ok := n.(*ast.IndexExpr)
			if !ok || param == "" || src(ix.X) != param+".TagSettings" {
				return true
			}
			nIdx++
			if bl, ok := ix.Index.(*ast.BasicLit); ok && bl.Kind == token.STRING {
				if s, err := strconv.Unquote(bl.Value); err == nil {
					zt.key = s
				}
			}
			return true
		})
		if nIdx != 1 {
			zt.key = ""
		}
		rets := c08mReturns(fd.Body)
		nValid := 0
		for _, r := range rets {
			if len(r.Results) != 1 {
				continue
			}
			cl, ok := c08mUnparen(r.Results[0]).(*ast.CompositeLit)
			if !ok || src(cl.Type) != "sql.NullString" || c08mKeySrc(cl, "Valid") != "true" {
				continue
			}
			nValid++
			zt.validReturn = src(r.Results[0])
			path := c08mPath(fd.Body, r)
			zt.validGuards = c08mGuards(fd.Body, r)
			for i := len(path) - 1; i >= 0; i-- {
				if is, ok := path[i].(*ast.IfStmt); ok {
					zt.validWhen = src(is.Cond)
					zt.validInit = src(is.Init)
					break
				}
			}
		}
		if n := len(fd.Body.List); n > 0 {
			if r, ok := fd.Body.List[n-1].(*ast.ReturnStmt); ok && len(r.Results) == 1 {
				zt.fallbackReturn = src(r.Results[0])
			}
		}
		zt.found = nValid == 1 && len(rets) == 2
	}

	// ---- output ---------------------------------------------------------------------------------------------------
	var b strings.Builder
	b.WriteString("/-- what `DeletedAt.<method>(f *schema.Field)` (soft_delete.go) returns: a `[]clause.Interface{ <clauseType>{Field: …, ZeroValue: …} }`.\n" +
		"    `nElems`: number of elements of the returned slice literal; `fieldFrom` / `zeroFrom`: source text of the values of the keys\n" +
		"    `Field` / `ZeroValue` of the (first) element (\"\" when the key is absent); `param`: name of the `*schema.Field` parameter;\n" +
		"    `nStmts`: number of top-level statements of the method body. -/\n")
	b.WriteString("structure SoftClauseCtor where\n  method : String\n  clauseType : String\n  nElems : Nat\n  fieldFrom : String\n  zeroFrom : String\n  param : String\n  nStmts : Nat\nderiving Repr, DecidableEq\n\n")
	b.WriteString("def softClauseCtors : List SoftClauseCtor := [")
	for i, c := range ctors {
		if i > 0 {
			b.WriteString(",")
		}
		b.WriteString("\n  { method := " + lstr(c.method) + ", clauseType := " + lstr(c.clauseType) + ", nElems := " + strconv.Itoa(c.nElems) +
			", fieldFrom := " + lstr(c.fieldFrom) + ",\n    zeroFrom := " + lstr(c.zeroFrom) + ", param := " + lstr(c.param) + ", nStmts := " + strconv.Itoa(c.nStmts) + " }")
	}
	b.WriteString("]\n\n")

	b.WriteString("/-- the fields (\"Name Type\", declaration order) of the three soft-delete clause struct types; a Go conversion\n    `SoftDeleteQueryClause(sd)` is legal only while they are identical -/\n")
	b.WriteString("def softStructFields : List (String × List String) := [")
	for i, t := range c08mClauseTypes {
		if i > 0 {
			b.WriteString(",")
		}
		b.WriteString("\n  (" + lstr(t) + ", " + lstrs(structFields[t]) + ")")
	}
	b.WriteString("]\n\n")

	b.WriteString("/-- a call `<X>.ModifyStatement(stmt)` inside `<inType>.ModifyStatement` (the delegation to the query clause that adds the\n" +
		"    live-row filter).  `how`: \"conversion\" = X is `SoftDeleteQueryClause(<recv>)`; \"literal\" = X is a keyed composite literal\n" +
		"    `SoftDeleteQueryClause{…}`; \"other\" = anything else.  `field` / `zero`: where the Field / ZeroValue of X come from\n" +
		"    (\"<recv>.Field\" / \"<recv>.ZeroValue\" for a conversion; the source of the key's value, \"\" when absent, for a literal).\n" +
		"    `guards`: every condition that can keep the call from being reached once the function is entered. -/\n")
	b.WriteString("structure SoftDelegation where\n  inType : String\n  how : String\n  field : String\n  zero : String\n  recv : String\n  guards : List String\nderiving Repr, DecidableEq\n\n")
	b.WriteString("def softDelegations : List SoftDelegation := [")
	for i, d := range delegs {
		if i > 0 {
			b.WriteString(",")
		}
		b.WriteString("\n  { inType := " + lstr(d.inType) + ", how := " + lstr(d.how) + ", field := " + lstr(d.field) + ", zero := " + lstr(d.zero) +
			", recv := " + lstr(d.recv) + ",\n    guards := " + lstrs(d.guards) + " }")
	}
	b.WriteString("]\n\n")

	b.WriteString("/-- the DELETE→UPDATE rewrite of `SoftDeleteDeleteClause.ModifyStatement`: `stmt.AddClause(clause.Set{{Column: clause.Column{Name:\n" +
		"    <setColumn>}, Value: <setValue>}})` (guards as above), `<setValue>` defined by `<curTimeFrom>`; a later\n" +
		"    `stmt.AddClauseIfNotExists(clause.Update{})` / `stmt.Build(stmt.DB.Callback().Update().Clauses...)` reached under exactly the\n" +
		"    same guards; every query-clause delegation of the function sits textually between the Set and the Build. -/\n")
	b.WriteString("structure SoftRewrite where\n  found : Bool\n  guards : List String\n  setColumn : String\n  setValue : String\n  curTimeFrom : String\n  addsUpdateClause : Bool\n  buildsUpdate : Bool\n  delegationAfterSet : Bool\nderiving Repr, DecidableEq\n\n")
	b.WriteString("def softDeleteRewrite : SoftRewrite :=\n  { found := " + lbool(rw.found) + ", guards := " + lstrs(rw.guards) + ",\n    setColumn := " + lstr(rw.setColumn) +
		", setValue := " + lstr(rw.setValue) + ", curTimeFrom := " + lstr(rw.curTimeFrom) + ",\n    addsUpdateClause := " + lbool(rw.addsUpdate) +
		", buildsUpdate := " + lbool(rw.buildsUpdate) + ", delegationAfterSet := " + lbool(rw.delegAfterSet) + " }\n\n")

	b.WriteString("/-- `SoftDeleteQueryClause.ModifyStatement`: the `stmt.AddClause(clause.Where{… clause.Eq{Column: <filterColumn>, Value:\n" +
		"    <filterValue>} …})`; `guards` = every condition in front of it, `guard` = condition of the outermost enclosing `if`, `okFrom` =\n" +
		"    right-hand side of that if's init statement; `setsMarker`: `stmt.Clauses[\"soft_delete_enabled\"] = …` follows under the same guards. -/\n")
	b.WriteString("structure SoftQueryBody where\n  found : Bool\n  guard : String\n  guards : List String\n  okFrom : String\n  filterValue : String\n  filterColumn : String\n  setsMarker : Bool\nderiving Repr, DecidableEq\n\n")
	b.WriteString("def softQueryBody : SoftQueryBody :=\n  { found := " + lbool(qb.found) + ", guard := " + lstr(qb.guard) + ",\n    guards := " + lstrs(qb.guards) +
		",\n    okFrom := " + lstr(qb.okFrom) + ", filterValue := " + lstr(qb.filterValue) + ",\n    filterColumn := " + lstr(qb.filterColumn) +
		", setsMarker := " + lbool(qb.setsMarker) + " }\n\n")

	b.WriteString("/-- `parseZeroValueTag(f)`: `key` = the string literal indexing `f.TagSettings`; the one return of a `sql.NullString{…, Valid: true}`\n" +
		"    (`validReturn`) sits under `validGuards`, innermost `if <validInit>; <validWhen>`; `fallbackReturn` = the final return. -/\n")
	b.WriteString("structure SoftZeroTag where\n  found : Bool\n  key : String\n  validWhen : String\n  validInit : String\n  validGuards : List String\n  validReturn : String\n  fallbackReturn : String\nderiving Repr, DecidableEq\n\n")
	b.WriteString("def softZeroTag : SoftZeroTag :=\n  { found := " + lbool(zt.found) + ", key := " + lstr(zt.key) + ", validWhen := " + lstr(zt.validWhen) +
		", validInit := " + lstr(zt.validInit) + ",\n    validGuards := " + lstrs(zt.validGuards) + ",\n    validReturn := " + lstr(zt.validReturn) +
		", fallbackReturn := " + lstr(zt.fallbackReturn) + " }\n")
	o.write("SoftDeleteModeFacts", b.String())
}
