package main

// C09 fact generator (round 4): WHAT callbacks/helper.go checkMissingWhereConditions depends on.
//
//	func checkMissingWhereConditions(db *gorm.DB) {
//		if !db.AllowGlobalUpdate && db.Error == nil {
//			… if !withCondition { db.AddError(gorm.ErrMissingWhereClause) }
//
// The property states the refusal for EVERY configuration: the guard may be switched off by AllowGlobalUpdate (and skipped
// when an error is already pending), by nothing else — not by DryRun, PrepareStmt, SkipHooks, SkipDefaultTransaction, the
// connection pool in use …
//
//	guardBodyIsSingleIf  the function body is exactly one `if` without else
//	guardOuterConds      the `&&` conjuncts of that outermost condition
//	guardReads           sorted distinct maximal selector chains rooted at the parameter (`db.…`) anywhere in the function
//	guardErrors          every `db.AddError(…)`: its argument and the conditions INSIDE the outer if on the way to it

import (
	"fmt"
	"go/ast"
	"sort"
	"strings"
)

func init() {
	extraGens = append(extraGens, func(o *out, pkgs map[string]map[string]*ast.File, all []funcInfo, repo string) {
		genGuardModeFacts(o, pkgs["callbacks"])
	})
}

func genGuardModeFacts(o *out, cb map[string]*ast.File) {
	singleIf := false
	var outer []string
	reads := map[string]bool{}
	type gerr struct {
		arg    string
		guards []string
	}
	var errs []gerr
	for _, f := range cb {
		for _, d := range f.Decls {
			fd, ok := d.(*ast.FuncDecl)
			if !ok || fd.Recv != nil || fd.Name.Name != "checkMissingWhereConditions" || fd.Body == nil {
				continue
			}
			param := "db"
			if fd.Type.Params != nil && len(fd.Type.Params.List) == 1 && len(fd.Type.Params.List[0].Names) == 1 {
				param = fd.Type.Params.List[0].Names[0].Name
			}
			if len(fd.Body.List) == 1 {
				if is, ok := fd.Body.List[0].(*ast.IfStmt); ok && is.Else == nil && is.Init == nil {
					singleIf = true
				}
			}
			if len(fd.Body.List) >= 1 {
				if is, ok := fd.Body.List[0].(*ast.IfStmt); ok {
					for _, c := range andConjuncts(is.Cond) {
						outer = append(outer, src(c))
					}
					// AddError calls inside, with the chain of conditions below the outer if
					var walk func(list []ast.Stmt, guards []string)
					walk = func(list []ast.Stmt, guards []string) {
						for _, s := range list {
							switch v := s.(type) {
							case *ast.IfStmt:
								walk(v.Body.List, c09uWith(guards, c09uIfText(v)))
								switch e := v.Else.(type) {
								case *ast.BlockStmt:
									walk(e.List, c09uWith(guards, "else("+c09uIfText(v)+")"))
								case *ast.IfStmt:
									walk([]ast.Stmt{e}, c09uWith(guards, "else("+c09uIfText(v)+")"))
								}
							case *ast.BlockStmt:
								walk(v.List, guards)
							case *ast.ForStmt:
								walk(v.Body.List, guards)
							case *ast.RangeStmt:
								walk(v.Body.List, guards)
							default:
								ast.Inspect(s, func(x ast.Node) bool {
									if call, ok := x.(*ast.CallExpr); ok && src(call.Fun) == param+".AddError" && len(call.Args) == 1 {
										errs = append(errs, gerr{arg: src(call.Args[0]), guards: guards})
									}
									return true
								})
							}
						}
					}
					walk(is.Body.List, nil)
				}
			}
			// maximal selector chains rooted at the parameter
			var visit func(n ast.Node) bool
			visit = func(n ast.Node) bool {
				if sel, ok := n.(*ast.SelectorExpr); ok {
					root := ast.Expr(sel)
					for {
						if s2, ok := root.(*ast.SelectorExpr); ok {
							root = s2.X
							continue
						}
						break
					}
					if id, ok := root.(*ast.Ident); ok && id.Name == param {
						reads[src(sel)] = true
						return false // maximal chain recorded; do not descend into its prefixes
					}
				}
				return true
			}
			ast.Inspect(fd.Body, visit)
		}
	}
	var rl []string
	for k := range reads {
		rl = append(rl, k)
	}
	sort.Strings(rl)

	var b strings.Builder
	b.WriteString("/-- callbacks/helper.go checkMissingWhereConditions: the body is exactly one `if` without else -/\n")
	b.WriteString("def guardBodyIsSingleIf : Bool := " + lbool(singleIf) + "\n\n")
	b.WriteString("/-- the `&&` conjuncts of that outermost condition: everything that can switch the guard off -/\n")
	b.WriteString("def guardOuterConds : List String := " + lstrs(outer) + "\n\n")
	b.WriteString("/-- every maximal selector chain rooted at the parameter that occurs in the function (what the decision can depend on) -/\n")
	b.WriteString("def guardReads : List String := " + lstrs(rl) + "\n\n")
	b.WriteString("/-- a `db.AddError(…)` of the guard: its argument and the conditions below the outer if on the way to it -/\n")
	b.WriteString("structure GuardErr where\n  arg : String\n  guards : List String\nderiving DecidableEq, Repr\n\n")
	b.WriteString("def guardErrors : List GuardErr := [\n")
	for i, e := range errs {
		sep := ","
		if i == len(errs)-1 {
			sep = ""
		}
		b.WriteString(fmt.Sprintf("  { arg := %s, guards := %s }%s\n", lstr(e.arg), lstrs(e.guards), sep))
	}
	b.WriteString("]\n")
	o.write("GuardModeFacts", b.String())
	_ = strings.TrimSpace
}
