package main

// C14 round 3 fact generator: WHICH POOL the prepared-statement cache wraps and prepares on.
//
// Output Gen/StmtCacheKindFacts.lean:
//   newCacheArgs : every call of NewPreparedStmtDB( in non-test code of package gorm: enclosing function, its receiver
//                  name and the source text of the argument (the pool the new cache wraps)
//   prepareCalls : every call X.prepare(ctx, CONN, ISTX, query): enclosing method, receiver name, X, CONN, ISTX
//   switchArms   : every case clause of every type switch in DB.Session / DB.Begin / DB.Connection / DB.Transaction and the
//                  methods of PreparedStmtDB / PreparedStmtTX: the switched expression and the case's type list
//   poolAssigns  : every assignment whose (first) left-hand side ends in "ConnPool"
//   pinSites     : every `V, err := X.Conn(…)`: the variable, X, and whether `defer V.Close()` is in the same function
//
// The facts select the transcription the model of Model/StmtCacheKinds.lean uses (`genKCfg`) and are what the theorem
// C14_pool_sites decides; that the code behaves like the selected transcription is judged on every run by the suite
// `kinds` (pool kinds of every derived handle, the connection every cached statement is bound to, results).

import (
	"fmt"
	"go/ast"
	"go/parser"
	"os"
	"path/filepath"
	"sort"
	"strings"
)

func init() {
	extraGens = append(extraGens, func(o *out, pkgs map[string]map[string]*ast.File, all []funcInfo, repo string) {
		genStmtCacheKindFacts(o, repo)
	})
}

func c14kRecvName(fd *ast.FuncDecl) string {
	if fd.Recv != nil && len(fd.Recv.List) > 0 && len(fd.Recv.List[0].Names) > 0 {
		return fd.Recv.List[0].Names[0].Name
	}
	return ""
}

func c14kLitType(e ast.Expr) string {
	if u, ok := e.(*ast.UnaryExpr); ok {
		e = u.X
	}
	if cl, ok := e.(*ast.CompositeLit); ok && cl.Type != nil {
		return src(cl.Type)
	}
	return ""
}

func genStmtCacheKindFacts(o *out, repo string) {
	files, _ := filepath.Glob(filepath.Join(repo, "*.go"))
	sort.Strings(files)
	var args, calls, arms, assigns, pins []string
	armFns := map[string]bool{"DB.Session": true, "DB.Begin": true, "DB.Connection": true, "DB.Transaction": true}
	for _, path := range files {
		if strings.HasSuffix(path, "_test.go") {
			continue
		}
		if _, err := os.Stat(path); err != nil {
			continue
		}
		f, err := parser.ParseFile(fset, path, nil, 0)
		if err != nil || f.Name.Name != "gorm" {
			continue
		}
		for _, d := range f.Decls {
			fd, ok := d.(*ast.FuncDecl)
			if !ok || fd.Body == nil {
				continue
			}
			fn, recv := c14bFuncName(fd), c14kRecvName(fd)
			// `defer V.Close()` in this function
			deferred := map[string]bool{}
			ast.Inspect(fd.Body, func(n ast.Node) bool {
				if ds, ok := n.(*ast.DeferStmt); ok {
					if sel, ok := ds.Call.Fun.(*ast.SelectorExpr); ok && sel.Sel.Name == "Close" {
						deferred[src(sel.X)] = true
					}
				}
				return true
			})
			ast.Inspect(fd.Body, func(n ast.Node) bool {
				switch x := n.(type) {
				case *ast.CallExpr:
					if id, ok := x.Fun.(*ast.Ident); ok && id.Name == "NewPreparedStmtDB" {
						var as []string
						for _, a := range x.Args {
							as = append(as, src(a))
						}
						args = append(args, fmt.Sprintf("  { fn := %s, recv := %s, line := %d, arg := %s }", lstr(fn), lstr(recv), fset.Position(x.Pos()).Line, lstr(strings.Join(as, ", "))))
					}
					if sel, ok := x.Fun.(*ast.SelectorExpr); ok && sel.Sel.Name == "prepare" && len(x.Args) == 4 {
						calls = append(calls, fmt.Sprintf("  { fn := %s, recv := %s, line := %d, on := %s, conn := %s, isTx := %s }", lstr(fn), lstr(recv), fset.Position(x.Pos()).Line, lstr(src(sel.X)), lstr(src(x.Args[1])), lstr(src(x.Args[2]))))
					}
				case *ast.TypeSwitchStmt:
					if !(armFns[fn] || strings.HasPrefix(fn, "PreparedStmtDB.") || strings.HasPrefix(fn, "PreparedStmtTX.")) {
						return true
					}
					subject := ""
					var e ast.Expr
					switch a := x.Assign.(type) {
					case *ast.AssignStmt:
						if len(a.Rhs) == 1 {
							e = a.Rhs[0]
						}
					case *ast.ExprStmt:
						e = a.X
					}
					if ta, ok := e.(*ast.TypeAssertExpr); ok {
						subject = src(ta.X)
					}
					for _, cc := range x.Body.List {
						if cl, ok := cc.(*ast.CaseClause); ok {
							name := "default"
							if len(cl.List) > 0 {
								var ts []string
								for _, t := range cl.List {
									ts = append(ts, src(t))
								}
								name = strings.Join(ts, ",")
							}
							arms = append(arms, fmt.Sprintf("  { fn := %s, line := %d, subject := %s, types := %s }", lstr(fn), fset.Position(cl.Pos()).Line, lstr(subject), lstr(name)))
						}
					}
				case *ast.AssignStmt:
					if len(x.Lhs) >= 1 && len(x.Rhs) >= 1 && strings.HasSuffix(src(x.Lhs[0]), "ConnPool") {
						lit := c14kLitType(x.Rhs[0])
						rhs := ""
						if lit == "" {
							rhs = src(x.Rhs[0])
						}
						assigns = append(assigns, fmt.Sprintf("  { fn := %s, line := %d, lhs := %s, rhs := %s, literal := %s }", lstr(fn), fset.Position(x.Pos()).Line, lstr(src(x.Lhs[0])), lstr(rhs), lstr(lit)))
					}
					if len(x.Lhs) == 2 && len(x.Rhs) == 1 {
						if c, ok := x.Rhs[0].(*ast.CallExpr); ok {
							if sel, ok := c.Fun.(*ast.SelectorExpr); ok && sel.Sel.Name == "Conn" {
								v := src(x.Lhs[0])
								pins = append(pins, fmt.Sprintf("  { fn := %s, line := %d, connVar := %s, src := %s, deferClose := %v }", lstr(fn), fset.Position(x.Pos()).Line, lstr(v), lstr(src(sel.X)), deferred[v]))
							}
						}
					}
				}
				return true
			})
		}
	}
	list := func(xs []string) string { return "[\n" + strings.Join(xs, ",\n") + "\n]\n\n" }
	var b strings.Builder
	b.WriteString("structure NewCacheArg where\n  fn : String\n  recv : String\n  line : Nat\n  arg : String\nderiving Repr, DecidableEq\n\n")
	b.WriteString("/-- every call of `NewPreparedStmtDB(` in non-test code of package gorm: enclosing function, the name of its receiver\n    (\"\" for a plain function) and the source text of the argument (the pool the new cache wraps) -/\ndef newCacheArgs : List NewCacheArg := " + list(args))
	b.WriteString("structure PrepareCall where\n  fn : String\n  recv : String\n  line : Nat\n  on : String\n  conn : String\n  isTx : String\nderiving Repr, DecidableEq\n\n")
	b.WriteString("/-- every call `X.prepare(ctx, CONN, ISTX, query)` in non-test code of package gorm: enclosing method, its receiver name,\n    `on` = X, `conn` = CONN, `isTx` = ISTX (source texts) -/\ndef prepareCalls : List PrepareCall := " + list(calls))
	b.WriteString("structure SwitchArm where\n  fn : String\n  line : Nat\n  subject : String\n  types : String\nderiving Repr, DecidableEq\n\n")
	b.WriteString("/-- every case clause of every type switch in DB.Session / DB.Begin / DB.Connection / DB.Transaction and the methods of\n    PreparedStmtDB / PreparedStmtTX: the switched expression and the case's type list (\"default\" for the default clause) -/\ndef switchArms : List SwitchArm := " + list(arms))
	b.WriteString("structure PoolAssign where\n  fn : String\n  line : Nat\n  lhs : String\n  rhs : String\n  literal : String\nderiving Repr, DecidableEq\n\n")
	b.WriteString("/-- every assignment in non-test code of package gorm whose (first) left-hand side ends in `ConnPool`: `literal` = type of a\n    composite literal on the right (then rhs = \"\"), else `rhs` = source text of the (first) right-hand side -/\ndef poolAssigns : List PoolAssign := " + list(assigns))
	b.WriteString("structure PinSite where\n  fn : String\n  line : Nat\n  connVar : String\n  src : String\n  deferClose : Bool\nderiving Repr, DecidableEq\n\n")
	b.WriteString("/-- every `V, err := X.Conn(…)` in non-test code of package gorm: V, X, and whether the function defers `V.Close()` -/\ndef pinSites : List PinSite := " + strings.TrimSuffix(list(pins), "\n"))
	o.write("StmtCacheKindFacts", b.String())
	o.facts["stmtCacheNewCacheArgs"] = len(args)
	o.facts["stmtCachePrepareCalls"] = len(calls)
	o.facts["stmtCacheSwitchArms"] = len(arms)
	o.facts["stmtCachePoolAssigns"] = len(assigns)
	o.facts["stmtCachePinSites"] = len(pins)
}
