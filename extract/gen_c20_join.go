package main

// C20 (round 3) fact generator -> Gen/MigrateJoinFacts.lean
//
//   joinTagCalls      every call of removeSettingFromTag inside schema.buildMany2ManyRelation, in source order: the
//                     expression whose struct tag is copied, the value handed to appendSettingFromTag (or "" when the first
//                     argument is not such a call) and the literal list of setting names that are stripped
//   joinTagOther      every OTHER construction of a reflect.StructField{… Tag: …} in buildMany2ManyRelation (the ignored
//                     back-pointer field): its Tag expression
//   tagHelperBodies   the statements of schema/utils.go removeSettingFromTag / appendSettingFromTag (the regexp text)
//   uniqueReaders     how schema/field.go ParseField fills Field.Unique / PrimaryKey / AutoIncrement from the tag settings,
//                     the guard of the unique-constraint emission in (*Schema).ParseUniqueConstraints and the INDEX gate of
//                     (*Schema).ParseIndexes

import (
	"go/ast"
	"strconv"
	"strings"
)

func init() {
	extraGens = append(extraGens, func(o *out, pkgs map[string]map[string]*ast.File, all []funcInfo, repo string) {
		genC20Join(o, pkgs["schema"])
	})
}

func c20jStmts(fd *ast.FuncDecl) []string {
	var out []string
	if fd == nil || fd.Body == nil {
		return out
	}
	for _, s := range fd.Body.List {
		out = append(out, src(s))
	}
	return out
}

func genC20Join(o *out, files map[string]*ast.File) {
	type call struct {
		source, appended string
		names            []string
		literal          bool // every stripped name is a string literal
	}
	var calls []call
	var other []string
	fd := findFunc(files, "Schema.buildMany2ManyRelation")
	if fd != nil {
		inCall := map[ast.Node]bool{}
		ast.Inspect(fd.Body, func(n ast.Node) bool {
			ce, ok := n.(*ast.CallExpr)
			if !ok {
				return true
			}
			id, ok := ce.Fun.(*ast.Ident)
			if !ok || id.Name != "removeSettingFromTag" || len(ce.Args) == 0 {
				return true
			}
			inCall[ce] = true
			c := call{literal: true}
			if inner, ok := ce.Args[0].(*ast.CallExpr); ok {
				if iid, ok := inner.Fun.(*ast.Ident); ok && iid.Name == "appendSettingFromTag" && len(inner.Args) == 2 {
					c.source = src(inner.Args[0])
					if bl, ok := inner.Args[1].(*ast.BasicLit); ok {
						c.appended, _ = strconv.Unquote(bl.Value)
					} else {
						c.appended = "?" + src(inner.Args[1])
					}
				} else {
					c.source = src(ce.Args[0])
				}
			} else {
				c.source = src(ce.Args[0])
			}
			for _, a := range ce.Args[1:] {
				if bl, ok := a.(*ast.BasicLit); ok {
					s, _ := strconv.Unquote(bl.Value)
					c.names = append(c.names, s)
				} else {
					c.literal = false
					c.names = append(c.names, "?"+src(a))
				}
			}
			if ce.Ellipsis.IsValid() {
				c.literal = false
			}
			calls = append(calls, c)
			return true
		})
		// Tag expressions of composite literals reflect.StructField{…} that are not one of the calls above
		ast.Inspect(fd.Body, func(n ast.Node) bool {
			cl, ok := n.(*ast.CompositeLit)
			if !ok || src(cl.Type) != "reflect.StructField" {
				return true
			}
			for _, e := range cl.Elts {
				kv, ok := e.(*ast.KeyValueExpr)
				if !ok || src(kv.Key) != "Tag" {
					continue
				}
				if !inCall[kv.Value] {
					other = append(other, src(kv.Value))
				}
			}
			return true
		})
	}
	var readers [][2]string
	if pf := findFunc(files, "Schema.ParseField"); pf != nil {
		if fields, ok := literalFields(pf.Body, "Field"); ok {
			for _, kv := range fields {
				switch kv[0] {
				case "Unique", "PrimaryKey", "AutoIncrement", "TagSettings":
					readers = append(readers, [2]string{"Field." + kv[0], kv[1]})
				}
			}
		}
	}
	if pu := findFunc(files, "Schema.ParseUniqueConstraints"); pu != nil {
		ast.Inspect(pu.Body, func(n ast.Node) bool {
			if is, ok := n.(*ast.IfStmt); ok {
				readers = append(readers, [2]string{"ParseUniqueConstraints.if", src(is.Cond)})
			}
			return true
		})
	}
	if pi := findFunc(files, "Schema.ParseIndexes"); pi != nil {
		ast.Inspect(pi.Body, func(n ast.Node) bool {
			if is, ok := n.(*ast.IfStmt); ok && strings.Contains(src(is.Cond), "TagSettings") {
				readers = append(readers, [2]string{"ParseIndexes.if", src(is.Cond)})
			}
			return true
		})
	}

	var b strings.Builder
	b.WriteString(`structure JoinTagCall where
  source : String        -- the expression whose struct tag is copied into the join-table field
  appended : String      -- the value handed to appendSettingFromTag
  names : List String    -- the setting names handed to removeSettingFromTag, in order
  literal : Bool         -- every name is a string literal (no variable, no spread)
deriving Repr, DecidableEq

/-- calls of removeSettingFromTag in schema.buildMany2ManyRelation, in source order -/
def joinTagCalls : List JoinTagCall := [
`)
	for i, c := range calls {
		sep := ","
		if i == len(calls)-1 {
			sep = ""
		}
		b.WriteString("  { source := " + lstr(c.source) + ", appended := " + lstr(c.appended) + ", names := " + lstrs(c.names) + ", literal := " + lbool(c.literal) + " }" + sep + "\n")
	}
	b.WriteString("]\n\n/-- Tag expressions of the other reflect.StructField literals of buildMany2ManyRelation -/\ndef joinTagOther : List String := " + lstrs(other) + "\n\n")
	b.WriteString("/-- statements of schema/utils.go removeSettingFromTag -/\ndef removeSettingBody : List String := " + lstrs(c20jStmts(findFunc(files, "removeSettingFromTag"))) + "\n\n")
	b.WriteString("/-- statements of schema/utils.go appendSettingFromTag -/\ndef appendSettingBody : List String := " + lstrs(c20jStmts(findFunc(files, "appendSettingFromTag"))) + "\n\n")
	b.WriteString("/-- readers of the uniqueness / key settings of a field tag -/\ndef uniqueReaders : List (String × String) := [")
	for i, x := range readers {
		if i > 0 {
			b.WriteString(",")
		}
		b.WriteString("\n  (" + lstr(x[0]) + ", " + lstr(x[1]) + ")")
	}
	b.WriteString("]\n")
	o.write("MigrateJoinFacts", b.String())
}
