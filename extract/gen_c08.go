package main

// C08 fact generator: how does schema/schema.go ParseWithSpecialTableName (a) hand out schemas it found in the cache and
// (b) collect the Create/Query/Update/Delete clause builders (soft delete!) of the fields?  Output Gen/SchemaParseFacts.lean.
//
//	A. schemaCacheReturns        one entry per `if v, ok := cacheStore.Load(…); ok { … return s, s.err }` /
//	                             `if v, loaded := cacheStore.LoadOrStore(…); loaded { … return … }` block:
//	                             how ("Load"|"LoadOrStore"), idx (ordinal), waits (an EARLIER statement on the block path to the
//	                             return is the receive `<-R.initialized`, R = first result of the return), returnsCached (R is the
//	                             value that came out of the cache: `v` or a variable defined from it, `s := v.(*Schema)`).
//	                             Several returns inside one block: the flags are the conjunction.
//	B. schemaStoreBeforeClauses  the LoadOrStore call textually precedes the clause-collection loop (the schema is published
//	                             BEFORE its Query/Update/Delete clauses exist — the reason a reader has to wait)
//	   schemaInitializedClosedByDefer   a top-level `defer close(<stored>.initialized)` precedes the LoadOrStore
//	C. schemaClauseProbes        per interface {Create,Query,Update,Delete}ClausesInterface: found, appendsTo, probeExpr (argument
//	                             of the reflect.New whose .Interface() is the asserted value) and guards = EVERY condition that
//	                             can keep a field that entered the loop body from reaching the type assertion:
//	                               "<cond>"       condition of an `if` (…"!(<cond>)" for its else branch) / "case:…" / "loop:…"
//	                                              enclosing the assertion inside the field loop
//	                               "skip:<conds>" an earlier statement on the block path holds a continue/break/return/goto that
//	                                              leaves the iteration; <conds> = the `if` conditions around that jump
//	                               "err:<cond>"   the same, when the jump is exactly `return schema, schema.err` in the THEN branch
//	                                              of an `if` one of whose &&-conjuncts is `schema.err != nil` (the error exit
//	                                              after parseRelation: no schema is produced at all)
//	   schemaClauseLoopGuards    conditions of the `if`s enclosing the field loop itself
//
// Everything is found structurally (no line numbers); a shape the generator does not recognise yields found=false / an
// extra guard, which makes the `decide` theorems of Lemmas/SchemaParse.lean fail rather than pass.

import (
	"go/ast"
	"go/token"
	"strconv"
	"strings"
)

func init() {
	extraGens = append(extraGens, func(o *out, pkgs map[string]map[string]*ast.File, all []funcInfo, repo string) {
		genC08SchemaParseFacts(o, pkgs["schema"])
	})
}

var c08Ifaces = []string{"Create", "Query", "Update", "Delete"}

// c08Path: the chain of nodes from `root` down to `target` (inclusive), nil when target is not below root.
func c08Path(root, target ast.Node) []ast.Node {
	var stack, found []ast.Node
	ast.Inspect(root, func(n ast.Node) bool {
		if found != nil {
			return false
		}
		if n == nil {
			stack = stack[:len(stack)-1]
			return true
		}
		stack = append(stack, n)
		if n == target {
			found = append([]ast.Node(nil), stack...)
			return false
		}
		return true
	})
	return found
}

// c08CacheCall: is `e` a call `<…>cacheStore.<Load|LoadOrStore>(…)`?
func c08CacheCall(e ast.Expr) (how string, call *ast.CallExpr, ok bool) {
	call, isCall := e.(*ast.CallExpr)
	if !isCall {
		return "", nil, false
	}
	sel, isSel := call.Fun.(*ast.SelectorExpr)
	if !isSel || (sel.Sel.Name != "Load" && sel.Sel.Name != "LoadOrStore") {
		return "", nil, false
	}
	x := src(sel.X)
	if x != "cacheStore" && !strings.HasSuffix(x, ".cacheStore") {
		return "", nil, false
	}
	return sel.Sel.Name, call, true
}

// c08IsWait: is `s` the statement `<-R.initialized`?
func c08IsWait(s ast.Stmt, r string) bool {
	es, ok := s.(*ast.ExprStmt)
	if !ok {
		return false
	}
	e := es.X
	for {
		p, ok := e.(*ast.ParenExpr)
		if !ok {
			break
		}
		e = p.X
	}
	ue, ok := e.(*ast.UnaryExpr)
	if !ok || ue.Op != token.ARROW {
		return false
	}
	sel, ok := ue.X.(*ast.SelectorExpr)
	if !ok || sel.Sel.Name != "initialized" {
		return false
	}
	id, ok := sel.X.(*ast.Ident)
	return ok && id.Name == r
}

// c08StmtLists: the statement list a node owns (block, case clause, comm clause)
func c08StmtList(n ast.Node) ([]ast.Stmt, bool) {
	switch x := n.(type) {
	case *ast.BlockStmt:
		return x.List, true
	case *ast.CaseClause:
		return x.Body, true
	case *ast.CommClause:
		return x.Body, true
	}
	return nil, false
}

// c08Earlier: for a path root→…→target, every statement that precedes (in its own statement list) the path element
// below it, from the element AFTER path[from] on.  These are the statements executed before `target` once path[from] is entered.
func c08Earlier(path []ast.Node, from int) []ast.Stmt {
	var res []ast.Stmt
	for i := from; i+1 < len(path); i++ {
		list, ok := c08StmtList(path[i])
		if !ok {
			continue
		}
		for _, s := range list {
			if ast.Node(s) == path[i+1] {
				break
			}
			res = append(res, s)
		}
	}
	return res
}

type c08Jump struct {
	node  ast.Stmt
	conds []string // conditions of the ifs / cases around the jump, outermost first (inside the inspected statement)
	inner *ast.IfStmt
	then  bool // the jump sits in the THEN branch of `inner`
}

// c08Jumps: the continue/break/return/goto statements inside `s` that leave the enclosing loop iteration
// (break/continue bound to a loop or switch nested in `s` do not; labelled ones are counted; function literals are skipped).
func c08Jumps(s ast.Stmt) []c08Jump {
	var res []c08Jump
	var walk func(n ast.Node, conds []string, inner *ast.IfStmt, then bool, inLoop, inSwitch bool)
	walkList := func(list []ast.Stmt, conds []string, inner *ast.IfStmt, then bool, inLoop, inSwitch bool) {
		for _, x := range list {
			walk(x, conds, inner, then, inLoop, inSwitch)
		}
	}
	walk = func(n ast.Node, conds []string, inner *ast.IfStmt, then bool, inLoop, inSwitch bool) {
		switch x := n.(type) {
		case nil:
		case *ast.ReturnStmt:
			res = append(res, c08Jump{x, conds, inner, then})
		case *ast.BranchStmt:
			switch x.Tok {
			case token.GOTO:
				res = append(res, c08Jump{x, conds, inner, then})
			case token.CONTINUE:
				if x.Label != nil || !inLoop {
					res = append(res, c08Jump{x, conds, inner, then})
				}
			case token.BREAK:
				if x.Label != nil || (!inLoop && !inSwitch) {
					res = append(res, c08Jump{x, conds, inner, then})
				}
			}
		case *ast.BlockStmt:
			walkList(x.List, conds, inner, then, inLoop, inSwitch)
		case *ast.IfStmt:
			c := src(x.Cond)
			walk(x.Body, append(append([]string(nil), conds...), c), x, true, inLoop, inSwitch)
			if x.Else != nil {
				walk(x.Else, append(append([]string(nil), conds...), "!("+c+")"), x, false, inLoop, inSwitch)
			}
		case *ast.ForStmt:
			walk(x.Body, append(append([]string(nil), conds...), "loop:"+src(x.Cond)), inner, then, true, inSwitch)
		case *ast.RangeStmt:
			walk(x.Body, append(append([]string(nil), conds...), "loop:range "+src(x.X)), inner, then, true, inSwitch)
		case *ast.SwitchStmt:
			for _, cc := range x.Body.List {
				c := cc.(*ast.CaseClause)
				walkList(c.Body, append(append([]string(nil), conds...), "case:"+src(x.Tag)+" "+c08Exprs(c.List)), inner, then, inLoop, true)
			}
		case *ast.TypeSwitchStmt:
			for _, cc := range x.Body.List {
				c := cc.(*ast.CaseClause)
				walkList(c.Body, append(append([]string(nil), conds...), "case:"+src(x.Assign)+" "+c08Exprs(c.List)), inner, then, inLoop, true)
			}
		case *ast.SelectStmt:
			for _, cc := range x.Body.List {
				c := cc.(*ast.CommClause)
				walkList(c.Body, append(append([]string(nil), conds...), "case:select "+src(c.Comm)), inner, then, inLoop, true)
			}
		case *ast.LabeledStmt:
			walk(x.Stmt, conds, inner, then, inLoop, inSwitch)
		}
	}
	walk(s, nil, nil, false, false, false)
	return res
}

func c08Exprs(es []ast.Expr) string {
	if len(es) == 0 {
		return "default"
	}
	ss := make([]string, len(es))
	for i, e := range es {
		ss[i] = src(e)
	}
	return strings.Join(ss, ", ")
}

func c08JoinConds(cs []string) string {
	if len(cs) == 0 {
		return "true"
	}
	if len(cs) == 1 {
		return cs[0]
	}
	ps := make([]string, len(cs))
	for i, c := range cs {
		ps[i] = "(" + c + ")"
	}
	return strings.Join(ps, " && ")
}

// c08SkipGuards: the "skip:"/"err:" guards contributed by the statements executed before the probe
func c08SkipGuards(earlier []ast.Stmt) []string {
	var res []string
	for _, s := range earlier {
		for _, j := range c08Jumps(s) {
			isErr := false
			if ret, ok := j.node.(*ast.ReturnStmt); ok && j.inner != nil && j.then && src(ret) == "return schema, schema.err" {
				for _, c := range andConjuncts(j.inner.Cond) {
					if src(c) == "schema.err != nil" {
						isErr = true
					}
				}
			}
			if isErr {
				res = append(res, "err:"+src(j.inner.Cond))
			} else {
				res = append(res, "skip:"+c08JoinConds(j.conds))
			}
		}
	}
	return res
}

// c08Enclosing: conditions of the if / case / loop constructs on path[from+1 …] that enclose the target (the target's own
// node, the last path element, is not counted).
func c08Enclosing(path []ast.Node, from int) []string {
	var res []string
	for i := from + 1; i+1 < len(path); i++ {
		switch x := path[i].(type) {
		case *ast.IfStmt:
			switch path[i+1] {
			case ast.Node(x.Body):
				res = append(res, src(x.Cond))
			case x.Else:
				res = append(res, "!("+src(x.Cond)+")")
			}
		case *ast.CaseClause:
			tag := ""
			if i >= 2 {
				switch sw := path[i-2].(type) {
				case *ast.SwitchStmt:
					tag = src(sw.Tag)
				case *ast.TypeSwitchStmt:
					tag = src(sw.Assign)
				}
			}
			res = append(res, "case:"+tag+" "+c08Exprs(x.List))
		case *ast.CommClause:
			res = append(res, "case:select "+src(x.Comm))
		case *ast.ForStmt:
			res = append(res, "loop:"+src(x.Cond))
		case *ast.RangeStmt:
			res = append(res, "loop:range "+src(x.X))
		case *ast.FuncLit:
			res = append(res, "funclit")
		}
	}
	return res
}

type c08Return struct {
	how           string
	waits, cached bool
}

type c08Probe struct {
	iface, appendsTo, probeExpr string
	found                       bool
	guards                      []string
}

// c08LastAssign: the right-hand side of the last `name := e` / `name = e` in `body` that starts before `before`
func c08LastAssign(body ast.Node, name string, before token.Pos) ast.Expr {
	var rhs ast.Expr
	ast.Inspect(body, func(n ast.Node) bool {
		as, ok := n.(*ast.AssignStmt)
		if !ok || as.Pos() >= before || len(as.Lhs) != len(as.Rhs) {
			return true
		}
		for i, l := range as.Lhs {
			if id, ok := l.(*ast.Ident); ok && id.Name == name {
				rhs = as.Rhs[i]
			}
		}
		return true
	})
	return rhs
}

// c08ProbeExpr: `asserted` is (through variables) `reflect.New(ARG).Interface()`; returns the text of ARG
func c08ProbeExpr(body ast.Node, asserted ast.Expr, before token.Pos) string {
	e := asserted
	for depth := 0; depth < 4; depth++ {
		switch x := e.(type) {
		case *ast.Ident:
			r := c08LastAssign(body, x.Name, before)
			if r == nil {
				return ""
			}
			e = r
			continue
		case *ast.CallExpr:
			if sel, ok := x.Fun.(*ast.SelectorExpr); ok && sel.Sel.Name == "Interface" && len(x.Args) == 0 {
				e = sel.X
				continue
			}
			if src(x.Fun) == "reflect.New" && len(x.Args) == 1 {
				return src(x.Args[0])
			}
			return ""
		default:
			return ""
		}
	}
	return ""
}

func genC08SchemaParseFacts(o *out, files map[string]*ast.File) {
	var fd *ast.FuncDecl
	for _, f := range files {
		for _, d := range f.Decls {
			if x, ok := d.(*ast.FuncDecl); ok && x.Recv == nil && x.Name.Name == "ParseWithSpecialTableName" && x.Body != nil {
				fd = x
			}
		}
	}

	var returns []c08Return
	var losPos token.Pos // position of the (first) LoadOrStore call
	losStored := ""      // its second argument
	probes := make([]c08Probe, len(c08Ifaces))
	for i, n := range c08Ifaces {
		probes[i].iface = n
	}
	var loopGuards []string
	var firstLoopPos token.Pos
	closedByDefer := false

	if fd != nil {
		// ---- A: cache-return sites -------------------------------------------------------------------------
		ast.Inspect(fd.Body, func(n ast.Node) bool {
			if _, ok := n.(*ast.FuncLit); ok {
				return false
			}
			if call, ok := n.(*ast.CallExpr); ok {
				if how, c, ok := c08CacheCall(call); ok && how == "LoadOrStore" && losPos == token.NoPos {
					losPos = c.Pos()
					if len(c.Args) == 2 {
						losStored = src(c.Args[1])
					}
				}
			}
			is, ok := n.(*ast.IfStmt)
			if !ok {
				return true
			}
			as, ok := is.Init.(*ast.AssignStmt)
			if !ok || len(as.Rhs) != 1 || len(as.Lhs) != 2 {
				return true
			}
			how, _, ok := c08CacheCall(as.Rhs[0])
			if !ok {
				return true
			}
			vID, ok1 := as.Lhs[0].(*ast.Ident)
			okID, ok2 := as.Lhs[1].(*ast.Ident)
			cond, ok3 := is.Cond.(*ast.Ident)
			if !ok1 || !ok2 || !ok3 || cond.Name != okID.Name || vID.Name == "_" {
				return true // e.g. `if _, embedded := schema.cacheStore.Load(embeddedCacheKey); !embedded` is not a cache hit branch
			}
			// variables holding the cached value: v and everything defined from an expression over v alone (`s := v.(*Schema)`)
			cachedVars := map[string]bool{vID.Name: true}
			ast.Inspect(is.Body, func(m ast.Node) bool {
				a, ok := m.(*ast.AssignStmt)
				if !ok || len(a.Lhs) != 1 || len(a.Rhs) != 1 {
					return true
				}
				l, ok := a.Lhs[0].(*ast.Ident)
				if !ok {
					return true
				}
				var base ast.Expr = a.Rhs[0]
				for {
					switch x := base.(type) {
					case *ast.TypeAssertExpr:
						base = x.X
						continue
					case *ast.ParenExpr:
						base = x.X
						continue
					}
					break
				}
				if id, ok := base.(*ast.Ident); ok && cachedVars[id.Name] {
					cachedVars[l.Name] = true
				}
				return true
			})
			var rets []*ast.ReturnStmt
			ast.Inspect(is.Body, func(m ast.Node) bool {
				if _, ok := m.(*ast.FuncLit); ok {
					return false
				}
				if r, ok := m.(*ast.ReturnStmt); ok {
					rets = append(rets, r)
				}
				return true
			})
			if len(rets) == 0 {
				return true
			}
			cr := c08Return{how: how, waits: true, cached: true}
			for _, r := range rets {
				name := ""
				if len(r.Results) > 0 {
					if id, ok := r.Results[0].(*ast.Ident); ok {
						name = id.Name
					}
				}
				if name == "" || !cachedVars[name] {
					cr.cached = false
				}
				w := false
				if name != "" {
					for _, s := range c08Earlier(c08Path(is.Body, r), 0) {
						if c08IsWait(s, name) {
							w = true
						}
					}
				}
				if !w {
					cr.waits = false
				}
			}
			returns = append(returns, cr)
			return true
		})

		// ---- C: the four interface probes ---------------------------------------------------------------------
		for pi := range probes {
			want := probes[pi].iface + "ClausesInterface"
			var probeIf *ast.IfStmt
			var asserted ast.Expr
			ast.Inspect(fd.Body, func(n ast.Node) bool {
				is, ok := n.(*ast.IfStmt)
				if !ok || probeIf != nil || is.Init == nil {
					return true
				}
				ast.Inspect(is.Init, func(m ast.Node) bool {
					if ta, ok := m.(*ast.TypeAssertExpr); ok && ta.Type != nil && src(ta.Type) == want {
						probeIf, asserted = is, ta.X
					}
					return true
				})
				return true
			})
			if probeIf == nil {
				continue
			}
			path := c08Path(fd.Body, probeIf)
			loopAt := -1
			for i, n := range path {
				if rs, ok := n.(*ast.RangeStmt); ok && strings.HasSuffix(src(rs.X), ".Fields") {
					loopAt = i
					break
				}
			}
			if loopAt < 0 {
				continue // assertion outside a `range ….Fields` loop: not the shape we know, found stays false
			}
			p := &probes[pi]
			p.found = true
			loop := path[loopAt].(*ast.RangeStmt)
			if firstLoopPos == token.NoPos || loop.Pos() < firstLoopPos {
				firstLoopPos = loop.Pos()
			}
			p.guards = append(p.guards, c08Enclosing(path, loopAt)...)
			p.guards = append(p.guards, c08SkipGuards(c08Earlier(path, loopAt))...)
			p.probeExpr = c08ProbeExpr(loop.Body, asserted, probeIf.Pos())
			// what the THEN branch appends to
			ast.Inspect(probeIf.Body, func(n ast.Node) bool {
				as, ok := n.(*ast.AssignStmt)
				if !ok || len(as.Lhs) != 1 || len(as.Rhs) != 1 || p.appendsTo != "" {
					return true
				}
				call, ok := as.Rhs[0].(*ast.CallExpr)
				if !ok || src(call.Fun) != "append" {
					return true
				}
				if sel, ok := as.Lhs[0].(*ast.SelectorExpr); ok && src(sel.X) == "field.Schema" {
					p.appendsTo = sel.Sel.Name
				} else {
					p.appendsTo = src(as.Lhs[0])
				}
				return true
			})
			// conditions around the loop itself
			for _, g := range c08Enclosing(path[:loopAt+1], -1) {
				dup := false
				for _, h := range loopGuards {
					if h == g {
						dup = true
					}
				}
				if !dup {
					loopGuards = append(loopGuards, g)
				}
			}
		}

		// ---- B ------------------------------------------------------------------------------------------------
		for _, s := range fd.Body.List {
			ds, ok := s.(*ast.DeferStmt)
			if !ok || losPos == token.NoPos || ds.Pos() >= losPos {
				continue
			}
			if src(ds.Call.Fun) == "close" && len(ds.Call.Args) == 1 && losStored != "" && src(ds.Call.Args[0]) == losStored+".initialized" {
				closedByDefer = true
			}
		}
	}
	storeBeforeClauses := losPos != token.NoPos && firstLoopPos != token.NoPos && losPos < firstLoopPos

	var b strings.Builder
	b.WriteString("/-- a place in schema/schema.go ParseWithSpecialTableName where a schema obtained from the cache is returned:\n" +
		"    `if v, ok := cacheStore.Load(key); ok { … return s, s.err }` (how = \"Load\") or\n" +
		"    `if v, loaded := cacheStore.LoadOrStore(key, schema); loaded { … return s, s.err }` (how = \"LoadOrStore\").\n" +
		"    `waits`: the receive `<-s.initialized` is executed before the return (s = the returned variable);\n" +
		"    `returnsCached`: the returned variable is the value that came out of the cache. -/\n")
	b.WriteString("structure CacheReturn where\n  how : String\n  idx : Nat\n  waits : Bool\n  returnsCached : Bool\nderiving Repr, DecidableEq\n\n")
	b.WriteString("/-- the cache-hit return sites of ParseWithSpecialTableName, in source order -/\n")
	b.WriteString("def schemaCacheReturns : List CacheReturn := [")
	for i, r := range returns {
		if i > 0 {
			b.WriteString(",")
		}
		b.WriteString("\n  { how := " + lstr(r.how) + ", idx := " + strconv.Itoa(i) + ", waits := " + lbool(r.waits) + ", returnsCached := " + lbool(r.cached) + " }")
	}
	b.WriteString("]\n\n")
	b.WriteString("/-- `cacheStore.LoadOrStore(key, schema)` textually precedes the loop that collects the Create/Query/Update/Delete clauses:\n    the schema is visible to other goroutines before its clause lists are filled -/\n")
	b.WriteString("def schemaStoreBeforeClauses : Bool := " + lbool(storeBeforeClauses) + "\n\n")
	b.WriteString("/-- a top-level `defer close(schema.initialized)` (schema = the value stored by LoadOrStore) precedes the LoadOrStore:\n    the channel is closed when the parsing activation returns, i.e. after the clause loop -/\n")
	b.WriteString("def schemaInitializedClosedByDefer : Bool := " + lbool(closedByDefer) + "\n\n")
	b.WriteString("/-- one `if fc, ok := fieldInterface.(<iface>ClausesInterface); ok { field.Schema.<appendsTo> = append(…) }` of the field loop.\n" +
		"    `guards`: every condition that can keep a field that entered the loop body from reaching the assertion\n" +
		"    (plain text = enclosing `if`; \"skip:…\" = an earlier continue/break/return/goto; \"err:…\" = the `return schema, schema.err`\n" +
		"    after a failed parseRelation).  `probeExpr`: the argument of the `reflect.New(…)` whose `.Interface()` is asserted. -/\n")
	b.WriteString("structure ClauseProbe where\n  iface : String\n  found : Bool\n  appendsTo : String\n  guards : List String\n  probeExpr : String\nderiving Repr, DecidableEq\n\n")
	b.WriteString("def schemaClauseProbes : List ClauseProbe := [")
	for i, p := range probes {
		if i > 0 {
			b.WriteString(",")
		}
		b.WriteString("\n  { iface := " + lstr(p.iface) + ", found := " + lbool(p.found) + ", appendsTo := " + lstr(p.appendsTo) +
			",\n    guards := " + lstrs(p.guards) + ",\n    probeExpr := " + lstr(p.probeExpr) + " }")
	}
	b.WriteString("]\n\n")
	b.WriteString("/-- conditions of the `if`s that enclose the field loop itself inside ParseWithSpecialTableName -/\n")
	b.WriteString("def schemaClauseLoopGuards : List String := " + lstrs(loopGuards) + "\n")
	o.write("SchemaParseFacts", b.String())
}
