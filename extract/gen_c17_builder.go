package main

// C17 fact generator (round 3): the BODIES of the registration-builder API of callbacks.go, read as small
// "where does every field of the returned *callback come from" tables (Gen/CallbackBuilderFacts.lean).
//
//   starters   (*processor).Before/After/Match     `return &callback{k: v, ...}`
//   chain      (*callback).Before/After (+ any other method of *callback returning *callback)
//   finishers  (*callback).Register/Remove/Replace  field assignments on the receiver, then
//                                                   `c.processor.callbacks = append(c.processor.callbacks, c)` and
//                                                   `return c.processor.compile()` -- and NOTHING else (logger calls
//                                                   are ignored)
//   delegates  (*processor).Register/Remove/Replace `return (&callback{processor: p}).M(args...)`
//
// Per method a table field -> source for ALL fields of `type callback struct`:
//   keep    the receiver's value of the same field (a mutating method keeps every field it does not assign; a
//           method that returns a fresh builder keeps exactly the fields it copies)
//   param0 / param1   the method's first / second parameter
//   zero    the zero value (field absent from a composite literal, "" / false / nil literal)
//   true    the literal `true`
//   recv    (starters / `processor` field) the processor the method was called on
//   other   anything the reader does not understand (the Lean side then refuses to call the tree well-formed)
// plus `fresh` (the method returns a builder other than its receiver).
//
// The reader is a tiny abstract interpreter over straight-line bodies: `x := &callback{...}`, `x := *c`,
// `x := c.processor.Before(arg)` (a starter, expanded through ITS table), `x.f = e`, `x.f, x.g = e1, e2`,
// `return x` / `return &x`. Any other statement (if/for/switch/defer/calls other than the logger) makes the whole
// table `other`.

import (
	"go/ast"
	"go/token"
	"sort"
	"strings"
)

func init() {
	extraGens = append(extraGens, func(o *out, pkgs map[string]map[string]*ast.File, all []funcInfo, repo string) {
		genCallbackBuilderFacts(o, pkgs["."])
	})
}

type c17Tab map[string]string // field -> source

func c17FindMethod(root map[string]*ast.File, name string) *ast.FuncDecl {
	for _, fi := range funcsOf(root) {
		if fi.name == name {
			return fi.decl
		}
	}
	return nil
}

func c17Params(fd *ast.FuncDecl) []string {
	var ps []string
	if fd.Type.Params != nil {
		for _, f := range fd.Type.Params.List {
			for _, n := range f.Names {
				ps = append(ps, n.Name)
			}
		}
	}
	return ps
}

func c17Recv(fd *ast.FuncDecl) string {
	if fd.Recv != nil && len(fd.Recv.List) > 0 && len(fd.Recv.List[0].Names) > 0 {
		return fd.Recv.List[0].Names[0].Name
	}
	return ""
}

func c17IsLoggerCall(st ast.Stmt) bool {
	es, ok := st.(*ast.ExprStmt)
	if !ok {
		return false
	}
	call, ok := es.X.(*ast.CallExpr)
	if !ok {
		return false
	}
	f := src(call.Fun)
	return strings.Contains(f, ".Logger.")
}

// c17Interp interprets the body of a builder method. recvIsCallback: the receiver is the *callback (its fields
// are "keep"); otherwise the receiver is the *processor. Returns the table of the returned builder, whether it
// is fresh, whether the receiver was appended to processor.callbacks exactly once and compile() is returned
// (finisher tail), and ok=false when the body is not understood.
type c17Res struct {
	tab        c17Tab
	fresh      bool
	recvTab    c17Tab // fields of the RECEIVER after the call (mutations), when the receiver is a *callback
	appended   int    // number of `recv.processor.callbacks = append(recv.processor.callbacks, recv)`
	compileRet bool   // `return recv.processor.compile()`
	retBuilder bool   // returns a builder
	delegate   string // for processor.Register/...: the callback method delegated to
	delegArgs  bool   // ... with the parameters in order
	ok         bool
}

func c17AllKeep(fields []string) c17Tab {
	t := c17Tab{}
	for _, f := range fields {
		t[f] = "keep"
	}
	return t
}

func c17AllZero(fields []string) c17Tab {
	t := c17Tab{}
	for _, f := range fields {
		t[f] = "zero"
	}
	return t
}

func c17Copy(t c17Tab) c17Tab {
	n := c17Tab{}
	for k, v := range t {
		n[k] = v
	}
	return n
}

func c17Interp(root map[string]*ast.File, fields []string, fd *ast.FuncDecl, recvIsCallback bool, depth int) c17Res {
	res := c17Res{}
	if fd == nil || fd.Body == nil || depth > 3 {
		return res
	}
	recv := c17Recv(fd)
	params := c17Params(fd)
	isField := map[string]bool{}
	for _, f := range fields {
		isField[f] = true
	}
	// abstract values of builder-typed variables: var -> table (pointer variables and value copies alike)
	vars := map[string]c17Tab{}
	if recvIsCallback {
		vars[recv] = c17AllKeep(fields)
	}
	// value of an expression assigned to field f
	valueOf := func(f string, e ast.Expr) string {
		s := src(e)
		for i, p := range params {
			if s == p && i < 2 {
				return []string{"param0", "param1"}[i]
			}
		}
		switch s {
		case `""`, "false", "nil":
			return "zero"
		case "true":
			return "true"
		}
		if !recvIsCallback && f == "processor" && s == recv {
			return "recv"
		}
		if se, ok := e.(*ast.SelectorExpr); ok {
			if id, ok := se.X.(*ast.Ident); ok {
				if t, ok := vars[id.Name]; ok && isField[se.Sel.Name] {
					if se.Sel.Name == f {
						return t[f] // same field of a known builder
					}
					return "other" // a DIFFERENT field of a builder: crossed wires
				}
			}
		}
		return "other"
	}
	// builder produced by an expression (nil = not a builder expression)
	fresh := map[string]bool{} // variables holding a builder that is not the receiver
	var builderOf2 func(e ast.Expr) (c17Tab, bool, bool)
	builderOf := func(e ast.Expr) (c17Tab, bool) {
		t, _, ok := builderOf2(e)
		return t, ok
	}
	builderOf2 = func(e ast.Expr) (c17Tab, bool, bool) {
		switch x := e.(type) {
		case *ast.ParenExpr:
			return builderOf2(x.X)
		case *ast.UnaryExpr:
			if x.Op == token.AND {
				if cl, ok := x.X.(*ast.CompositeLit); ok && src(cl.Type) == "callback" {
					t := c17AllZero(fields)
					for _, el := range cl.Elts {
						kv, ok := el.(*ast.KeyValueExpr)
						if !ok {
							return nil, false, false
						}
						k := src(kv.Key)
						if !isField[k] {
							return nil, false, false
						}
						t[k] = valueOf(k, kv.Value)
					}
					return t, true, true
				}
				if id, ok := x.X.(*ast.Ident); ok {
					if t, ok := vars[id.Name]; ok {
						return t, fresh[id.Name], true
					}
				}
			}
		case *ast.StarExpr:
			if id, ok := x.X.(*ast.Ident); ok {
				if t, ok := vars[id.Name]; ok {
					return c17Copy(t), true, true
				}
			}
		case *ast.CallExpr:
			// recv.processor.M(arg) / p.M(arg): a starter of *processor, expanded through its own table
			if se, ok := x.Fun.(*ast.SelectorExpr); ok && len(x.Args) == 1 {
				base := src(se.X)
				onProc := (recvIsCallback && base == recv+".processor") || (!recvIsCallback && base == recv)
				if onProc {
					sd := c17FindMethod(root, "processor."+se.Sel.Name)
					if sd != nil && sd.Type.Results != nil && len(sd.Type.Results.List) == 1 && src(sd.Type.Results.List[0].Type) == "*callback" {
						sr := c17Interp(root, fields, sd, false, depth+1)
						if sr.ok && sr.retBuilder {
							t := c17Tab{}
							for _, f := range fields {
								switch sr.tab[f] {
								case "param0":
									t[f] = valueOf(f, x.Args[0])
								case "recv":
									if recvIsCallback {
										t[f] = "keep" // c.processor
									} else {
										t[f] = "recv"
									}
								default:
									t[f] = sr.tab[f]
								}
							}
							return t, true, true
						}
					}
				}
			}
		case *ast.Ident:
			if t, ok := vars[x.Name]; ok {
				return t, fresh[x.Name], true // alias of the same builder (tables are shared on purpose)
			}
		}
		return nil, false, false
	}
	for _, st := range fd.Body.List {
		if c17IsLoggerCall(st) {
			continue
		}
		switch s := st.(type) {
		case *ast.AssignStmt:
			if len(s.Lhs) != len(s.Rhs) {
				return res
			}
			// evaluate all right-hand sides first (tuple assignment)
			type upd struct {
				v, f, val string
				tab       c17Tab
			}
			var us []upd
			for i := range s.Lhs {
				l, r := s.Lhs[i], s.Rhs[i]
				if id, ok := l.(*ast.Ident); ok {
					t, fr, ok := builderOf2(r)
					if !ok {
						return res
					}
					us = append(us, upd{v: id.Name, tab: t})
					fresh[id.Name] = fr
					continue
				}
				se, ok := l.(*ast.SelectorExpr)
				if !ok {
					return res
				}
				if id, ok := se.X.(*ast.Ident); ok {
					if _, known := vars[id.Name]; known && isField[se.Sel.Name] {
						us = append(us, upd{v: id.Name, f: se.Sel.Name, val: valueOf(se.Sel.Name, r)})
						continue
					}
				}
				// recv.processor.callbacks = append(recv.processor.callbacks, recv)
				if recvIsCallback && src(l) == recv+".processor.callbacks" && strings.ReplaceAll(src(r), " ", "") == "append("+recv+".processor.callbacks,"+recv+")" {
					res.appended++
					continue
				}
				return res
			}
			for _, u := range us {
				if u.f == "" {
					vars[u.v] = u.tab
				} else {
					vars[u.v][u.f] = u.val
				}
			}
		case *ast.ReturnStmt:
			if len(s.Results) != 1 {
				return res
			}
			r := s.Results[0]
			rs := strings.ReplaceAll(src(r), " ", "")
			if recvIsCallback && rs == recv+".processor.compile()" {
				res.compileRet = true
				res.recvTab = vars[recv]
				res.ok = true
				return res
			}
			// delegate: (&callback{processor: p}).M(params...)
			if call, ok := r.(*ast.CallExpr); ok && !recvIsCallback {
				if se, ok := call.Fun.(*ast.SelectorExpr); ok {
					if t, ok := builderOf(se.X); ok {
						res.tab, res.fresh, res.delegate = t, true, se.Sel.Name
						res.delegArgs = len(call.Args) == len(params)
						for i, a := range call.Args {
							if i >= len(params) || src(a) != params[i] {
								res.delegArgs = false
							}
						}
						res.ok = true
						return res
					}
				}
			}
			t, fr, ok := builderOf2(r)
			if !ok {
				return res
			}
			res.tab, res.retBuilder, res.ok = t, true, true
			res.fresh = fr
			if recvIsCallback {
				res.recvTab = vars[recv]
			}
			return res
		default:
			return res // if / for / switch / defer / go / bare calls: not a builder body we understand
		}
	}
	return res
}

func c17TabLean(fields []string, t c17Tab, ok bool) string {
	ps := make([][2]string, 0, len(fields))
	for _, f := range fields {
		v := "other"
		if ok {
			if x, has := t[f]; has {
				v = x
			}
		}
		ps = append(ps, [2]string{f, v})
	}
	return pairs(ps)
}

func genCallbackBuilderFacts(o *out, root map[string]*ast.File) {
	fields := structFields(root, "callback")
	var b strings.Builder
	b.WriteString("/-- fields of `type callback struct` (callbacks.go) -/\n")
	b.WriteString("def callbackFields : List String := " + lstrs(fields) + "\n\n")
	emit := func(leanName, goName, doc string, recvIsCallback bool) c17Res {
		fd := c17FindMethod(root, goName)
		r := c17Interp(root, fields, fd, recvIsCallback, 0)
		b.WriteString("/-- " + doc + " -/\n")
		b.WriteString("def " + leanName + " : List (String × String) := " + c17TabLean(fields, r.tab, r.ok && (r.retBuilder || r.delegate != "")) + "\n")
		return r
	}
	// starters
	for _, m := range []string{"Before", "After", "Match"} {
		r := emit("proc"+m, "processor."+m, "`(*processor)."+m+"`: source of every field of the builder it returns", false)
		b.WriteString("def proc" + m + "Fresh : Bool := " + lbool(r.ok && r.fresh) + "\n\n")
	}
	// chain methods
	for _, m := range []string{"Before", "After"} {
		r := emit("cb"+m, "callback."+m, "`(*callback)."+m+"`: source of every field of the builder it returns (`keep` = the receiver's value)", true)
		b.WriteString("/-- it returns a builder other than its receiver -/\n")
		b.WriteString("def cb" + m + "Fresh : Bool := " + lbool(r.ok && r.fresh) + "\n")
		// when it returns a fresh builder the receiver must be left alone; when it returns the receiver the table IS the receiver's
		b.WriteString("/-- fields of the RECEIVER after the call -/\n")
		b.WriteString("def cb" + m + "Recv : List (String × String) := " + c17TabLean(fields, r.recvTab, r.ok && r.recvTab != nil) + "\n\n")
	}
	// any other method of *callback returning *callback (the chain API has grown): listed by name
	var extra []string
	for _, fi := range funcsOf(root) {
		if strings.HasPrefix(fi.name, "callback.") && fi.decl.Type.Results != nil && len(fi.decl.Type.Results.List) == 1 &&
			src(fi.decl.Type.Results.List[0].Type) == "*callback" {
			n := strings.TrimPrefix(fi.name, "callback.")
			if n != "Before" && n != "After" {
				extra = append(extra, n)
			}
		}
	}
	sort.Strings(extra)
	b.WriteString("/-- other methods of `*callback` returning `*callback` (none in the pinned tree) -/\n")
	b.WriteString("def cbOtherChainMethods : List String := " + lstrs(extra) + "\n\n")
	// finishers
	for _, m := range []string{"Register", "Remove", "Replace"} {
		fd := c17FindMethod(root, "callback."+m)
		r := c17Interp(root, fields, fd, true, 0)
		b.WriteString("/-- `(*callback)." + m + "`: fields of the receiver when it is appended to `processor.callbacks` -/\n")
		b.WriteString("def cb" + m + " : List (String × String) := " + c17TabLean(fields, r.recvTab, r.ok && r.compileRet) + "\n")
		b.WriteString("/-- … its body is: (logger call,) field assignments, ONE `c.processor.callbacks = append(c.processor.callbacks, c)`, `return c.processor.compile()` -/\n")
		b.WriteString("def cb" + m + "Tail : Bool := " + lbool(r.ok && r.compileRet && r.appended == 1) + "\n\n")
	}
	// delegates
	for _, m := range []string{"Register", "Remove", "Replace"} {
		fd := c17FindMethod(root, "processor."+m)
		r := c17Interp(root, fields, fd, false, 0)
		b.WriteString("/-- `(*processor)." + m + "` is `return (&callback{…}).X(params…)`: fields of that fresh builder -/\n")
		b.WriteString("def proc" + m + " : List (String × String) := " + c17TabLean(fields, r.tab, r.ok && r.delegate != "") + "\n")
		b.WriteString("def proc" + m + "Delegate : String := " + lstr(r.delegate) + "\n")
		b.WriteString("def proc" + m + "ArgsInOrder : Bool := " + lbool(r.ok && r.delegArgs) + "\n\n")
	}
	o.write("CallbackBuilderFacts", b.String())
}
