package main

// C12 fact generator (round 3): the Association HANDLE as a value, and the key rendering behind record identity.
// Writes Gen/AssocHandle.lean:
//
//	assocUnscopedReturns   the return expressions of Association.Unscoped (source text)
//	assocUnscopedLiteral   when its only return is `&Association{…}`: the (field, value) pairs of that literal, else []
//	assocFieldWrites       every assignment `x.F = …` / `x.F op= …` in association.go with F one of the four fields of the
//	                       Association struct (Unscope, Error, DB, Relationship): (function, left-hand side)
//	assocErrorGuards       for each exported operation: the condition of the `if` that is the FIRST statement of its body
//	assocLiterals          every `Association{…}` composite literal of association.go: (function, (field, value) pairs)
//	toStringKeyCases       utils.ToStringKey: per case of its type switch the right-hand sides assigned to results[idx]

import (
	"fmt"
	"go/ast"
	"strings"
)

func init() {
	extraGens = append(extraGens, func(o *out, pkgs map[string]map[string]*ast.File, all []funcInfo, repo string) {
		genAssocHandle(o, all)
	})
}

func c12LitPairs(cl *ast.CompositeLit) string {
	var ps []string
	for _, e := range cl.Elts {
		if kv, ok := e.(*ast.KeyValueExpr); ok {
			ps = append(ps, fmt.Sprintf("(%s, %s)", lstr(src(kv.Key)), lstr(src(kv.Value))))
		} else {
			ps = append(ps, fmt.Sprintf("(%s, %s)", lstr(""), lstr(src(e))))
		}
	}
	return "[" + strings.Join(ps, ", ") + "]"
}

func genAssocHandle(o *out, all []funcInfo) {
	var returns, writes, guards, lits, cases []string
	literal := "[]"
	structFields := map[string]bool{"Unscope": true, "Error": true, "DB": true, "Relationship": true}
	ops := map[string]bool{"Association.Find": true, "Association.Append": true, "Association.Replace": true, "Association.Delete": true, "Association.Count": true}
	for _, fi := range all {
		fi := fi
		if fi.decl.Body == nil {
			continue
		}
		switch {
		case fi.file == "association.go":
			if fi.name == "Association.Unscoped" {
				var rets []*ast.ReturnStmt
				ast.Inspect(fi.decl.Body, func(n ast.Node) bool {
					if r, ok := n.(*ast.ReturnStmt); ok {
						rets = append(rets, r)
					}
					return true
				})
				for _, r := range rets {
					for _, e := range r.Results {
						returns = append(returns, lstr(src(e)))
					}
				}
				if len(rets) == 1 && len(rets[0].Results) == 1 {
					if u, ok := rets[0].Results[0].(*ast.UnaryExpr); ok && u.Op.String() == "&" {
						if cl, ok := u.X.(*ast.CompositeLit); ok && src(cl.Type) == "Association" {
							literal = c12LitPairs(cl)
						}
					}
				}
			}
			if ops[fi.name] && len(fi.decl.Body.List) > 0 {
				g := ""
				if is, ok := fi.decl.Body.List[0].(*ast.IfStmt); ok && is.Init == nil {
					g = src(is.Cond)
				}
				guards = append(guards, fmt.Sprintf("(%s, %s)", lstr(fi.name), lstr(g)))
			}
			ast.Inspect(fi.decl.Body, func(n ast.Node) bool {
				switch x := n.(type) {
				case *ast.AssignStmt:
					for _, l := range x.Lhs {
						if sel, ok := l.(*ast.SelectorExpr); ok && structFields[sel.Sel.Name] {
							if id, ok := sel.X.(*ast.Ident); ok && id.Name != "db" && id.Name != "tx" {
								writes = append(writes, fmt.Sprintf("(%s, %s)", lstr(fi.name), lstr(src(l))))
							}
						}
					}
				case *ast.IncDecStmt:
					if sel, ok := x.X.(*ast.SelectorExpr); ok && structFields[sel.Sel.Name] {
						writes = append(writes, fmt.Sprintf("(%s, %s)", lstr(fi.name), lstr(src(x.X))))
					}
				case *ast.CompositeLit:
					if x.Type != nil && src(x.Type) == "Association" {
						lits = append(lits, fmt.Sprintf("(%s, %s)", lstr(fi.name), c12LitPairs(x)))
					}
				}
				return true
			})
		case fi.file == "utils/utils.go" && fi.name == "ToStringKey":
			ast.Inspect(fi.decl.Body, func(n ast.Node) bool {
				ts, ok := n.(*ast.TypeSwitchStmt)
				if !ok {
					return true
				}
				for _, c := range ts.Body.List {
					cc := c.(*ast.CaseClause)
					label := "default"
					if len(cc.List) > 0 {
						var ls []string
						for _, e := range cc.List {
							ls = append(ls, src(e))
						}
						label = strings.Join(ls, ", ")
					}
					var rhs []string
					for _, st := range cc.Body {
						ast.Inspect(st, func(m ast.Node) bool {
							if as, ok := m.(*ast.AssignStmt); ok && len(as.Lhs) == 1 && len(as.Rhs) == 1 && src(as.Lhs[0]) == "results[idx]" {
								rhs = append(rhs, src(as.Rhs[0]))
							}
							return true
						})
					}
					cases = append(cases, fmt.Sprintf("(%s, %s)", lstr(label), lstrs(rhs)))
				}
				return false
			})
		}
	}
	var b strings.Builder
	list := func(doc, name, typ string, items []string) {
		fmt.Fprintf(&b, "/-- %s -/\ndef %s : List (%s) := [\n  %s\n]\n\n", doc, name, typ, strings.Join(items, ",\n  "))
	}
	list("association.go Association.Unscoped: its return expressions", "assocUnscopedReturns", "String", returns)
	fmt.Fprintf(&b, "/-- association.go Association.Unscoped: the (field, value) pairs of the `&Association{…}` literal that is its only return ([] = it returns something else) -/\ndef assocUnscopedLiteral : List (String × String) := %s\n\n", literal)
	list("association.go: every assignment to a field of an Association struct (Unscope / Error / DB / Relationship): (function, left-hand side)", "assocFieldWrites", "String × String", writes)
	list("association.go: the `if` condition that is the first statement of each exported operation", "assocErrorGuards", "String × String", guards)
	list("association.go: every `Association{…}` composite literal: (function, (field, value) pairs)", "assocLiterals", "String × List (String × String)", lits)
	list("utils/utils.go ToStringKey: per case of the type switch the right-hand sides assigned to results[idx]", "toStringKeyCases", "String × List String", cases)
	o.facts["assocFieldWrites"] = len(writes)
	o.write("AssocHandle", b.String())
}
