package main

// C13 fact generator (round 5): Gen/HookWalk.lean -- how callbacks/callmethod.go callMethod walks a slice and what the
// statement's element register `Statement.CurDestIndex` goes through.  Purely syntactic.
//
//	cmSliceArm    the statements of the `case reflect.Slice, reflect.Array:` clause of callMethod, flattened to
//	              (nesting depth, text)
//	cmRewind      the FIRST statement of that clause is `db.Statement.CurDestIndex = 0`, the second one is the (only) loop
//	cmAdvance     the LAST statement of the loop body is `db.Statement.CurDestIndex++` (top level of the body) and the
//	              body touches the register nowhere else
//	cmLoopShape   the loop is `for i := 0; i < db.Statement.ReflectValue.Len(); i++`, its first statement tests
//	              `reflect.Indirect(db.Statement.ReflectValue.Index(i))`.CanAddr() and calls fc(value.Addr().Interface(), tx)
//	              in the then-branch; the else-branch is AddError + return
//	curDestUses   EVERY occurrence of the selector `.CurDestIndex` in the non-test sources: (file, function, role) with
//	              role = assign:<rhs> | incdec:<tok> | index:<receiver of .Index(…)> | read:<enclosing expression>

import (
	"go/ast"
	"go/token"
	"sort"
	"strconv"
	"strings"
)

func init() {
	extraGens = append(extraGens, func(o *out, pkgs map[string]map[string]*ast.File, all []funcInfo, repo string) {
		genHookWalk(o, all)
	})
}

func c13wFlatten(list []ast.Stmt, depth int, acc *[][2]interface{}) {
	for _, s := range list {
		switch x := s.(type) {
		case *ast.ForStmt:
			*acc = append(*acc, [2]interface{}{depth, "for " + src(x.Init) + "; " + src(x.Cond) + "; " + src(x.Post)})
			c13wFlatten(x.Body.List, depth+1, acc)
		case *ast.RangeStmt:
			*acc = append(*acc, [2]interface{}{depth, "range " + src(x.Key) + ", " + src(x.Value) + " := " + src(x.X)})
			c13wFlatten(x.Body.List, depth+1, acc)
		case *ast.IfStmt:
			h := "if "
			if x.Init != nil {
				h += src(x.Init) + "; "
			}
			*acc = append(*acc, [2]interface{}{depth, h + src(x.Cond)})
			c13wFlatten(x.Body.List, depth+1, acc)
			if x.Else != nil {
				*acc = append(*acc, [2]interface{}{depth, "else"})
				if b, ok := x.Else.(*ast.BlockStmt); ok {
					c13wFlatten(b.List, depth+1, acc)
				} else {
					c13wFlatten([]ast.Stmt{x.Else}, depth+1, acc)
				}
			}
		case *ast.BlockStmt:
			c13wFlatten(x.List, depth+1, acc)
		default:
			*acc = append(*acc, [2]interface{}{depth, src(s)})
		}
	}
}

func c13wMentions(n ast.Node) bool {
	found := false
	ast.Inspect(n, func(x ast.Node) bool {
		if se, ok := x.(*ast.SelectorExpr); ok && se.Sel.Name == "CurDestIndex" {
			found = true
		}
		return true
	})
	return found
}

func genHookWalk(o *out, all []funcInfo) {
	var arm [][2]interface{}
	rewind, advance, shape := false, false, false
	if fi := c13Func(all, "callbacks/callmethod.go", "callMethod"); fi != nil && fi.decl.Body != nil {
		ast.Inspect(fi.decl.Body, func(n ast.Node) bool {
			cc, ok := n.(*ast.CaseClause)
			if !ok {
				return true
			}
			isSlice := false
			for _, e := range cc.List {
				if src(e) == "reflect.Slice" {
					isSlice = true
				}
			}
			if !isSlice || arm != nil {
				return true
			}
			c13wFlatten(cc.Body, 0, &arm)
			var loops []*ast.ForStmt
			for _, s := range cc.Body {
				if f, ok := s.(*ast.ForStmt); ok {
					loops = append(loops, f)
				}
			}
			if len(cc.Body) >= 2 && len(loops) == 1 {
				if as, ok := cc.Body[0].(*ast.AssignStmt); ok && as.Tok == token.ASSIGN && len(as.Lhs) == 1 && len(as.Rhs) == 1 &&
					src(as.Lhs[0]) == "db.Statement.CurDestIndex" && src(as.Rhs[0]) == "0" && cc.Body[1] == ast.Stmt(loops[0]) {
					rewind = true
				}
			}
			if len(loops) == 1 {
				body := loops[0].Body.List
				if len(body) >= 1 {
					if inc, ok := body[len(body)-1].(*ast.IncDecStmt); ok && inc.Tok == token.INC && src(inc.X) == "db.Statement.CurDestIndex" {
						advance = true
						for _, s := range body[:len(body)-1] {
							if c13wMentions(s) {
								advance = false
							}
						}
					}
				}
				f := loops[0]
				if src(f.Init) == "i := 0" && src(f.Cond) == "i < db.Statement.ReflectValue.Len()" && src(f.Post) == "i++" && len(body) >= 1 {
					if is, ok := body[0].(*ast.IfStmt); ok && src(is.Init) == "value := reflect.Indirect(db.Statement.ReflectValue.Index(i))" &&
						src(is.Cond) == "value.CanAddr()" && len(is.Body.List) == 1 && src(is.Body.List[0]) == "fc(value.Addr().Interface(), tx)" {
						if eb, ok := is.Else.(*ast.BlockStmt); ok && len(eb.List) == 2 && src(eb.List[0]) == "db.AddError(gorm.ErrInvalidValue)" && src(eb.List[1]) == "return" {
							shape = true
						}
					}
				}
			}
			return true
		})
	}

	// every occurrence of `.CurDestIndex`
	type use struct{ file, fn, role string }
	var uses []use
	for i := range all {
		fi := all[i]
		if fi.decl.Body == nil || strings.HasSuffix(fi.file, "_test.go") {
			continue
		}
		var stack []ast.Node
		ast.Inspect(fi.decl.Body, func(n ast.Node) bool {
			if n == nil {
				stack = stack[:len(stack)-1]
				return true
			}
			if se, ok := n.(*ast.SelectorExpr); ok && se.Sel.Name == "CurDestIndex" {
				role := "read:"
				if len(stack) > 0 {
					switch p := stack[len(stack)-1].(type) {
					case *ast.AssignStmt:
						onLhs := false
						for _, l := range p.Lhs {
							if l == ast.Expr(se) {
								onLhs = true
							}
						}
						if onLhs {
							rhs := make([]string, len(p.Rhs))
							for j, r := range p.Rhs {
								rhs[j] = src(r)
							}
							role = "assign:" + p.Tok.String() + strings.Join(rhs, ",")
						} else {
							role = "read:" + src(p)
						}
					case *ast.IncDecStmt:
						role = "incdec:" + p.Tok.String()
					case *ast.CallExpr:
						if fs, ok := p.Fun.(*ast.SelectorExpr); ok && fs.Sel.Name == "Index" && len(p.Args) == 1 && p.Args[0] == ast.Expr(se) {
							role = "index:" + src(fs.X)
						} else {
							role = "read:" + src(p)
						}
					default:
						role = "read:" + src(p)
					}
				}
				uses = append(uses, use{fi.file, fi.name, src(se.X) + "|" + role})
			}
			stack = append(stack, n)
			return true
		})
	}
	sort.SliceStable(uses, func(i, j int) bool {
		if uses[i].file != uses[j].file {
			return uses[i].file < uses[j].file
		}
		return uses[i].fn < uses[j].fn
	})

	var b strings.Builder
	b.WriteString("/-- callbacks/callmethod.go callMethod: the statements of the `case reflect.Slice, reflect.Array:` clause, flattened\n    to (nesting depth, text) -/\n")
	b.WriteString("def cmSliceArm : List (Nat × String) := [")
	for i, a := range arm {
		if i > 0 {
			b.WriteString(",\n  ")
		}
		b.WriteString("(" + strconv.Itoa(a[0].(int)) + ", " + lstr(a[1].(string)) + ")")
	}
	b.WriteString("]\n\n")
	b.WriteString("/-- the first statement of the clause is `db.Statement.CurDestIndex = 0`, directly followed by the only loop -/\n")
	b.WriteString("def cmRewind : Bool := " + lbool(rewind) + "\n\n")
	b.WriteString("/-- the last statement of the loop body is `db.Statement.CurDestIndex++`; the body touches the register nowhere else -/\n")
	b.WriteString("def cmAdvance : Bool := " + lbool(advance) + "\n\n")
	b.WriteString("/-- `for i := 0; i < Len; i++ { if value := Indirect(Index(i)); value.CanAddr() { fc(value.Addr()…) } else { AddError; return } … }` -/\n")
	b.WriteString("def cmLoopShape : Bool := " + lbool(shape) + "\n\n")
	b.WriteString("/-- every occurrence of the selector `.CurDestIndex` outside tests: (file, function, `<receiver>|<role>`) -/\n")
	b.WriteString("def curDestUses : List (String × String × String) := [")
	for i, u := range uses {
		if i > 0 {
			b.WriteString(",\n  ")
		}
		b.WriteString("(" + lstr(u.file) + ", " + lstr(u.fn) + ", " + lstr(u.role) + ")")
	}
	b.WriteString("]\n")
	o.write("HookWalk", b.String())
	o.facts["cmRewind"] = rewind
	o.facts["cmAdvance"] = advance
	o.facts["cmLoopShape"] = shape
}
