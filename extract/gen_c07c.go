package main

// C07 (round 3) fact generator → Gen/WaitSites.lean.  Purely syntactic, names only.
//
//  waitSites         every statement `<-X.F` (a bare receive used as "wait until the goroutine that builds X is done") in the
//                    root and schema packages, with what the code does RIGHT AFTER the wait: the completer publishes its
//                    failure in a field of X (`prepareErr`, `err`), and a waiter that does not look at it goes on with a
//                    half-built X.  Recorded per site: function, channel field, waited variable, whether it sits in a
//                    `go func` closure, the kind of the last Mux.Lock()/RLock() call before it in the function (for
//                    prepare_stmt.go's prepare: RLock = fast path, Lock = double check), the statement that follows
//                    ("if-err-return": `if X.E != nil { return …, X.E }`, "return-with-err": `return V, X.E`,
//                    "if-nil-guard": `if X.G != nil { … }`, "none"), the error field and the variable it is read from,
//                    and the value returned on the success path.
//  prepareCallSites  every call `… .prepare(…)` of the statement cache with how its error result guards the use of the
//                    returned statement ("if-err-nil" / "if-err-return" / "none").

import (
	"fmt"
	"go/ast"
	"go/token"
	"sort"
	"strings"
)

func init() {
	extraGens = append(extraGens, func(o *out, pkgs map[string]map[string]*ast.File, all []funcInfo, repo string) {
		genC07WaitSites(o, pkgs)
	})
}

type c07cWait struct {
	file, fn, ch, recv, branch, after, errField, errOf, retVal string
	line                                                      int
	inGo                                                      bool
}

type c07cCall struct {
	file, fn, stmtVar, errVar, guard string
	line                            int
}

// c07cIsNilCmp: `A.B != nil` → ("A", "B", true)
func c07cNotNil(e ast.Expr) (string, string, bool) {
	be, ok := e.(*ast.BinaryExpr)
	if !ok || be.Op != token.NEQ {
		return "", "", false
	}
	if id, ok := be.Y.(*ast.Ident); !ok || id.Name != "nil" {
		return "", "", false
	}
	sel, ok := be.X.(*ast.SelectorExpr)
	if !ok {
		return "", "", false
	}
	return src(sel.X), sel.Sel.Name, true
}

func c07cLooksLikeErr(name string) bool {
	l := strings.ToLower(name)
	return l == "err" || strings.HasSuffix(l, "err") || strings.HasSuffix(l, "error")
}

func c07cFuncName(fd *ast.FuncDecl) string {
	name := fd.Name.Name
	if fd.Recv != nil && len(fd.Recv.List) > 0 {
		name = strings.TrimPrefix(src(fd.Recv.List[0].Type), "*") + "." + name
	}
	return name
}

func genC07WaitSites(o *out, pkgs map[string]map[string]*ast.File) {
	var waits []c07cWait
	var calls []c07cCall
	for _, pkg := range []string{".", "schema"} {
		var files []string
		for fn := range pkgs[pkg] {
			files = append(files, fn)
		}
		sort.Strings(files)
		for _, fname := range files {
			if strings.HasSuffix(fname, "_test.go") {
				continue
			}
			f := pkgs[pkg][fname]
			rel := fname
			if i := strings.LastIndex(rel, "/"); i >= 0 {
				rel = rel[i+1:]
			}
			if pkg != "." {
				rel = pkg + "/" + rel
			}
			for _, d := range f.Decls {
				fd, ok := d.(*ast.FuncDecl)
				if !ok || fd.Body == nil {
					continue
				}
				fn := c07cFuncName(fd)
				lastLock := ""
				var visitBlock func(list []ast.Stmt, inGo bool)
				var visitStmt func(s ast.Stmt, inGo bool)
				// expressions may hide func literals (go func(){…}(), defer func(){…}())
				visitExprFuncs := func(n ast.Node, inGo bool) {
					ast.Inspect(n, func(x ast.Node) bool {
						if fl, ok := x.(*ast.FuncLit); ok {
							visitBlock(fl.Body.List, inGo)
							return false
						}
						if c, ok := x.(*ast.CallExpr); ok {
							if sel, ok := c.Fun.(*ast.SelectorExpr); ok && (sel.Sel.Name == "Lock" || sel.Sel.Name == "RLock") && strings.HasSuffix(src(sel.X), "Mux") {
								lastLock = sel.Sel.Name
							}
						}
						return true
					})
				}
				visitBlock = func(list []ast.Stmt, inGo bool) {
					for i, s := range list {
						if es, ok := s.(*ast.ExprStmt); ok {
							if u, ok := es.X.(*ast.UnaryExpr); ok && u.Op == token.ARROW {
								if sel, ok := u.X.(*ast.SelectorExpr); ok {
									w := c07cWait{file: rel, fn: fn, ch: sel.Sel.Name, recv: src(sel.X), inGo: inGo, branch: lastLock,
										after: "none", line: fset.Position(s.Pos()).Line}
									rest := list[i+1:]
									if len(rest) > 0 {
										switch nx := rest[0].(type) {
										case *ast.IfStmt:
											if a, b, ok := c07cNotNil(nx.Cond); ok && nx.Init == nil {
												if c07cLooksLikeErr(b) {
													// the body must return that very error
													returns := false
													for _, bs := range nx.Body.List {
														if rs, ok := bs.(*ast.ReturnStmt); ok {
															for _, r := range rs.Results {
																if src(r) == a+"."+b {
																	returns = true
																}
															}
														}
													}
													if returns {
														w.after, w.errField, w.errOf = "if-err-return", b, a
													} else {
														w.after, w.errField, w.errOf = "if-err-other", b, a
													}
													if len(rest) > 1 {
														if rs, ok := rest[1].(*ast.ReturnStmt); ok && len(rs.Results) > 0 {
															w.retVal = src(rs.Results[0])
														}
													}
												} else {
													w.after, w.errField, w.errOf = "if-nil-guard", b, a
												}
											}
										case *ast.ReturnStmt:
											if len(nx.Results) > 0 {
												w.retVal = src(nx.Results[0])
											}
											for ri, r := range nx.Results {
												if ri == 0 {
													continue
												}
												if sel, ok := r.(*ast.SelectorExpr); ok && c07cLooksLikeErr(sel.Sel.Name) {
													w.after, w.errField, w.errOf = "return-with-err", sel.Sel.Name, src(sel.X)
												}
											}
										}
									}
									waits = append(waits, w)
									continue
								}
							}
						}
						// `stmt, err := X.prepare(…)`
						if as, ok := s.(*ast.AssignStmt); ok && len(as.Rhs) == 1 && len(as.Lhs) == 2 {
							if c, ok := as.Rhs[0].(*ast.CallExpr); ok {
								if sel, ok := c.Fun.(*ast.SelectorExpr); ok && sel.Sel.Name == "prepare" {
									cs := c07cCall{file: rel, fn: fn, stmtVar: src(as.Lhs[0]), errVar: src(as.Lhs[1]), guard: "none", line: fset.Position(s.Pos()).Line}
									if i+1 < len(list) {
										if ifs, ok := list[i+1].(*ast.IfStmt); ok && ifs.Init == nil {
											switch strings.ReplaceAll(src(ifs.Cond), " ", "") {
											case cs.errVar + "==nil":
												// the statement variable must not be used after the guarded block
												used := false
												for _, later := range list[i+2:] {
													ast.Inspect(later, func(x ast.Node) bool {
														if id, ok := x.(*ast.Ident); ok && id.Name == cs.stmtVar {
															used = true
														}
														return true
													})
												}
												if used {
													cs.guard = "if-err-nil-but-used-after"
												} else {
													cs.guard = "if-err-nil"
												}
											case cs.errVar + "!=nil":
												for _, bs := range ifs.Body.List {
													if _, ok := bs.(*ast.ReturnStmt); ok {
														cs.guard = "if-err-return"
													}
												}
											}
										}
									}
									calls = append(calls, cs)
								}
							}
						}
						visitStmt(s, inGo)
					}
				}
				visitStmt = func(s ast.Stmt, inGo bool) {
					switch x := s.(type) {
					case nil:
					case *ast.BlockStmt:
						visitBlock(x.List, inGo)
					case *ast.IfStmt:
						if x.Init != nil {
							visitExprFuncs(x.Init, inGo)
						}
						visitExprFuncs(x.Cond, inGo)
						visitBlock(x.Body.List, inGo)
						if x.Else != nil {
							visitStmt(x.Else, inGo)
						}
					case *ast.ForStmt:
						visitBlock(x.Body.List, inGo)
					case *ast.RangeStmt:
						visitBlock(x.Body.List, inGo)
					case *ast.SwitchStmt:
						visitBlock(x.Body.List, inGo)
					case *ast.TypeSwitchStmt:
						visitBlock(x.Body.List, inGo)
					case *ast.SelectStmt:
						visitBlock(x.Body.List, inGo)
					case *ast.CaseClause:
						visitBlock(x.Body, inGo)
					case *ast.CommClause:
						visitBlock(x.Body, inGo)
					case *ast.LabeledStmt:
						visitStmt(x.Stmt, inGo)
					case *ast.GoStmt:
						if fl, ok := x.Call.Fun.(*ast.FuncLit); ok {
							visitBlock(fl.Body.List, true)
						}
					case *ast.DeferStmt:
						if fl, ok := x.Call.Fun.(*ast.FuncLit); ok {
							visitBlock(fl.Body.List, inGo)
						} else {
							visitExprFuncs(x.Call, inGo)
						}
					default:
						visitExprFuncs(s, inGo)
					}
				}
				visitBlock(fd.Body.List, false)
			}
		}
	}
	// completion sites: `close(X.F)` of a completion channel (deferred or not) and assignments of the published error field
	type c07cDone struct {
		file, fn, kind, target, guard string
		deferred                      bool
		line                          int
	}
	var dones []c07cDone
	for _, pkg := range []string{".", "schema"} {
		var files []string
		for fn := range pkgs[pkg] {
			files = append(files, fn)
		}
		sort.Strings(files)
		for _, fname := range files {
			if strings.HasSuffix(fname, "_test.go") {
				continue
			}
			rel := fname
			if i := strings.LastIndex(rel, "/"); i >= 0 {
				rel = rel[i+1:]
			}
			if pkg != "." {
				rel = pkg + "/" + rel
			}
			for _, d := range pkgs[pkg][fname].Decls {
				fd, ok := d.(*ast.FuncDecl)
				if !ok || fd.Body == nil {
					continue
				}
				fn := c07cFuncName(fd)
				var stack []ast.Node
				ast.Inspect(fd.Body, func(n ast.Node) bool {
					if n == nil {
						stack = stack[:len(stack)-1]
						return true
					}
					stack = append(stack, n)
					guard := func() string {
						for i := len(stack) - 2; i >= 0; i-- {
							if ifs, ok := stack[i].(*ast.IfStmt); ok && i+1 < len(stack) && stack[i+1] == ast.Node(ifs.Body) {
								return strings.ReplaceAll(src(ifs.Cond), " ", "")
							}
						}
						return ""
					}
					switch x := n.(type) {
					case *ast.CallExpr:
						if id, ok := x.Fun.(*ast.Ident); ok && id.Name == "close" && len(x.Args) == 1 {
							if sel, ok := x.Args[0].(*ast.SelectorExpr); ok && (sel.Sel.Name == "prepared" || sel.Sel.Name == "initialized") {
								def := false
								if len(stack) >= 2 {
									if ds, ok := stack[len(stack)-2].(*ast.DeferStmt); ok && ds.Call == x {
										def = true
									}
								}
								dones = append(dones, c07cDone{file: rel, fn: fn, kind: "close", target: src(sel), guard: guard(), deferred: def, line: fset.Position(x.Pos()).Line})
							}
						}
					case *ast.AssignStmt:
						for _, l := range x.Lhs {
							if sel, ok := l.(*ast.SelectorExpr); ok && sel.Sel.Name == "prepareErr" {
								dones = append(dones, c07cDone{file: rel, fn: fn, kind: "seterr", target: src(sel) + " = " + src(x.Rhs[0]), guard: guard(), line: fset.Position(x.Pos()).Line})
							}
						}
					}
					return true
				})
			}
		}
	}
	var b strings.Builder
	b.WriteString("structure WaitSite where\n  file : String\n  fn : String\n  line : Nat\n  chan : String\n  recv : String\n  inGo : Bool\n  branch : String\n  after : String\n  errField : String\n  errOf : String\n  retVal : String\nderiving Repr, DecidableEq\n\n")
	b.WriteString("/-- root + schema packages: every bare receive `<-X.F` (wait for the goroutine that builds X) and what follows it:\n    \"if-err-return\" = `if X.E != nil { return …, X.E }`, \"return-with-err\" = `return V, X.E`, \"if-nil-guard\" = `if X.G != nil {…}`,\n    \"none\"; `branch` = kind of the last Mux.Lock()/RLock() call before the site; `retVal` = value returned on the success path -/\ndef waitSites : List WaitSite := [\n")
	for i, w := range waits {
		if i > 0 {
			b.WriteString(",\n")
		}
		fmt.Fprintf(&b, "  { file := %s, fn := %s, line := %d, chan := %s, recv := %s, inGo := %s, branch := %s, after := %s, errField := %s, errOf := %s, retVal := %s }",
			lstr(w.file), lstr(w.fn), w.line, lstr(w.ch), lstr(w.recv), lbool(w.inGo), lstr(w.branch), lstr(w.after), lstr(w.errField), lstr(w.errOf), lstr(w.retVal))
	}
	b.WriteString("\n]\n\n")
	b.WriteString("structure PrepareCallSite where\n  file : String\n  fn : String\n  line : Nat\n  stmtVar : String\n  errVar : String\n  guard : String\nderiving Repr, DecidableEq\n\n")
	b.WriteString("/-- every `stmt, err := ….prepare(…)` of the statement cache and how `err` guards the use of `stmt`: \"if-err-nil\" = the next\n    statement is `if err == nil {…}` and `stmt` is not mentioned after it; \"if-err-return\" = `if err != nil { return … }` -/\ndef prepareCallSites : List PrepareCallSite := [\n")
	for i, c := range calls {
		if i > 0 {
			b.WriteString(",\n")
		}
		fmt.Fprintf(&b, "  { file := %s, fn := %s, line := %d, stmtVar := %s, errVar := %s, guard := %s }",
			lstr(c.file), lstr(c.fn), c.line, lstr(c.stmtVar), lstr(c.errVar), lstr(c.guard))
	}
	b.WriteString("\n]\n")
	b.WriteString("\nstructure CompletionSite where\n  file : String\n  fn : String\n  line : Nat\n  kind : String\n  target : String\n  guard : String\n  deferred : Bool\nderiving Repr, DecidableEq\n\n")
	b.WriteString("/-- how a builder tells its waiters that it is done: every `close(X.prepared)` / `close(X.initialized)` (kind \"close\", `deferred` = it is the\n    call of a `defer` statement, so it runs on every return path) and every assignment of `prepareErr` (kind \"seterr\") with the condition\n    of the innermost enclosing `if` -/\ndef completionSites : List CompletionSite := [\n")
	for i, d := range dones {
		if i > 0 {
			b.WriteString(",\n")
		}
		fmt.Fprintf(&b, "  { file := %s, fn := %s, line := %d, kind := %s, target := %s, guard := %s, deferred := %s }",
			lstr(d.file), lstr(d.fn), d.line, lstr(d.kind), lstr(d.target), lstr(d.guard), lbool(d.deferred))
	}
	b.WriteString("\n]\n")
	o.write("WaitSites", b.String())
	o.facts["c07WaitSites"] = len(waits)
	o.facts["c07PrepareCallSites"] = len(calls)
	o.facts["c07CompletionSites"] = len(dones)
}
